"""Fail-closed translator for small closed arithmetic fragments:
  cfglm.py  locally_normalize: the new rule weight          -> norm_factor
  cfg.py    CFG.agenda: the factor selection of the semi-naive update -> agenda_sel, agenda_new
  parse/earley.py, parse/earley_rescaled.py: ORDER_MAX and the agenda priority -> order_max_*, priority_*
-> coq/gen/Gen_Exprs.v"""
import ast
import os

from common import REPO, COQ, sha256_file

OUT = os.path.join(COQ, "gen", "Gen_Exprs.v")


class Refuse(Exception):
    pass


def expr(n, names, ops):
    """names: source text -> Coq term; ops: dict for + - * / and unary -"""
    s = ast.unparse(n)
    if s in names:
        return names[s]
    if isinstance(n, ast.Constant) and isinstance(n.value, int) and 0 <= n.value <= 2:
        return ops["lit"](n.value)
    if isinstance(n, ast.BinOp):
        t = type(n.op)
        if t not in ops:
            raise Refuse(f"operator in {s}")
        return ops[t](expr(n.left, names, ops), expr(n.right, names, ops))
    if isinstance(n, ast.UnaryOp) and isinstance(n.op, ast.USub) and "neg" in ops:
        return ops["neg"](expr(n.operand, names, ops))
    raise Refuse(f"expression {s}")


ZOPS = {ast.Add: lambda a, b: f"({a} + {b})", ast.Sub: lambda a, b: f"({a} - {b})", ast.Mult: lambda a, b: f"({a} * {b})",
        "neg": lambda a: f"(- {a})", "lit": lambda v: str(v)}
FOPS = {ast.Add: lambda a, b: f"(sadd {a} {b})", ast.Mult: lambda a, b: f"(smul {a} {b})", ast.Div: lambda a, b: f"(fdiv F {a} {b})",
        ast.Sub: lambda a, b: f"(fsub F {a} {b})", "lit": lambda v: {0: "s0", 1: "s1"}[v]}
SOPS = {ast.Add: lambda a, b: f"(sadd {a} {b})", ast.Mult: lambda a, b: f"(smul {a} {b})", "lit": lambda v: {0: "s0", 1: "s1"}[v]}


def find(tree, name, cls=None):
    body = tree.body
    if cls:
        body = next(n for n in body if isinstance(n, ast.ClassDef) and n.name == cls).body
    for n in body:
        if isinstance(n, ast.FunctionDef) and n.name == name:
            return n
    raise Refuse(f"{name} not found")


def tr_norm(tree):
    fn = find(tree, "locally_normalize")
    loops = [s for s in fn.body if isinstance(s, ast.For)]
    if len(loops) != 1 or ast.unparse(loops[0].target) != "r" or ast.unparse(loops[0].iter) != "self":
        raise Refuse("locally_normalize loop")
    zassign = [s for s in fn.body if isinstance(s, ast.Assign) and ast.unparse(s.targets[0]) == "Z"]
    if len(zassign) != 1 or not ast.unparse(zassign[0].value).startswith("self.agenda("):
        raise Refuse("Z = self.agenda(...)")
    body = loops[0].body
    guard = None
    add = None
    for s in body:
        if isinstance(s, ast.If) and len(s.body) == 1 and isinstance(s.body[0], ast.Continue) and not s.orelse:
            guard = ast.unparse(s.test)
        elif isinstance(s, ast.Expr) and isinstance(s.value, ast.Call) and ast.unparse(s.value.func) == "new.add":
            add = s.value
        else:
            raise Refuse(f"locally_normalize statement {ast.unparse(s)}")
    if guard not in ("Z[r.head] == 0", "Z[r.head] == self.R.zero"):
        raise Refuse(f"zero-head guard: {guard}")
    if add is None or len(add.args) != 3 or ast.unparse(add.args[1]) != "r.head" or ast.unparse(add.args[2]) != "*r.body":
        raise Refuse("new.add(...) form")
    e = expr(add.args[0], {"r.w": "w", "Z.product(r.body)": "zprod", "Z[r.head]": "zhead"}, FOPS)
    return f"Definition norm_factor (F : FR) (w zprod zhead : F) : F := {e}.", (fn.lineno, fn.end_lineno)


def tr_agenda(tree):
    fn = find(tree, "agenda", cls="CFG")
    src = ast.unparse(fn)
    # locate:  new = old[u] + v   /   for r, k in routing[u]: ...   /  old[u] = new
    wl = [s for s in ast.walk(fn) if isinstance(s, ast.While)]
    if len(wl) != 1:
        raise Refuse("agenda: while loop")
    wbody = wl[0].body
    newa = [s for s in wbody if isinstance(s, ast.Assign) and ast.unparse(s.targets[0]) == "new"]
    if len(newa) != 1:
        raise Refuse("agenda: new = ...")
    new_e = expr(newa[0].value, {"old[u]": "oldu", "v": "v"}, SOPS)
    olda = [s for s in wbody if isinstance(s, ast.Assign) and ast.unparse(s.targets[0]) == "old[u]"]
    if len(olda) != 1 or ast.unparse(olda[0].value) != "new":
        raise Refuse("agenda: old[u] = new")
    fl = [s for s in wbody if isinstance(s, ast.For)]
    if len(fl) != 1 or ast.unparse(fl[0].target) != "(r, k)" or ast.unparse(fl[0].iter) != "routing[u]":
        raise Refuse("agenda: for r, k in routing[u]")
    b = fl[0].body
    if not (len(b) == 3 and ast.unparse(b[0]) == "W = r.w" and isinstance(b[1], ast.For) and ast.unparse(b[2]) == "update(r.head, W)"):
        raise Refuse("agenda: routing loop body")
    inner = b[1]
    if ast.unparse(inner.target) != "j" or ast.unparse(inner.iter) != "range(len(r.body))" or len(inner.body) != 1 or not isinstance(inner.body[0], ast.If):
        raise Refuse("agenda: inner loop")
    top = inner.body[0]
    if ast.unparse(top.test) not in ("u == r.body[j]", "r.body[j] == u"):
        raise Refuse("agenda: u == r.body[j]")
    if not (len(top.orelse) == 1 and ast.unparse(top.orelse[0]) == "W *= old[r.body[j]]"):
        raise Refuse("agenda: else branch")

    def sel(stmts):
        if len(stmts) != 1:
            raise Refuse("agenda: selector statements")
        s = stmts[0]
        if isinstance(s, ast.AugAssign) and isinstance(s.op, ast.Mult) and ast.unparse(s.target) == "W":
            t = ast.unparse(s.value)
            m = {"new": "new", "v": "v", "old[u]": "oldu"}
            if t not in m:
                raise Refuse(f"agenda: factor {t}")
            return m[t]
        if isinstance(s, ast.If):
            t = s.test
            if not (isinstance(t, ast.Compare) and len(t.ops) == 1 and ast.unparse(t.left) == "j" and ast.unparse(t.comparators[0]) == "k"):
                raise Refuse("agenda: comparison")
            c = {ast.Lt: "Nat.ltb j k", ast.Eq: "Nat.eqb j k", ast.Gt: "Nat.ltb k j", ast.LtE: "Nat.leb j k", ast.GtE: "Nat.leb k j"}.get(type(t.ops[0]))
            if c is None:
                raise Refuse("agenda: comparison operator")
            if not s.orelse:
                raise Refuse("agenda: missing else")
            return f"(if {c} then {sel(s.body)} else {sel(s.orelse)})"
        raise Refuse("agenda: selector form")

    s = sel(top.body)
    return (f"Definition agenda_new (S : SR) (oldu v : S) : S := {new_e}.\n"
            f"Definition agenda_sel (S : SR) (j k : nat) (new v oldu : S) : S := {s}."), (fn.lineno, fn.end_lineno)


def tr_priority(tree, tag):
    cls = next(n for n in tree.body if isinstance(n, ast.ClassDef) and n.name == "Earley")
    om = None
    pr = None
    for n in ast.walk(cls):
        if isinstance(n, ast.Assign) and ast.unparse(n.targets[0]) == "self.ORDER_MAX":
            if om is not None:
                raise Refuse("several ORDER_MAX assignments")
            om = n.value
        if isinstance(n, ast.Assign) and ast.unparse(n.targets[0]) in ("Q[item]", "col.Q[item]"):
            if pr is not None:
                raise Refuse("several priority assignments")
            pr = n.value
    if om is None or pr is None:
        raise Refuse("ORDER_MAX / priority not found")
    om_e = expr(om, {"max(self.order.values())": "m"}, ZOPS)
    pr_e = expr(pr, {"K": "K", "I": "I", "self.ORDER_MAX": "OM", "self.order[X]": "oX"}, ZOPS)
    return (f"Definition order_max_{tag} (m : Z) : Z := {om_e}.\n"
            f"Definition priority_{tag} (K I OM oX : Z) : Z := {pr_e}.")


def main(write=True):
    files = {k: os.path.join(REPO, "genlm", "grammar", v) for k, v in
             {"cfglm": "cfglm.py", "cfg": "cfg.py", "earley": "parse/earley.py", "rescaled": "parse/earley_rescaled.py"}.items()}
    trees = {k: ast.parse(open(p).read()) for k, p in files.items()}
    out = ["(* GENERATED by tools/translate_exprs.py -- do not edit.\n" + "\n".join(f"   {os.path.basename(p)} sha256={sha256_file(p)}" for p in files.values()) + " *)",
           "From Coq Require Import ZArith Arith.", "From GV.lib Require Import Semiring.", ""]
    info = {}
    d, info["locally_normalize"] = tr_norm(trees["cfglm"])
    out.append(d)
    d, info["agenda"] = tr_agenda(trees["cfg"])
    out.append(d)
    out.append("Local Open Scope Z_scope.")
    out.append(tr_priority(trees["earley"], "earley"))
    out.append(tr_priority(trees["rescaled"], "rescaled"))
    text = "\n".join(out) + "\n"
    if write:
        old = open(OUT).read() if os.path.exists(OUT) else None
        if old != text:
            open(OUT, "w").write(text)
    return {"sources": list(files.values()), "sha256": [sha256_file(p) for p in files.values()], "fragments": info, "out": OUT}


if __name__ == "__main__":
    print(main())
