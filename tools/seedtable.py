"""Print the DESIGN.md §8 table from seeded/*/meta.json."""
import json
import os

VERIF = os.path.dirname(os.path.dirname(os.path.abspath(__file__)))
rows = []
for d in sorted(os.listdir(os.path.join(VERIF, "seeded"))):
    p = os.path.join(VERIF, "seeded", d, "meta.json")
    if not os.path.exists(p):
        continue
    m = json.load(open(p))
    caught = [c for c, v in m["checks"].items() if v["caught"]]
    concrete = [c for c, v in m["checks"].items() if v["with_failing_input"]]
    summ = (m.get("summary") or "").replace("|", "/").replace("\n", " ")
    demo_with = (m.get("verified_by_me") or {}).get("demo_exit_with_change")
    if not caught and demo_with == 0:
        verdict = "no longer a violation (its demonstration passes with the change applied, see the note in meta.json)"
    else:
        verdict = ", ".join(caught) or "**missed**"
    rows.append(f"| {d} | {summ[:170]} | {verdict} | {', '.join(concrete) or '-'} |")
print("| seed | change | caught by (quick tier) | with a concrete failing input |")
print("|---|---|---|---|")
print("\n".join(rows))
