"""Shared machinery for the automaton properties: Coq evaluation of the WFSA/FST models."""
from fractions import Fraction

import fsamodel as F
from common import coq_eval_values, run_impl, dec_val, close_enough

WIMPORTS = "From GV.lib Require Import Semiring BigSum.\nFrom GV.model Require Import Linear Wfsa WfsaEps EpsSpec Fst."


def coq_str(xs):
    return "[" + "; ".join(f"{x}%nat" for x in xs) + "]"


def run_w(jobs, hashseed=0, timeout=1200):
    return run_impl("wfsaops", {"jobs": jobs}, hashseed=hashseed, timeout=timeout)["results"]


class WTable:
    """evaluates Coq expressions over named machines; exprs are added with a key"""

    def __init__(self, ctx, stream, extra_imports=""):
        self.ctx, self.stream = ctx, stream
        self.imports = WIMPORTS + ("\n" + extra_imports if extra_imports else "")
        self.defs = []
        self.exprs = []
        self.keys = {}

    def machine(self, m):
        name = f"M{len(self.defs)}"
        self.defs.append((name, f"Definition {name} : wfsa QcStar := {F.coq_wfsa(m)}."))
        return name

    def transducer(self, t):
        name = f"T{len(self.defs)}"
        self.defs.append((name, f"Definition {name} : fst_t QcSR := {F.coq_fst(t)}."))
        return name

    def want(self, key, expr):
        if key not in self.keys:
            self.keys[key] = len(self.exprs)
            self.exprs.append(expr)

    def eval(self, kind="qc"):
        self.vals = coq_eval_values(self.ctx, self.stream, self.imports, self.defs, self.exprs, kind=kind, shard=120) if self.exprs else []
        return self

    def get(self, key):
        return self.vals[self.keys[key]]


def decode_machine(d, nT):
    """machine dumped by the driver (states/labels as repr strings) -> harness encoding with int states"""
    smap = {}

    def st(x):
        if x not in smap:
            smap[x] = len(smap)
        return smap[x]

    lmap = {repr(chr(ord("a") + a)): a for a in range(26)}

    def w(x):
        v = dec_val(x)
        if isinstance(v, float):
            v = Fraction(v).limit_denominator(10 ** 9)
        if isinstance(v, tuple):
            raise ValueError(f"weight {x}")
        return F.fs(v)

    m = {"nT": nT, "init": [[st(q), w(x)] for q, x in d["init"]], "final": [[st(q), w(x)] for q, x in d["final"]], "arcs": []}
    for i, a, j, x in d["arcs"]:
        if a is not None and a not in lmap:
            raise ValueError(f"label {a}")
        m["arcs"].append([st(i), None if a is None else lmap[a], st(j), w(x)])
    for q in d.get("states", []):
        st(q)
    m["nstates"] = len(smap)
    return m
