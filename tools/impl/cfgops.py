"""Implementation driver for the grammar properties.  Reads {"jobs": [...]} on stdin; each job
{"g": grammar, "sr": "frac"|"float"|"bool"|"real", "queries": [query...]}; prints one JSON line.
A query is a dict with "op" and arguments; results are encoded by enc().  Every query runs
under an alarm; exceptions and time-outs are reported, never hidden."""
import json
import signal
import sys
from fractions import Fraction

from genlm.grammar import CFG, Boolean, Float, Real, EOS
from genlm.grammar.cfg import Rule  # noqa: F401
from genlm.grammar.semiring import Expectation  # noqa: F401


TMODE = {"mode": "str"}   # "int": terminals are the integers 0..nT-1 (0 is falsy, unlike any one-letter string)


def tname(a):
    return a if TMODE["mode"] == "int" else chr(ord("a") + a)


def ntname(x):
    return f"N{x}"


class Timeout(BaseException):
    pass


def _alarm(signum, frame):
    raise Timeout()


signal.signal(signal.SIGALRM, _alarm)


def wconv(sr):
    if sr == "frac":
        return Float, (lambda w: Fraction(w))
    if sr == "float":
        return Float, (lambda w: float(Fraction(w)))
    if sr == "bool":
        return Boolean, (lambda w: Boolean(bool(w) if isinstance(w, bool) else Fraction(w) > 0))
    if sr == "real":
        return Real, (lambda w: Real(Fraction(w)))
    if sr == "maxplus":
        from genlm.grammar.semiring import MaxPlus

        return MaxPlus, (lambda w: MaxPlus(float(Fraction(w))))
    if sr == "log":
        from genlm.grammar.semiring import Log

        return Log, (lambda w: Log(float(Fraction(w))))
    raise ValueError(sr)


def build(g, sr):
    R, conv = wconv(sr)
    cfg = CFG(R, ntname(g["S"]), {tname(a) for a in range(g["nT"])})
    for w, h, b in g["rules"]:
        cfg.add(conv(w), ntname(h), *[(tname(v) if k == "T" else ntname(v)) for k, v in b])
    return cfg


def s2py(xs):
    return tuple(tname(a) for a in xs)


def enc(v):
    if isinstance(v, bool):
        return v
    if isinstance(v, Boolean):
        return bool(v.score)
    if isinstance(v, Real):
        return enc(v.score)
    if type(v).__name__ in ("MaxPlus", "Log", "MaxTimes"):
        return enc(v.score)
    if isinstance(v, Fraction):
        return f"{v.numerator}/{v.denominator}"
    if isinstance(v, int):
        return f"{v}/1"
    if isinstance(v, float):
        return {"f": repr(float(v))}
    try:
        import numpy as np

        if isinstance(v, np.floating):
            return {"f": repr(float(v))}
        if isinstance(v, np.integer):
            return f"{int(v)}/1"
    except Exception:
        pass
    return {"repr": repr(v)[:200]}


def tok2int(t):
    if t == EOS:
        return "eos"
    if isinstance(t, str) and len(t) == 1 and "a" <= t <= "z":
        return ord(t) - ord("a")
    return repr(t)


def shape(cfg):
    """structural facts about a grammar (for C07)"""
    V = cfg.V
    rules = list(cfg.rules)
    rhs_syms = {y for r in rules for y in r.body}
    return {
        "n_rules": len(rules),
        "max_arity": max((len(r.body) for r in rules), default=0),
        "nullary_nonstart": sum(1 for r in rules if len(r.body) == 0 and r.head != cfg.S),
        "unary_nt": sum(1 for r in rules if len(r.body) == 1 and r.body[0] not in V),
        "start_on_rhs": cfg.S in rhs_syms,
        "terminal_in_long_rule": sum(1 for r in rules if len(r.body) != 1 and any(y in V for y in r.body)),
        "in_cnf": bool(cfg.in_cnf()),
        "has_unary_cycle": bool(cfg.has_unary_cycle()),
    }


def useful_report(cfg):
    """every symbol of every rule reachable from S and generating (recomputed independently)"""
    rules = list(cfg.rules)
    gen = set(cfg.V)
    ch = True
    while ch:
        ch = False
        for r in rules:
            if r.head not in gen and all(y in gen for y in r.body):
                gen.add(r.head)
                ch = True
    reach = {cfg.S}
    ch = True
    while ch:
        ch = False
        for r in rules:
            if r.head in reach and all(y in gen for y in r.body):
                for y in r.body:
                    if y not in reach:
                        reach.add(y)
                        ch = True
    bad = 0
    for r in rules:
        syms = [r.head, *r.body]
        if not all(s in gen and s in reach for s in syms):
            bad += 1
    return {"useless_rules": bad, "n_rules": len(rules)}


def apply_transform(cfg, t):
    name = t[0]
    if name == "id":
        return cfg
    if name == "trim":
        return cfg.trim()
    if name == "cotrim":
        return cfg.cotrim()
    if name == "binarize":
        return cfg.binarize()
    if name == "separate_start":
        return cfg.separate_start()
    if name == "separate_terminals":
        return cfg.separate_terminals()
    if name == "nullaryremove":
        return cfg.nullaryremove(binarize=t[1], trim=t[2])
    if name == "unaryremove":
        return cfg.unaryremove()
    if name == "unarycycleremove":
        return cfg.unarycycleremove(trim=t[1])
    if name == "cnf":
        return cfg.cnf
    if name == "renumber":
        return cfg.renumber()
    if name == "rename":
        return cfg.rename(lambda x: ("r", x))
    if name == "unfold":
        return cfg.unfold(t[1], t[2])
    if name == "chain":
        # two transformations in a row, the second one applied to the object the first one returned
        return apply_transform(apply_transform(cfg, t[1]), t[2])
    if name == "sub_trim":
        # the sub-language rooted at another nonterminal, trimmed after the parent has been trimmed
        cfg.trim()
        return cfg[ntname(t[1])].trim()
    raise ValueError(name)


def run_query(cfg, g, sr, q):
    op = q["op"]
    if op == "call":
        return [enc(cfg(s2py(xs))) for xs in q["xs"]]
    if op == "earley":
        from genlm.grammar.parse.earley import Earley

        p = Earley(cfg)
        return [enc(p(s2py(xs))) for xs in q["xs"]]
    if op == "earley_rescaled":
        from genlm.grammar.parse.earley_rescaled import Earley

        p = Earley(cfg)
        return [enc(p(s2py(xs))) for xs in q["xs"]]
    if op == "icky":
        from genlm.grammar.parse.cky import IncrementalCKY

        p = IncrementalCKY(cfg.cnf)
        return [enc(p(s2py(xs))) for xs in q["xs"]]
    if op == "materialize":
        ch = cfg.materialize(q["n"])
        return sorted([[[tok2int(t) for t in k], enc(v)] for k, v in ch.items() if v != cfg.R.zero], key=lambda kv: (len(kv[0]), kv[0]))
    if op == "transform_call":
        new = apply_transform(cfg, q["t"])
        return {"values": [enc(new(s2py(xs))) for xs in q["xs"]], "shape": shape(new), "useful": useful_report(new)}
    if op == "transform":
        new = apply_transform(cfg, q["t"])
        out = {"S": repr(new.S), "V": sorted(repr(v) for v in new.V), "rules": [[enc(r.w), repr(r.head), [repr(y) for y in r.body]] for r in new.rules],
               "in_cnf": bool(new.in_cnf()), "has_unary_cycle": bool(new.has_unary_cycle())}
        if q.get("xs") is not None:
            out["values"] = [enc(new(s2py(xs))) for xs in q["xs"]]
        return out
    if op == "unfold_sites":
        return [[i, k] for i, r in enumerate(cfg.rules) for k, y in enumerate(r.body) if y not in cfg.V]
    if op == "treesum":
        return enc(cfg.treesum())
    if op == "agenda":
        ch = cfg.agenda()
        return {str(k): enc(v) for k, v in ch.items() if k not in cfg.V}
    if op == "naive":
        ch = cfg.naive_bottom_up()
        return {str(k): enc(v) for k, v in ch.items() if k not in cfg.V}
    if op == "expected_length":
        return enc(cfg.expected_length)
    if op == "prefix_weight":
        return [enc(cfg.prefix_weight(s2py(xs))) for xs in q["xs"]]
    if op == "derivative_call":
        d = cfg.derivative(q["a_raw"] if "a_raw" in q else tname(q["a"]))
        for b in q.get("then", []):   # derivative of a derivative grammar, one call at a time
            d = d.derivative(tname(b))
        return [enc(d(s2py(xs))) for xs in q["xs"]]
    if op == "derivatives_treesum":
        return [enc(cfg.derivatives(s2py(xs))[-1].treesum()) for xs in q["xs"]]
    if op == "compose_string_treesum":
        return [enc((cfg @ s2py(xs)).treesum()) for xs in q["xs"]]
    if op == "truncate_call":
        t = cfg.truncate_length(q["n"])
        return [enc(t(s2py(xs))) for xs in q["xs"]]
    if op == "locally_normalize":
        from genlm.grammar import locally_normalize

        if q.get("late"):
            # the same grammar built incrementally: the last `late` rules are added after the object has been inspected
            k = int(q["late"])
            pass
            part = dict(g, rules=g["rules"][: len(g["rules"]) - k])
            cfg = build(part, sr)
            cfg.rhs
            list(cfg.derivations(None, 2))
            cfg.treesum()      # a query before the grammar is complete
            R, conv = wconv(sr)
            for w, h, b in g["rules"][len(g["rules"]) - k:]:
                cfg.add(conv(w), ntname(h), *[(tname(v) if kk == "T" else ntname(v)) for kk, v in b])
        ln = locally_normalize(cfg, **q.get("kwargs", {}))
        heads = {}
        for r in ln.rules:
            heads[str(r.head)] = heads.get(str(r.head), 0) + r.w
        return {"values": [enc(ln(s2py(xs))) for xs in q["xs"]], "head_mass": {k: enc(v) for k, v in heads.items()}, "Z": enc(cfg.treesum()), "n_rules": len(ln.rules),
                "rules": [[enc(r.w), str(r.head), [str(y) for y in r.body]] for r in ln.rules]}
    if op == "add_eos_call":
        from genlm.grammar import add_EOS

        e = add_EOS(cfg)
        out = []
        for xs in q["xs"]:
            toks = tuple((EOS if a == "eos" else tname(a)) for a in xs)
            out.append(enc(e(toks)))
        return out
    if op == "snapshot":
        return [[repr(r.w), str(r.head), [str(y) for y in r.body]] for r in cfg.rules] + [sorted(map(str, cfg.V)), str(cfg.S), sorted(map(str, cfg.N))]
    raise ValueError(op)


def main():
    req = json.load(sys.stdin)
    out = []
    for job in req["jobs"]:
        res = []
        TMODE["mode"] = job.get("tnames", "str")
        try:
            cfg = build(job["g"], job["sr"])
        except Exception as e:  # noqa
            out.append([{"err": f"build: {type(e).__name__}: {e}"}])
            continue
        for q in job["queries"]:
            if q.get("fresh"):
                cfg = build(job["g"], job["sr"])
            signal.alarm(int(q.get("timeout", 20)))
            try:
                res.append({"ok": run_query(cfg, job["g"], job["sr"], q)})
            except Timeout:
                res.append({"err": "timeout"})
            except Exception as e:  # noqa
                res.append({"err": f"{type(e).__name__}: {str(e)[:300]}"})
            finally:
                signal.alarm(0)
        out.append(res)
    print(json.dumps({"results": out}))


if __name__ == "__main__":
    main()
