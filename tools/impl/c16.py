"""Implementation driver for C16: runs genlm.grammar.semiring on exact values.
stdin: {"mode": "ops"|"laws", "cases": [...]}   stdout: JSON (last line)."""
import json
import math
import sys
from fractions import Fraction

from genlm.grammar import semiring as S

EXACT = ["Boolean", "Real", "Float", "MaxTimes", "MaxPlus", "Expectation", "Entropy"]


def dec_num(s, flt=False):
    if s == "-inf":
        return -math.inf
    f = Fraction(s)
    return float(f) if flt else f


def dec(cls, v, flt=False):
    C = getattr(S, cls)
    if cls == "Boolean":
        return C(bool(v))
    if cls == "Float":
        return dec_num(v, flt)
    if cls in ("Real", "MaxTimes", "MaxPlus", "Log"):
        return C(dec_num(v, flt))
    if cls == "Expectation":
        return C(dec_num(v[0], flt), dec_num(v[1], flt))
    if cls == "Entropy":
        if v["tag"] == "zero":
            return C.zero
        if v["tag"] == "one":
            return C.one
        return C(dec_num(v["p"], flt), dec_num(v["r"], flt))
    raise ValueError(cls)


def enc_num(x):
    if isinstance(x, float):
        if x == -math.inf:
            return "-inf"
        if x != x or x == math.inf:
            return "nan"
        x = Fraction(x)
    if isinstance(x, bool):
        return x
    x = Fraction(x)
    return f"{x.numerator}/{x.denominator}"


def enc(cls, x):
    if cls == "Boolean":
        return bool(x.score)
    if cls == "Float":
        return enc_num(x)
    if cls in ("Real", "MaxTimes", "MaxPlus", "Log"):
        return enc_num(x.score)
    return [enc_num(x.score[0]), enc_num(x.score[1])]


def star(cls, a):
    C = getattr(S, cls)
    return C.star(a)


def guarded(f):
    try:
        return f()
    except ZeroDivisionError:
        return {"err": "ZeroDivisionError"}
    except Exception as e:  # noqa
        return {"err": type(e).__name__ + ": " + str(e)[:200]}


def consts():
    out = {}
    for cls in EXACT + ["Log"]:
        C = getattr(S, cls)
        out[cls] = {"zero": enc(cls, C.zero), "one": enc(cls, C.one)}
    return out


def ops(cases):
    res = []
    for c in cases:
        cls = c["cls"]
        a, b = dec(cls, c["a"]), dec(cls, c["b"])
        r = {
            "add": guarded(lambda: enc(cls, a + b)),
            "mul": guarded(lambda: enc(cls, a * b)),
        }
        if c.get("star"):
            r["star"] = guarded(lambda: enc(cls, star(cls, a)))
        res.append(r)
    return res


def close(cls, x, y, flt):
    """equality of encoded results"""
    if isinstance(x, dict) or isinstance(y, dict):
        return False
    if x == y:
        return True
    # the class constants are floats (0.0, 1.0, -inf): results that touched them are
    # floats even on Fraction operands, so equality is up to rounding (1e-9 relative)

    def c1(u, v):
        if u in ("-inf", "nan", "inf") or v in ("-inf", "nan", "inf"):
            return u == v
        u, v = float(Fraction(u)), float(Fraction(v))
        return abs(u - v) <= 1e-9 * max(1.0, abs(u), abs(v))

    if isinstance(x, list):
        return all(c1(u, v) for u, v in zip(x, y))
    if isinstance(x, bool):
        return x == y
    return c1(x, y)


def laws(cases):
    """each case: cls, a, b, c, flt, star(bool); returns list of failed law names per case.
    Besides the stateless laws, the accumulation patterns the library uses (`x = R.zero; x += a`,
    `x = R.one; x *= a`) are exercised and the class constants are checked to be unchanged."""
    out = []
    base = consts()
    for cs in cases:
        cls, flt = cs["cls"], cs.get("flt", False)
        C = getattr(S, cls)
        a, b, c = (dec(cls, cs[k], flt) for k in "abc")
        zero, one = C.zero, C.one
        E = lambda x: guarded(lambda: enc(cls, x()))
        checks = {
            "add_assoc": (lambda: a + (b + c), lambda: (a + b) + c),
            "add_comm": (lambda: a + b, lambda: b + a),
            "add_zero": (lambda: zero + a, lambda: a),
            "add_zero_r": (lambda: a + zero, lambda: a),
            "mul_assoc": (lambda: a * (b * c), lambda: (a * b) * c),
            "mul_comm": (lambda: a * b, lambda: b * a),
            "mul_one": (lambda: one * a, lambda: a),
            "mul_one_r": (lambda: a * one, lambda: a),
            "mul_zero": (lambda: zero * a, lambda: zero),
            "mul_zero_r": (lambda: a * zero, lambda: zero),
            "distr_l": (lambda: a * (b + c), lambda: (a * b) + (a * c)),
            "distr_r": (lambda: (b + c) * a, lambda: (b * a) + (c * a)),
        }
        if cs.get("star"):
            checks["star_l"] = (lambda: star(cls, a), lambda: one + a * star(cls, a))
            checks["star_r"] = (lambda: star(cls, a), lambda: one + star(cls, a) * a)
        def acc_add():
            t = zero
            t += a
            t += b
            return t

        def acc_mul():
            t = one
            t *= a
            t *= b
            return t

        if cls == "Log":
            # the value itself: log(exp(a) + exp(b)), computed stably and independently
            import math

            def logadd_ref():
                x, y = float(a.score), float(b.score)
                if x == float("-inf"):
                    return C(y)
                if y == float("-inf"):
                    return C(x)
                return C(max(x, y) + math.log1p(math.exp(-abs(x - y))))

            checks["add_value"] = (lambda: a + b, logadd_ref)
        checks["inplace_add"] = (acc_add, lambda: (zero + a) + b)
        checks["inplace_mul"] = (acc_mul, lambda: (one * a) * b)
        bad = []
        for nm, (l, r) in checks.items():
            x, y = E(l), E(r)
            if not close(cls, x, y, flt):
                bad.append({"law": nm, "lhs": x, "rhs": y})
        now = consts()
        if now != base:
            bad.append({"law": "constants-mutated", "lhs": now.get(cls), "rhs": base.get(cls)})
            base = now
        out.append(bad)
    return out


def main():
    req = json.load(sys.stdin)
    if req["mode"] == "ops":
        res = {"consts": consts(), "results": ops(req["cases"])}
    else:
        res = {"results": laws(req["cases"])}
    print(json.dumps(res))


if __name__ == "__main__":
    main()
