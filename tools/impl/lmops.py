"""Implementation driver for language-model / incremental-parser objects (C01, C04, C05).
stdin {"jobs": [{"g", "sr", "kind", "ops": [...], "fresh_compare": bool}]}.
kinds: bool_earley, bool_cky (BoolCFGLM), earley_lm, rescaled_lm, cky_lm (grammar LMs),
       earley, rescaled, icky (bare parsers on the grammar).
ops:   ["p_next", ctx] ["call", xs]  (lm(xs+eos) or parser(xs))  ["clear"]  ["chart", ctx]
       ["weights", ctx] (unnormalised next-token weights)  ["parser", xs] (underlying parser value on xs)
With fresh_compare every op is also run on a brand-new object and both answers are returned."""
import json
import signal
import sys
from fractions import Fraction

from genlm.grammar import CFG, Boolean, Float, EOS

sys.path.insert(0, __file__.rsplit("/", 1)[0])
import cfgops  # noqa: E402
from cfgops import build, enc, tname, Timeout  # noqa: E402


def tok(t):
    return EOS if t == "eos" else tname(t)


def untok(t):
    if t == EOS:
        return "eos"
    if isinstance(t, str) and len(t) == 1 and "a" <= t <= "z":
        return ord(t) - ord("a")
    if isinstance(t, int) and not isinstance(t, bool):
        return t
    return repr(t)


def toks(xs):
    return tuple(tok(t) for t in xs)


def make(cfg, kind):
    if kind == "bool_earley":
        from genlm.grammar import BoolCFGLM

        return BoolCFGLM(cfg, alg="earley")
    if kind == "bool_cky":
        from genlm.grammar import BoolCFGLM

        return BoolCFGLM(cfg, alg="cky")
    if kind == "earley_lm":
        from genlm.grammar.parse.earley import EarleyLM

        return EarleyLM(cfg)
    if kind == "rescaled_lm":
        from genlm.grammar.parse.earley_rescaled import EarleyLM

        return EarleyLM(cfg)
    if kind == "cky_lm":
        from genlm.grammar.parse.cky import CKYLM

        return CKYLM(cfg)
    if kind == "earley":
        from genlm.grammar.parse.earley import Earley

        return Earley(cfg)
    if kind == "rescaled":
        from genlm.grammar.parse.earley_rescaled import Earley

        return Earley(cfg)
    if kind == "icky":
        from genlm.grammar.parse.cky import IncrementalCKY

        return IncrementalCKY(cfg.cnf)
    raise ValueError(kind)


def chart_dict(ch):
    return {str(untok(k)): enc(v) for k, v in ch.items()}


def do(obj, kind, op):
    name = op[0]
    if name == "p_next":
        return chart_dict(obj.p_next(toks(op[1])))
    if name == "call":
        if kind in ("earley", "rescaled", "icky"):
            return enc(obj(toks(op[1])))
        return enc(obj(toks(op[1]) + (EOS,)))
    if name == "clear":
        obj.clear_cache()
        return "cleared"
    if name == "chart":
        m = obj if kind in ("earley", "rescaled", "icky") else obj.model
        if kind == "cky_lm":
            m = obj.model
        c = m.chart(toks(op[1]))
        return len(c)
    if name == "weights":
        m = obj.model
        ctx = toks(op[1])
        if kind == "cky_lm":
            return chart_dict(m.p_next(ctx))
        return chart_dict(m.next_token_weights(m.chart(ctx)))
    if name == "parser":
        m = obj.model
        return enc(m(toks(op[1])))
    raise ValueError(name)


def _alarm(signum, frame):
    raise Timeout()


def main():
    signal.signal(signal.SIGALRM, _alarm)
    req = json.load(sys.stdin)
    out = []
    for job in req["jobs"]:
        res = []
        cfgops.TMODE["mode"] = job.get("tnames", "str")
        signal.alarm(int(job.get("build_timeout", 20)))
        try:
            cfg = build(job["g"], job["sr"])
            snap0 = ([(repr(r.w), str(r.head), tuple(map(str, r.body))) for r in cfg.rules], sorted(map(str, cfg.V)), str(cfg.S))
            obj = make(cfg, job["kind"])
        except Timeout:
            out.append({"build_err": "timeout"})
            continue
        except Exception as e:  # noqa
            out.append({"build_err": f"{type(e).__name__}: {str(e)[:300]}"})
            continue
        finally:
            signal.alarm(0)
        for op in job["ops"]:
            signal.alarm(int(job.get("timeout", 30)))
            try:
                r = {"ok": do(obj, job["kind"], op)}
            except Timeout:
                r = {"err": "timeout"}
            except Exception as e:  # noqa
                r = {"err": f"{type(e).__name__}: {str(e)[:300]}"}
            finally:
                signal.alarm(0)
            if job.get("fresh_compare") and op[0] not in ("clear",):
                signal.alarm(int(job.get("timeout", 30)))
                try:
                    fresh = make(build(job["g"], job["sr"]), job["kind"])
                    r["fresh"] = {"ok": do(fresh, job["kind"], op)}
                except Timeout:
                    r["fresh"] = {"err": "timeout"}
                except Exception as e:  # noqa
                    r["fresh"] = {"err": f"{type(e).__name__}: {str(e)[:300]}"}
                finally:
                    signal.alarm(0)
            res.append(r)
        snap1 = ([(repr(r.w), str(r.head), tuple(map(str, r.body))) for r in cfg.rules], sorted(map(str, cfg.V)), str(cfg.S))
        out.append({"results": res, "grammar_unchanged": snap0 == snap1})
    print(json.dumps({"results": out}))


if __name__ == "__main__":
    main()
