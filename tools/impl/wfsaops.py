"""Implementation driver for automata and transducers (C09-C15, C17).
stdin {"jobs": [{"queries": [...]}]}; machines are given in the harness encoding (fsamodel.py)."""
import json
import signal
import sys
from fractions import Fraction

from genlm.grammar import Float, FST, EPSILON
from genlm.grammar.wfsa import WFSA as FieldWFSA
from genlm.grammar.wfsa.base import WFSA as BaseWFSA

sys.path.insert(0, __file__.rsplit("/", 1)[0])
import cfgops  # noqa: E402
from cfgops import enc, tname, Timeout, build  # noqa: E402


def sym(a):
    return EPSILON if a is None else tname(a)


def osym(b):
    if b is None:
        return EPSILON
    if cfgops.TMODE["mode"] == "int":
        return b          # integer output symbols (0 is falsy)
    return chr(ord("A") + b)   # output alphabet uses upper-case letters


def conv(w, flt):
    return float(Fraction(w)) if flt else Fraction(w)


def mk_wfsa(m, cls="field", flt=False):
    C = FieldWFSA if cls == "field" else BaseWFSA
    a = C(Float)
    # optional state naming: states that look like the tags the library itself uses when it renames operands apart
    tag = m.get("names")
    nm = (lambda q: q) if tag is None else (lambda q: (tag, q))
    for q, w in m["init"]:
        a.add_I(nm(q), conv(w, flt))
    for q, w in m["final"]:
        a.add_F(nm(q), conv(w, flt))
    for i, s, j, w in m["arcs"]:
        a.add_arc(nm(i), sym(s), nm(j), conv(w, flt))
    return a


def mk_fst(m, flt=False, same_alphabet=False):
    t = FST(Float)
    for q, w in m["init"]:
        t.add_I(q, conv(w, flt))
    for q, w in m["final"]:
        t.add_F(q, conv(w, flt))
    for i, a, b, j, w in m["arcs"]:
        t.add_arc(i, (sym(a), sym(b) if same_alphabet else osym(b)), j, conv(w, flt))
    return t


def s2py(xs):
    return tuple(tname(a) for a in xs)


def o2py(ys, same_alphabet=False):
    return tuple((tname(b) if same_alphabet else osym(b)) for b in ys)


def expr(e, cls, flt):
    """rational expression tree -> automaton"""
    op = e["op"]
    if op == "m":
        return mk_wfsa(e["m"], cls, flt)
    if op == "union":
        return expr(e["a"], cls, flt) + expr(e["b"], cls, flt)
    if op == "concat":
        return expr(e["a"], cls, flt) * expr(e["b"], cls, flt)
    if op == "star":
        return expr(e["a"], cls, flt).star()
    if op == "plus":
        return expr(e["a"], cls, flt).kleene_plus()
    if op == "reverse":
        return expr(e["a"], cls, flt).reverse
    if op == "rename":
        return expr(e["a"], cls, flt).rename(lambda q: ("r", q))
    if op == "renumber":
        return expr(e["a"], cls, flt).renumber
    if op == "one":
        return expr(e["a"], cls, flt).one
    if op == "zero":
        return expr(e["a"], cls, flt).zero
    if op == "lift":
        C = FieldWFSA if cls == "field" else BaseWFSA
        return C.lift(sym(e["x"]), conv(e["w"], flt), R=Float) if e.get("R", True) else C.lift(sym(e["x"]), conv(e["w"], flt))
    if op == "from_string":
        C = FieldWFSA if cls == "field" else BaseWFSA
        return C.from_string("".join(tname(a) for a in e["xs"]), Float, w=(conv(e["w"], flt) if e.get("w") else None))
    if op == "from_strings":
        C = FieldWFSA if cls == "field" else BaseWFSA
        return C.from_strings(["".join(tname(a) for a in xs) for xs in e["Xs"]], Float)
    raise ValueError(op)


def dump(a):
    """machine -> plain structure (states as repr)"""
    return {"init": [[repr(q), enc(w)] for q, w in a.I], "final": [[repr(q), enc(w)] for q, w in a.F],
            "arcs": [[repr(i), (None if s == EPSILON else repr(s)), repr(j), enc(w)] for i, s, j, w in a.arcs()], "states": sorted(repr(q) for q in a.states)}


def run_query(q):
    op = q["op"]
    flt = q.get("flt", False)
    cls = q.get("cls", "field")
    if op == "expr_call":
        a = expr(q["e"], cls, flt)
        return [enc(a(s2py(xs))) for xs in q["xs"]]
    if op == "call":
        a = mk_wfsa(q["m"], cls, flt)
        return [enc(a(s2py(xs))) for xs in q["xs"]]
    if op == "epsremove":
        a = mk_wfsa(q["m"], cls, flt).epsremove
        return {"values": [enc(a(s2py(xs))) for xs in q["xs"]], "eps_arcs": sum(1 for i, s, j, w in a.arcs() if s == EPSILON)}
    if op == "total_weight":
        return enc(mk_wfsa(q["m"], cls, flt).total_weight())
    if op == "reverse_grow_trim":
        # r = m.reverse; r is extended with further arcs / final states; then trimmed
        a = mk_wfsa(q["m"], cls, flt)
        r = a.reverse
        for i, s_, j, w in q["extra_arcs"]:
            r.add_arc(i, sym(s_), j, conv(w, flt))
        for qq, w in q["extra_final"]:
            r.add_F(qq, conv(w, flt))
        b = r.trim
        return {"values": [enc(b(s2py(xs))) for xs in q["xs"]], "machine": dump(b)}
    if op in ("push", "determinize", "min_det", "trim", "trim_vals"):
        a = mk_wfsa(q["m"], cls, flt)
        b = getattr(a, op)
        out = {"values": [enc(b(s2py(xs))) for xs in q["xs"]], "machine": dump(b)}
        return out
    if op == "to_cfg":
        a = expr(q["e"], cls, flt) if "e" in q else mk_wfsa(q["m"], cls, flt)
        g = a.to_cfg(recursion=q.get("recursion", "right"))
        return [enc(g(s2py(xs))) for xs in q["xs"]]
    if op == "to_bytes_call":
        tabl = q["symtab"]
        a = FieldWFSA(Float)
        m = q["m"]
        for qq, w in m["init"]:
            a.add_I(qq, conv(w, flt))
        for qq, w in m["final"]:
            a.add_F(qq, conv(w, flt))
        for i, s_, j, w in m["arcs"]:
            a.add_arc(i, EPSILON if s_ is None else tabl[s_], j, conv(w, flt))
        b = a.to_bytes()
        return [enc(b(tuple(bs))) for bs in q["bss"]]
    if op == "cfg_to_bytes_call":
        from genlm.grammar import CFG

        tabl = q["symtab"]
        g = q["g"]
        cfg = CFG(Float, "N%d" % g["S"], {tabl[a] for a in range(g["nT"])})
        for w, h, body in g["rules"]:
            cfg.add(conv(w, flt), "N%d" % h, *[(tabl[v] if k == "T" else "N%d" % v) for k, v in body])
        b = cfg.to_bytes()
        return [enc(b(tuple(bs))) for bs in q["bss"]]
    if op == "bytes_merge":
        # two automata over multi-byte symbols, converted to byte level and to grammars, merged into  S -> S1 S2
        from genlm.grammar import CFG

        tabl = q["symtab"]
        parts = []
        for tag, m in (("A", q["m1"]), ("B", q["m2"])):
            a = FieldWFSA(Float)
            for qq, w in m["init"]:
                a.add_I((tag, qq), conv(w, flt))
            for qq, w in m["final"]:
                a.add_F((tag, qq), conv(w, flt))
            for i, s_, j, w in m["arcs"]:
                a.add_arc((tag, i), EPSILON if s_ is None else tabl[s_], (tag, j), conv(w, flt))
            parts.append(a.to_bytes().to_cfg(S="S" + tag, recursion=q.get("recursion", "right")))
        G = CFG(Float, "S", set(parts[0].V) | set(parts[1].V))
        G.add(1, "S", "SA", "SB")
        for p_ in parts:
            for r in p_.rules:
                G.add(r.w, r.head, *r.body)
        return [enc(G(tuple(bs))) for bs in q["bss"]]
    if op == "equiv":
        a, b = mk_wfsa(q["a"], "field", True), mk_wfsa(q["b"], "field", True)
        cex = a.counterexample(b)
        out = {"eq": bool(a == b), "hash_eq": hash(a) == hash(b)}
        if cex is None:
            out["cex"] = None
        else:
            w, va, vb = cex
            # the counterexample is a nested pair (a, (b, (...)))
            flat = []
            while w != ():
                flat.append(w[0])
                w = w[1]
            out["cex"] = [[ord(c) - ord("a") for c in flat], float(va), float(vb)]
        return out
    if op == "min":
        a = mk_wfsa(q["m"], "field", True)
        mm_ = a.min
        return {"dim": mm_.dim, "values": [enc(mm_(s2py(xs))) for xs in q["xs"]]}
    if op == "closure_nc":
        # a NON-commutative closed semiring: languages of words of length <= L (union, truncated concatenation)
        from genlm.grammar.linear import WeightedGraph
        from genlm.grammar.semiring import Semiring

        L = q["L"]

        class Lang(Semiring):
            def __init__(self, ws):
                super().__init__(frozenset(w for w in ws if len(w) <= L))

            def __add__(self, other):
                return Lang(self.score | other.score)

            def __mul__(self, other):
                return Lang({u + v for u in self.score for v in other.score})

            def star(self):
                cur = Lang({""})
                while True:
                    nxt = Lang({""}) + self * cur
                    if nxt.score == cur.score:
                        return cur
                    cur = nxt

            def __hash__(self):
                return hash(self.score)

        Lang.zero = Lang(set())
        Lang.one = Lang({""})
        G = WeightedGraph(Lang)
        for i, j, lab in q["edges"]:
            G[i, j] += Lang({lab})
        G.N |= set(q["nodes"])
        K1 = G.closure_scc_based()
        K2 = G.closure_reference()
        b = Lang.chart()
        for i, lab in q.get("b", []):
            b[i] = Lang({lab})
        sl, sr_ = G.solve_left(b), G.solve_right(b)
        f = lambda ch: {(str(k) if not isinstance(k, tuple) else f"{k[0]},{k[1]}"): sorted(v.score) for k, v in ch.items() if v.score}
        return {"scc": f(K1), "ref": f(K2), "solve_left": f(sl), "solve_right": f(sr_)}
    if op == "blocks_only":
        from genlm.grammar.linear import WeightedGraph

        G = WeightedGraph(Float)
        for i, j in q["edges"]:
            G[i, j] += Fraction(1, 4)
        G.N |= set(q["nodes"])
        return [sorted(bl) for bl in G.blocks]
    if op == "closure":
        from genlm.grammar.linear import WeightedGraph

        G = WeightedGraph(Float)
        for i, j, w in q["edges"]:
            G[i, j] += conv(w, flt)
        G.N |= set(q["nodes"])
        K1 = G.closure_scc_based()
        K2 = G.closure_reference()
        b = Float.chart()
        for i, w in q.get("b", []):
            b[i] = conv(w, flt)
        sl, sr_ = G.solve_left(b), G.solve_right(b)
        return {"scc": {f"{i},{j}": enc(v) for (i, j), v in K1.items()}, "ref": {f"{i},{j}": enc(v) for (i, j), v in K2.items()},
                "solve_left": {str(k): enc(v) for k, v in sl.items()}, "solve_right": {str(k): enc(v) for k, v in sr_.items()},
                "blocks": [sorted(bl) for bl in G.blocks]}
    if op == "fst_call":
        t = mk_fst(q["t"], flt)
        return [enc(t(s2py(x), o2py(y))) for x, y in q["pairs"]]
    if op == "fst_misc":
        t = mk_fst(q["t"], flt)
        out = {}
        out["T"] = [enc(t.T(o2py(y), s2py(x))) for x, y in q["pairs"]]
        out["cross_x"] = [enc(t(s2py(x), None)(o2py(y))) for x, y in q["pairs"]]
        out["cross_y"] = [enc(t(None, o2py(y))(s2py(x))) for x, y in q["pairs"]]
        out["project0"] = [enc(t.project(0)(s2py(x))) for x, y in q["pairs"]]
        out["project1"] = [enc(t.project(1)(o2py(y))) for x, y in q["pairs"]]
        return out
    if op == "fst_compose":
        f = mk_fst(q["f"], flt)
        g = mk_fst(q["g"], flt, same_alphabet=False)
        # the second machine reads the first one's output alphabet (upper-case) and writes lower-case z
        g2 = FST(Float)
        for qq, w in q["g"]["init"]:
            g2.add_I(qq, conv(w, flt))
        for qq, w in q["g"]["final"]:
            g2.add_F(qq, conv(w, flt))
        for i, a, b, j, w in q["g"]["arcs"]:
            g2.add_arc(i, (osym(a), sym(b)), j, conv(w, flt))
        h = f @ g2
        return [enc(h(s2py(x), s2py(z))) for x, z in q["pairs"]]
    if op == "fst_from":
        kind = q["kind"]
        if kind == "from_string":
            t = FST.from_string(s2py(q["xs"]), Float)
            return [enc(t(s2py(x), s2py(y))) for x, y in q["pairs"]]
        if kind == "from_pairs":
            t = FST.from_pairs([(s2py(x), s2py(y)) for x, y in q["ps"]], Float)
            return [enc(t(s2py(x), s2py(y))) for x, y in q["pairs"]]
        if kind == "diag":
            t = FST.diag(mk_wfsa(q["m"], "field", flt))
            return [enc(t(s2py(x), s2py(y))) for x, y in q["pairs"]]
    if op == "cfg_compose":
        cfg = build(q["g"], "float" if flt else "frac")
        t = FST(Float)
        for qq, w in q["t"]["init"]:
            t.add_I(qq, conv(w, flt))
        for qq, w in q["t"]["final"]:
            t.add_F(qq, conv(w, flt))
        arcs_ = q["t"]["arcs"]
        late = int(q.get("grow", 0))
        for i, a, b, j, w in arcs_[: len(arcs_) - late]:
            t.add_arc(i, (sym(a), osym(b)), j, conv(w, flt))
        if late:
            # a first composition with the incomplete machine, then the machine is completed and composed again
            try:
                _ = (cfg @ t) if q.get("order", "cfg@fst") == "cfg@fst" else (t.T @ cfg)
            except Exception:  # noqa
                pass
            for i, a, b, j, w in arcs_[len(arcs_) - late:]:
                t.add_arc(i, (sym(a), osym(b)), j, conv(w, flt))
        h = (cfg @ t) if q.get("order", "cfg@fst") == "cfg@fst" else (t.T @ cfg)
        then = q.get("then")
        if then is None:
            return [enc(h(o2py(y))) for y in q["ys"]]
        if then[0] == "truncate":
            h2 = h.truncate_length(then[1])
            return [enc(h2(o2py(y))) for y in q["ys"]]
        if then[0] == "fst":
            # second transducer reads the first one's output alphabet (upper-case) and writes lower-case
            t2 = FST(Float)
            for qq, w in then[1]["init"]:
                t2.add_I(qq, conv(w, flt))
            for qq, w in then[1]["final"]:
                t2.add_F(qq, conv(w, flt))
            for i, a, b, j, w in then[1]["arcs"]:
                t2.add_arc(i, (osym(a), sym(b)), j, conv(w, flt))
            h2 = h @ t2
            return [enc(h2(s2py(z))) for z in q["ys"]]
        raise ValueError(then)
    raise ValueError(op)


def _alarm(signum, frame):
    raise Timeout()


def main():
    signal.signal(signal.SIGALRM, _alarm)
    req = json.load(sys.stdin)
    out = []
    for job in req["jobs"]:
        res = []
        cfgops.TMODE["mode"] = job.get("tnames", "str")
        for q in job["queries"]:
            signal.alarm(int(q.get("timeout", 20)))
            try:
                res.append({"ok": run_query(q)})
            except Timeout:
                res.append({"err": "timeout"})
            except Exception as e:  # noqa
                res.append({"err": f"{type(e).__name__}: {str(e)[:300]}"})
            finally:
                signal.alarm(0)
        out.append(res)
    print(json.dumps({"results": out}))


if __name__ == "__main__":
    main()
