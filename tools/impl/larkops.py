"""Implementation driver for the regex / Lark front-end (C18, C19)."""
import json
import signal
import sys
import warnings
from fractions import Fraction

warnings.filterwarnings("ignore")

import interegular
from interegular.fsm import anything_else

from genlm.grammar.lark_interface import LarkStuff, interegular_to_wfsa
from genlm.grammar.wfsa.base import EPSILON

sys.path.insert(0, __file__.rsplit("/", 1)[0])
from cfgops import enc, Timeout  # noqa: E402


def fsm_json(pattern):
    fsm = interegular.parse_pattern(pattern).to_fsm()
    classes = {}
    for c, syms in fsm.alphabet.by_transition.items():
        if anything_else in syms:
            classes[str(c)] = {"anything_else": True, "n": len(syms)}
        else:
            classes[str(c)] = {"syms": [[ord(ch) for ch in s] for s in syms]}
    return {
        "states": sorted(fsm.states), "init": fsm.initial, "finals": sorted(fsm.finals),
        "live": sorted(s for s in fsm.states if fsm.islive(s)),
        "map": {str(i): [[a, j] for a, j in sorted(fsm.map[i].items())] for i in sorted(fsm.map)},
        "classes": classes,
        "alphabet": sorted([ord(ch) for ch in s] for s in fsm.alphabet if s is not anything_else),
    }


def run_query(q):
    op = q["op"]
    if op == "regex":
        charset = set(q["charset"])
        for p in q.get("before", []):   # earlier conversions that were handed the very same set object
            try:
                interegular_to_wfsa(p, charset=charset)
            except Exception:  # noqa
                pass
        m = interegular_to_wfsa(q["pattern"], charset=charset)
        out = {"fsm": fsm_json(q["pattern"]), "charset_after": sorted(charset)}
        out["wfsa"] = {"init": [[repr(s), enc(w)] for s, w in m.I], "final": [[repr(s), enc(w)] for s, w in m.F],
                       "arcs": [[repr(i), a, repr(j), enc(w)] for i, a, j, w in m.arcs()]}
        out["values"] = [enc(m(tuple(s))) for s in q["strings"]]
        return out
    if op == "lark":
        L = LarkStuff(q["grammar"])
        kw = {"recursion": q.get("recursion", "right")}
        if q.get("charset") is not None:
            kw["charset"] = set(q["charset"])
        out = {}
        if q.get("chars") is not None:
            g = L.char_cfg(**kw)
            out["char"] = [enc(g(tuple(s))) for s in q["chars"]]
            out["names_disjoint"] = len(g.N & g.V) == 0
        if q.get("bytes") is not None:
            g = L.byte_cfg(**kw)
            out["byte"] = [enc(g(tuple(bs))) for bs in q["bytes"]]
            out["byte_names_disjoint"] = len(g.N & g.V) == 0
        return out
    raise ValueError(op)


def _alarm(signum, frame):
    raise Timeout()


def main():
    signal.signal(signal.SIGALRM, _alarm)
    req = json.load(sys.stdin)
    out = []
    for job in req["jobs"]:
        res = []
        for q in job["queries"]:
            signal.alarm(int(q.get("timeout", 30)))
            try:
                res.append({"ok": run_query(q)})
            except Timeout:
                res.append({"err": "timeout"})
            except Exception as e:  # noqa
                res.append({"err": f"{type(e).__name__}: {str(e)[:300]}"})
            finally:
                signal.alarm(0)
        out.append(res)
    print(json.dumps({"results": out}))


if __name__ == "__main__":
    main()
