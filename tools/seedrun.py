"""Apply a seeded change to /repo, run checks against it, and always undo it.
usage: python3 tools/seedrun.py <patch.diff> <Cxx> [more Cxx ...] [--tier quick|thorough] [--verify demo.py]"""
import json
import os
import subprocess
import sys
import time

REPO = "/repo"
VERIF = os.path.dirname(os.path.dirname(os.path.abspath(__file__)))


def sh(cmd, **kw):
    return subprocess.run(cmd, shell=True, stdout=subprocess.PIPE, stderr=subprocess.STDOUT, text=True, **kw)


def main():
    args = sys.argv[1:]
    tier = "quick"
    demo = None
    if "--tier" in args:
        i = args.index("--tier")
        tier = args[i + 1]
        del args[i:i + 2]
    if "--verify" in args:
        i = args.index("--verify")
        demo = args[i + 1]
        del args[i:i + 2]
    patch, props = args[0], args[1:]
    assert sh(f"git -C {REPO} status --porcelain --untracked-files=no").stdout.strip() == "", "/repo not clean"
    out = {"patch": patch, "tier": tier, "checks": {}}
    if demo:
        r = sh(f"cd {REPO} && PYTHONPATH={REPO} /venv/bin/python {demo}", timeout=600)
        out["demo_without"] = r.returncode
    a = sh(f"git -C {REPO} apply {patch}")
    if a.returncode != 0:
        print("patch does not apply:", a.stdout)
        return 2
    try:
        if demo:
            r = sh(f"cd {REPO} && PYTHONPATH={REPO} /venv/bin/python {demo}", timeout=600)
            out["demo_with"] = r.returncode
            t = sh(f"cd {REPO} && /venv/bin/python -m pytest -q -p no:cacheprovider -x -n 8 --timeout=900 2>&1 | tail -1", timeout=1200)
            out["tests_with"] = t.stdout.strip()
        for p in props:
            t0 = time.time()
            r = sh(f"cd {VERIF} && timeout 1500 ./check {p} --tier {tier}", timeout=1600)
            lines = [ln for ln in r.stdout.split("\n") if ln.startswith("VIOLATION") or ln.startswith("  detail") or ln.startswith(p + ":")]
            out["checks"][p] = {"rc": r.returncode, "lines": lines[:8], "wall": round(time.time() - t0, 1)}
    finally:
        sh(f"git -C {REPO} checkout -- .")
    print(json.dumps(out, indent=1))
    return 0


if __name__ == "__main__":
    sys.exit(main())
