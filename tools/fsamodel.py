"""Harness-side automata and transducers: JSON encoding, Coq literals, generators, exact oracles."""
import itertools
from fractions import Fraction

from common import cq

WS = [Fraction(1, 2), Fraction(1, 3), Fraction(1, 4), Fraction(1, 5), Fraction(2, 3), Fraction(1, 7)]


def fs(x):
    x = Fraction(x)
    return f"{x.numerator}/{x.denominator}"


# ------------------------------------------------------------------ WFSA
# {"nT": k, "init": [[q, w]], "final": [[q, w]], "arcs": [[i, a|None, j, w]]}


def rand_wfsa(rng, n=None, nT=None, narcs=None, peps=0.25, acyclic=False, eps_acyclic=False, ws=WS):
    n = n or rng.randint(1, 4)
    nT = nT or rng.randint(1, 3)
    narcs = narcs if narcs is not None else rng.randint(1, 7)
    W = lambda: fs(rng.choice(ws))
    m = {"nT": nT, "init": [], "final": [], "arcs": []}
    for _ in range(rng.randint(1, 2)):
        m["init"].append([rng.randrange(n), W()])
    for _ in range(rng.randint(1, 2)):
        m["final"].append([rng.randrange(n), W()])
    for _ in range(narcs):
        a = None if rng.random() < peps else rng.randrange(nT)
        i, j = rng.randrange(n), rng.randrange(n)
        if acyclic or (eps_acyclic and a is None):
            if i == j:
                continue
            i, j = min(i, j), max(i, j)
        m["arcs"].append([i, a, j, W()])
    return substochastic(m)


def substochastic(m):
    """scale arc weights so that every state's outgoing mass is < 1 (sums converge)"""
    out = {}
    for i, a, j, w in m["arcs"]:
        out[i] = out.get(i, Fraction(0)) + Fraction(w)
    arcs = []
    for i, a, j, w in m["arcs"]:
        if out[i] >= Fraction(9, 10):
            w = fs(Fraction(w) * Fraction(4, 5) / out[i])
        arcs.append([i, a, j, w])
    m["arcs"] = arcs
    return m


def states_of(m):
    s = set()
    for q, _ in m["init"] + m["final"]:
        s.add(q)
    for i, a, j, w in m["arcs"]:
        s.add(i)
        s.add(j)
    return sorted(s)


def coq_wfsa(m):
    lab = lambda a: "None" if a is None else f"(Some {a}%nat)"
    ini = "[" + "; ".join(f"({q}%nat, {cq(Fraction(w))})" for q, w in m["init"]) + "]"
    fin = "[" + "; ".join(f"({q}%nat, {cq(Fraction(w))})" for q, w in m["final"]) + "]"
    arcs = "[" + "; ".join(f"({i}%nat, {lab(a)}, {j}%nat, {cq(Fraction(w))})" for i, a, j, w in m["arcs"]) + "]"
    return f"(@mkW QcSR {ini} {fin} {arcs})"


def strings(nT, n):
    for L in range(n + 1):
        yield from itertools.product(range(nT), repeat=L)


# exact linear algebra on Fractions


def mat_inv(M):
    n = len(M)
    A = [row[:] + [Fraction(int(i == j)) for j in range(n)] for i, row in enumerate(M)]
    for c in range(n):
        p = next((r for r in range(c, n) if A[r][c] != 0), None)
        if p is None:
            raise ZeroDivisionError
        A[c], A[p] = A[p], A[c]
        pv = A[c][c]
        A[c] = [x / pv for x in A[c]]
        for r in range(n):
            if r != c and A[r][c] != 0:
                f = A[r][c]
                A[r] = [x - f * y for x, y in zip(A[r], A[c])]
    return [row[n:] for row in A]


def mm(A, B):
    return [[sum((A[i][k] * B[k][j] for k in range(len(B))), Fraction(0)) for j in range(len(B[0]))] for i in range(len(A))]


def wfsa_oracle(m, xs):
    """alpha (I-E)^-1 A_x1 (I-E)^-1 ... omega on Fractions"""
    S = states_of(m)
    ix = {s: i for i, s in enumerate(S)}
    n = len(S)
    if n == 0:
        return Fraction(0)

    def mat(a):
        M = [[Fraction(0)] * n for _ in range(n)]
        for i, b, j, w in m["arcs"]:
            if b == a:
                M[ix[i]][ix[j]] += Fraction(w)
        return M

    E = mat(None)
    Es = mat_inv([[Fraction(int(i == j)) - E[i][j] for j in range(n)] for i in range(n)])
    v = [[Fraction(0)] * n]
    for q, w in m["init"]:
        v[0][ix[q]] += Fraction(w)
    v = mm(v, Es)
    for x in xs:
        v = mm(mm(v, mat(x)), Es)
    return sum((v[0][ix[q]] * Fraction(w) for q, w in m["final"]), Fraction(0))


def wfsa_total(m):
    S = states_of(m)
    ix = {s: i for i, s in enumerate(S)}
    n = len(S)
    if n == 0:
        return Fraction(0)
    A = [[Fraction(0)] * n for _ in range(n)]
    for i, b, j, w in m["arcs"]:
        A[ix[i]][ix[j]] += Fraction(w)
    K = mat_inv([[Fraction(int(i == j)) - A[i][j] for j in range(n)] for i in range(n)])
    v = [[Fraction(0)] * n]
    for q, w in m["init"]:
        v[0][ix[q]] += Fraction(w)
    v = mm(v, K)
    return sum((v[0][ix[q]] * Fraction(w) for q, w in m["final"]), Fraction(0))


def eps_cyclic(m):
    e = {}
    for i, a, j, w in m["arcs"]:
        if a is None:
            e.setdefault(i, set()).add(j)
    from cfgmodel import has_cycle

    return has_cycle(e, states_of(m))


# ------------------------------------------------------------------ FST
# {"nA": k, "nB": k, "init", "final", "arcs": [[i, a|None, b|None, j, w]]}


def rand_fst(rng, n=None, nA=2, nB=2, narcs=None, peps=0.3, ws=WS, no_epseps_cycle=True):
    n = n or rng.randint(1, 3)
    narcs = narcs if narcs is not None else rng.randint(1, 6)
    W = lambda: fs(rng.choice(ws))
    m = {"nA": nA, "nB": nB, "init": [], "final": [], "arcs": []}
    for _ in range(rng.randint(1, 2)):
        m["init"].append([rng.randrange(n), W()])
    for _ in range(rng.randint(1, 2)):
        m["final"].append([rng.randrange(n), W()])
    for _ in range(narcs):
        a = None if rng.random() < peps else rng.randrange(nA)
        b = None if rng.random() < peps else rng.randrange(nB)
        i, j = rng.randrange(n), rng.randrange(n)
        if a is None and b is None and no_epseps_cycle:
            if i == j:
                continue
            i, j = min(i, j), max(i, j)
        m["arcs"].append([i, a, b, j, W()])
    out = {}
    for i, a, b, j, w in m["arcs"]:
        out[i] = out.get(i, Fraction(0)) + Fraction(w)
    m["arcs"] = [[i, a, b, j, (fs(Fraction(w) * Fraction(4, 5) / out[i]) if out[i] >= Fraction(9, 10) else w)] for i, a, b, j, w in m["arcs"]]
    return m


def fst_states(m):
    s = set()
    for q, _ in m["init"] + m["final"]:
        s.add(q)
    for i, a, b, j, w in m["arcs"]:
        s.add(i)
        s.add(j)
    return sorted(s)


def coq_fst(m):
    lab = lambda a: "None" if a is None else f"(Some {a}%nat)"
    ini = "[" + "; ".join(f"({q}%nat, {cq(Fraction(w))})" for q, w in m["init"]) + "]"
    fin = "[" + "; ".join(f"({q}%nat, {cq(Fraction(w))})" for q, w in m["final"]) + "]"
    arcs = "[" + "; ".join(f"({i}%nat, {lab(a)}, {lab(b)}, {j}%nat, {cq(Fraction(w))})" for i, a, b, j, w in m["arcs"]) + "]"
    return f"(@mkT QcSR {ini} {fin} {arcs})"


def fst_oracle(m, x, y):
    """relational weight T(x, y) by DP over positions with exact eps:eps closure"""
    S = fst_states(m)
    ix = {s: i for i, s in enumerate(S)}
    n = len(S)
    if n == 0:
        return Fraction(0)

    def mat(a, b):
        M = [[Fraction(0)] * n for _ in range(n)]
        for i, c, d, j, w in m["arcs"]:
            if (c, d) == (a, b):
                M[ix[i]][ix[j]] += Fraction(w)
        return M

    E = mat(None, None)
    Es = mat_inv([[Fraction(int(i == j)) - E[i][j] for j in range(n)] for i in range(n)])
    v = {}
    for i in range(len(x) + 1):
        for j in range(len(y) + 1):
            t = [[Fraction(0)] * n]
            if i == 0 and j == 0:
                for q, w in m["init"]:
                    t[0][ix[q]] += Fraction(w)

            def addv(u, w):
                return [[p + q for p, q in zip(u[0], w[0])]]

            if i > 0 and j > 0:
                t = addv(t, mm(v[i - 1, j - 1], mat(x[i - 1], y[j - 1])))
            if i > 0:
                t = addv(t, mm(v[i - 1, j], mat(x[i - 1], None)))
            if j > 0:
                t = addv(t, mm(v[i, j - 1], mat(None, y[j - 1])))
            v[i, j] = mm(t, Es)
    return sum((v[len(x), len(y)][0][ix[q]] * Fraction(w) for q, w in m["final"]), Fraction(0))


def max_out_len(m, xlen):
    """bound on |y| with T(x,y) != 0 for |x| = xlen when the machine has no cycle of input-epsilon arcs; None otherwise"""
    from cfgmodel import has_cycle

    e = {}
    for i, a, b, j, w in m["arcs"]:
        if a is None:
            e.setdefault(i, set()).add(j)
    if has_cycle(e, fst_states(m)):
        return None
    n = len(fst_states(m))
    return (xlen + 1) * n + xlen
