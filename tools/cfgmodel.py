"""Harness-side grammars: JSON encoding, Coq literals, generators, and a Python mirror of
the model's reference semantics (height-bounded derivation sum, tabulated exactly as
coq/model/Cfg.v does) used for the failing-input search and for shrinking."""
import itertools
from fractions import Fraction

from common import cq

# ------------------------------------------------------------------ encoding
# grammar: {"S": int, "nT": int, "rules": [[w, head, body]]}, w: "n/d" | bool, body: [["T",a]|["N",x]]


def tname(a):
    return chr(ord("a") + a)


def ntname(x):
    return f"N{x}"


def fs(x):
    x = Fraction(x)
    return f"{x.numerator}/{x.denominator}"


def nts_of(g):
    s = {g["S"]}
    for w, h, b in g["rules"]:
        s.add(h)
        for k, v in b:
            if k == "N":
                s.add(v)
    return sorted(s)


def coq_sym(s):
    return f"{s[0]} {s[1]}%nat" if True else ""


def coq_grammar(g, sr="Qc"):
    def wlit(w):
        if sr == "bool":
            return "true" if w else "false"
        return cq(Fraction(w))

    rules = []
    for w, h, b in g["rules"]:
        if sr == "bool" and not w:
            continue
        body = "[" + "; ".join(f"{k} {v}%nat" for k, v in b) + "]"
        rules.append(f"({wlit(w)}, {h}%nat, {body})")
    return "[" + "; ".join(rules) + "]"


def coq_str(xs):
    return "[" + "; ".join(f"{x}%nat" for x in xs) + "]"


def strings(nT, n):
    for L in range(n + 1):
        yield from itertools.product(range(nT), repeat=L)


# ------------------------------------------------------------------ structural predicates


def nullable_graph(g):
    """edges X -> Y for rules X -> body without terminals, Y in body"""
    e = {}
    for w, h, b in g["rules"]:
        if all(k == "N" for k, _ in b):
            e.setdefault(h, set()).update(v for _, v in b)
    return e


def has_cycle(edges, nodes):
    color = {}

    def dfs(u):
        color[u] = 1
        for v in edges.get(u, ()):
            if color.get(v) == 1:
                return True
            if color.get(v) is None and dfs(v):
                return True
        color[u] = 2
        return False

    return any(color.get(u) is None and dfs(u) for u in nodes)


def null_acyclic(g):
    """no cycle through rules made of nonterminals only (incl. unary cycles) restricted to nullable symbols"""
    # nullable set
    nullable = set()
    ch = True
    while ch:
        ch = False
        for w, h, b in g["rules"]:
            if h not in nullable and all(k == "N" and v in nullable for k, v in b):
                nullable.add(h)
                ch = True
    e = {}
    for w, h, b in g["rules"]:
        if h in nullable and all(k == "N" and v in nullable for k, v in b):
            e.setdefault(h, set()).update(v for _, v in b)
    return not has_cycle(e, nullable)


def dep_acyclic(g):
    e = {}
    for w, h, b in g["rules"]:
        e.setdefault(h, set()).update(v for k, v in b if k == "N")
    return not has_cycle(e, nts_of(g))


def unary_cyclic(g):
    e = {}
    for w, h, b in g["rules"]:
        if len(b) == 1 and b[0][0] == "N":
            e.setdefault(h, set()).add(b[0][1])
    return has_cycle(e, nts_of(g))


def features(g):
    f = []
    if any(len(b) == 0 for _, _, b in g["rules"]):
        f.append("nullary")
    if any(len(b) == 1 and b[0][0] == "N" for _, _, b in g["rules"]):
        f.append("unary")
    if unary_cyclic(g):
        f.append("unary-cycle")
    if not null_acyclic(g):
        f.append("null-cycle")
    if any(b and b[0] == ["N", h] for _, h, b in g["rules"]):
        f.append("left-rec")
    if any(b and b[-1] == ["N", h] for _, h, b in g["rules"]):
        f.append("right-rec")
    if any(["N", g["S"]] in b for _, _, b in g["rules"]):
        f.append("start-on-rhs")
    if len({(h, tuple(map(tuple, b))) for _, h, b in g["rules"]}) < len(g["rules"]):
        f.append("dup-rule")
    if not dep_acyclic(g):
        f.append("recursive")
    return f


# ------------------------------------------------------------------ generator

WEIGHTS = [Fraction(1, 2), Fraction(1, 3), Fraction(1, 4), Fraction(1, 5), Fraction(2, 5), Fraction(1, 7), Fraction(3, 8), Fraction(1, 1)]


def rand_grammar(rng, nN=None, nT=None, nrules=None, maxlen=3, pnull=0.15, punary=0.15, boolean=False, weights=WEIGHTS):
    nN = nN or rng.randint(1, 4)
    nT = nT or rng.randint(1, 3)
    nrules = nrules or rng.randint(2, 8)
    rules = []
    for _ in range(nrules):
        h = rng.randrange(nN)
        r = rng.random()
        if r < pnull:
            body = []
        elif r < pnull + punary:
            body = [["N", rng.randrange(nN)]]
        else:
            L = rng.randint(1, maxlen)
            body = [(["N", rng.randrange(nN)] if rng.random() < 0.5 else ["T", rng.randrange(nT)]) for _ in range(L)]
        w = True if boolean else fs(rng.choice(weights))
        rules.append([w, h, body])
    if rng.random() < 0.3 and rules:  # duplicate rule
        rules.append(list(rng.choice(rules)))
    if rng.random() < 0.3:  # make sure something terminates
        rules.append([True if boolean else fs(rng.choice(weights)), rng.randrange(nN), [["T", rng.randrange(nT)]]])
    return {"S": 0, "nT": nT, "rules": rules}


def rand_nullable_grammar(rng, nT=2, boolean=False):
    """finite-language grammars with many nullable nonterminals and long bodies: nullable prefixes and
    suffixes of right-hand sides (several nullable symbols in a row, repeated nullable symbols)"""
    nN = rng.randint(3, 5)
    rules = []
    W = lambda: (True if boolean else fs(rng.choice(WEIGHTS[:7])))
    for X in range(1, nN):
        if rng.random() < 0.75:
            rules.append([W(), X, []])
        if rng.random() < 0.8:
            rules.append([W(), X, [["T", rng.randrange(nT)]]])
        if X + 1 < nN and rng.random() < 0.4:
            rules.append([W(), X, [["N", rng.randint(X + 1, nN - 1)], ["T", rng.randrange(nT)]]])
    for _ in range(rng.randint(1, 3)):
        L = rng.randint(2, 4)
        body = [(["N", rng.randint(1, nN - 1)] if rng.random() < 0.7 else ["T", rng.randrange(nT)]) for _ in range(L)]
        rules.append([W(), 0, body])
    rng.shuffle(rules)
    return {"S": 0, "nT": nT, "rules": rules}


def rand_useless_grammar(rng, boolean=False):
    """a dead nonterminal D (only D -> D c), generating nonterminals that are mentioned only next to D, an
    unreachable generating nonterminal, possibly a non-generating start symbol"""
    W = lambda: (True if boolean else fs(rng.choice(WEIGHTS[:7])))
    nT = rng.randint(2, 3)
    rules = [[W(), 3, [["N", 3], ["T", rng.randrange(nT)]]],          # D = 3: dead
             [W(), 1, [["T", rng.randrange(nT)]]],                     # X = 1: generating
             [W(), 2, [["T", rng.randrange(nT)], ["N", 1]]],           # Y = 2: generating
             [W(), 4, [["T", rng.randrange(nT)]]]]                     # U = 4: generating, maybe unreachable
    if rng.random() < 0.8:
        rules.append([W(), 0, [["T", rng.randrange(nT)]]])            # start generating (sometimes not)
    shapes = [[["N", 1], ["N", 3]], [["N", 3], ["N", 2]], [["N", 2], ["T", 0], ["N", 3]], [["N", 1], ["N", 2]], [["N", 0], ["N", 0]], [["N", 3]]]
    for _ in range(rng.randint(1, 3)):
        rules.append([W(), 0, [list(x) for x in rng.choice(shapes)]])
    if rng.random() < 0.4:
        rules.append([W(), 2, [["N", 3], ["N", 4]]])
    if rng.random() < 0.5:
        # every DEFINED nonterminal useful, but a rule mentions a nonterminal that has no rule at all
        rules = [[W(), 0, [["T", 0], ["T", 1 % nT]]], [W(), 0, [["N", 1]]], [W(), 1, [["T", 0], ["N", 0]]],
                 [W(), rng.choice([0, 1]), [["N", 5], ["T", rng.randrange(nT)]][:: rng.choice([1, -1])]]]
        if rng.random() < 0.5:
            rules.append([W(), 1, [["N", 5]]])
    rng.shuffle(rules)
    return {"S": 0, "nT": nT, "rules": rules}


def rand_leftcorner_grammar(rng, boolean=True):
    """a unary cycle through 2-3 nonterminals, members that are left corners of each other through longer rules too,
    right recursion, and base cases: the left-corner graph is cyclic and is entered at different members"""
    W = lambda: (True if boolean else fs(rng.choice(WEIGHTS[:5])))
    k = rng.randint(2, 3)
    nT = rng.randint(2, 3)
    t = lambda: ["T", rng.randrange(nT)]
    rules = [[W(), i, [["N", (i + 1) % k]]] for i in range(k)]
    if rng.random() < 0.3:
        rules.pop(rng.randrange(len(rules)))   # sometimes the cycle is broken
    for _ in range(rng.randint(2, 4)):
        x, y = rng.randrange(k), rng.randrange(k)
        shape = rng.random()
        if shape < 0.35:
            rules.append([W(), x, [["N", y], t(), t()][: rng.randint(2, 3)]])       # y is a left corner of x
        elif shape < 0.6:
            rules.append([W(), x, [t(), ["N", y]]])                                  # right recursion
        elif shape < 0.8:
            rules.append([W(), x, [t(), t(), ["N", y]]])
        else:
            rules.append([W(), x, [["N", y], ["N", rng.randrange(k)]]])
    for x in rng.sample(range(k), rng.randint(1, k)):
        rules.append([W(), x, [t()]])
    rng.shuffle(rules)
    return {"S": rng.randrange(k), "nT": nT, "rules": rules}


def rand_linked_unary_cycles(rng, boolean=True):
    """two (or three) separate cycles of unary rules, linked by unary rules from one cycle into another, with
    terminal rules hanging off cycle members"""
    W = lambda: (True if boolean else fs(rng.choice([Fraction(1, 4), Fraction(1, 5), Fraction(1, 3), Fraction(1, 8)])))
    nT = 3
    t = lambda: ["T", rng.randrange(nT)]
    ncyc = rng.randint(2, 3)
    rules, members, nxt = [], [], 1
    for _ in range(ncyc):
        k = rng.randint(1, 2)
        ms = list(range(nxt, nxt + k))
        nxt += k
        members.append(ms)
        for i, x in enumerate(ms):
            rules.append([W(), x, [["N", ms[(i + 1) % k]]]])            # the cycle (a self-loop when k = 1)
        rules.append([W(), rng.choice(ms), [t()]])
        if rng.random() < 0.5:
            rules.append([W(), rng.choice(ms), [t(), t()]])
    for c in range(ncyc - 1):
        rules.append([W(), rng.choice(members[c]), [["N", rng.choice(members[c + 1])]]])   # link into the next cycle
    rules.append([W(), 0, [["N", rng.choice(members[0])]]])
    if rng.random() < 0.5:
        rules.append([W(), 0, [["N", rng.choice(members[-1])], t()]])
    rng.shuffle(rules)
    return {"S": 0, "nT": nT, "rules": rules}


def rand_sharedcorner_grammar(rng, boolean=False):
    """finite language; two nonterminals with a common left corner D are awaited together after one terminal and
    separately after others:  S -> z A u | z B v | x A | y B,  A -> D r,  B -> D s,  D -> d"""
    W = lambda: (True if boolean else fs(rng.choice(WEIGHTS[:6])))
    nT = 3
    t = lambda: ["T", rng.randrange(nT)]
    z, x, y = rng.sample(range(nT), 3)
    rules = [[W(), 0, [["T", z], ["N", 1], t()]], [W(), 0, [["T", z], ["N", 2], t()]], [W(), 0, [["T", x], ["N", 1]]], [W(), 0, [["T", y], ["N", 2]]],
             [W(), 1, [["N", 3], t()]], [W(), 2, [["N", 3], t()]], [W(), 3, [t()]]]
    if rng.random() < 0.5:
        rules.append([W(), 3, [["N", 4]]])
        rules.append([W(), 4, [t(), t()]])
    if rng.random() < 0.4:
        rules.append([W(), 1, [t()]])
    rng.shuffle(rules)
    return {"S": 0, "nT": nT, "rules": rules}


def rand_mutual_leftrec_grammar(rng, boolean=True):
    """mutual LEFT recursion through 2-3 nonterminals (it survives the removal of unary cycles), each member with its own
    further left corners, and start rules that reach different members of the cycle after different terminals"""
    W = lambda: (True if boolean else fs(rng.choice(WEIGHTS[:5])))
    k = rng.randint(2, 3)
    nT = 3
    t = lambda: ["T", rng.randrange(nT)]
    Z = [k + 1 + j for j in range(rng.randint(1, 2))]      # extra left corners
    S = k                                                   # start symbol
    rules = []
    for i in range(k):
        rules.append([W(), i, [["N", (i + 1) % k], t()]])               # i -> (i+1) t   : left-recursive cycle
        if rng.random() < 0.8:
            rules.append([W(), i, [["N", rng.choice(Z)], t()][: rng.randint(1, 2)]])   # i -> Z [t]
        if rng.random() < 0.5:
            rules.append([W(), i, [t()]])
    for z in Z:
        rules.append([W(), z, [t()]])
        if rng.random() < 0.3:
            rules.append([W(), z, [t(), ["N", rng.randrange(k)]]])
    for _ in range(rng.randint(2, 4)):
        shape = rng.random()
        if shape < 0.6:
            rules.append([W(), S, [t(), ["N", rng.randrange(k)]]])       # S -> t i      : column 1 waits on member i only
        elif shape < 0.8:
            rules.append([W(), S, [["N", rng.randrange(k)], t()]])
        else:
            rules.append([W(), S, [t(), t(), ["N", rng.randrange(k)]]])
    rng.shuffle(rules)
    return {"S": S, "nT": nT, "rules": rules}


def random_sentence(rng, g, maxdepth=6, maxlen=12):
    """the yield of a random derivation from the start symbol (None if the start symbol derives nothing)"""
    INF = 10 ** 6
    rank = {}
    for _ in range(len(g["rules"]) + 1):
        for w, h, b in g["rules"]:
            r = 1 + max([0] + [0 if k == "T" else rank.get(x, INF) for k, x in b])
            if r < rank.get(h, INF):
                rank[h] = r
    if rank.get(g["S"], INF) >= INF:
        return None

    def expand(X, depth):
        rs = [(w, h, b) for w, h, b in g["rules"] if h == X and all(k == "T" or rank.get(x, INF) < INF for k, x in b)]
        if depth >= maxdepth:
            best = min(1 + max([0] + [0 if k == "T" else rank[x] for k, x in b]) for w, h, b in rs)
            rs = [r for r in rs if 1 + max([0] + [0 if k == "T" else rank[x] for k, x in r[2]]) == best]
        w, h, b = rng.choice(rs)
        out = []
        for k, x in b:
            out += [x] if k == "T" else expand(x, depth + 1)
            if len(out) > 4 * maxlen:
                break
        return out

    ys = expand(g["S"], 0)
    return ys[:maxlen]


def permute_rename(rng, g):
    """rule permutation + injective renaming of nonterminals (property-preserving)"""
    nts = nts_of(g)
    perm = nts[:]
    rng.shuffle(perm)
    m = dict(zip(nts, perm))
    rules = [[w, m[h], [[k, (m[v] if k == "N" else v)] for k, v in b]] for w, h, b in g["rules"]]
    rng.shuffle(rules)
    return {"S": m[g["S"]], "nT": g["nT"], "rules": rules}


# ------------------------------------------------------------------ Python mirror of model/Cfg.v


class Mirror:
    """chart iteration of the derivation sum for one string, over Fractions / floats / bools"""

    def __init__(self, g, zero=Fraction(0), one=Fraction(1), conv=lambda w: Fraction(w), add=None, mul=None):
        self.rules = [(conv(w), h, [tuple(s) for s in b]) for w, h, b in g["rules"]]
        self.zero, self.one = zero, one
        self.add = add or (lambda a, b: a + b)
        self.mul = mul or (lambda a, b: a * b)
        self.heads = sorted({h for _, h, _ in self.rules})

    def body_w(self, c, xs, body, i, j):
        if not body:
            return self.one if i == j else self.zero
        (k, v), rest = body[0], body[1:]
        if k == "T":
            if i < j and xs[i] == v:
                return self.body_w(c, xs, rest, i + 1, j)
            return self.zero
        tot = self.zero
        for m in range(i, j + 1):
            a = c.get((v, i, m), self.zero)
            if a != self.zero:
                tot = self.add(tot, self.mul(a, self.body_w(c, xs, rest, m, j)))
        return tot

    def step(self, xs, c):
        n = len(xs)
        new = {}
        for X in self.heads:
            for i in range(n + 1):
                for j in range(i, n + 1):
                    v = self.zero
                    for w, h, b in self.rules:
                        if h == X:
                            v = self.add(v, self.mul(w, self.body_w(c, xs, b, i, j)))
                    if v != self.zero:
                        new[(X, i, j)] = v
        return new

    def lang(self, X, xs, fuel=60, tol=None):
        c = {}
        for _ in range(fuel):
            c2 = self.step(xs, c)
            if tol is None:
                if c2 == c:
                    return c.get((X, 0, len(xs)), self.zero)
            else:
                keys = set(c) | set(c2)
                if all(abs(c.get(k, 0.0) - c2.get(k, 0.0)) <= tol for k in keys):
                    return c2.get((X, 0, len(xs)), self.zero)
            c = c2
        return None

    def lang_h(self, X, xs, h):
        c = {}
        for _ in range(h):
            c = self.step(xs, c)
        return c.get((X, 0, len(xs)), self.zero)


def mirror_exact(g):
    return Mirror(g)


def mirror_float(g):
    return Mirror(g, zero=0.0, one=1.0, conv=lambda w: float(Fraction(w)))


def mirror_bool(g):
    return Mirror(g, zero=False, one=True, conv=lambda w: bool(w) if isinstance(w, bool) else Fraction(w) > 0, add=lambda a, b: a or b, mul=lambda a, b: a and b)


def total_float(g, iters=400, tol=1e-13):
    """Kleene iteration of the total weights on floats; returns (vector, converged)"""
    rules = [(float(Fraction(w)) if not isinstance(w, bool) else float(w), h, b) for w, h, b in g["rules"]]
    V = {}
    for _ in range(iters):
        U = {}
        for w, h, b in rules:
            p = w
            for k, v in b:
                if k == "N":
                    p *= V.get(v, 0.0)
            U[h] = U.get(h, 0.0) + p
        if all(abs(U.get(k, 0.0) - V.get(k, 0.0)) <= tol for k in set(U) | set(V)):
            return U, True
        V = U
        if any(x > 1e6 for x in V.values()):
            return V, False
    return V, False


_SHRINK_SPENT = [0.0]   # seconds spent shrinking in this process (all calls)


def shrink_grammar(g, fails, budget=40, seconds=25.0, total_seconds=100.0):
    """greedy: drop rules while fails(g) stays true (at most `budget` calls of fails, `seconds` per call of this
    function and `total_seconds` per process: shrinking only makes replays smaller, it never decides anything)"""
    import time
    g = {"S": g["S"], "nT": g["nT"], "rules": [list(r) for r in g["rules"]]}
    changed = True
    calls = 0
    t0 = time.time()
    while changed:
        changed = False
        for i in range(len(g["rules"])):
            calls += 1
            now = time.time()
            if calls > budget or now - t0 > seconds or _SHRINK_SPENT[0] + (now - t0) > total_seconds:
                _SHRINK_SPENT[0] += now - t0
                return g
            h = {"S": g["S"], "nT": g["nT"], "rules": g["rules"][:i] + g["rules"][i + 1:]}
            try:
                if h["rules"] and fails(h):
                    g = h
                    changed = True
                    break
            except Exception:
                pass
    _SHRINK_SPENT[0] += time.time() - t0
    return g


# ------------------------------------------------------------------ prefix weights (mirror of model/Prefix.v)


class PrefixMirror(Mirror):
    """joint iteration of span weights, prefix weights and totals for one string xs"""

    def zb(self, tc, body):
        p = self.one
        for k, v in body:
            if k == "N":
                p = self.mul(p, tc.get(v, self.zero))
        return p

    def body_pre(self, c, pc, tc, xs, body, i):
        n = len(xs)
        if not body:
            return self.one if i == n else self.zero
        (k, v), rest = body[0], body[1:]
        if k == "T":
            if i == n:
                return self.zb(tc, rest)
            return self.body_pre(c, pc, tc, xs, rest, i + 1) if xs[i] == v else self.zero
        tot = self.zero
        for m in range(i, n):
            a = c.get((v, i, m), self.zero)
            if a != self.zero:
                tot = self.add(tot, self.mul(a, self.body_pre(c, pc, tc, xs, rest, m)))
        a = pc.get((v, i), self.zero)
        if a != self.zero:
            tot = self.add(tot, self.mul(a, self.zb(tc, rest)))
        return tot

    def pstep(self, xs, st):
        c, pc, tc = st
        n = len(xs)
        npc = {}
        for X in self.heads:
            for i in range(n + 1):
                v = self.zero
                for w, h, b in self.rules:
                    if h == X:
                        v = self.add(v, self.mul(w, self.body_pre(c, pc, tc, xs, b, i)))
                if v != self.zero:
                    npc[(X, i)] = v
        ntc = {}
        for X in self.heads:
            v = self.zero
            for w, h, b in self.rules:
                if h == X:
                    v = self.add(v, self.mul(w, self.zb(tc, b)))
            if v != self.zero:
                ntc[X] = v
        return (self.step(xs, c), npc, ntc)

    def prefix(self, X, xs, fuel=80, tol=None):
        st = ({}, {}, {})
        for _ in range(fuel):
            st2 = self.pstep(xs, st)
            if tol is None:
                if st2 == st:
                    return st[1].get((X, 0), self.zero)
            else:
                same = True
                for a, b in zip(st, st2):
                    for k in set(a) | set(b):
                        if abs(a.get(k, 0.0) - b.get(k, 0.0)) > tol * max(1.0, abs(b.get(k, 0.0))):
                            same = False
                            break
                    if not same:
                        break
                if same:
                    return st2[1].get((X, 0), self.zero)
            st = st2
        return None


def pmirror_exact(g):
    return PrefixMirror(g)


def pmirror_float(g):
    return PrefixMirror(g, zero=0.0, one=1.0, conv=lambda w: float(Fraction(w)))


def pmirror_bool(g):
    return PrefixMirror(g, zero=False, one=True, conv=lambda w: bool(w) if isinstance(w, bool) else Fraction(w) > 0, add=lambda a, b: a or b, mul=lambda a, b: a and b)


def add_eos(g):
    """EOS-wrapped grammar: new start s' -> S eos, eos is the extra terminal nT"""
    s2 = max(nts_of(g)) + 1
    one = True if any(isinstance(w, bool) for w, _, _ in g["rules"]) else "1/1"
    return {"S": s2, "nT": g["nT"] + 1, "rules": [[one, s2, [["N", g["S"]], ["T", g["nT"]]]]] + [list(r) for r in g["rules"]]}
