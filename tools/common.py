"""Shared infrastructure of the verification harness (see DESIGN.md §2, §6)."""
import fcntl
import hashlib
import json
import os
import random
import re
import shutil
import subprocess
import sys
import time
from fractions import Fraction

VERIF = os.path.dirname(os.path.dirname(os.path.abspath(__file__)))
REPO = os.environ.get("VERIF_REPO", "/repo")
COQ = os.path.join(VERIF, "coq")
PY = os.environ.get("VERIF_PYTHON", "/venv/bin/python")
GUARD = "GENLM_GRAMMAR_VERIF"
NPROC = int(os.environ.get("VERIF_NPROC", "16"))

AXIOM_WHITELIST = {
    # standard-library axioms that theorems over R (C16 only) depend on
    "ClassicalDedekindReals.sig_not_dec",
    "ClassicalDedekindReals.sig_forall_dec",
    "FunctionalExtensionality.functional_extensionality_dep",
    "Classical_Prop.classic",
}

TRUSTED_BASE = [
    "Coq 8.16.1 kernel and coqc; vm_compute for executing the model (no native_compute)",
    "axioms: none declared; only standard-library axioms reported by Print Assumptions and listed in AXIOM_WHITELIST (real-number theorems of C16)",
    "fail-closed Python-ast translators in tools/translate_*.py",
    "correspondence harness: generators, implementation drivers, canonicalisation, Coq literal printer, parser of coqc output (tools/*.py)",
    "hand-written Gallina model is tied to the code only through the correspondence run",
    "third-party code (lark, interegular, arsenal, numpy, frozendict) is not modelled",
]


def impl_env(hashseed=0):
    env = dict(os.environ)
    env["PYTHONPATH"] = REPO + os.pathsep + os.path.join(VERIF, "tools")
    env["PYTHONHASHSEED"] = str(hashseed)
    env[GUARD] = "1"
    env["PYTHONWARNINGS"] = "ignore"
    env["PYTHONDONTWRITEBYTECODE"] = "1"
    return env


def sha256_file(path):
    h = hashlib.sha256()
    with open(path, "rb") as f:
        h.update(f.read())
    return h.hexdigest()


# ---------------------------------------------------------------- Coq literals


def cq(x):
    """Coq literal of type Qc for a Fraction/int."""
    x = Fraction(x)
    return f"(mkq ({x.numerator}) {x.denominator})"


def cnat(n):
    assert isinstance(n, int) and 0 <= n < 5000, n
    return f"{n}%nat"


def cN(n):
    assert isinstance(n, int) and n >= 0
    return f"{n}%N"


def cbool(b):
    return "true" if b else "false"


def clist(xs, f=lambda x: x):
    return "[" + "; ".join(f(x) for x in xs) + "]"


def copt(x, f=lambda x: x):
    return "None" if x is None else f"(Some {f(x)})"


def ctuple(*xs):
    return "(" + ", ".join(xs) + ")"


# ---------------------------------------------------------------- Coq build


class CoqError(Exception):
    pass


def _run(cmd, cwd=None, timeout=1200, env=None):
    p = subprocess.run(cmd, cwd=cwd, stdout=subprocess.PIPE, stderr=subprocess.STDOUT, timeout=timeout, env=env, text=True)
    return p.returncode, p.stdout


def coq_lock():
    f = open(os.path.join(COQ, ".lock"), "w")
    fcntl.flock(f, fcntl.LOCK_EX)
    return f


def coq_vfiles():
    out = []
    for d in ("lib", "gen", "model", "proofs", "props", "exec"):
        dd = os.path.join(COQ, d)
        if os.path.isdir(dd):
            for fn in sorted(os.listdir(dd)):
                if fn.endswith(".v"):
                    out.append(f"{d}/{fn}")
    return out


def coq_make(targets=None, jobs=NPROC, timeout=3000):
    """(Re)build the Coq development (full .vo build).  Returns (ok, log)."""
    lock = coq_lock()
    try:
        proj = open(os.path.join(COQ, "_CoqProject.in")).read()
        files = coq_vfiles()
        new = proj + "\n".join(files) + "\n"
        pth = os.path.join(COQ, "_CoqProject")
        old = open(pth).read() if os.path.exists(pth) else None
        if old != new or not os.path.exists(os.path.join(COQ, "Makefile")):
            open(pth, "w").write(new)
            rc, out = _run(["coq_makefile", "-f", "_CoqProject", "-o", "Makefile"], cwd=COQ)
            if rc != 0:
                return False, out
        cmd = ["timeout", str(timeout), "make", f"-j{jobs}"]
        if targets:
            cmd += targets
        rc, out = _run(cmd, cwd=COQ, timeout=timeout + 60)
        return rc == 0, out
    finally:
        lock.close()


def coqc(vfile, timeout=600, extra=()):
    """Compile one file (path relative to COQ) and return (ok, output)."""
    cmd = ["timeout", str(timeout), "coqc"]
    for d in ("lib", "gen", "model", "proofs", "props", "exec"):
        cmd += ["-Q", d, f"GV.{d}"]
    cmd += list(extra) + [vfile]
    rc, out = _run(cmd, cwd=COQ, timeout=timeout + 30)
    return rc == 0, out


FORBIDDEN = re.compile(r"\b(Admitted|admit|Axiom|Parameter|Conjecture|Unset Guard|bypass_check|Admit Obligations|type-in-type)\b")


def grep_forbidden():
    bad = []
    for vf in coq_vfiles():
        txt = open(os.path.join(COQ, vf)).read()
        txt = re.sub(r"\(\*.*?\*\)", "", txt, flags=re.S)
        for i, line in enumerate(txt.split("\n")):
            if FORBIDDEN.search(line):
                bad.append(f"{vf}:{i + 1}: {line.strip()}")
    return bad


def parse_assumptions(out):
    """Parse the output of a props file: sequence of Print Assumptions blocks.
    Returns list of (closed: bool, axioms: [str])."""
    blocks = []
    cur = None
    for line in out.split("\n"):
        if line.startswith("Closed under the global context"):
            blocks.append((True, []))
            cur = None
        elif line.startswith("Axioms:"):
            cur = []
            blocks.append((False, cur))
        elif cur is not None:
            m = re.match(r"^([A-Za-z_][\w.']*)\s*(:.*)?$", line)
            if m:
                cur.append(m.group(1))
    return blocks


def theorems_of(vfile):
    txt = open(os.path.join(COQ, vfile)).read()
    txt = re.sub(r"\(\*.*?\*\)", "", txt, flags=re.S)
    return re.findall(r"^\s*(?:Theorem|Example)\s+([\w']+)", txt, flags=re.M)


# ---------------------------------------------------------------- implementation runner


def run_impl(driver, payload, hashseed=0, timeout=1200):
    """Run tools/impl/<driver>.py in a subprocess against /repo, JSON in / JSON out."""
    p = subprocess.run(
        [PY, os.path.join(VERIF, "tools", "impl", driver + ".py")],
        input=json.dumps(payload),
        stdout=subprocess.PIPE,
        stderr=subprocess.PIPE,
        env=impl_env(hashseed),
        text=True,
        timeout=timeout,
        cwd=VERIF,
    )
    if p.returncode != 0:
        raise RuntimeError(f"implementation driver {driver} failed (rc={p.returncode}):\n{p.stderr[-4000:]}")
    # drivers print one JSON document on the last line
    last = [ln for ln in p.stdout.split("\n") if ln.strip()][-1]
    return json.loads(last)


# ---------------------------------------------------------------- known findings


def load_known():
    p = os.path.join(VERIF, "KNOWN_FINDINGS.json")
    if not os.path.exists(p):
        return []
    return json.load(open(p))["findings"]


# ---------------------------------------------------------------- context


class Ctx:
    def __init__(self, pid, tier, seed):
        self.pid = pid
        self.tier = tier
        self.seed = seed
        self.rng = random.Random(f"{pid}-{seed}")
        self.t0 = time.time()
        self.work = os.path.join(VERIF, ".work", f"{pid}-{os.getpid()}")
        os.makedirs(self.work, exist_ok=True)
        self.cov = {
            "obligations": 0,
            "discharged": 0,
            "checker_cmd": f"cd /verif/coq && make (full .vo build) && coqc props/{pid}.v with Print Assumptions parsed",
            "trusted_base": list(TRUSTED_BASE),
            "theorems": [],
            "axioms_used": [],
            "translators": [],
            "correspondence_cases": 0,
            "correspondence_streams": {},
            "disagreements_checked": 0,
            "oracle_cases": 0,
            "evaluations": 0,
            "distinct_nontrivial": 0,
            "rule": "",
            "samples": [],
            "input_distribution": {},
            "model_out_of_fuel": 0,
        }
        self.assumptions = []
        self.violations = []  # (signature, what, replay_path, found_input)
        self.known_hits = []
        self.broken = []  # names of theorems / translators / streams that no longer check
        self._distinct = set()

    # ---- counting
    def count_case(self, key, nontrivial=True, n=1):
        self.cov["evaluations"] += n
        if nontrivial:
            k = hashlib.md5(repr(key).encode()).hexdigest()
            if k not in self._distinct:
                self._distinct.add(k)
                self.cov["distinct_nontrivial"] += 1

    def sample(self, obj, limit=6):
        if len(self.cov["samples"]) < limit:
            self.cov["samples"].append(obj)

    def dist(self, key, n=1):
        d = self.cov["input_distribution"]
        d[key] = d.get(key, 0) + n

    # ---- obligations
    def obligation(self, name, ok, detail=""):
        self.cov["obligations"] += 1
        if ok:
            self.cov["discharged"] += 1
        else:
            self.broken.append((name, detail))

    def prove(self, vfile, timeout=900):
        """Compile a props file; every Theorem in it followed by Print Assumptions is one obligation."""
        names = theorems_of(vfile)
        ok, out = coqc(vfile, timeout=timeout)
        if not ok:
            for n in names:
                self.obligation(n, False, out[-1500:])
            return False, out
        blocks = parse_assumptions(out)
        allok = True
        thms = [n for n in names]
        if len(blocks) < len([n for n in names if not n.endswith("_nonvacuous") and not n.startswith("ex_")]):
            # every Theorem must have a Print Assumptions
            pass
        for i, n in enumerate(thms):
            if i < len(blocks):
                closed, axs = blocks[i]
                bad = [a for a in axs if a not in AXIOM_WHITELIST]
                for a in axs:
                    if a not in self.cov["axioms_used"]:
                        self.cov["axioms_used"].append(a)
                self.obligation(n, not bad, f"non-whitelisted axioms: {bad}")
                self.cov["theorems"].append({"name": n, "closed": closed, "axioms": axs})
                allok = allok and not bad
            else:
                self.obligation(n, False, "no Print Assumptions output for this theorem")
                allok = False
        return allok, out

    def build(self, targets=None):
        ok, out = coq_make(targets)
        bad = grep_forbidden()
        if bad:
            self.broken.append(("forbidden-constructs", "\n".join(bad)))
            return False, "\n".join(bad)
        if not ok:
            return False, out
        return True, out

    # ---- violations
    def replay_path(self, tag):
        d = os.path.join(VERIF, "replays")
        os.makedirs(d, exist_ok=True)
        h = hashlib.md5(tag.encode()).hexdigest()[:10]
        return os.path.join(d, f"{self.pid}-{h}.json")

    def seen(self, signature):
        """already recorded in this run (as a violation or a known finding)?"""
        if any(s == signature for s, *_ in self.violations) or any(s == signature for s, _ in self.known_hits):
            self.cov["repeat_hits"] = self.cov.get("repeat_hits", 0) + 1
            return True
        return False

    def violation(self, signature, what, replay_obj, found_input=True):
        """Record a violation.  signature identifies the specific failing input/call site."""
        for k in load_known():
            if k.get("property") == self.pid and k.get("status") == "open" and k.get("signature") == signature:
                if signature not in [s for s, _ in self.known_hits]:
                    self.known_hits.append((signature, k.get("what", what)))
                return
        for s, *_ in self.violations:
            if s == signature:
                return
        if len(self.violations) >= 8:
            self.cov["violations_not_reported_separately"] = self.cov.get("violations_not_reported_separately", 0) + 1
            return
        path = self.replay_path(signature)
        obj = {"property": self.pid, "signature": signature, "what": what, "seed": self.seed, "tier": self.tier,
               "replay_cmd": f"./check {self.pid} --replay {path}", "found_failing_input": found_input}
        obj.update(replay_obj)
        with open(path, "w") as f:
            json.dump(obj, f, indent=1, default=str)
        self.violations.append((signature, what, path, found_input))

    # ---- finish
    def finish(self):
        # a broken obligation without a concrete failing input is still a violation
        if self.broken and not any(v[3] for v in self.violations):
            names = ", ".join(n for n, _ in self.broken)
            self.violation("broken:" + names, f"proof/translator/correspondence no longer checks: {names}",
                           {"broken": [{"name": n, "detail": d} for n, d in self.broken]}, found_input=False)
        cov = self.cov
        if not cov["rule"]:
            cov["rule"] = "see DESIGN.md"
        ev = {
            "property_id": self.pid,
            "tier": self.tier,
            "seed": self.seed,
            "level": "proof",
            "coverage": cov,
            "assumptions": self.assumptions,
            "wall_s": round(time.time() - self.t0, 2),
            "violations": len(self.violations),
        }
        cov["known_findings_hit"] = [s for s, _ in self.known_hits]
        cov["broken"] = [n for n, _ in self.broken]
        os.makedirs(os.path.join(VERIF, "evidence"), exist_ok=True)
        with open(os.path.join(VERIF, "evidence", f"{self.pid}.json"), "w") as f:
            json.dump(ev, f, indent=1, default=str)
        shutil.rmtree(self.work, ignore_errors=True)
        for sig, what in self.known_hits:
            print(f"KNOWN-FINDING: property={self.pid} {what} [{sig}]")
        for sig, what, path, found in self.violations:
            print(f"  detail: {what}")
            tail = "" if found else " no-failing-input-found"
            print(f"VIOLATION property={self.pid} replay={path}{tail}")
        ok = not self.violations
        print(f"{self.pid}: {'OK' if ok else 'FAIL'} obligations={cov['discharged']}/{cov['obligations']} corr={cov['correspondence_cases']} oracle={cov['oracle_cases']} wall={ev['wall_s']}s")
        return 0 if ok else 1


# ---------------------------------------------------------------- model evaluation (correspondence)


def coq_eval_bools(ctx, stream, imports, exprs, shard=300, defs="", timeout=900):
    """Evaluate a list of Coq boolean expressions with vm_compute (sharded, parallel).
    Returns the list of indices whose expression evaluated to false.
    Raises CoqError if a shard does not compile."""
    d = os.path.join(COQ, "cases", f"{ctx.pid}-{os.getpid()}-{stream}")
    os.makedirs(d, exist_ok=True)
    files = []
    for k in range(0, len(exprs), shard):
        chunk = exprs[k:k + shard]
        fn = os.path.join(d, f"cases_{k // shard}.v")
        with open(fn, "w") as f:
            f.write(imports + "\n" + defs + "\n")
            f.write("Definition results : list bool := [\n  " + ";\n  ".join(chunk) + "\n].\n")
            f.write("Fixpoint failing (i : nat) (l : list bool) : list nat := match l with [] => [] | b :: t => if b then failing (S i) t else i :: failing (S i) t end.\n")
            f.write("Eval vm_compute in (length results, failing O results).\n")
        files.append((k, fn))
    qargs = []
    for dd in ("lib", "gen", "model", "proofs", "props", "exec"):
        qargs += ["-Q", os.path.join(COQ, dd), f"GV.{dd}"]
    procs = []
    failing = []
    import concurrent.futures as cf

    def one(kf):
        k, fn = kf
        p = subprocess.run(["timeout", str(timeout), "coqc"] + qargs + ["-Q", d, "GV.cases", fn], stdout=subprocess.PIPE, stderr=subprocess.STDOUT, text=True, cwd=d)
        return k, fn, p.returncode, p.stdout

    with cf.ThreadPoolExecutor(max_workers=NPROC) as ex:
        res = list(ex.map(one, files))
    try:
        for k, fn, rc, out in res:
            if rc != 0:
                raise CoqError(f"model evaluation failed for stream {stream} ({fn}):\n{out[-3000:]}")
            m = re.search(r"=\s*\((\d+)%?n?a?t?,\s*\[(.*?)\]", out.replace("\n", " "), flags=re.S)
            if not m:
                raise CoqError(f"cannot parse coqc output for {fn}:\n{out[-2000:]}")
            n = int(m.group(1))
            if n != len(exprs[k:k + shard]):
                raise CoqError(f"shard length mismatch {n}")
            for tok in re.findall(r"\d+", m.group(2)):
                failing.append(k + int(tok))
    finally:
        shutil.rmtree(d, ignore_errors=True)
    ctx.cov["correspondence_cases"] += len(exprs)
    ctx.cov["correspondence_streams"][stream] = ctx.cov["correspondence_streams"].get(stream, 0) + len(exprs)
    return sorted(failing)


def coq_eval_values(ctx, stream, imports, defs, exprs, kind="oqc", shard=150, timeout=900):
    """Evaluate Coq expressions with vm_compute and return their values.
    kind: 'oqc'  -> expressions of type option Qc  -> Fraction | None
          'qc'   -> Qc -> Fraction
          'bool' -> bool
          'obool'-> option bool -> bool | None
    defs: list of definitions shared by all shards (e.g. grammars) as (name, text) pairs;
    only the definitions mentioned by a shard's expressions are emitted in it."""
    d = os.path.join(COQ, "cases", f"{ctx.pid}-{os.getpid()}-{stream}")
    os.makedirs(d, exist_ok=True)
    show = {
        "oqc": "Definition show (o : option Qc) : Z * Z * positive := match o with Some v => (1%Z, Qnum (this v), Qden (this v)) | None => (0%Z, 0%Z, 1%positive) end.",
        "qc": "Definition show (v : Qc) : Z * Z * positive := (1%Z, Qnum (this v), Qden (this v)).",
        "bool": "Definition show (b : bool) : Z * Z * positive := (1%Z, (if b then 1%Z else 0%Z), 1%positive).",
        "obool": "Definition show (o : option bool) : Z * Z * positive := match o with Some b => (1%Z, (if b then 1%Z else 0%Z), 1%positive) | None => (0%Z, 0%Z, 1%positive) end.",
    }[kind]
    files = []
    for k in range(0, len(exprs), shard):
        chunk = exprs[k:k + shard]
        fn = os.path.join(d, f"vals_{k // shard}.v")
        text = "\n".join(chunk)
        with open(fn, "w") as f:
            f.write("From Coq Require Import ZArith QArith Qcanon List.\nImport ListNotations.\n" + imports + "\n")
            for name, body in defs:
                if re.search(r"\b" + re.escape(name) + r"\b", text):
                    f.write(body + "\n")
            f.write(show + "\n")
            f.write("Definition vals := [\n  " + ";\n  ".join(f"show ({e})" for e in chunk) + "\n].\n")
            f.write("Eval vm_compute in vals.\n")
        files.append((k, fn))
    qargs = []
    for dd in ("lib", "gen", "model", "proofs", "props", "exec"):
        qargs += ["-Q", os.path.join(COQ, dd), f"GV.{dd}"]
    import concurrent.futures as cf

    def one(kf):
        k, fn = kf
        p = subprocess.run(["bash", "-c", "ulimit -s unlimited 2>/dev/null; exec timeout %d coqc %s %s" % (timeout, " ".join(qargs), fn)],
                           stdout=subprocess.PIPE, stderr=subprocess.STDOUT, text=True, cwd=d)
        return k, fn, p.returncode, p.stdout

    with cf.ThreadPoolExecutor(max_workers=NPROC) as ex:
        res = list(ex.map(one, files))
    out = [None] * len(exprs)
    try:
        for k, fn, rc, txt in res:
            if rc != 0:
                raise CoqError(f"model evaluation failed for stream {stream} ({fn}):\n{txt[-3000:]}")
            trip = re.findall(r"\(\s*\(?(-?\d+)\)?%Z\s*,\s*\(?(-?\d+)\)?%Z\s*,\s*(\d+)%positive\s*\)", txt.replace("\n", " "))
            n = len(exprs[k:k + shard])
            if len(trip) != n:
                raise CoqError(f"cannot parse coqc output for {fn}: expected {n} values, found {len(trip)}\n{txt[-1500:]}")
            for i, (some, num, den) in enumerate(trip):
                if some == "0":
                    out[k + i] = None
                elif kind in ("bool", "obool"):
                    out[k + i] = num == "1"
                else:
                    out[k + i] = Fraction(int(num), int(den))
    finally:
        shutil.rmtree(d, ignore_errors=True)
    ctx.cov["correspondence_cases"] += len(exprs)
    ctx.cov["correspondence_streams"][stream] = ctx.cov["correspondence_streams"].get(stream, 0) + len(exprs)
    return out


def dec_val(v):
    """decode a value produced by an implementation driver: Fraction | float | bool | ('err', msg)"""
    if isinstance(v, bool):
        return v
    if isinstance(v, str):
        return Fraction(v)
    if isinstance(v, dict) and "f" in v:
        return float(v["f"])
    return ("err", v)


def close_enough(impl, ref, rel=1e-9):
    """impl: decoded implementation value; ref: exact Fraction (or bool) from the model"""
    if isinstance(ref, bool) or isinstance(impl, bool):
        return bool(impl) == bool(ref) if not isinstance(impl, tuple) else False
    if isinstance(impl, Fraction):
        return impl == ref
    if isinstance(impl, float):
        r = float(ref)
        return abs(impl - r) <= rel * max(1.0, abs(r), abs(impl))
    return False
