"""Fail-closed translator: genlm/grammar/semiring.py  ->  coq/gen/Gen_Semiring.v

For every shipped weight class the bodies of __add__, __mul__, star and the
zero/one constants are rendered as Coq definitions, once over R (module RR, used
by the law proofs) and once over Qc (module QQ, executed against the Python
classes on Fractions).  Anything outside the small vocabulary below raises
Refuse, which the check treats like a broken proof.
"""
import ast
import re
from fractions import Fraction

from common import REPO, COQ, sha256_file
import os

SRC = os.path.join(REPO, "genlm", "grammar", "semiring.py")
OUT = os.path.join(COQ, "gen", "Gen_Semiring.v")

KINDS = {
    "Boolean": "bool",
    "Real": "scalar",
    "MaxTimes": "scalar",
    "MaxPlus": "ext",
    "Log": "ext",
    "Expectation": "pair",
    "Entropy": "pairtag",
    "Float": "number",
}
ALLOWED_METHODS = {"__init__", "star", "__add__", "__mul__", "from_string", "metric", "__repr__", "H", "chart", "__eq__"}
ORDER = ["Boolean", "Real", "Float", "MaxTimes", "MaxPlus", "Expectation", "Entropy", "Log"]


class Refuse(Exception):
    pass


def num(c):
    if isinstance(c, bool):
        raise Refuse("bool constant in numeric position")
    f = Fraction(c)
    if f.denominator != 1 or f.numerator not in (0, 1, 2):
        raise Refuse(f"numeric constant {c!r} not in vocabulary")
    return str(f.numerator)


class Tr:
    def __init__(self, cls, kind):
        self.cls = cls
        self.kind = kind
        self.transc = False
        self.locals = set()

    # ---- accessors for self/other
    def score(self, who, idx=None):
        k = self.kind
        if k in ("scalar", "ext", "bool", "number"):
            if idx is not None:
                raise Refuse("indexing a scalar score")
            return who
        if k == "pair":
            if idx is None:
                return who
            return f"({'fst' if idx == 0 else 'snd'} {who})"
        if k == "pairtag":
            if idx is None:
                return f"(fst {who})"
            return f"({'fst' if idx == 0 else 'snd'} (fst {who}))"
        raise Refuse(k)

    def ctor(self, args):
        k = self.kind
        if k in ("scalar", "ext"):
            if len(args) != 1:
                raise Refuse("ctor arity")
            return args[0]
        if k == "bool":
            if len(args) != 1:
                raise Refuse("ctor arity")
            return args[0]
        if k == "pair":
            if len(args) != 2:
                raise Refuse("ctor arity")
            return f"({args[0]}, {args[1]})"
        if k == "pairtag":
            if len(args) != 2:
                raise Refuse("ctor arity")
            return f"({args[0]}, {args[1]}, TagFresh)"
        raise Refuse("ctor for " + k)

    def is_selfother(self, n):
        return isinstance(n, ast.Name) and n.id in ("self", "other")

    def const_ref(self, n):
        """self.zero / self.one / Cls.zero / Cls.one -> 'zero' / 'one'"""
        if isinstance(n, ast.Attribute) and n.attr in ("zero", "one") and isinstance(n.value, ast.Name) and n.value.id in ("self", "other", self.cls):
            return n.attr
        return None

    def expr(self, n):
        k = self.kind
        ext = k == "ext"
        c = self.const_ref(n)
        if c:
            return c
        if isinstance(n, ast.Constant):
            if isinstance(n.value, bool):
                if k != "bool":
                    raise Refuse("bool constant")
                return "true" if n.value else "false"
            if isinstance(n.value, (int, float)):
                v = num(n.value)
                return f"(elit {v})" if ext else v
            raise Refuse(f"constant {n.value!r}")
        if isinstance(n, ast.Name):
            if n.id in self.locals:
                return n.id
            if n.id in ("self", "other"):
                if k in ("number",):
                    return n.id
                return n.id  # whole value (e.g. `return self`)
            raise Refuse(f"name {n.id}")
        if isinstance(n, ast.Attribute):
            if n.attr == "score" and self.is_selfother(n.value):
                return self.score(n.value.id)
            raise Refuse(f"attribute {ast.dump(n)}")
        if isinstance(n, ast.Subscript):
            v = n.value
            if isinstance(v, ast.Attribute) and v.attr == "score" and self.is_selfother(v.value) and isinstance(n.slice, ast.Constant) and n.slice.value in (0, 1):
                return self.score(v.value.id, n.slice.value)
            raise Refuse("subscript")
        if isinstance(n, ast.UnaryOp) and isinstance(n.op, ast.USub):
            # -np.inf
            o = n.operand
            if isinstance(o, ast.Attribute) and o.attr == "inf" and isinstance(o.value, ast.Name) and o.value.id == "np":
                if not ext:
                    raise Refuse("-inf outside ext class")
                return "NegInf"
            e = self.expr(o)
            return f"(eopp {e})" if ext else f"(- {e})"
        if isinstance(n, ast.BinOp):
            a, b = self.expr(n.left), self.expr(n.right)
            if ext:
                op = {ast.Add: "eadd", ast.Sub: "esub"}.get(type(n.op))
                if op is None:
                    raise Refuse("ext binop")
                return f"({op} {a} {b})"
            op = {ast.Add: "+", ast.Sub: "-", ast.Mult: "*", ast.Div: "/"}.get(type(n.op))
            if op is None:
                raise Refuse("binop")
            return f"({a} {op} {b})"
        if isinstance(n, ast.Call):
            f = n.func
            if n.keywords:
                raise Refuse("kwargs")
            args = [self.expr(a) for a in n.args]
            if isinstance(f, ast.Name) and f.id == "max" and len(args) == 2:
                return f"({'emax' if ext else 'kmax'} {args[0]} {args[1]})"
            if isinstance(f, ast.Name) and f.id == self.cls:
                return self.ctor(args)
            if isinstance(f, ast.Attribute) and isinstance(f.value, ast.Name) and f.value.id == "np" and len(args) == 1:
                self.transc = True
                if not ext:
                    raise Refuse("np.* outside ext class")
                if f.attr == "exp":
                    return f"(eexp {args[0]})"
                if f.attr == "log":
                    return f"(elog {args[0]})"
                if f.attr == "log1p":
                    return f"(elog (eadd (elit 1) {args[0]}))"
            raise Refuse(f"call {ast.dump(f)}")
        raise Refuse(f"expression {type(n).__name__}")

    def cond(self, n):
        k = self.kind
        if isinstance(n, ast.BoolOp):
            parts = [self.cond(v) for v in n.values]
            op = "orb" if isinstance(n.op, ast.Or) else "andb"
            out = parts[0]
            for p in parts[1:]:
                out = f"({op} {out} {p})"
            return out
        if isinstance(n, ast.Compare) and len(n.ops) == 1:
            l, r = n.left, n.comparators[0]
            op = n.ops[0]
            if isinstance(op, ast.Is):
                c = self.const_ref(r)
                if c and self.is_selfother(l) and k == "pairtag":
                    return f"(is_{c}_tag (snd {l.id}))"
                raise Refuse("is-comparison")
            if isinstance(op, ast.Eq):
                # Semiring.__eq__ compares scores
                c = self.const_ref(r)
                if c and self.is_selfother(l) and k == "ext":
                    return f"(eeqb {l.id} {c})"
                raise Refuse("==")
            if isinstance(op, ast.Gt):
                a, b = self.expr(l), self.expr(r)
                return f"({'egtb' if k == 'ext' else 'kgtb'} {a} {b})"
            raise Refuse("compare op")
        if k == "bool":
            return self.expr(n)
        raise Refuse("condition")

    def block(self, stmts):
        """statement list -> Coq expression (every path must return)"""
        if not stmts:
            raise Refuse("path without return")
        s, rest = stmts[0], stmts[1:]
        if isinstance(s, ast.Expr) and isinstance(s.value, ast.Constant) and isinstance(s.value.value, str):
            return self.block(rest)  # docstring
        if isinstance(s, ast.Return):
            if s.value is None:
                raise Refuse("bare return")
            return self.expr(s.value)
        if isinstance(s, ast.If):
            c = self.cond(s.test)
            t = self.block(s.body)
            e = self.block(s.orelse if s.orelse else rest)
            return f"(if {c} then {t} else {e})"
        if isinstance(s, ast.Assign) and len(s.targets) == 1:
            t = s.targets[0]
            if isinstance(t, ast.Name):
                v = self.expr(s.value)
                self.locals.add(t.id)
                return f"(let {t.id} := {v} in {self.block(rest)})"
            if isinstance(t, ast.Tuple) and len(t.elts) == 2 and all(isinstance(e, ast.Name) for e in t.elts):
                v = s.value
                if isinstance(v, ast.Attribute) and v.attr == "score" and self.is_selfother(v.value) and self.kind in ("pair", "pairtag"):
                    a, b = t.elts[0].id, t.elts[1].id
                    e0, e1 = self.score(v.value.id, 0), self.score(v.value.id, 1)
                    self.locals.update([a, b])
                    return f"(let {a} := {e0} in let {b} := {e1} in {self.block(rest)})"
            raise Refuse("assignment form")
        raise Refuse(f"statement {type(s).__name__}")


def type_of(kind):
    return {"bool": "bool", "scalar": "K", "number": "K", "ext": "(ext K)", "pair": "(K * K)%type", "pairtag": "(K * K * etag)%type"}[kind]


def translate(src_text):
    tree = ast.parse(src_text)
    classes = {n.name: n for n in tree.body if isinstance(n, ast.ClassDef)}
    consts = {}
    for n in tree.body:
        if isinstance(n, ast.Assign) and len(n.targets) == 1:
            t = n.targets[0]
            if isinstance(t, ast.Attribute) and isinstance(t.value, ast.Name) and t.value.id in KINDS and t.attr in ("zero", "one"):
                consts[(t.value.id, t.attr)] = n.value
    missing = [c for c in KINDS if c not in classes]
    if missing:
        raise Refuse(f"classes missing: {missing}")
    extra = [c for c in classes if c not in KINDS and c != "Semiring"]
    if extra:
        raise Refuse(f"unknown weight classes (not modelled): {extra}")
    mods = {}
    lines_info = {}
    for cls in ORDER:
        kind = KINDS[cls]
        node = classes[cls]
        tr = Tr(cls, kind)
        defs = {}
        methods = {m.name: m for m in node.body if isinstance(m, ast.FunctionDef)}
        # any further operator method (in-place or reflected arithmetic, hashing, ordering) would change
        # what `a + b`, `a += b`, `a * b` mean for the library: refuse instead of ignoring it
        unknown = [m for m in methods if m not in ALLOWED_METHODS]
        if unknown:
            raise Refuse(f"{cls}: methods outside the modelled vocabulary: {unknown}")
        # constants
        for cn in ("zero", "one"):
            v = consts.get((cls, cn))
            if v is None:
                for m in node.body:  # class attribute (Float)
                    if isinstance(m, ast.Assign) and len(m.targets) == 1 and isinstance(m.targets[0], ast.Name) and m.targets[0].id == cn:
                        v = m.value
            if v is None:
                raise Refuse(f"{cls}.{cn} not found")
            if isinstance(v, ast.Call) and isinstance(v.func, ast.Attribute) and v.func.attr == "from_string" and kind == "pair":
                s = v.args[0]
                if not (isinstance(s, ast.Constant) and isinstance(s.value, str)):
                    raise Refuse("from_string arg")
                m = re.fullmatch(r"<(.*),\s*(.*)>", s.value)
                if not m:
                    raise Refuse("from_string literal")
                defs[cn] = f"({num(float(m.group(1)))}, {num(float(m.group(2)))})"
            else:
                e = tr.expr(v)
                if kind == "pairtag":  # the constant objects themselves carry their identity tag
                    e = e.replace("TagFresh", "TagZero" if cn == "zero" else "TagOne")
                defs[cn] = e
        # operators
        if kind == "number":
            # Float values are plain Python numbers: + and * are the host language's
            defs["add"] = ("(self other : T)", "(self + other)")
            defs["mul"] = ("(self other : T)", "(self * other)")
        else:
            for py, nm in (("__add__", "add"), ("__mul__", "mul")):
                if py not in methods:
                    raise Refuse(f"{cls}.{py} missing")
                m = methods[py]
                if [a.arg for a in m.args.args] != ["self", "other"]:
                    raise Refuse("signature")
                tr.locals = set()
                defs[nm] = ("(self other : T)", tr.block(m.body))
        if "star" not in methods:
            raise Refuse(f"{cls}.star missing")
        m = methods["star"]
        if [a.arg for a in m.args.args] != ["self"]:
            raise Refuse("signature")
        tr.locals = set()
        defs["star"] = ("(self : T)", tr.block(m.body))
        mods[cls] = (kind, defs, tr.transc)
        lines_info[cls] = (node.lineno, node.end_lineno)
    return mods, lines_info


def render(mods, sha, lines_info):
    out = []
    out.append(f"(* GENERATED by tools/translate_semiring.py -- do not edit.\n   source: genlm/grammar/semiring.py sha256={sha}\n   classes/lines: {lines_info} *)")
    out.append("From Coq Require Import Reals QArith Qcanon Bool.")
    out.append("From GV.lib Require Import NumDialect.")
    for dialect, dmod, scope in (("RR", "RD", "R_scope"), ("QQ", "QD", "Qc_scope")):
        out.append(f"\nModule {dialect}.\nImport {dmod}.\nLocal Open Scope {scope}.")
        for cls in ORDER:
            kind, defs, transc = mods[cls]
            if transc and dialect == "QQ":
                out.append(f"(* {cls}: uses exp/log; no exact rational instantiation *)")
                continue
            out.append(f"Module {cls}.")
            out.append(f"  Definition T : Type := {type_of(kind)}.")
            out.append(f"  Definition zero : T := {defs['zero']}.")
            out.append(f"  Definition one : T := {defs['one']}.")
            for nm in ("add", "mul", "star"):
                sig, body = defs[nm]
                out.append(f"  Definition {nm} {sig} : T := {body}.")
            out.append(f"End {cls}.")
        out.append(f"End {dialect}.")
    return "\n".join(out) + "\n"


def main(write=True):
    src = open(SRC).read()
    mods, info = translate(src)
    text = render(mods, sha256_file(SRC), info)
    if write:
        old = open(OUT).read() if os.path.exists(OUT) else None
        if old != text:
            with open(OUT, "w") as f:
                f.write(text)
    return {"source": SRC, "sha256": sha256_file(SRC), "out": OUT, "classes": info}


if __name__ == "__main__":
    print(main())
