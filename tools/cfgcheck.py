"""Shared machinery for the grammar properties: batch evaluation of the Coq reference
semantics (model/Cfg.v `lang`) and comparison with implementation results."""
from fractions import Fraction

import cfgmodel as M
from common import CoqError, coq_eval_values, dec_val, close_enough, run_impl

IMPORTS = "From GV.lib Require Import Semiring BigSum.\nFrom GV.model Require Import Cfg."
FUEL = 40


class LangTable:
    """collects (grammar, start, string) queries and evaluates `lang` in Coq"""

    def __init__(self, ctx, sr="Qc", stream="lang"):
        self.ctx, self.sr, self.stream = ctx, sr, stream
        self.gs = []
        self.queries = []  # (gid, X, xs)
        self.index = {}

    def add(self, g):
        self.gs.append(g)
        return len(self.gs) - 1

    def want(self, gid, xs, X=None):
        X = self.gs[gid]["S"] if X is None else X
        key = (gid, X, tuple(xs))
        if key not in self.index:
            self.index[key] = len(self.queries)
            self.queries.append(key)

    def eval(self):
        import time
        t0 = time.time()
        srname = {"Qc": "QcSR", "bool": "BoolSR"}[self.sr]
        defs = [(f"G{i}", f"Definition G{i} : grammar {srname} := {M.coq_grammar(g, self.sr)}.") for i, g in enumerate(self.gs)]
        exprs = [f"lang G{gid} {FUEL} {X}%nat {M.coq_str(xs)}" for gid, X, xs in self.queries]
        vals = coq_eval_values(self.ctx, self.stream, IMPORTS, defs, exprs, kind="oqc" if self.sr == "Qc" else "obool")
        self.ctx.cov["model_out_of_fuel"] += sum(1 for v in vals if v is None)
        self.vals = vals
        return self

    def get(self, gid, xs, X=None):
        X = self.gs[gid]["S"] if X is None else X
        return self.vals[self.index[(gid, X, tuple(xs))]]


def finitely_ambiguous(g, maxlen=2):
    """every string has finitely many derivation trees: the relation "X derives Y with the same
    yield" (X -> a Y b with a, b nullable) is acyclic.  Decided structurally (never by exact
    iteration: Fractions explode on cyclic grammars)."""
    nullable = set()
    ch = True
    while ch:
        ch = False
        for w, h, b in g["rules"]:
            if h not in nullable and all(k == "N" and v in nullable for k, v in b):
                nullable.add(h)
                ch = True
    e = {}
    for w, h, b in g["rules"]:
        for i, (k, v) in enumerate(b):
            if k == "N" and all(kk == "N" and vv in nullable for j, (kk, vv) in enumerate(b) if j != i):
                e.setdefault(h, set()).add(v)
    return not M.has_cycle(e, M.nts_of(g))


def run_jobs(jobs, hashseed=0, timeout=1800):
    return run_impl("cfgops", {"jobs": jobs}, hashseed=hashseed, timeout=timeout)["results"]


def compare(ctx, impl_enc, ref, rel=1e-9):
    """returns (ok, decoded)"""
    v = dec_val(impl_enc)
    if ref is None:
        return True, v  # model out of fuel: nothing to compare (counted separately)
    return close_enough(v, ref, rel), v


def decode_grammar(out, sr="frac"):
    """grammar returned by the driver (names as repr strings) -> harness encoding.
    Terminals are recognised by membership in V (as the library does)."""
    V = set(out["V"])
    tmap = {repr(M.tname(a)): a for a in range(26)}
    nmap = {}

    def nt(name):
        if name not in nmap:
            nmap[name] = len(nmap)
        return nmap[name]

    S = nt(out["S"])
    rules = []
    any_inexact = False
    for w, h, b in out["rules"]:
        body = []
        for y in b:
            if y in V:
                if y not in tmap:
                    raise ValueError(f"unexpected terminal {y}")
                body.append(["T", tmap[y]])
            else:
                body.append(["N", nt(y)])
        inexact = False
        if isinstance(w, dict) and "f" in w:
            # floats appear even on Fraction inputs (Float.star of the int 0 is 1.0); recover the rational
            fr = Fraction(float(w["f"])).limit_denominator(10 ** 7)
            w = f"{fr.numerator}/{fr.denominator}"
            inexact = True
        elif isinstance(w, dict):
            raise ValueError(f"unexpected weight {w}")
        rules.append([w, nt(h), body])
        any_inexact = any_inexact or inexact
    nT = max([tmap[v] for v in V if v in tmap] + [-1]) + 1
    return {"S": S, "nT": nT, "rules": rules, "inexact": any_inexact}


PIMPORTS = "From GV.lib Require Import Semiring BigSum.\nFrom GV.model Require Import Cfg Agenda Prefix."


class PrefixTable(LangTable):
    """like LangTable but evaluates `prefix_lang` (prefix weights)"""

    def eval(self):
        srname = {"Qc": "QcSR", "bool": "BoolSR"}[self.sr]
        defs = [(f"G{i}", f"Definition G{i} : grammar {srname} := {M.coq_grammar(g, self.sr)}.") for i, g in enumerate(self.gs)]
        exprs = [f"prefix_lang G{gid} {FUEL} {X}%nat {M.coq_str(xs)}" for gid, X, xs in self.queries]
        old = IMPORTS
        vals = coq_eval_values(self.ctx, self.stream, PIMPORTS, defs, exprs, kind="oqc" if self.sr == "Qc" else "obool")
        self.ctx.cov["model_out_of_fuel"] += sum(1 for v in vals if v is None)
        self.vals = vals
        return self
