"""Fail-closed translator for the one-loop constructions of genlm/grammar/fst.py:
   FST.T (transpose), FST.diag, FST.project  -> coq/gen/Gen_FstOps.v
(definitions over the records `fst_t` of model/Fst.v and `wfsa` of model/Wfsa.v).

Each method is a builder program of the shape
    m = <empty machine>
    for i, <label pattern>, j, w in <X>.arcs():   m.add_arc(i, <label expression>, j, w)     (project: under `if axis == 0 / else`)
    for q, w in <X>.I:                            m.add_I(q, w)
    for q, w in <X>.F:                            m.add_F(q, w)
    return m
and denotes the three lists of its add_* calls (add_* accumulate with +=: the primitives of wfsa/base.py are checked by
translate_wfsa; FST.add_arc is compared literally here: it records the alphabets and defers to WFSA.add_arc).
The label pattern/expression is the only part that is translated; everything else is compared with the expected
source text, and anything else makes the translator refuse."""
import ast
import os

from common import REPO, COQ, sha256_file

OUT = os.path.join(COQ, "gen", "Gen_FstOps.v")
SRC = os.path.join(REPO, "genlm", "grammar", "fst.py")


class Refuse(Exception):
    pass


FST_ADD_ARC = ("def add_arc(self, i, ab, j, w):\n    if ab != EPSILON:\n        a, b = ab\n        self.A.add(a)\n        self.B.add(b)\n"
               "    return super().add_arc(i, ab, j, w)")


def strip_doc(body):
    if body and isinstance(body[0], ast.Expr) and isinstance(body[0].value, ast.Constant) and isinstance(body[0].value.value, str):
        return body[1:]
    return body


def find(cls, name):
    for n in cls.body:
        if isinstance(n, ast.FunctionDef) and n.name == name:
            return n
    raise Refuse(f"{name} not found")


def want(stmt, text, what):
    got = ast.unparse(stmt)
    if got != text:
        raise Refuse(f"{what}: expected `{text}`, found `{got[:120]}`")


def label(n, names, what):
    """a label expression built from the loop's label variables -> Coq term"""
    if isinstance(n, ast.Name) and n.id in names:
        return names[n.id]
    raise Refuse(f"{what}: label {ast.unparse(n)}")


def arc_loop(st, machine, src, pattern, what):
    """for i, <pattern>, j, w in <src>.arcs(): <machine>.add_arc(i, <label>, j, w)  -> the label expression node"""
    if not (isinstance(st, ast.For) and not st.orelse and ast.unparse(st.target) == f"(i, {pattern}, j, w)" and ast.unparse(st.iter) == f"{src}.arcs()"):
        raise Refuse(f"{what}: arcs loop header `{ast.unparse(st)[:80]}`")
    return st.body


def add_arc_label(st, machine, what):
    if not (isinstance(st, ast.Expr) and isinstance(st.value, ast.Call) and ast.unparse(st.value.func) == f"{machine}.add_arc" and not st.value.keywords and len(st.value.args) == 4):
        raise Refuse(f"{what}: expected {machine}.add_arc(i, <label>, j, w), found `{ast.unparse(st)[:80]}`")
    a = st.value.args
    if [ast.unparse(a[0]), ast.unparse(a[2]), ast.unparse(a[3])] != ["i", "j", "w"]:
        raise Refuse(f"{what}: add_arc arguments `{ast.unparse(st)[:80]}`")
    return a[1]


def copy_loops(stmts, machine, src, what):
    for st, (it, call) in zip(stmts, (("I", "add_I"), ("F", "add_F"))):
        if not (isinstance(st, ast.For) and not st.orelse and ast.unparse(st.iter) == f"{src}.{it}" and isinstance(st.target, ast.Tuple) and len(st.target.elts) == 2 and len(st.body) == 1):
            raise Refuse(f"{what}: {it} loop")
        q, w = (ast.unparse(e) for e in st.target.elts)
        want(st.body[0], f"{machine}.{call}({q}, {w})", f"{what}: {it} loop body")


def tr_T(fn):
    if [ast.unparse(d) for d in fn.decorator_list] != ["cached_property"]:
        raise Refuse("T decorators")
    b = strip_doc(fn.body)
    if len(b) != 5:
        raise Refuse("T frame")
    want(b[0], "T = self.spawn()", "T")
    body = arc_loop(b[1], "T", "self", "(a, b)", "T")
    if len(body) != 1:
        raise Refuse("T arcs loop body")
    lab = add_arc_label(body[0], "T", "T")
    if not (isinstance(lab, ast.Tuple) and len(lab.elts) == 2):
        raise Refuse("T label")
    names = {"a": "(tin ar)", "b": "(tout ar)"}
    li, lo = (label(e, names, "T") for e in lab.elts)
    copy_loops(b[2:4], "T", "self", "T")
    want(b[4], "return T", "T")
    return f"Definition gen_transpose (m : fst_t S) : fst_t S :=\n  mkT (tinit m) (tfinal m) (map (fun ar => (tsrc ar, {li}, {lo}, tdst ar, twt ar)) (tarcs m))."


def tr_diag(fn):
    if [ast.unparse(d) for d in fn.decorator_list] != ["classmethod"] or [a.arg for a in fn.args.args] != ["cls", "fsa"]:
        raise Refuse("diag signature")
    b = strip_doc(fn.body)
    if len(b) != 5:
        raise Refuse("diag frame")
    want(b[0], "fst = cls(fsa.R)", "diag")
    body = arc_loop(b[1], "fst", "fsa", "a", "diag")
    if len(body) != 1:
        raise Refuse("diag arcs loop body")
    lab = add_arc_label(body[0], "fst", "diag")
    if not (isinstance(lab, ast.Tuple) and len(lab.elts) == 2):
        raise Refuse("diag label")
    names = {"a": "(albl ar)"}
    li, lo = (label(e, names, "diag") for e in lab.elts)
    copy_loops(b[2:4], "fst", "fsa", "diag")
    want(b[4], "return fst", "diag")
    return f"Definition gen_diag (A : wfsa S) : fst_t S :=\n  mkT (winit A) (wfinal A) (map (fun ar => (asrc ar, {li}, {lo}, adst ar, awt ar)) (warcs A))."


def tr_project(fn):
    if [a.arg for a in fn.args.args] != ["self", "axis"] or fn.decorator_list:
        raise Refuse("project signature")
    b = strip_doc(fn.body)
    if len(b) != 6:
        raise Refuse("project frame")
    want(b[0], "assert axis in [0, 1]", "project")
    want(b[1], "A = WFSA(R=self.R)", "project")
    body = arc_loop(b[2], "A", "self", "(a, b)", "project")
    if not (len(body) == 1 and isinstance(body[0], ast.If) and ast.unparse(body[0].test) == "axis == 0" and len(body[0].body) == 1 and len(body[0].orelse) == 1):
        raise Refuse("project: arcs loop must branch on `axis == 0`")
    names = {"a": "(tin ar)", "b": "(tout ar)"}
    l0 = label(add_arc_label(body[0].body[0], "A", "project"), names, "project")
    l1 = label(add_arc_label(body[0].orelse[0], "A", "project"), names, "project")
    copy_loops(b[3:5], "A", "self", "project")
    want(b[5], "return A", "project")
    return (f"Definition gen_project (axis0 : bool) (m : fst_t S) : wfsa S :=\n"
            f"  mkW (tinit m) (tfinal m) (map (fun ar => (tsrc ar, (if axis0 then {l0} else {l1}), tdst ar, twt ar)) (tarcs m)).")


def main(write=True):
    tree = ast.parse(open(SRC).read())
    cls = next(n for n in tree.body if isinstance(n, ast.ClassDef) and n.name == "FST")
    if [ast.unparse(b) for b in cls.bases] != ["WFSA"]:
        raise Refuse("FST bases")
    add_arc = find(cls, "add_arc")
    f2 = ast.parse(ast.unparse(add_arc)).body[0]
    f2.body = strip_doc(f2.body)
    if ast.unparse(f2) != FST_ADD_ARC:
        raise Refuse("FST.add_arc changed: " + ast.unparse(f2)[:200])
    out = ["(* GENERATED by tools/translate_fstops.py -- do not edit.\n   fst.py sha256=" + sha256_file(SRC) + " *)",
           "From Coq Require Import List Arith Bool.", "From GV.lib Require Import Semiring BigSum.", "From GV.model Require Import Wfsa Fst.",
           "Import ListNotations.", "", "Section GEN_FSTOPS.", "Variable S : SR.", "",
           tr_T(find(cls, "T")), tr_diag(find(cls, "diag")), tr_project(find(cls, "project")), "", "End GEN_FSTOPS."]
    text = "\n".join(out) + "\n"
    if write:
        old = open(OUT).read() if os.path.exists(OUT) else None
        if old != text:
            open(OUT, "w").write(text)
    return {"sources": [SRC], "sha256": [sha256_file(SRC)], "fragments": ["FST.T", "FST.diag", "FST.project", "FST.add_arc"], "out": OUT, "text": text}


if __name__ == "__main__":
    print(main(write=False)["text"])
