"""C16: shipped weight types obey the closed-semiring laws (DESIGN.md §4 C16)."""
import json
import os
from fractions import Fraction

import translate_semiring as TS
from common import CoqError, coq_eval_bools, cq, run_impl

EXACT = ["Boolean", "Real", "Float", "MaxTimes", "MaxPlus", "Expectation", "Entropy"]
IMPORTS = "From Coq Require Import QArith Qcanon Bool List.\nFrom GV.lib Require Import Semiring NumDialect.\nFrom GV.gen Require Import Gen_Semiring.\nFrom GV.exec Require Import RunC16.\n"


def fr(rng, lo=-3, hi=3, nonneg=False):
    d = rng.choice([1, 2, 3, 4, 5, 7, 8])
    n = rng.randint(0 if nonneg else lo * d, hi * d)
    return Fraction(n, d)


def fs(x):
    return "-inf" if x == "-inf" else f"{Fraction(x).numerator}/{Fraction(x).denominator}"


def gen_value(rng, cls, star=False):
    """value inside the class' domain (and the star domain when star=True)"""
    r = rng.random()
    if cls == "Boolean":
        return rng.random() < 0.5
    if cls in ("Real", "Float"):
        if star:
            return fs(Fraction(rng.randint(-7, 7), 8))
        return fs(rng.choice([Fraction(0), Fraction(1)]) if r < 0.2 else fr(rng))
    if cls == "MaxTimes":
        if star:
            return fs(Fraction(rng.randint(0, 8), 8))
        return fs(rng.choice([Fraction(0), Fraction(1)]) if r < 0.2 else fr(rng, nonneg=True))
    if cls in ("MaxPlus", "Log"):
        if r < 0.15:
            return "-inf"
        if 0.15 <= r < 0.3 and not star:   # magnitudes far apart (long-string log-probabilities next to O(1) weights)
            return fs(Fraction(rng.choice([-800, -1500, -745, -710, -40, 700, -3000]) * 8 + rng.randint(-7, 7), 8))
        if star:
            return fs(-abs(fr(rng)) - (Fraction(1, 8) if cls == "Log" else 0))
        return fs(Fraction(0) if r < 0.25 else fr(rng))
    if cls == "Expectation":
        p = Fraction(rng.randint(-7, 7), 8) if star else (rng.choice([Fraction(0), Fraction(1)]) if r < 0.2 else fr(rng))
        return [fs(p), fs(Fraction(0) if rng.random() < 0.2 else fr(rng))]
    if cls == "Entropy":
        if r < 0.12:
            return {"tag": "zero", "p": "0/1", "r": "0/1"}
        if r < 0.24 and not star:
            return {"tag": "one", "p": "1/1", "r": "0/1"}
        if r < 0.34:  # freshly constructed value equal to a constant
            return {"tag": "fresh", "p": "0/1", "r": "0/1"}
        if r < 0.44 and not star:
            return {"tag": "fresh", "p": "1/1", "r": "0/1"}
        # dyadic scores: the constants Entropy.zero/one hold floats, so sums with them are
        # floats; dyadic operands keep that arithmetic exact
        p = Fraction(rng.randint(-7, 7), 8) if star else Fraction(rng.randint(-24, 24), 8)
        return {"tag": "fresh", "p": fs(p), "r": fs(Fraction(rng.randint(-24, 24), 8))}
    raise ValueError(cls)


def coq_val(cls, v):
    if cls == "Boolean":
        return "true" if v else "false"
    if cls in ("Real", "Float", "MaxTimes"):
        return cq(Fraction(v))
    if cls == "MaxPlus":
        return "NegInf" if v == "-inf" else f"(Fin {cq(Fraction(v))})"
    if cls == "Expectation":
        return f"({cq(Fraction(v[0]))}, {cq(Fraction(v[1]))})"
    if cls == "Entropy":
        tag = {"zero": "TagZero", "one": "TagOne", "fresh": "TagFresh"}[v["tag"]]
        return f"({cq(Fraction(v['p']))}, {cq(Fraction(v['r']))}, {tag})"
    raise ValueError(cls)


def coq_res(cls, v):
    """expected (implementation) result as a Coq value to compare scores with"""
    if cls == "Boolean":
        return "true" if v else "false"
    if cls in ("Real", "Float", "MaxTimes"):
        return cq(Fraction(v))
    if cls == "MaxPlus":
        return "NegInf" if v == "-inf" else f"(Fin {cq(Fraction(v))})"
    return f"({cq(Fraction(v[0]))}, {cq(Fraction(v[1]))})"


EQ = {"Boolean": "Bool.eqb", "Real": "qeq", "Float": "qeq", "MaxTimes": "qeq", "MaxPlus": "xeq", "Expectation": "peq", "Entropy": "teq"}


def search(ctx, n):
    """Python-side law oracle on the implementation (failing-input search)."""
    cases = []
    for cls in EXACT + ["Log"]:
        for i in range(n):
            st = i % 3 == 0
            cases.append({"cls": cls, "a": gen_value(ctx.rng, cls, star=st), "b": gen_value(ctx.rng, cls), "c": gen_value(ctx.rng, cls), "star": st, "flt": cls == "Log"})
    res = run_impl("c16", {"mode": "laws", "cases": cases})["results"]
    ctx.cov["oracle_cases"] += len(cases)
    found = 0
    for cs, bad in zip(cases, res):
        ctx.count_case(("law", json.dumps(cs, sort_keys=True)))
        if bad:
            found += 1
            sig = f"{cs['cls']}.{bad[0]['law']}"
            ctx.violation(sig, f"{cs['cls']}: law {bad[0]['law']} fails on a={cs['a']} b={cs['b']} c={cs['c']}: {bad[0]['lhs']} vs {bad[0]['rhs']}",
                          {"kind": "law", "case": cs, "failed": bad})
    return found


def run(ctx):
    quick = ctx.tier == "quick"
    ctx.cov["rule"] = ("obligations: the theorems of props/C16.v about definitions regenerated from semiring.py; "
                       "correspondence: random values per class inside its domain incl. zero/one constants and freshly built equal values, QQ model vs Python on Fractions; "
                       "oracle: semiring laws evaluated on the Python classes (Fractions; floats for Log); a case is distinct by its (class, operands)")
    # 1. translator
    try:
        info = TS.main()
        ctx.cov["translators"].append(info)
        ctx.obligation("translate_semiring", True)
    except TS.Refuse as e:
        ctx.obligation("translate_semiring", False, f"translator refused: {e}")
        search(ctx, 400)
        return
    # 2. proofs
    ok, out = ctx.build(["gen/Gen_Semiring.vo", "proofs/C16_laws.vo", "proofs/C16_log.vo", "exec/RunC16.vo"])
    if not ok:
        ctx.obligation("coq-build(C16 laws over regenerated Gen_Semiring.v)", False, out[-3000:])
        search(ctx, 400)
        return
    ok, out = ctx.prove("props/C16.v")
    # 3. correspondence: regenerated QQ model vs the Python classes
    n = 60 if quick else 400
    cases = []
    for cls in EXACT:
        for i in range(n):
            st = i % 3 == 0
            cases.append({"cls": cls, "a": gen_value(ctx.rng, cls, star=st), "b": gen_value(ctx.rng, cls), "star": st})
    got = run_impl("c16", {"mode": "ops", "cases": cases})
    exprs, meta = [], []
    for cls in EXACT:  # constants
        for cn in ("zero", "one"):
            v = got["consts"][cls][cn]
            lhs = f"QQ.{cls}.{cn}"
            exprs.append(f"{EQ[cls]} {lhs} {coq_res(cls, v)}")
            meta.append(("const", cls, cn, v))
    for cs, r in zip(cases, got["results"]):
        cls = cs["cls"]
        ctx.dist(cls)
        ctx.count_case(("op", json.dumps(cs, sort_keys=True)))
        a, b = coq_val(cls, cs["a"]), coq_val(cls, cs["b"])
        for op in ("add", "mul", "star"):
            if op not in r:
                continue
            if isinstance(r[op], dict):
                # error on the implementation side: only division by zero outside the star domain is expected
                ctx.violation(f"{cls}.{op}:error", f"{cls}.{op} raised {r[op]['err']} on {cs}", {"kind": "op-error", "case": cs, "result": r})
                continue
            lhs = f"(QQ.{cls}.{op} {a})" if op == "star" else f"(QQ.{cls}.{op} {a} {b})"
            exprs.append(f"{EQ[cls]} {lhs} {coq_res(cls, r[op])}")
            meta.append((op, cls, cs, r[op]))
    ctx.sample({"class": cases[0]["cls"], "a": cases[0]["a"], "b": cases[0]["b"], "impl": got["results"][0]})
    ctx.sample({"class": cases[-1]["cls"], "a": cases[-1]["a"], "b": cases[-1]["b"], "impl": got["results"][-1]})
    try:
        failing = coq_eval_bools(ctx, "ops", IMPORTS, exprs)
    except CoqError as e:
        ctx.broken.append(("correspondence(ops)", str(e)))
        failing = []
    ctx.cov["disagreements_checked"] += len(failing)
    for i in failing:
        ctx.broken.append((f"correspondence(ops)#{i}", f"model and implementation differ on {meta[i]}"))
    # 4. law oracle on the implementation (always; also the failing-input search)
    search(ctx, 80 if quick else 600)
    if not quick:
        ok2, out2 = ctx.build()
        ctx.obligation("full-make", ok2, out2[-1500:])


def replay(obj):
    cs = obj["case"]
    if obj.get("kind") == "law":
        res = run_impl("c16", {"mode": "laws", "cases": [cs]})["results"][0]
        print("case:", cs)
        print("failed laws now:", res)
        return 1 if res else 0
    res = run_impl("c16", {"mode": "ops", "cases": [cs]})["results"][0]
    print("case:", cs, "->", res)
    return 0
