"""C02: every parser returns the derivation-sum weight of a string (DESIGN.md §4 C02)."""
import json
from fractions import Fraction

import cfgmodel as M
import translate_exprs as TE
from cfgcheck import LangTable, finitely_ambiguous, run_jobs
from common import CoqError, dec_val, close_enough

ENTRY = ["call", "earley", "icky"]


def gen_cases(ctx, n, maxlen):
    """null/unary-acyclic grammars with Fraction weights (exact stream)"""
    out = []
    tries = 0
    while len(out) < n and tries < 40 * n:
        tries += 1
        g = M.rand_nullable_grammar(ctx.rng, nT=ctx.rng.randint(1, 2)) if tries % 4 == 0 else M.rand_grammar(ctx.rng)
        if not finitely_ambiguous(g):
            continue
        out.append(g)
    return out


def report(ctx, kind, g, sr, op, xs, impl, ref, extra=None):
    """a disagreement between the implementation and the reference value: shrink and report"""
    def fails(h):
        jobs = [{"g": h, "sr": sr, "queries": [{"op": op, "xs": [list(xs)]} if op != "materialize" else {"op": op, "n": extra}]}]
        r = run_jobs(jobs)[0][0]
        mir = (M.mirror_exact(h) if sr != "bool" else M.mirror_bool(h))
        want = mir.lang(h["S"], list(xs), fuel=30)
        if want is None:
            return False
        if "err" in r:
            return True
        if op == "materialize":
            got = {tuple(k): dec_val(v) for k, v in r["ok"]}
            v = got.get(tuple(xs), Fraction(0) if sr != "bool" else False)
        else:
            v = dec_val(r["ok"][0])
        return not close_enough(v, want)

    sig = f"{op}:{kind}"
    if ctx.seen(sig):
        return
    small = g
    try:
        if fails(g):
            small = M.shrink_grammar(g, fails)
    except Exception:
        pass
    ctx.violation(sig, f"{op} on {list(xs)} returned {impl}, derivation sum is {ref} (semiring {sr})",
                  {"kind": "cfg-value", "op": op, "sr": sr, "grammar": small, "original_grammar": g, "xs": list(xs), "n": extra, "observed": str(impl), "expected": str(ref)})


def stream_exact(ctx, grammars, maxlen, hashseeds):
    """Qc-exact stream: call / earley / icky / rescaled(float) / materialize vs Coq `lang`"""
    tab = LangTable(ctx, "Qc", "exact")
    plan = []
    for g in grammars:
        g2 = M.permute_rename(ctx.rng, g)
        gid = tab.add(g)
        strs = [list(x) for x in M.strings(g["nT"], maxlen)]
        if len(strs) > 40:
            strs = strs[:14] + ctx.rng.sample(strs[14:], 26)
        for xs in strs:
            tab.want(gid, xs)
        plan.append((gid, g, g2, strs))
        for f in M.features(g):
            ctx.dist("exact:" + f)
        ctx.dist("exact:grammars")
    tab.eval()
    nontrivial = 0
    for hs in hashseeds:
        jobs = []
        for gid, g, g2, strs in plan:
            qs = [{"op": op, "xs": strs} for op in ENTRY] + [{"op": "materialize", "n": n} for n in (0, 1, 2)]
            jobs.append({"g": g, "sr": "frac", "queries": qs})
            jobs.append({"g": g2, "sr": "frac", "queries": [{"op": op, "xs": strs} for op in ENTRY]})
            jobs.append({"g": g, "sr": "float", "queries": [{"op": "earley_rescaled", "xs": strs}]})
        res = run_jobs(jobs, hashseed=hs)
        k = 0
        for gid, g, g2, strs in plan:
            r1, r2, r3 = res[k], res[k + 1], res[k + 2]
            k += 3
            refs = [tab.get(gid, xs) for xs in strs]
            for (opi, op), variant, r in [(e, "orig", r1) for e in enumerate(ENTRY)] + [(e, "perm", r2) for e in enumerate(ENTRY)] + [((0, "earley_rescaled"), "float", r3)]:
                q = r[opi]
                if "err" in q:
                    ctx.violation(f"{op}:error:{q['err'][:40]}", f"{op} raised {q['err']}", {"kind": "cfg-error", "op": op, "grammar": g if variant != "perm" else g2, "error": q["err"]})
                    continue
                for xs, enc, ref in zip(strs, q["ok"], refs):
                    if ref is None:
                        continue
                    v = dec_val(enc)
                    ctx.count_case((gid, op, variant, tuple(xs), hs), nontrivial=ref != 0)
                    if not close_enough(v, ref, rel=1e-9):
                        report(ctx, variant, g if variant != "perm" else g2, "float" if variant == "float" else "frac", op, xs, v, ref)
            # materialize
            for n, q in zip((0, 1, 2), r1[len(ENTRY):]):
                if "err" in q:
                    ctx.violation(f"materialize:error:{q['err'][:40]}", f"materialize({n}) raised {q['err']}", {"kind": "cfg-error", "op": "materialize", "n": n, "grammar": g, "error": q["err"]})
                    continue
                got = {tuple(kk): dec_val(v) for kk, v in q["ok"]}
                for xs, ref in zip(strs, refs):
                    if ref is None or len(xs) > n:
                        continue
                    v = got.pop(tuple(xs), Fraction(0))
                    ctx.count_case((gid, "mat", n, tuple(xs)), nontrivial=ref != 0)
                    if not close_enough(v, ref):
                        report(ctx, f"n={n}", g, "frac", "materialize", xs, v, ref, extra=n)
                extra = [kk for kk in got if len(kk) > n]
                if extra:
                    ctx.violation("materialize:too-long", f"materialize({n}) lists strings longer than {n}: {extra[:3]}", {"kind": "cfg-value", "op": "materialize", "n": n, "grammar": g, "xs": list(extra[0])})
    ctx.sample({"grammar": plan[0][1], "strings": plan[0][3][:5], "reference": [str(tab.get(plan[0][0], xs)) for xs in plan[0][3][:5]]})


def stream_bool(ctx, grammars, maxlen, hashseeds):
    """Boolean stream: arbitrary grammars (nullable / unary cycles included)"""
    tab = LangTable(ctx, "bool", "bool")
    plan = []
    for g in grammars:
        gid = tab.add(g)
        strs = [list(x) for x in M.strings(g["nT"], maxlen)]
        if len(strs) > 30:
            strs = strs[:10] + ctx.rng.sample(strs[10:], 20)
        for _ in range(10):    # sentences of the language (random derivations), so that long strings are not all rejected
            snt = M.random_sentence(ctx.rng, g, maxdepth=ctx.rng.randint(2, 5), maxlen=6)
            if snt is not None and len(snt) <= 6 and snt not in strs:
                strs.append(snt)
        for xs in strs:
            tab.want(gid, xs)
        plan.append((gid, g, strs))
        for f in M.features(g):
            ctx.dist("bool:" + f)
        ctx.dist("bool:grammars")
    tab.eval()
    for hs in hashseeds:
        jobs = [{"g": g, "sr": "bool", "queries": [{"op": op, "xs": strs} for op in ENTRY]} for gid, g, strs in plan]
        res = run_jobs(jobs, hashseed=hs)
        for (gid, g, strs), r in zip(plan, res):
            for op, q in zip(ENTRY, r):
                if "err" in q:
                    ctx.violation(f"{op}:bool-error:{q['err'][:40]}", f"{op} (Boolean) raised {q['err']}", {"kind": "cfg-error", "op": op, "sr": "bool", "grammar": g, "error": q["err"]})
                    continue
                for xs, enc in zip(strs, q["ok"]):
                    ref = tab.get(gid, xs)
                    if ref is None:
                        continue
                    v = dec_val(enc)
                    ctx.count_case(("bool", gid, op, tuple(xs), hs), nontrivial=bool(ref))
                    if bool(v) != bool(ref):
                        report(ctx, "bool", g, "bool", op, xs, v, ref)
    ctx.sample({"bool-grammar": plan[0][1], "strings": plan[0][2][:5], "reference": [tab.get(plan[0][0], xs) for xs in plan[0][2][:5]]})


def stream_float(ctx, n, maxlen):
    """convergent cyclic grammars on floats vs the Python mirror of the model (search only, tolerance 1e-6)"""
    gs = []
    tries = 0
    while len(gs) < n and tries < 60 * n:
        tries += 1
        g = M.rand_grammar(ctx.rng, weights=[Fraction(1, 4), Fraction(1, 5), Fraction(1, 8), Fraction(1, 3), Fraction(1, 10)])
        if finitely_ambiguous(g):
            continue
        _, conv = M.total_float(g)
        if conv:
            gs.append(g)
    jobs = []
    plans = []
    for g in gs:
        strs = [list(x) for x in M.strings(g["nT"], maxlen)][:25]
        m = M.mirror_float(g)
        refs = [m.lang(g["S"], xs, fuel=300, tol=1e-14) for xs in strs]
        jobs.append({"g": g, "sr": "float", "queries": [{"op": op, "xs": strs} for op in ENTRY + ["earley_rescaled"]]})
        plans.append((g, strs, refs))
        ctx.dist("float-cyclic:grammars")
    res = run_jobs(jobs) if jobs else []
    for (g, strs, refs), r in zip(plans, res):
        for op, q in zip(ENTRY + ["earley_rescaled"], r):
            if "err" in q:
                ctx.violation(f"{op}:float-error:{q['err'][:40]}", f"{op} raised {q['err']} on a convergent cyclic grammar", {"kind": "cfg-error", "op": op, "sr": "float", "grammar": g, "error": q["err"]})
                continue
            for xs, enc, ref in zip(strs, q["ok"], refs):
                if ref is None:
                    continue
                v = dec_val(enc)
                ctx.cov["oracle_cases"] += 1
                ctx.count_case(("float", json.dumps(g), op, tuple(xs)), nontrivial=ref != 0)
                if not (isinstance(v, float) or isinstance(v, Fraction)) or abs(float(v) - ref) > 1e-6 * max(1.0, abs(ref)):
                    ctx.violation(f"{op}:float-cyclic", f"{op} on {xs} returned {v}, Kleene limit is {ref}", {"kind": "cfg-float", "op": op, "grammar": g, "xs": xs, "observed": str(v), "expected": ref})


def search_rescaled(ctx, n, maxlen=3, op="earley_rescaled", sr="float"):
    """failing-input search aimed at the agenda order of the rescaled parser: many small grammars with
    unary chains, only the rescaled entry point, floats vs the exact mirror of the model"""
    gs = []
    while len(gs) < n:
        g = M.rand_grammar(ctx.rng, nN=ctx.rng.randint(2, 4), punary=0.3, pnull=0.1)
        if finitely_ambiguous(g):
            gs.append(g)
    for k in range(0, n, 500):
        chunk = gs[k:k + 500]
        plans = []
        jobs = []
        for g in chunk:
            strs = [list(x) for x in M.strings(g["nT"], maxlen)][:20]
            jobs.append({"g": g, "sr": sr, "queries": [{"op": op, "xs": strs}]})
            plans.append((g, strs))
        res = run_jobs(jobs)
        for (g, strs), r in zip(plans, res):
            q = r[0]
            if "err" in q:
                continue
            m = M.mirror_exact(g)
            for xs, enc in zip(strs, q["ok"]):
                v = dec_val(enc)
                ctx.cov["oracle_cases"] += 1
                ref = m.lang(g["S"], xs, fuel=30)
                if ref is None:
                    continue
                if not close_enough(v, ref, rel=1e-9):
                    report(ctx, "priority-search", g, sr, op, xs, v, ref)
                    return True
    return False


def run(ctx):
    quick = ctx.tier == "quick"
    ctx.cov["rule"] = ("random grammars (1-4 nonterminals, 1-3 terminals, bodies 0-3, nullary/unary/duplicate rules, start on rhs) x all strings to a length bound x entry points "
                       "cfg(xs), Earley, IncrementalCKY, rescaled Earley, materialize x rule permutation+renaming x hash seeds; reference = Coq `lang` (proved equal to the derivation sum); "
                       "a case (grammar, entry point, string, seed) is non-trivial when the string has non-zero weight")
    try:
        ctx.cov["translators"].append(TE.main())
        ctx.obligation("translate_exprs", True)
        tr_ok = True
    except TE.Refuse as e:
        ctx.obligation("translate_exprs", False, f"translator refused: {e}")
        tr_ok = False
    ok, out = ctx.build(["proofs/CfgTrees.vo", "proofs/CfgChart.vo", "proofs/CkyProofs.vo", "proofs/PriorityProofs.vo"] + (["proofs/PriorityRescaled.vo"] if tr_ok else []) + ["proofs/StableSolves.vo"])
    if ok and tr_ok:
        ctx.prove("props/C02.v")
    else:
        ctx.obligation("coq-build(C02)", False, out[-3000:])
        if "PriorityRescaled" in out:
            search_rescaled(ctx, 4000)
        if "PriorityProofs" in out:
            search_rescaled(ctx, 4000, op="earley", sr="frac")
        ok2, _ = ctx.build(["proofs/CfgTrees.vo", "proofs/CfgChart.vo"])
        if not ok2:
            return
    import time
    nG = 40 if quick else 400
    seeds = [0, 1] if quick else [0, 1, 2, 3]
    t = time.time()
    gs = gen_cases(ctx, nG, 3)
    stream_exact(ctx, gs, 3 if quick else 4, seeds)
    bg = [M.rand_grammar(ctx.rng, boolean=True, pnull=0.2, punary=0.25) for _ in range(nG)] + [M.rand_leftcorner_grammar(ctx.rng) for _ in range(nG // 2)]
    stream_bool(ctx, bg, 3, seeds[:2])
    # mutual left recursion with further left corners: strings of length 4 are needed to re-enter the cycle at another member
    stream_bool(ctx, [M.rand_mutual_leftrec_grammar(ctx.rng) for _ in range(2 * nG)], 4, seeds[:2])
    stream_float(ctx, 25 if quick else 300, 3)


def replay(obj):
    g, sr, op = obj["grammar"], obj.get("sr", "frac"), obj["op"]
    q = {"op": op, "xs": [obj.get("xs", [])]} if op != "materialize" else {"op": op, "n": obj.get("n", 0)}
    r = run_jobs([{"g": g, "sr": sr, "queries": [q]}])[0][0]
    print("grammar:", json.dumps(g))
    print("query:", q, "->", r)
    print("expected:", obj.get("expected"))
    return 0
