"""C08: total weights are the least solution of the grammar equations (DESIGN.md §4 C08)."""
import json
from fractions import Fraction

import cfgmodel as M
import translate_exprs as TE
from cfgcheck import LangTable, run_jobs
from common import CoqError, coq_eval_values, dec_val, close_enough

IMPORTS = "From GV.lib Require Import Semiring BigSum.\nFrom GV.model Require Import Cfg Agenda Prefix."


def max_yield(g):
    """max yield length per nonterminal of a dependency-acyclic grammar (None if unbounded)"""
    if not M.dep_acyclic(g):
        return None
    memo = {}

    def ml(x):
        if x in memo:
            return memo[x]
        best = -1
        for w, h, b in g["rules"]:
            if h == x:
                tot = 0
                ok = True
                for k, v in b:
                    if k == "T":
                        tot += 1
                    else:
                        r = ml(v)
                        if r < 0:
                            ok = False
                            break
                        tot += r
                if ok:
                    best = max(best, tot)
        memo[x] = best
        return best

    return ml(g["S"])


def totals_coq(ctx, grammars, sr, stream):
    srname = {"Qc": "QcSR", "bool": "BoolSR"}[sr]
    defs, exprs, keys = [], [], []
    for i, g in enumerate(grammars):
        defs.append((f"G{i}", f"Definition G{i} : grammar {srname} := {M.coq_grammar(g, sr)}."))
        h = len(M.nts_of(g)) + 2
        for X in M.nts_of(g):
            exprs.append(f"total_h G{i} {h} {X}%nat")
            keys.append((i, X))
    vals = coq_eval_values(ctx, stream, IMPORTS, defs, exprs, kind="qc" if sr == "Qc" else "bool")
    return dict(zip(keys, vals))


def check_vec(ctx, g, sr, op, enc, ref, hs, tol=None):
    """enc: {name: value} from the driver; ref: {X: value}"""
    for X, want in ref.items():
        v = dec_val(enc.get(M.ntname(X), "0/1" if sr != "bool" else False))
        ctx.count_case((sr, json.dumps(g), op, X, hs), nontrivial=bool(want))
        ok = close_enough(v, want) if tol is None else (isinstance(v, (float, Fraction, int)) and abs(float(v) - float(want)) <= tol * max(1.0, abs(float(want))))
        if not ok:
            sig = f"{op}:{sr}"
            if ctx.seen(sig):
                return
            ctx.violation(sig, f"{op}()[{M.ntname(X)}] = {v}, total weight of its derivation trees is {want} (semiring {sr})",
                          {"kind": "total", "op": op, "sr": sr, "grammar": g, "X": X, "observed": str(v), "expected": str(want)})
            return


def tropical_totals(g):
    """max-plus totals: best derivation weight of every nonterminal (weights <= 0, so |N|+1 rounds of
    the Kleene iteration reach the fixed point); -inf when there is no derivation"""
    NEG = float("-inf")
    V = {X: NEG for X in M.nts_of(g)}
    for _ in range(len(V) + 2):
        W = dict(V)
        for w, h, b in g["rules"]:
            v = float(Fraction(w))
            for k, x in b:
                if k == "N":
                    v += V.get(x, NEG)
            if v > W[h]:
                W[h] = v
        V = W
    return V


def stream_log(ctx, n):
    """agenda / treesum over the Log semiring on dependency-acyclic grammars whose contributions are hundreds of nats
    apart (long-string log-probabilities next to O(1) weights); reference: the same recursion in log space with a stable logaddexp"""
    import math

    def ladd(x, y):
        if x == float("-inf"):
            return y
        if y == float("-inf"):
            return x
        return max(x, y) + math.log1p(math.exp(-abs(x - y)))

    gs = []
    while len(gs) < n:
        g = M.rand_grammar(ctx.rng, nN=ctx.rng.randint(1, 4), nrules=ctx.rng.randint(3, 9), weights=[Fraction(0), Fraction(-1), Fraction(-3, 2), Fraction(-800), Fraction(-1500), Fraction(-745), Fraction(-20)])
        if M.dep_acyclic(g):
            gs.append(g)
    for hs in (0, 1, 2):
        res = run_jobs([{"g": g, "sr": "log", "queries": [{"op": "agenda", "timeout": 60}, {"op": "naive", "timeout": 60}]} for g in gs], hashseed=hs)
        for g, r in zip(gs, res):
            ctx.dist("log:grammars")
            NEG = float("-inf")
            V = {X: NEG for X in M.nts_of(g)}
            for _ in range(len(V) + 2):
                Wn = {X: NEG for X in V}
                for w, h, b in g["rules"]:
                    v = float(Fraction(w))
                    for k, x in b:
                        if k == "N":
                            v += V.get(x, NEG)
                    Wn[h] = ladd(Wn[h], v)
                V = Wn
            for op, q in zip(("agenda", "naive"), r):
                ctx.cov["oracle_cases"] += 1
                if "err" in q:
                    if not ctx.seen(f"{op}:log:error"):
                        ctx.violation(f"{op}:log:error", f"{op}() over Log raised {q['err']}", {"kind": "total-error", "op": op, "sr": "log", "grammar": g, "error": q["err"]})
                    continue
                for X, wv in V.items():
                    enc = q["ok"].get(M.ntname(X))
                    v = NEG if enc is None else dec_val(enc)
                    v = float(v) if not isinstance(v, str) else float("nan")
                    ctx.count_case(("log", json.dumps(g), op, X, hs), nontrivial=wv != NEG)
                    if not (v == wv or abs(v - wv) <= 1e-9 * max(1.0, abs(wv))):
                        if not ctx.seen(f"{op}:log"):
                            ctx.violation(f"{op}:log", f"{op}()[{M.ntname(X)}] = {v} over Log; the log of the total weight of its derivation trees is {wv}",
                                          {"kind": "total", "op": op, "sr": "log", "grammar": g, "X": X, "observed": str(v), "expected": str(wv)})
                        break


def stream_tropical(ctx, n):
    """agenda over MaxPlus on UNTRIMMED grammars that contain a dead cycle fed by a terminal (X -> Y a, Y -> X):
    zero (-inf) updates circulate in that block; every other block must still get its value"""
    gs = []
    for _ in range(n):
        g = M.rand_grammar(ctx.rng, nN=ctx.rng.randint(1, 3), nrules=ctx.rng.randint(2, 7), weights=[Fraction(-k, 4) for k in range(0, 9)])
        nts = M.nts_of(g)
        d1, d2 = max(nts) + 1, max(nts) + 2
        extra = [["-1/4", d1, [["N", d2], ["T", 0]]], ["-1/2", d2, [["N", d1]]]]
        if ctx.rng.random() < 0.7:
            extra.append(["-1/4", ctx.rng.choice(nts), [["N", d1]]])
        if ctx.rng.random() < 0.5:
            extra.append(["-3/4", max(nts) + 3, [["N", g["S"]], ["N", g["S"]]]])
        g = {"S": g["S"], "nT": g["nT"], "rules": g["rules"] + extra}
        ctx.rng.shuffle(g["rules"])
        gs.append(g)
    for hs in (0, 1, 2):
        res = run_jobs([{"g": g, "sr": "maxplus", "queries": [{"op": "agenda", "timeout": 60}, {"op": "treesum", "timeout": 60}]} for g in gs], hashseed=hs)
        for g, r in zip(gs, res):
            ctx.dist("maxplus:grammars-with-dead-cycle")
            want = tropical_totals(g)
            q = r[0]
            ctx.cov["oracle_cases"] += 1
            if "err" in q:
                if not ctx.seen("agenda:maxplus:error"):
                    ctx.violation("agenda:maxplus:error", f"agenda() over MaxPlus raised {q['err']}", {"kind": "total-error", "op": "agenda", "sr": "maxplus", "grammar": g, "error": q["err"]})
                continue
            for X, wv in want.items():
                enc = q["ok"].get(M.ntname(X))
                v = float("-inf") if enc is None else float(dec_val(enc))
                ctx.count_case(("maxplus", json.dumps(g), X, hs), nontrivial=wv != float("-inf"))
                if not (v == wv or abs(v - wv) <= 1e-9):
                    if not ctx.seen("agenda:maxplus"):
                        ctx.violation("agenda:maxplus", f"agenda()[{M.ntname(X)}] = {v} over MaxPlus; the best derivation of {M.ntname(X)} weighs {wv}",
                                      {"kind": "total", "op": "agenda", "sr": "maxplus", "grammar": g, "X": X, "observed": str(v), "expected": str(wv)})
                    break


def run(ctx):
    quick = ctx.tier == "quick"
    ctx.cov["rule"] = ("agenda(), naive_bottom_up(), treesum(), expected_length on generated grammars: dependency-acyclic grammars with exact rationals vs the Coq tabulated Kleene iterate (proved = sum over all derivation trees), "
                       "all grammars over Booleans vs the Coq iterate (stabilises), convergent cyclic grammars on floats vs the Kleene limit; several hash seeds (pop order); start value vs the sum of the string weights for finite languages; non-trivial = non-zero total")
    try:
        ctx.cov["translators"].append(TE.main())
        ctx.obligation("translate_exprs", True)
        tr_ok = True
    except TE.Refuse as e:
        ctx.obligation("translate_exprs", False, f"translator refused: {e}")
        tr_ok = False
    ok, out = ctx.build(["proofs/AgendaProofs.vo", "proofs/Agenda2Proofs.vo", "proofs/PrefixChart.vo", "proofs/CfgTrees.vo", "proofs/ExpectProofs.vo", "proofs/TotalStringsProofs.vo", "proofs/ExpectTotalProofs.vo"]) if tr_ok else (False, "translator")
    if ok:
        ctx.prove("props/C08.v")
    else:
        ctx.obligation("coq-build(C08)", False, out[-3000:])
        ok2, _ = ctx.build(["model/Prefix.vo"])
        if not ok2:
            return
    n = 40 if quick else 400
    seeds = [0, 1, 2] if quick else [0, 1, 2, 3, 4]
    # (a) exact, dependency-acyclic
    gs = []
    while len(gs) < n:
        g = M.rand_grammar(ctx.rng, nN=ctx.rng.randint(2, 5), nrules=ctx.rng.randint(3, 9))
        if M.dep_acyclic(g):
            gs.append(g)
    ref = totals_coq(ctx, gs, "Qc", "totals-exact")
    for g in gs:
        for f in M.features(g):
            ctx.dist("exact:" + f)
        ctx.dist("exact:grammars")
    for hs in seeds:
        res = run_jobs([{"g": g, "sr": "frac", "queries": [{"op": "agenda"}, {"op": "naive"}, {"op": "treesum"}]} for g in gs], hashseed=hs)
        for i, (g, r) in enumerate(zip(gs, res)):
            want = {X: ref[(i, X)] for X in M.nts_of(g)}
            for op, q in zip(("agenda", "naive"), r[:2]):
                if "err" in q:
                    ctx.violation(f"{op}:error:{q['err'][:30]}", f"{op}() raised {q['err']}", {"kind": "total-error", "op": op, "sr": "frac", "grammar": g, "error": q["err"]})
                    continue
                check_vec(ctx, g, "frac", op, q["ok"], want, hs)
            if "ok" in r[2]:
                check_vec(ctx, g, "frac", "treesum", {M.ntname(g["S"]): r[2]["ok"]}, {g["S"]: want[g["S"]]}, hs)
    ctx.sample({"grammar": gs[0], "totals": {M.ntname(X): str(ref[(0, X)]) for X in M.nts_of(gs[0])}})
    # start value = sum over the language; expected length (finite languages, short strings)
    fin = [(i, g) for i, g in enumerate(gs) if (max_yield(g) or 99) <= 4][: (15 if quick else 120)]
    if fin:
        tab = LangTable(ctx, "Qc", "language-sum")
        ids = []
        for i, g in fin:
            gid = tab.add(g)
            ids.append(gid)
            for xs in M.strings(g["nT"], max(max_yield(g), 0)):
                tab.want(gid, list(xs))
        tab.eval()
        res = run_jobs([{"g": g, "sr": "frac", "queries": [{"op": "expected_length"}]} for _, g in fin])
        for (i, g), gid, r in zip(fin, ids, res):
            strs = [list(xs) for xs in M.strings(g["nT"], max(max_yield(g), 0))]
            vals = [tab.get(gid, xs) for xs in strs]
            if any(v is None for v in vals):
                continue
            tot = sum(vals, Fraction(0))
            ctx.count_case(("language-sum", i), nontrivial=tot != 0)
            if tot != ref[(i, g["S"])]:
                ctx.broken.append(("model-consistency(total = sum of string weights)", f"grammar {g}: {tot} vs {ref[(i, g['S'])]}"))
            el = sum((len(xs) * v for xs, v in zip(strs, vals)), Fraction(0))
            q = r[0]
            if "err" in q:
                ctx.violation(f"expected_length:error:{q['err'][:30]}", f"expected_length raised {q['err']}", {"kind": "total-error", "op": "expected_length", "sr": "frac", "grammar": g, "error": q["err"]})
                continue
            v = dec_val(q["ok"])
            if not close_enough(v, el):
                if not ctx.seen("expected_length:frac"):
                    ctx.violation("expected_length:frac", f"expected_length = {v}, weight-weighted total string length is {el}", {"kind": "total", "op": "expected_length", "sr": "frac", "grammar": g, "observed": str(v), "expected": str(el)})
    # (b) Boolean, all grammars
    bg = [M.rand_grammar(ctx.rng, boolean=True, pnull=0.2, punary=0.25, nN=ctx.rng.randint(2, 5)) for _ in range(n)]
    bref = totals_coq(ctx, bg, "bool", "totals-bool")
    for hs in seeds[:2]:
        res = run_jobs([{"g": g, "sr": "bool", "queries": [{"op": "agenda"}, {"op": "naive"}]} for g in bg], hashseed=hs)
        for i, (g, r) in enumerate(zip(bg, res)):
            want = {X: bref[(i, X)] for X in M.nts_of(g)}
            for op, q in zip(("agenda", "naive"), r):
                if "err" in q:
                    ctx.violation(f"{op}:bool-error:{q['err'][:30]}", f"{op}() (Boolean) raised {q['err']}", {"kind": "total-error", "op": op, "sr": "bool", "grammar": g, "error": q["err"]})
                    continue
                check_vec(ctx, g, "bool", op, q["ok"], want, hs)
    # (c) convergent cyclic grammars on floats (search; Kleene limit from the mirror of the model)
    fg = []
    tries = 0
    while len(fg) < (30 if quick else 300) and tries < 20000:
        tries += 1
        g = M.rand_grammar(ctx.rng, weights=[Fraction(1, 4), Fraction(1, 5), Fraction(1, 8), Fraction(1, 3), Fraction(1, 10)], nN=ctx.rng.randint(2, 4))
        if M.dep_acyclic(g):
            continue
        V, conv = M.total_float(g, iters=3000, tol=1e-15)
        if conv:
            fg.append((g, V))
    for hs in seeds[:2]:
        res = run_jobs([{"g": g, "sr": "float", "queries": [{"op": "agenda"}, {"op": "naive"}]} for g, _ in fg], hashseed=hs)
        for (g, V), r in zip(fg, res):
            ctx.dist("float-cyclic:grammars")
            want = {X: V.get(X, 0.0) for X in M.nts_of(g)}
            for op, q in zip(("agenda", "naive"), r):
                ctx.cov["oracle_cases"] += 1
                if "err" in q:
                    ctx.violation(f"{op}:float-error:{q['err'][:30]}", f"{op}() raised {q['err']} on a convergent grammar", {"kind": "total-error", "op": op, "sr": "float", "grammar": g, "error": q["err"]})
                    continue
                check_vec(ctx, g, "float", op, q["ok"], want, hs, tol=1e-7)
    # (d) MaxPlus on untrimmed grammars with a dead cycle
    stream_tropical(ctx, 20 if quick else 150)
    stream_log(ctx, 20 if quick else 150)
    # (e) expected length when a tiny weight carries a huge length (the update must not be dropped by a tolerance on the weight alone)
    stream_expectation(ctx, 6 if quick else 30)


def stream_expectation(ctx, n):
    jobs, wants = [], []
    for _ in range(n):
        d = ctx.rng.randint(28, 40)
        tiny = Fraction(1, 10 ** ctx.rng.randint(13, 15))
        wb = Fraction(ctx.rng.randint(1, 3), 4)
        # S -> T (1) | b (wb);  T -> A0 (tiny);  A_i -> A_{i+1} A_{i+1};  A_d -> a      (floats: 2^d * tiny is not negligible)
        rules = [["1/1", 0, [["N", 1]]], [M.fs(wb), 0, [["T", 1]]], [M.fs(tiny), 1, [["N", 2]]]]
        for i in range(d):
            rules.append(["1/1", 2 + i, [["N", 3 + i], ["N", 3 + i]]])
        rules.append(["1/1", 2 + d, [["T", 0]]])
        g = {"S": 0, "nT": 2, "rules": rules}
        jobs.append({"g": g, "sr": "float", "queries": [{"op": "expected_length", "timeout": 60}]})
        wants.append(float(tiny) * 2.0 ** d + float(wb))
    res = run_jobs(jobs)
    for job, want, r in zip(jobs, wants, res):
        q = r[0]
        ctx.dist("expected-length:tiny-weight-long-string")
        ctx.cov["oracle_cases"] += 1
        if "err" in q:
            if not ctx.seen("expected_length:error"):
                ctx.violation("expected_length:error", f"expected_length raised {q['err']}", {"kind": "total-error", "op": "expected_length", "sr": "float", "grammar": job["g"], "error": q["err"]})
            continue
        v = dec_val(q["ok"])
        v = float(v[1]) if isinstance(v, (tuple, list)) else float(v)
        ctx.count_case(("expected-length", json.dumps(job["g"])[:80]), nontrivial=True)
        if abs(v - want) > 1e-6 * max(1.0, abs(want)):
            if not ctx.seen("expected_length:tiny"):
                ctx.violation("expected_length:tiny", f"expected_length = {v}; sum over strings of weight * length is {want} (a derivation of weight {float(Fraction(job['g']['rules'][2][0])):.1e} yields 2^{len(job['g']['rules']) - 4} symbols)",
                              {"kind": "total", "op": "expected_length", "sr": "float", "grammar": job["g"], "X": 0, "observed": str(v), "expected": str(want)})


def replay(obj):
    g, sr, op = obj["grammar"], obj["sr"], obj["op"]
    r = run_jobs([{"g": g, "sr": sr, "queries": [{"op": op}]}])[0][0]
    print("grammar:", json.dumps(g))
    print(op, "->", r, "expected:", obj.get("expected"))
    return 0
