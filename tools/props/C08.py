"""C08: total weights are the least solution of the grammar equations (DESIGN.md §4 C08)."""
import json
from fractions import Fraction

import cfgmodel as M
import translate_exprs as TE
from cfgcheck import LangTable, run_jobs
from common import CoqError, coq_eval_values, dec_val, close_enough

IMPORTS = "From GV.lib Require Import Semiring BigSum.\nFrom GV.model Require Import Cfg Agenda Prefix."


def max_yield(g):
    """max yield length per nonterminal of a dependency-acyclic grammar (None if unbounded)"""
    if not M.dep_acyclic(g):
        return None
    memo = {}

    def ml(x):
        if x in memo:
            return memo[x]
        best = -1
        for w, h, b in g["rules"]:
            if h == x:
                tot = 0
                ok = True
                for k, v in b:
                    if k == "T":
                        tot += 1
                    else:
                        r = ml(v)
                        if r < 0:
                            ok = False
                            break
                        tot += r
                if ok:
                    best = max(best, tot)
        memo[x] = best
        return best

    return ml(g["S"])


def totals_coq(ctx, grammars, sr, stream):
    srname = {"Qc": "QcSR", "bool": "BoolSR"}[sr]
    defs, exprs, keys = [], [], []
    for i, g in enumerate(grammars):
        defs.append((f"G{i}", f"Definition G{i} : grammar {srname} := {M.coq_grammar(g, sr)}."))
        h = len(M.nts_of(g)) + 2
        for X in M.nts_of(g):
            exprs.append(f"total_h G{i} {h} {X}%nat")
            keys.append((i, X))
    vals = coq_eval_values(ctx, stream, IMPORTS, defs, exprs, kind="qc" if sr == "Qc" else "bool")
    return dict(zip(keys, vals))


def check_vec(ctx, g, sr, op, enc, ref, hs, tol=None):
    """enc: {name: value} from the driver; ref: {X: value}"""
    for X, want in ref.items():
        v = dec_val(enc.get(M.ntname(X), "0/1" if sr != "bool" else False))
        ctx.count_case((sr, json.dumps(g), op, X, hs), nontrivial=bool(want))
        ok = close_enough(v, want) if tol is None else (isinstance(v, (float, Fraction, int)) and abs(float(v) - float(want)) <= tol * max(1.0, abs(float(want))))
        if not ok:
            sig = f"{op}:{sr}"
            if ctx.seen(sig):
                return
            ctx.violation(sig, f"{op}()[{M.ntname(X)}] = {v}, total weight of its derivation trees is {want} (semiring {sr})",
                          {"kind": "total", "op": op, "sr": sr, "grammar": g, "X": X, "observed": str(v), "expected": str(want)})
            return


def run(ctx):
    quick = ctx.tier == "quick"
    ctx.cov["rule"] = ("agenda(), naive_bottom_up(), treesum(), expected_length on generated grammars: dependency-acyclic grammars with exact rationals vs the Coq tabulated Kleene iterate (proved = sum over all derivation trees), "
                       "all grammars over Booleans vs the Coq iterate (stabilises), convergent cyclic grammars on floats vs the Kleene limit; several hash seeds (pop order); start value vs the sum of the string weights for finite languages; non-trivial = non-zero total")
    try:
        ctx.cov["translators"].append(TE.main())
        ctx.obligation("translate_exprs", True)
        tr_ok = True
    except TE.Refuse as e:
        ctx.obligation("translate_exprs", False, f"translator refused: {e}")
        tr_ok = False
    ok, out = ctx.build(["proofs/AgendaProofs.vo", "proofs/Agenda2Proofs.vo", "proofs/PrefixChart.vo", "proofs/CfgTrees.vo", "proofs/ExpectProofs.vo"]) if tr_ok else (False, "translator")
    if ok:
        ctx.prove("props/C08.v")
    else:
        ctx.obligation("coq-build(C08)", False, out[-3000:])
        ok2, _ = ctx.build(["model/Prefix.vo"])
        if not ok2:
            return
    n = 40 if quick else 400
    seeds = [0, 1, 2] if quick else [0, 1, 2, 3, 4]
    # (a) exact, dependency-acyclic
    gs = []
    while len(gs) < n:
        g = M.rand_grammar(ctx.rng, nN=ctx.rng.randint(2, 5), nrules=ctx.rng.randint(3, 9))
        if M.dep_acyclic(g):
            gs.append(g)
    ref = totals_coq(ctx, gs, "Qc", "totals-exact")
    for g in gs:
        for f in M.features(g):
            ctx.dist("exact:" + f)
        ctx.dist("exact:grammars")
    for hs in seeds:
        res = run_jobs([{"g": g, "sr": "frac", "queries": [{"op": "agenda"}, {"op": "naive"}, {"op": "treesum"}]} for g in gs], hashseed=hs)
        for i, (g, r) in enumerate(zip(gs, res)):
            want = {X: ref[(i, X)] for X in M.nts_of(g)}
            for op, q in zip(("agenda", "naive"), r[:2]):
                if "err" in q:
                    ctx.violation(f"{op}:error:{q['err'][:30]}", f"{op}() raised {q['err']}", {"kind": "total-error", "op": op, "sr": "frac", "grammar": g, "error": q["err"]})
                    continue
                check_vec(ctx, g, "frac", op, q["ok"], want, hs)
            if "ok" in r[2]:
                check_vec(ctx, g, "frac", "treesum", {M.ntname(g["S"]): r[2]["ok"]}, {g["S"]: want[g["S"]]}, hs)
    ctx.sample({"grammar": gs[0], "totals": {M.ntname(X): str(ref[(0, X)]) for X in M.nts_of(gs[0])}})
    # start value = sum over the language; expected length (finite languages, short strings)
    fin = [(i, g) for i, g in enumerate(gs) if (max_yield(g) or 99) <= 4][: (15 if quick else 120)]
    if fin:
        tab = LangTable(ctx, "Qc", "language-sum")
        ids = []
        for i, g in fin:
            gid = tab.add(g)
            ids.append(gid)
            for xs in M.strings(g["nT"], max(max_yield(g), 0)):
                tab.want(gid, list(xs))
        tab.eval()
        res = run_jobs([{"g": g, "sr": "frac", "queries": [{"op": "expected_length"}]} for _, g in fin])
        for (i, g), gid, r in zip(fin, ids, res):
            strs = [list(xs) for xs in M.strings(g["nT"], max(max_yield(g), 0))]
            vals = [tab.get(gid, xs) for xs in strs]
            if any(v is None for v in vals):
                continue
            tot = sum(vals, Fraction(0))
            ctx.count_case(("language-sum", i), nontrivial=tot != 0)
            if tot != ref[(i, g["S"])]:
                ctx.broken.append(("model-consistency(total = sum of string weights)", f"grammar {g}: {tot} vs {ref[(i, g['S'])]}"))
            el = sum((len(xs) * v for xs, v in zip(strs, vals)), Fraction(0))
            q = r[0]
            if "err" in q:
                ctx.violation(f"expected_length:error:{q['err'][:30]}", f"expected_length raised {q['err']}", {"kind": "total-error", "op": "expected_length", "sr": "frac", "grammar": g, "error": q["err"]})
                continue
            v = dec_val(q["ok"])
            if not close_enough(v, el):
                if not ctx.seen("expected_length:frac"):
                    ctx.violation("expected_length:frac", f"expected_length = {v}, weight-weighted total string length is {el}", {"kind": "total", "op": "expected_length", "sr": "frac", "grammar": g, "observed": str(v), "expected": str(el)})
    # (b) Boolean, all grammars
    bg = [M.rand_grammar(ctx.rng, boolean=True, pnull=0.2, punary=0.25, nN=ctx.rng.randint(2, 5)) for _ in range(n)]
    bref = totals_coq(ctx, bg, "bool", "totals-bool")
    for hs in seeds[:2]:
        res = run_jobs([{"g": g, "sr": "bool", "queries": [{"op": "agenda"}, {"op": "naive"}]} for g in bg], hashseed=hs)
        for i, (g, r) in enumerate(zip(bg, res)):
            want = {X: bref[(i, X)] for X in M.nts_of(g)}
            for op, q in zip(("agenda", "naive"), r):
                if "err" in q:
                    ctx.violation(f"{op}:bool-error:{q['err'][:30]}", f"{op}() (Boolean) raised {q['err']}", {"kind": "total-error", "op": op, "sr": "bool", "grammar": g, "error": q["err"]})
                    continue
                check_vec(ctx, g, "bool", op, q["ok"], want, hs)
    # (c) convergent cyclic grammars on floats (search; Kleene limit from the mirror of the model)
    fg = []
    tries = 0
    while len(fg) < (30 if quick else 300) and tries < 20000:
        tries += 1
        g = M.rand_grammar(ctx.rng, weights=[Fraction(1, 4), Fraction(1, 5), Fraction(1, 8), Fraction(1, 3), Fraction(1, 10)], nN=ctx.rng.randint(2, 4))
        if M.dep_acyclic(g):
            continue
        V, conv = M.total_float(g, iters=3000, tol=1e-15)
        if conv:
            fg.append((g, V))
    for hs in seeds[:2]:
        res = run_jobs([{"g": g, "sr": "float", "queries": [{"op": "agenda"}, {"op": "naive"}]} for g, _ in fg], hashseed=hs)
        for (g, V), r in zip(fg, res):
            ctx.dist("float-cyclic:grammars")
            want = {X: V.get(X, 0.0) for X in M.nts_of(g)}
            for op, q in zip(("agenda", "naive"), r):
                ctx.cov["oracle_cases"] += 1
                if "err" in q:
                    ctx.violation(f"{op}:float-error:{q['err'][:30]}", f"{op}() raised {q['err']} on a convergent grammar", {"kind": "total-error", "op": op, "sr": "float", "grammar": g, "error": q["err"]})
                    continue
                check_vec(ctx, g, "float", op, q["ok"], want, hs, tol=1e-7)


def replay(obj):
    g, sr, op = obj["grammar"], obj["sr"], obj["op"]
    r = run_jobs([{"g": g, "sr": sr, "queries": [{"op": op}]}])[0][0]
    print("grammar:", json.dumps(g))
    print(op, "->", r, "expected:", obj.get("expected"))
    return 0
