"""C07: normal forms satisfy their structural postconditions (DESIGN.md §4 C07)."""
import json
import re
from fractions import Fraction

import cfgmodel as M
import translate_cfg as TC
import transforms as TR
from cfgcheck import finitely_ambiguous, decode_grammar, run_jobs
from common import CoqError, coq_eval_bools

IMPORTS = ("From Coq Require Import List Arith Bool.\nImport ListNotations.\nFrom GV.lib Require Import Semiring.\n"
           "From GV.model Require Import Cfg Transform Cky Useful TopDown.")


def is_zero_weight(w):
    if isinstance(w, bool):
        return not w
    try:
        return Fraction(w) == 0
    except (TypeError, ValueError):
        return False


def shape_lit(g):
    h = {"S": g["S"], "nT": g["nT"], "rules": [[True, hd, b] for _, hd, b in g["rules"]]}
    return M.coq_grammar(h, "bool")


def pred_expr(pred, g):
    G = f"({shape_lit(g)} : grammar BoolSR)"
    s = f"{g['S']}%nat"
    return {
        "in_cnf": f"in_cnf {s} {G}",
        "no_nullary_except": f"no_nullary_except {s} {G}",
        "no_unary": f"no_unary {G}",
        "no_unary_cycle": f"negb (unary_cyclic {G})",
        "arity_le2": f"arity_le2 {G}",
        "start_not_on_rhs": f"start_not_on_rhs {s} {G}",
        "terminals_separated": f"terminals_separated {G}",
        "all_useful": f"all_useful {s} {G}",
    }[pred]


def py_pred(pred, g):
    """harness-side mirror of the checkers (used for shrinking only)"""
    S, rules = g["S"], g["rules"]
    if pred == "arity_le2":
        return all(len(b) <= 2 for _, _, b in rules)
    if pred == "no_unary":
        return not any(len(b) == 1 and b[0][0] == "N" for _, _, b in rules)
    if pred == "no_nullary_except":
        return all(h == S for _, h, b in rules if not b)
    if pred == "start_not_on_rhs":
        return not any(["N", S] in b for _, _, b in rules)
    if pred == "terminals_separated":
        return all((len(b) == 1 and b[0][0] == "T") or all(k == "N" for k, _ in b) for _, _, b in rules)
    if pred == "in_cnf":
        return all((not b and h == S) or (len(b) == 1 and b[0][0] == "T") or (len(b) == 2 and all(k == "N" and v != S for k, v in b)) for _, h, b in rules)
    if pred == "no_unary_cycle":
        return not M.unary_cyclic(g)
    if pred == "all_useful":
        gen = set()
        ch = True
        while ch:
            ch = False
            for _, h, b in rules:
                if h not in gen and all(k == "T" or v in gen for k, v in b):
                    gen.add(h)
                    ch = True
        reach = {S}
        ch = True
        while ch:
            ch = False
            for _, h, b in rules:
                if h in reach:
                    for k, v in b:
                        if k == "N" and v not in reach:
                            reach.add(v)
                            ch = True
        return all(h in gen and h in reach and all(k == "T" or (v in gen and v in reach) for k, v in b) for _, h, b in rules)
    raise ValueError(pred)


def decode_same_names(out):
    """trimmed grammar with the INPUT's numbering of nonterminals (trimming invents no names)"""
    V = set(out["V"])
    tmap = {repr(M.tname(a)): a for a in range(26)}

    def nt(name):
        m = re.fullmatch(r"'N(\d+)'", name)
        if not m:
            raise ValueError(name)
        return int(m.group(1))

    rules = [[True, nt(h), [["T", tmap[y]] if y in V else ["N", nt(y)] for y in b]] for _, h, b in out["rules"]]
    return {"S": nt(out["S"]), "nT": 26, "rules": rules}


def report(ctx, sr, g, t, pred, og):
    sig = f"{t[0]}:{pred}"
    if ctx.seen(sig):
        return

    def fails(h):
        r = run_jobs([{"g": h, "sr": sr, "queries": [{"op": "transform", "t": list(t), "xs": None}]}])[0][0]
        if "err" in r:
            return False
        return not py_pred(pred, decode_grammar(r["ok"], sr))

    small = g
    try:
        if t[0] != "unfold" and fails(g):
            small = M.shrink_grammar(g, fails)
    except Exception:
        pass
    ctx.violation(sig, f"{TR.tname(t)}: the result violates `{pred}`",
                  {"kind": "shape", "transform": list(t), "pred": pred, "sr": sr, "grammar": small, "original_grammar": g, "output": og})


def stream(ctx, grammars, sr, hashseed):
    # cfg[X].trim() for every other nonterminal X, after the parent grammar has been trimmed (shared caches)
    extra = lambda g: [("sub_trim", X) for X in M.nts_of(g) if X != g["S"]][:3]
    res = TR.run_transforms(grammars, sr, [None] * len(grammars), ctx.rng, hashseed=hashseed, with_values=False, extra=extra)
    exprs, meta = [], []
    for g, rs in zip(grammars, res):
        for f in M.features(g):
            ctx.dist(f"{sr}:{f}")
        ctx.dist(f"{sr}:grammars")
        for t, r in rs:
            if "err" in r:
                if sr == "float" and ("ZeroDivision" in r["err"] or "timeout" in r["err"]):
                    continue
                ctx.violation(f"{t[0]}:error:{r['err'][:30]}", f"{TR.tname(t)} raised {r['err']}", {"kind": "shape-error", "transform": list(t), "sr": sr, "grammar": g, "error": r["err"]})
                continue
            try:
                og = decode_grammar(r["ok"], sr)
            except Exception:
                continue
            if t[0] == "sub_trim" and r["ok"]["S"] != repr(M.ntname(t[1])):
                if not ctx.seen("sub_trim:start"):
                    ctx.violation("sub_trim:start", f"cfg[{M.ntname(t[1])}].trim() (after cfg.trim()) has the start symbol {r['ok']['S']}: it is the trimmed grammar of another start symbol",
                                  {"kind": "shape", "transform": list(t), "pred": "all_useful", "sr": sr, "grammar": g, "original_grammar": g, "output": og})
                continue
            if t[0] in ("trim", "sub_trim", "cotrim"):
                # the rule list (order included) is the one the Coq model of trimming selects
                try:
                    og2 = decode_same_names(r["ok"])
                    gin = {"S": g["S"], "nT": 26, "rules": [[True, h_, b_] for w_, h_, b_ in g["rules"] if not is_zero_weight(w_)]}
                    mdl = "cotrim" if t[0] == "cotrim" else f"trim_model {t[1] if t[0] == 'sub_trim' else g['S']}%nat"
                    exprs.append(f"shape_eqb ({mdl} ({shape_lit(gin)} : grammar BoolSR)) ({shape_lit(og2)} : grammar BoolSR)")
                    meta.append((g, t, "rules-equal-trim-model", og, None))
                    ctx.count_case((sr, json.dumps(g), TR.tname(t), "rules-equal-trim-model"), nontrivial=len(og["rules"]) > 0)
                except (ValueError, KeyError):
                    ctx.dist("trim-model:undecodable")
            pred = TR.POST.get(t[0])
            if pred:
                exprs.append(pred_expr(pred, og))
                meta.append((g, t, pred, og, None))
                ctx.count_case((sr, json.dumps(g), TR.tname(t), pred), nontrivial=len(og["rules"]) > 0)
            # the library's own predicates must agree with the verified checkers on every output
            exprs.append(f"Bool.eqb ({pred_expr('in_cnf', og)}) {'true' if r['ok']['in_cnf'] else 'false'}")
            meta.append((g, t, "in_cnf()-agrees", og, r["ok"]["in_cnf"]))
            exprs.append(f"Bool.eqb (unary_cyclic ({shape_lit(og)} : grammar BoolSR)) {'true' if r['ok']['has_unary_cycle'] else 'false'}")
            meta.append((g, t, "has_unary_cycle()-agrees", og, r["ok"]["has_unary_cycle"]))
    try:
        failing = coq_eval_bools(ctx, f"shape-{sr}", IMPORTS, exprs, shard=250)
    except CoqError as e:
        ctx.broken.append((f"correspondence(shape-{sr})", str(e)))
        return
    ctx.cov["disagreements_checked"] += len(failing)
    for i in failing:
        g, t, pred, og, _ = meta[i]
        report(ctx, sr, g, t, pred, og)
    if meta:
        ctx.sample({"semiring": sr, "grammar": meta[0][0], "transform": TR.tname(meta[0][1]), "checked": meta[0][2], "output_rules": len(meta[0][3]["rules"])})


def run(ctx):
    quick = ctx.tier == "quick"
    ctx.cov["rule"] = ("random grammars stressing useless symbols, non-generating start symbols, nullable and unary cycles x every transformation/option; each result is read back and the postcondition "
                       "(in_cnf, no nullary except start, no unary, no unary cycle, arity<=2, start not on rhs, terminals separated, all symbols useful) is decided by the Coq checkers, whose specifications are proved; "
                       "the library's in_cnf()/has_unary_cycle() are compared with the checkers on every output; non-trivial = non-empty output grammar")
    try:
        ctx.cov["translators"].append(TC.main())   # CFG._trim / separate_start are regenerated (bridged to the models in C06)
        ctx.obligation("translate_cfg", True)
    except TC.Refuse as e:
        ctx.obligation("translate_cfg", False, f"translator refused: {e}")
    ok, out = ctx.build(["proofs/TrimProofs.vo", "proofs/ShapeProofs.vo", "proofs/UsefulProofs.vo", "proofs/TopDownTrimProofs.vo", "proofs/TrimUsefulProofs.vo", "proofs/CompareSpecs.vo", "model/Useful.vo", "model/Cky.vo", "model/TopDown.vo"])
    if ok:
        ctx.prove("props/C07.v")
    else:
        ctx.obligation("coq-build(C07)", False, out[-3000:])
        ok2, _ = ctx.build(["model/Useful.vo", "model/Cky.vo", "model/TopDown.vo"])
        if not ok2:
            return
    n = 30 if quick else 300
    gs = []
    while len(gs) < n:
        g = M.rand_grammar(ctx.rng, pnull=0.2, punary=0.2)
        if finitely_ambiguous(g):
            gs.append(g)
    stream(ctx, gs, "frac", 0)
    stream(ctx, [M.rand_useless_grammar(ctx.rng) for _ in range(n // 2)], "frac", 3)
    stream(ctx, [M.rand_useless_grammar(ctx.rng, boolean=True) for _ in range(n // 2)], "bool", 4)
    stream(ctx, [M.rand_grammar(ctx.rng, boolean=True, pnull=0.2, punary=0.3) for _ in range(n)], "bool", 1)
    fg = []
    tries = 0
    while len(fg) < (15 if quick else 150) and tries < 5000:
        tries += 1
        g = M.rand_grammar(ctx.rng, weights=[Fraction(1, 4), Fraction(1, 5), Fraction(1, 8), Fraction(1, 3), Fraction(1, 10)], punary=0.25, pnull=0.2)
        if not finitely_ambiguous(g) and M.total_float(g)[1]:
            fg.append(g)
    stream(ctx, fg, "float", 2)


def replay(obj):
    r = run_jobs([{"g": obj["grammar"], "sr": obj["sr"], "queries": [{"op": "transform", "t": obj["transform"], "xs": None}]}])[0][0]
    print("grammar:", json.dumps(obj["grammar"]))
    print("transform:", obj["transform"], "->", json.dumps(r)[:2000])
    if "ok" in r:
        og = decode_grammar(r["ok"], obj["sr"])
        print(obj.get("pred"), "holds now:", py_pred(obj["pred"], og) if obj.get("pred") in TR.POST.values() else "n/a")
    return 0
