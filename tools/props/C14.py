"""C14: real-weighted equivalence test and minimisation are exact (DESIGN.md §4 C14)."""
import itertools
import json
from fractions import Fraction

import fsamodel as F
from fsacheck import run_w
from common import dec_val


def viol(ctx, sig, what, obj):
    if not ctx.seen(sig):
        ctx.violation(sig, what, obj)


def gen(rng, nT=2):
    n = rng.randint(1, 3)
    m = {"nT": nT, "init": [], "final": [], "arcs": []}
    W = lambda: F.fs(Fraction(rng.randint(1, 7), 8))
    for _ in range(rng.randint(1, 2)):
        m["init"].append([rng.randrange(n), W()])
    if rng.random() < 0.9:
        for _ in range(rng.randint(1, 2)):
            m["final"].append([rng.randrange(n), W()])
    for _ in range(rng.randint(0, 5)):
        a = None if rng.random() < 0.12 else rng.randrange(nT)
        i, j = rng.randrange(n), rng.randrange(n)
        if a is None:
            if i == j:
                continue
            i, j = min(i, j), max(i, j)
        m["arcs"].append([i, a, j, W()])
    return F.substochastic(m)


def variant(rng, m):
    """an equivalent automaton (state renaming + a redundant copy of a state) or one differing in a single weight"""
    h = json.loads(json.dumps(m))
    r = rng.random()
    if r < 0.4:
        return h, True
    if r < 0.7:  # add a useless state (half of the time on a symbol the original never mentions)
        k = max(F.states_of(h) + [0]) + 1
        if rng.random() < 0.5:
            h["arcs"].append([k, 0, k, "1/2"])
        else:
            h["nT"] = 3
            h["arcs"].append([k, 2, k, "1/2"])
            if h["init"] and rng.random() < 0.5:
                h["arcs"].append([h["init"][0][0], 2, k, "1/4"])   # reachable, but dead
        return h, True
    for key in ("arcs", "final", "init"):
        if h[key]:
            e = rng.choice(h[key])
            e[-1] = F.fs(Fraction(e[-1]) * Fraction(rng.choice([1, 3]), 2) if Fraction(e[-1]) < Fraction(1, 2) else Fraction(e[-1]) / 2)
            return h, None
    return h, True


def lang_table(m, L):
    return {tuple(x): F.wfsa_oracle(m, list(x)) for x in F.strings(m["nT"], L)}


def rank(rows):
    rows = [r[:] for r in rows]
    rk = 0
    ncol = len(rows[0]) if rows else 0
    for c in range(ncol):
        p = next((r for r in range(rk, len(rows)) if rows[r][c] != 0), None)
        if p is None:
            continue
        rows[rk], rows[p] = rows[p], rows[rk]
        pv = rows[rk][c]
        rows[rk] = [x / pv for x in rows[rk]]
        for r in range(len(rows)):
            if r != rk and rows[r][c] != 0:
                f = rows[r][c]
                rows[r] = [x - f * y for x, y in zip(rows[r], rows[rk])]
        rk += 1
    return rk


def hankel_rank(m):
    n = max(1, len(F.states_of(m)))
    words = [list(x) for x in F.strings(m["nT"], n)]
    if len(words) > 40:
        words = words[:40]
    H = [[F.wfsa_oracle(m, u + v) for v in words] for u in words]
    return rank(H)


TIMPORTS = ("From Coq Require Import List Arith Bool ZArith QArith Qcanon.\nImport ListNotations.\nFrom GV.lib Require Import Semiring BigSum.\nFrom GV.model Require Import Tzeng.")
TDEFS = ("Definition tlook (l : list (nat * nat * nat * Qc)) (a i j : nat) : Qc := fold_right (fun e acc => match e with (a', i', j', w) => if Nat.eqb a a' && Nat.eqb i i' && Nat.eqb j j' then (w + acc)%Qc else acc end) 0%Qc l.\n"
         "Definition vlook (l : list (nat * Qc)) (i : nat) : Qc := fold_right (fun e acc => if Nat.eqb i (fst e) then (snd e + acc)%Qc else acc) 0%Qc l.\n"
         "Definition decide (n : nat) (l : list (nat * nat * nat * Qc)) (d eta : list (nat * Qc)) : nat := match @counterexample QcFR (seq 0 n) (tlook l) (vlook d) (vlook eta) [0%nat; 1%nat; 2%nat] 60 with None => 2%nat | Some None => 0%nat | Some (Some _) => 1%nat end.\n")


def model_stream(ctx, pairs):
    """the Coq model of the search (exact rationals) on the difference automaton of epsilon-free pairs:
    decisions must agree with the implementation's (floats) and with exact equivalence"""
    from common import coq_eval_values, cq

    exprs, keep = [], []
    for a, b in pairs:
        if any(x[1] is None for x in a["arcs"] + b["arcs"]):
            continue
        sa, sb = F.states_of(a), F.states_of(b)
        ia = {q: k for k, q in enumerate(sa)}
        ib = {q: len(sa) + k for k, q in enumerate(sb)}
        n = len(sa) + len(sb)
        arcs = [(x, ia[i], ia[j], Fraction(w)) for i, x, j, w in a["arcs"]] + [(x, ib[i], ib[j], Fraction(w)) for i, x, j, w in b["arcs"]]
        d = [(ia[q], Fraction(w)) for q, w in a["init"]] + [(ib[q], -Fraction(w)) for q, w in b["init"]]
        eta = [(ia[q], Fraction(w)) for q, w in a["final"]] + [(ib[q], Fraction(w)) for q, w in b["final"]]
        L = "[" + "; ".join(f"({x}%nat, {i}%nat, {j}%nat, {cq(w)})" for x, i, j, w in arcs) + "]"
        D = "[" + "; ".join(f"({i}%nat, {cq(w)})" for i, w in d) + "]"
        E = "[" + "; ".join(f"({i}%nat, {cq(w)})" for i, w in eta) + "]"
        exprs.append(f"mkq (Z.of_nat (decide {n}%nat {L} {D} {E})) 1")
        keep.append((a, b))
    if not exprs:
        return {}
    vals = coq_eval_values(ctx, "tzeng-model", TIMPORTS, [("decide", TDEFS)], exprs, kind="qc", shard=40)
    return {(json.dumps(a), json.dumps(b)): int(v) for (a, b), v in zip(keep, vals)}


def run(ctx):
    quick = ctx.tier == "quick"
    ctx.cov["rule"] = ("pairs of small real-weighted automata with weights k/8 (equal up to renaming / useless states, or differing in one weight; epsilon arcs, redundant and useless states, empty language): counterexample / == / hash vs exact equivalence over the rationals "
                       "(all strings shorter than the total number of states), returned counterexamples re-evaluated exactly; min: termination under a wall-clock limit, equivalence with the input on all short strings, number of states vs the exact Hankel rank; non-trivial = automaton with non-empty language")
    ok, out = ctx.build(["proofs/TzengProofs.vo", "model/Tzeng.vo", "proofs/ConjugateProofs.vo"])
    if ok:
        ctx.prove("props/C14.v")
    else:
        ctx.obligation("coq-build(C14)", False, out[-3000:])
    n = 40 if quick else 400
    pairs = []
    for _ in range(n):
        a = gen(ctx.rng)
        b, same = variant(ctx.rng, a) if ctx.rng.random() < 0.7 else (gen(ctx.rng), None)
        a["nT"] = b["nT"] = max(a["nT"], b["nT"])
        if ctx.rng.random() < 0.3 and a["init"] and a["final"]:
            # the second automaton additionally reads a symbol that does not occur in the first one (or vice versa)
            a["nT"] = b["nT"] = 3
            h = b if ctx.rng.random() < 0.7 else a
            # the extra symbol is read after some other symbol as often as right at the start
            inits = [q for q, _ in h["init"]]
            later = [j for i, x, j, _ in h["arcs"] if x is not None and j not in inits]
            src = ctx.rng.choice(later) if later and ctx.rng.random() < 0.6 else (ctx.rng.choice(inits) if inits else 0)
            dst = ctx.rng.choice(h["final"])[0] if h["final"] else 0
            h["arcs"].append([src, 2, dst, "1/8"])
            F.substochastic(h)
            ctx.dist("extra-symbol-in-" + ("second" if h is b else "first"))
        pairs.append((a, b))
    model = model_stream(ctx, pairs) if ok else {}
    res = run_w([{"queries": [{"op": "equiv", "a": a, "b": b, "timeout": 20}, {"op": "min", "m": a, "xs": [list(x) for x in F.strings(a["nT"], 3)], "timeout": 20}]} for a, b in pairs])
    for (a, b), r in zip(pairs, res):
        L = len(F.states_of(a)) + len(F.states_of(b)) + 1
        L = min(L, 6 if a["nT"] == 2 else 5)
        ta, tb = lang_table(a, L), lang_table(b, L)
        equal = ta == tb
        ctx.count_case((json.dumps(a), json.dumps(b)), nontrivial=any(v != 0 for v in ta.values()))
        ctx.dist("equivalent" if equal else "different")
        ctx.cov["oracle_cases"] += 1
        md = model.get((json.dumps(a), json.dumps(b)))
        if md is not None:
            if md == 2:
                ctx.cov["model_out_of_fuel"] += 1
            elif (md == 0) != equal:
                ctx.broken.append(("model-vs-oracle(tzeng)", f"model decision {md} but exact equivalence is {equal}: {a} / {b}"))
        q = r[0]
        if "ok" in q and md in (0, 1) and (q["ok"]["cex"] is None) != (md == 0):
            ctx.broken.append(("correspondence(tzeng)", f"model decision {md}, implementation returned {q['ok']['cex']}: {a} / {b}"))
        if "err" in q:
            viol(ctx, f"equiv:error:{q['err'][:40]}", f"counterexample/== raised {q['err']}", {"kind": "equiv-error", "a": a, "b": b, "error": q["err"]})
        else:
            o = q["ok"]
            if (o["cex"] is None) != equal:
                viol(ctx, "counterexample:decision", f"counterexample() returned {o['cex']} but the automata are {'equivalent' if equal else 'different'} (exact comparison on all strings up to length {L})",
                     {"kind": "equiv", "what": "decision", "a": a, "b": b, "observed": o["cex"], "expected": "None" if equal else "a string"})
            if o["cex"] is not None:
                w, va, vb = o["cex"]
                xa, xb = F.wfsa_oracle(a, w), F.wfsa_oracle(b, w)
                if abs(float(xa) - va) > 1e-9 or abs(float(xb) - vb) > 1e-9 or xa == xb:
                    viol(ctx, "counterexample:witness", f"counterexample {w} reports weights {va}, {vb}; the exact weights are {xa}, {xb}", {"kind": "equiv", "what": "witness", "a": a, "b": b, "observed": o["cex"], "expected": [str(xa), str(xb)]})
            if o["eq"] != equal:
                viol(ctx, "eq:decision", f"A == B is {o['eq']} but the languages are {'equal' if equal else 'different'}", {"kind": "equiv", "what": "eq", "a": a, "b": b, "observed": o["eq"], "expected": equal})
            if equal and not o["hash_eq"]:
                viol(ctx, "hash", "equal automata have different hashes", {"kind": "equiv", "what": "hash", "a": a, "b": b})
        q = r[1]
        if "err" in q:
            viol(ctx, f"min:{'timeout' if 'timeout' in q['err'] else 'error:' + q['err'][:30]}", f"min on an automaton {'did not terminate within 20 s' if 'timeout' in q['err'] else 'raised ' + q['err']}", {"kind": "min-error", "a": a, "error": q["err"]})
        else:
            o = q["ok"]
            for xs, enc in zip(F.strings(a["nT"], 3), o["values"]):
                ref = ta.get(tuple(xs), F.wfsa_oracle(a, list(xs)))
                v = dec_val(enc)
                if abs(float(v) - float(ref)) > 1e-8 * max(1.0, abs(float(ref))):
                    viol(ctx, "min:language", f"min gives {list(xs)} the weight {v}; the input gives {ref}", {"kind": "min", "what": "language", "a": a, "xs": list(xs), "observed": str(v), "expected": str(ref)})
                    break
            hr = hankel_rank(a)
            if o["dim"] != hr:
                viol(ctx, "min:dim", f"min has {o['dim']} states; the Hankel rank of the language is {hr}", {"kind": "min", "what": "dim", "a": a, "observed": o["dim"], "expected": hr})
    ctx.sample({"a": pairs[0][0], "b": pairs[0][1]})


def replay(obj):
    if obj.get("kind", "").startswith("min"):
        q = {"op": "min", "m": obj["a"], "xs": [obj.get("xs", [])], "timeout": 20}
    else:
        q = {"op": "equiv", "a": obj["a"], "b": obj["b"], "timeout": 20}
    r = run_w([{"queries": [q]}])[0][0]
    print(json.dumps(q)[:1500])
    print("->", r, "expected:", obj.get("expected"))
    return 0
