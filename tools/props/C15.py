"""C15: the algebraic path solver computes closures and least solutions (DESIGN.md §4 C15)."""
import json
from fractions import Fraction

import fsamodel as F
import translate_linear as TL
from fsacheck import run_w
from common import CoqError, coq_eval_values, coq_eval_bools, cq, dec_val, close_enough

IMPORTS = "From GV.lib Require Import Semiring BigSum.\nFrom GV.model Require Import Linear Blocks."


def viol(ctx, sig, what, obj):
    if not ctx.seen(sig):
        ctx.violation(sig, what, obj)


def rand_graph(rng, acyclic=False):
    n = rng.randint(1, 5)
    nodes = list(range(n))
    if rng.random() < 0.3:
        nodes = [x * 2 + 1 for x in nodes]  # non-contiguous names
    edges = {}
    for _ in range(rng.randint(0, 2 * n)):
        i, j = rng.choice(nodes), rng.choice(nodes)
        if acyclic:
            if i == j:
                continue
            i, j = min(i, j), max(i, j)
        edges[(i, j)] = Fraction(rng.choice([1, 1, 2, 3]), rng.choice([4, 5, 6, 8]))
    # keep row sums < 1 so that every star converges
    rows = {}
    for (i, j), w in edges.items():
        rows[i] = rows.get(i, Fraction(0)) + w
    edges = {(i, j): (w * Fraction(4, 5) / rows[i] if rows[i] >= Fraction(9, 10) else w) for (i, j), w in edges.items()}
    b = [[rng.choice(nodes), F.fs(Fraction(1, rng.randint(1, 4)))] for _ in range(rng.randint(1, 2))]
    bd = {}
    for i, w in b:
        bd[i] = F.fs(Fraction(bd.get(i, 0)) + Fraction(w))
    return {"nodes": nodes, "edges": [[i, j, F.fs(w)] for (i, j), w in sorted(edges.items())], "b": [[i, w] for i, w in bd.items()]}


def scc_ok(nodes, edges, blocks):
    """harness-side mirror of the Coq checker scc_check: partition, every edge goes to the same or a later block,
    every block strongly connected"""
    flat = [x for b in blocks for x in b]
    if sorted(flat) != sorted(nodes) or any(not b for b in blocks):
        return False
    idx = {x: k for k, b in enumerate(blocks) for x in b}
    if any(idx[i] > idx[j] for i, j in edges):
        return False
    es = set(map(tuple, edges))
    for b in blocks:
        for src in b:
            seen, todo = {src}, [src]
            while todo:
                u = todo.pop()
                for v in b:
                    if (u, v) in es and v not in seen:
                        seen.add(v)
                        todo.append(v)
            if set(b) - seen:
                return False
    return True


def stream_sccs(ctx, quick):
    """the block decomposition on ALL digraphs with three nodes (self-loops included) and on loop-free digraphs with four
    nodes (all of them in the thorough tier), nodes inserted in two orders"""
    import itertools
    graphs = []
    pairs3 = [(i, j) for i in range(3) for j in range(3)]
    for mask in range(1 << 9):
        graphs.append(([0, 1, 2], [list(p) for k, p in enumerate(pairs3) if mask >> k & 1]))
    pairs4 = [(i, j) for i in range(4) for j in range(4) if i != j]
    masks = range(1 << 12) if not quick else [ctx.rng.randrange(1 << 12) for _ in range(400)]
    for mask in masks:
        graphs.append(([0, 1, 2, 3], [list(p) for k, p in enumerate(pairs4) if mask >> k & 1]))
    jobs = []
    for nodes, edges in graphs:
        jobs.append({"queries": [{"op": "blocks_only", "nodes": nodes, "edges": edges}, {"op": "blocks_only", "nodes": nodes[::-1], "edges": edges[::-1]}]})
    res = run_w(jobs, hashseed=ctx.rng.randint(0, 3))
    for (nodes, edges), r in zip(graphs, res):
        ctx.dist(f"scc-exhaustive:nodes:{len(nodes)}")
        for q in r:
            ctx.cov["oracle_cases"] += 1
            if "err" in q:
                viol(ctx, f"blocks:error:{q['err'][:30]}", f"blocks raised {q['err']}", {"kind": "blocks", "graph": {"nodes": nodes, "edges": [[i, j, "1/4"] for i, j in edges], "b": []}, "blocks": None})
                continue
            ctx.count_case(("scc", tuple(nodes), tuple(map(tuple, edges))), nontrivial=bool(edges))
            if not scc_ok(nodes, edges, q["ok"]):
                viol(ctx, "blocks", f"the block decomposition {q['ok']} of the graph with edges {edges} is not the list of strongly connected components in an order compatible with the edges",
                     {"kind": "blocks", "graph": {"nodes": nodes, "edges": [[i, j, "1/4"] for i, j in edges], "b": []}, "blocks": q["ok"]})


def coq_mat(g):
    return "[" + "; ".join(f"({i}%nat, {j}%nat, {cq(Fraction(w))})" for i, j, w in g["edges"]) + "]"


def nlist(l):
    return "[" + "; ".join(f"{x}%nat" for x in l) + "]"


def exact_closure(g):
    nodes = g["nodes"]
    ix = {x: i for i, x in enumerate(nodes)}
    n = len(nodes)
    A = [[Fraction(0)] * n for _ in range(n)]
    for i, j, w in g["edges"]:
        A[ix[i]][ix[j]] += Fraction(w)
    K = F.mat_inv([[Fraction(int(i == j)) - A[i][j] for j in range(n)] for i in range(n)])
    return {(nodes[i], nodes[j]): K[i][j] for i in range(n) for j in range(n)}


def noncommutative_stream(ctx, n, L=4):
    """closed semirings need not be commutative: languages of words of length <= L under union and
    concatenation; reference = labels of all paths enumerated by brute force (search only, no Coq model:
    the Coq development assumes commutativity)"""
    jobs, cases = [], []
    for _ in range(n):
        k = ctx.rng.randint(2, 4)
        nodes = list(range(k))
        edges = {}
        for _ in range(ctx.rng.randint(2, 2 * k)):
            i, j = ctx.rng.choice(nodes), ctx.rng.choice(nodes)
            edges[(i, j)] = ctx.rng.choice("abcd")
        E = [[i, j, lab] for (i, j), lab in sorted(edges.items())]
        b = [[ctx.rng.choice(nodes), "x"]]
        jobs.append({"queries": [{"op": "closure_nc", "nodes": nodes, "edges": E, "b": b, "L": L, "timeout": 30}]})
        cases.append((nodes, E, b))
    res = run_w(jobs)
    for (nodes, E, b), r in zip(cases, res):
        q = r[0]
        ctx.cov["oracle_cases"] += 1
        ctx.dist("noncommutative")
        if "err" in q:
            viol(ctx, f"closure-nc:error:{q['err'][:30]}", f"closure over a non-commutative semiring raised {q['err']}", {"kind": "linear-nc-error", "nodes": nodes, "edges": E, "b": b, "error": q["err"]})
            continue
        # brute force: labels of all paths with at most L edges
        paths = {(i, i): {""} for i in nodes}
        frontier = {(i, i, "") for i in nodes}
        for _ in range(L):
            nxt = set()
            for (i, j, w) in frontier:
                for (p, q_, lab) in E:
                    if p == j and len(w) < L:
                        nxt.add((i, q_, w + lab))
            for (i, j, w) in nxt:
                paths.setdefault((i, j), set()).add(w)
            frontier = nxt
        o = q["ok"]
        for name in ("scc", "ref"):
            for i in nodes:
                for k in nodes:
                    got = set(o[name].get(f"{i},{k}", []))
                    want = paths.get((i, k), set())
                    if got != want:
                        viol(ctx, f"closure_{name}:noncommutative", f"closure_{name}[{i},{k}] over the language semiring = {sorted(got)}; labels of all paths: {sorted(want)}", {"kind": "linear-nc", "what": name, "nodes": nodes, "edges": E, "b": b, "i": i, "k": k, "observed": sorted(got), "expected": sorted(want)})
        bi, bl = b[0]
        for i in nodes:
            wl = {(bl + w)[:L + 9] for w in paths.get((bi, i), set()) if len(bl + w) <= L}     # x = xA + b : b K
            wr = {(w + bl) for w in paths.get((i, bi), set()) if len(w + bl) <= L}            # x = Ax + b : K b
            for name, want in (("solve_left", wl), ("solve_right", wr)):
                got = set(o[name].get(str(i), []))
                if got != want:
                    viol(ctx, f"{name}:noncommutative", f"{name}(b)[{i}] over the language semiring = {sorted(got)}, expected {sorted(want)}", {"kind": "linear-nc", "what": name, "nodes": nodes, "edges": E, "b": b, "i": i, "observed": sorted(got), "expected": sorted(want)})


def run(ctx):
    quick = ctx.tier == "quick"
    ctx.cov["rule"] = ("random weighted graphs (1-5 nodes, self loops, nested cycles, several components, isolated nodes, non-contiguous node names, rational weights with row sums < 1) and right-hand sides: "
                       "closure_scc_based, closure_reference, solve_left, solve_right vs the Coq models (Lehmann elimination over Qc, block solvers run on the implementation's own block list) and the exact inverse of I - A; "
                       "the implementation's block list is fed to the Coq SCC checker (partition, forward edges, strong connectivity); non-trivial = graph with at least one edge")
    try:
        ctx.cov["translators"].append({k: v for k, v in TL.main().items() if k != "text"})
        ctx.obligation("translate_linear", True)
        tr_ok = True
    except TL.Refuse as e:
        ctx.obligation("translate_linear", False, f"translator refused: {e}")
        tr_ok = False
    ok, out = ctx.build(["proofs/LehmannProof.vo", "proofs/ClosureExtra.vo", "proofs/BlockSolver.vo", "model/Blocks.vo", "proofs/GenLinearBridge.vo", "proofs/NilpotentSolveProofs.vo"]) if tr_ok else (False, "translator refused")
    if ok:
        ctx.prove("props/C15.v")
    else:
        ctx.obligation("coq-build(C15)", False, out[-3000:])
        ok2, _ = ctx.build(["model/Blocks.vo"])
        if not ok2:
            return
    stream_sccs(ctx, quick)
    n = 60 if quick else 600
    gs = [rand_graph(ctx.rng, acyclic=(k % 4 == 0)) for k in range(n)]
    res = run_w([{"queries": [{"op": "closure", "nodes": g["nodes"], "edges": g["edges"], "b": g["b"]}]} for g in gs], hashseed=ctx.rng.randint(0, 5))
    exprs, keys, bexprs, bmeta = [], [], [], []
    for gi, (g, r) in enumerate(zip(gs, res)):
        q = r[0]
        ctx.dist(f"nodes:{len(g['nodes'])}")
        ctx.dist("cyclic" if any(i >= j for i, j, _ in g["edges"]) else "acyclic")
        if "err" in q:
            viol(ctx, f"closure:error:{q['err'][:30]}", f"closure/solve raised {q['err']}", {"kind": "linear-error", "graph": g, "error": q["err"]})
            continue
        o = q["ok"]
        A, nodes = coq_mat(g), nlist(g["nodes"])
        blocks = "[" + "; ".join(nlist(b) for b in o["blocks"]) + "]"
        bvec = "[" + "; ".join(f"({i}%nat, {cq(Fraction(w))})" for i, w in g["b"]) + "]"
        # translation validation of the SCC decomposition
        bexprs.append(f"@scc_check QcStar {nodes} {blocks} {A}")
        bmeta.append((g, o["blocks"]))
        for i in g["nodes"]:
            for k in g["nodes"]:
                exprs.append(f"@mget QcStar (@lehmann QcStar {nodes} {A}) {i}%nat {k}%nat")
                keys.append((gi, "ref", i, k))
                exprs.append(f"@mget QcStar (@closure_scc QcStar {nodes} {blocks} {A}) {i}%nat {k}%nat")
                keys.append((gi, "scc", i, k))
            exprs.append(f"@vget QcStar (@solve_left QcStar {nodes} {blocks} {A} {bvec}) {i}%nat")
            keys.append((gi, "solve_left", i, None))
            exprs.append(f"@vget QcStar (@solve_right QcStar {nodes} {blocks} {A} {bvec}) {i}%nat")
            keys.append((gi, "solve_right", i, None))
    vals = dict(zip(keys, coq_eval_values(ctx, "closure", IMPORTS, [], exprs, kind="qc", shard=400)))
    try:
        failing = coq_eval_bools(ctx, "blocks", "From Coq Require Import List Arith ZArith QArith Qcanon.\nImport ListNotations.\n" + IMPORTS, bexprs, shard=200)
    except CoqError as e:
        ctx.broken.append(("correspondence(blocks)", str(e)))
        failing = []
    for k in failing:
        g, bl = bmeta[k]
        viol(ctx, "blocks", f"the block decomposition {bl} is not the list of strongly connected components in an order compatible with the edges", {"kind": "blocks", "graph": g, "blocks": bl})
    for gi, (g, r) in enumerate(zip(gs, res)):
        q = r[0]
        if "err" in q:
            continue
        o = q["ok"]
        K = exact_closure(g)
        bd = {i: Fraction(w) for i, w in g["b"]}
        for i in g["nodes"]:
            for k in g["nodes"]:
                ref = vals[(gi, "ref", i, k)]
                if ref != K[(i, k)] or vals[(gi, "scc", i, k)] != K[(i, k)]:
                    ctx.broken.append(("model-vs-oracle(closure)", f"{g} {i},{k}: {ref} / {vals[(gi, 'scc', i, k)]} vs {K[(i, k)]}"))
                for name in ("scc", "ref"):
                    v = dec_val(o[name].get(f"{i},{k}", "0/1"))
                    ctx.count_case((gi, name, i, k), nontrivial=bool(g["edges"]))
                    if not close_enough(v, K[(i, k)], rel=1e-9):
                        viol(ctx, f"closure_{name}", f"closure_{name}[{i},{k}] = {v}; total weight of all paths is {K[(i, k)]}", {"kind": "linear", "what": name, "graph": g, "i": i, "k": k, "observed": str(v), "expected": str(K[(i, k)])})
            # x = xA + b  =>  x = b K ;  x = Ax + b  =>  x = K b
            xl = sum((bd.get(j, 0) * K[(j, i)] for j in g["nodes"]), Fraction(0))
            xr = sum((K[(i, j)] * bd.get(j, 0) for j in g["nodes"]), Fraction(0))
            for name, want in (("solve_left", xl), ("solve_right", xr)):
                if vals[(gi, name, i, None)] != want:
                    ctx.broken.append((f"model-vs-oracle({name})", f"{g} node {i}: {vals[(gi, name, i, None)]} vs {want}"))
                v = dec_val(o[name].get(str(i), "0/1"))
                ctx.cov["oracle_cases"] += 1
                if not close_enough(v, want, rel=1e-9):
                    viol(ctx, name, f"{name}(b)[{i}] = {v}; least solution is {want}", {"kind": "linear", "what": name, "graph": g, "i": i, "observed": str(v), "expected": str(want)})
    noncommutative_stream(ctx, 25 if quick else 250)
    ctx.sample({"graph": gs[0], "blocks": res[0][0].get("ok", {}).get("blocks")})


def replay(obj):
    if obj.get("kind", "").startswith("linear-nc"):
        r = run_w([{"queries": [{"op": "closure_nc", "nodes": obj["nodes"], "edges": obj["edges"], "b": obj["b"], "L": 4}]}])[0][0]
        print(json.dumps({k: obj[k] for k in ("nodes", "edges", "b")}))
        print("->", json.dumps(r)[:2000], "expected:", obj.get("expected"))
        return 0
    g = obj["graph"]
    r = run_w([{"queries": [{"op": "closure", "nodes": g["nodes"], "edges": g["edges"], "b": g["b"]}]}])[0][0]
    print("graph:", json.dumps(g))
    print("->", json.dumps(r)[:2000], "expected:", obj.get("expected"))
    return 0
