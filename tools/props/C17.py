"""C17: automaton-to-grammar and byte-level conversions preserve weights (DESIGN.md §4 C17)."""
import itertools
import json
from fractions import Fraction

import cfgmodel as M
import fsamodel as F
import translate_tocfg as TT
import translate_cfgbytes as TB
from cfgcheck import LangTable
from fsacheck import WTable, run_w, coq_str
from common import dec_val, close_enough

# 1-, 2-, 3-, 4-byte characters; é and ü share their first byte; € (e2 82 ac) and ス (e3 82 b9) share a byte that is not
# the first one under different prefixes; 🟠 (f0 9f 9f a0) repeats a continuation byte
SYMS = ["a", "é", "€", "😀", "ス", "ü", "🟠"]
GSYMS = ["a", "é", "ab", "€b", "😀", "ü"]  # grammar terminals may be multi-character strings


def viol(ctx, sig, what, obj):
    if not ctx.seen(sig):
        ctx.violation(sig, what, obj)


def decodings(bs, table):
    """all symbol strings whose UTF-8 encoding is the byte string bs"""
    encs = [(k, list(s.encode("utf-8"))) for k, s in enumerate(table)]
    out = []

    def rec(pos, acc):
        if pos == len(bs):
            out.append(list(acc))
            return
        for k, e in encs:
            if bs[pos:pos + len(e)] == e:
                acc.append(k)
                rec(pos + len(e), acc)
                acc.pop()

    rec(0, [])
    return out


def byte_strings(rng, table, n):
    """encodings of short symbol strings, truncated multi-byte characters, and byte noise"""
    out = []
    for L in range(0, 3):
        for xs in itertools.product(range(len(table)), repeat=L):
            out.append(list("".join(table[k] for k in xs).encode("utf-8")))
    out = [list(x) for x in {tuple(b) for b in out}]
    rng.shuffle(out)
    singles = [list(t.encode("utf-8")) for t in table]
    out = singles + [b for b in out if b not in singles][:n]
    trunc = [b[:-1] for b in out if len(b) > 1][:8] + [b[1:] for b in out if len(b) > 1][:6]
    # byte strings obtained by exchanging one byte between two multi-byte code words (another symbol, or no code word at all)
    mb = [e for e in singles if len(e) > 1]
    mixes = []
    for e1 in mb:
        for e2 in mb:
            for pos in range(len(e1)):
                for b2 in set(e2):
                    z = e1[:pos] + [b2] + e1[pos + 1:]
                    if z != e1 and z not in mixes:
                        mixes.append(z)
    rng.shuffle(mixes)
    return out + trunc + mixes[:12]


def run(ctx):
    quick = ctx.tier == "quick"
    ctx.cov["rule"] = ("to_cfg (left and right recursion) on random automata with epsilon arcs, on automata built by from_string / from_strings (state names equal to alphabet symbols) vs the Coq weight of the automaton; "
                       "WFSA.to_bytes and CFG.to_bytes over alphabets mixing 1-4-byte characters (shared first bytes; multi-character grammar terminals) on encodings, truncated encodings and noise vs the sum over decodings of the original weights; "
                       "two byte-converted automata merged into one grammar; non-trivial = non-zero weight")
    try:
        ctx.cov["translators"].append({k: v for k, v in TT.main().items() if k != "text"})
        ctx.obligation("translate_tocfg", True)
        tr_ok = True
    except TT.Refuse as e:
        ctx.obligation("translate_tocfg", False, f"translator refused: {e}")
        tr_ok = False
    try:
        ctx.cov["translators"].append({k: v for k, v in TB.main().items() if k != "text"})   # CFG.to_bytes (bridged in proofs/GenCfgBytesBridge.v)
        ctx.obligation("translate_cfgbytes", True)
    except TB.Refuse as e:
        ctx.obligation("translate_cfgbytes", False, f"translator refused: {e}")
        tr_ok = False
    ok, out = ctx.build(["proofs/ConvertProofs.vo", "proofs/GenToCfgBridge.vo", "proofs/BytesProofs.vo", "proofs/CfgBytesProofs.vo", "proofs/GenCfgBytesBridge.vo", "proofs/WfsaProofs.vo", "model/EpsSpec.vo", "proofs/CfgChart.vo"]) if tr_ok else (False, "translator refused")
    if ok:
        ctx.prove("props/C17.v")
    else:
        ctx.obligation("coq-build(C17)", False, out[-3000:])
        ok2, _ = ctx.build(["model/EpsSpec.vo"])
        if not ok2:
            return
    n = 40 if quick else 400
    # ---- to_cfg on random automata
    ms = [F.rand_wfsa(ctx.rng, peps=ctx.rng.choice([0.0, 0.2, 0.4]), eps_acyclic=True, nT=2) for _ in range(n)]
    tab = WTable(ctx, "automaton")
    strs = [list(x) for x in F.strings(2, 3)]
    for i, m in enumerate(ms):
        name = tab.machine(m)
        for xs in strs:
            tab.want((i, tuple(xs)), f"@call QcStar {name} {coq_str(xs)}")
    tab.eval()
    for rec in ("right", "left"):
        res = run_w([{"queries": [{"op": "to_cfg", "m": m, "xs": strs, "recursion": rec, "timeout": 40}]} for m in ms])
        for i, (m, r) in enumerate(zip(ms, res)):
            q = r[0]
            if "err" in q:
                viol(ctx, f"to_cfg:{rec}:error:{q['err'][:30]}", f"to_cfg({rec}) raised {q['err']}", {"kind": "convert-error", "op": "to_cfg", "recursion": rec, "machine": m, "error": q["err"]})
                continue
            for xs, enc in zip(strs, q["ok"]):
                ref = tab.get((i, tuple(xs)))
                ctx.count_case((i, rec, tuple(xs)), nontrivial=ref != 0)
                if not close_enough(dec_val(enc), ref, rel=1e-9):
                    viol(ctx, f"to_cfg:{rec}", f"to_cfg(recursion={rec})({xs}) = {dec_val(enc)}; the automaton gives {ref}", {"kind": "convert", "op": "to_cfg", "recursion": rec, "machine": m, "xs": xs, "observed": str(dec_val(enc)), "expected": str(ref)})
    # ---- to_cfg on automata with epsilon cycles and epsilon self-loops (floats; reference: exact path sums with (I-E)^-1)
    cm = []
    while len(cm) < (25 if quick else 250):
        m = F.rand_wfsa(ctx.rng, peps=0.45, eps_acyclic=False, nT=2, n=ctx.rng.randint(1, 3), ws=[Fraction(1, 2), Fraction(1, 3), Fraction(1, 4), Fraction(1, 5)])
        if ctx.rng.random() < 0.6 and m["init"]:
            q0 = ctx.rng.choice([m["init"][0][0]] + [j for _, _, j, _ in m["arcs"]])
            m["arcs"].append([q0, None, q0, "1/4"])  # epsilon self-loop
            F.substochastic(m)
        if any(a is None and i == j for i, a, j, _ in m["arcs"]) or any(a is None for _, a, _, _ in m["arcs"]):
            cm.append(m)
    for rec in ("right", "left"):
        res = run_w([{"queries": [{"op": "to_cfg", "m": m, "xs": strs, "recursion": rec, "flt": True, "timeout": 40}]} for m in cm])
        for m, r in zip(cm, res):
            q = r[0]
            ctx.dist("to_cfg:eps-cyclic")
            if "err" in q:
                if "timeout" in q["err"]:
                    continue
                viol(ctx, f"to_cfg:{rec}:float-error:{q['err'][:30]}", f"to_cfg({rec}) raised {q['err']}", {"kind": "convert-error", "op": "to_cfg", "recursion": rec, "flt": True, "machine": m, "error": q["err"]})
                continue
            for xs, enc in zip(strs, q["ok"]):
                ref = F.wfsa_oracle(m, xs)
                ctx.cov["oracle_cases"] += 1
                ctx.count_case(("eps-cyclic", json.dumps(m), rec, tuple(xs)), nontrivial=ref != 0)
                if not close_enough(dec_val(enc), ref, rel=1e-7):
                    viol(ctx, f"to_cfg:{rec}:eps-cyclic", f"to_cfg(recursion={rec})({xs}) = {dec_val(enc)} on an automaton with epsilon cycles; the automaton's path sum is {ref}",
                         {"kind": "convert", "op": "to_cfg", "recursion": rec, "flt": True, "machine": m, "xs": xs, "observed": str(dec_val(enc)), "expected": str(ref)})
    # ---- to_cfg on automata whose state names coincide with alphabet symbols (library constructors)
    jobs, cases = [], []
    for _ in range(10 if quick else 60):
        w = [ctx.rng.randrange(2) for _ in range(ctx.rng.randint(1, 3))]
        Xs = [[ctx.rng.randrange(2) for _ in range(ctx.rng.randint(1, 3))] for _ in range(ctx.rng.randint(1, 3))]
        for rec in ("right", "left"):
            jobs.append({"queries": [{"op": "to_cfg", "e": {"op": "from_string", "xs": w}, "xs": strs, "recursion": rec}, {"op": "to_cfg", "e": {"op": "from_strings", "Xs": Xs}, "xs": strs, "recursion": rec}]})
            cases.append((w, Xs, rec))
    res = run_w(jobs)
    for (w, Xs, rec), r in zip(cases, res):
        for which, q, member in (("from_string", r[0], lambda xs: xs == w), ("from_strings", r[1], lambda xs: xs in Xs)):
            if "err" in q:
                viol(ctx, f"to_cfg:{which}:error:{q['err'][:30]}", f"{which}(...).to_cfg({rec}) raised {q['err']}", {"kind": "convert-error", "op": "to_cfg-names", "which": which, "w": w, "Xs": Xs, "recursion": rec, "error": q["err"]})
                continue
            for xs, enc in zip(strs, q["ok"]):
                ref = Fraction(1 if member(xs) else 0)
                ctx.cov["oracle_cases"] += 1
                if not close_enough(dec_val(enc), ref):
                    viol(ctx, f"to_cfg:{which}:{rec}", f"WFSA.{which}({w if which == 'from_string' else Xs}).to_cfg(recursion={rec})({xs}) = {dec_val(enc)}, expected {ref} (state names coincide with alphabet symbols)",
                         {"kind": "convert", "op": "to_cfg-names", "which": which, "w": w, "Xs": Xs, "recursion": rec, "xs": xs, "observed": str(dec_val(enc)), "expected": str(ref)})
    # ---- WFSA.to_bytes
    k = len(SYMS)
    bm = [F.rand_wfsa(ctx.rng, nT=k, peps=0.15, eps_acyclic=True, narcs=ctx.rng.randint(2, 8)) for _ in range(n)]
    for m in bm[::2]:   # several multi-byte symbols leaving one state (towards different states)
        if m["init"]:
            src = m["init"][0][0]
            for a in ctx.rng.sample(range(1, k), ctx.rng.randint(2, 4)):
                m["arcs"].append([src, a, ctx.rng.choice(F.states_of(m)), F.fs(Fraction(1, ctx.rng.randint(3, 9)))])
            F.substochastic(m)
    btab = WTable(ctx, "bytes-automaton")
    plan = []
    for i, m in enumerate(bm):
        name = btab.machine(m)
        bss = byte_strings(ctx.rng, SYMS, 14)
        # cross-overs between the code words of multi-byte symbols that leave one and the same state of THIS automaton
        by_src = {}
        for i_, a_, j_, w_ in m["arcs"]:
            if a_ is not None and len(SYMS[a_].encode("utf-8")) > 1:
                by_src.setdefault(i_, set()).add(a_)
        for syms_ in by_src.values():
            for a1 in syms_:
                for a2 in syms_:
                    e1, e2 = list(SYMS[a1].encode("utf-8")), list(SYMS[a2].encode("utf-8"))
                    if a1 == a2 or len(e1) != len(e2):
                        continue
                    for pos in range(len(e1)):
                        z = e1[:pos] + [e2[pos]] + e1[pos + 1:]
                        if z != e1 and z != e2 and z not in bss:
                            bss.append(z)
        for bs in bss:
            for xs in decodings(bs, SYMS):
                btab.want((i, tuple(xs)), f"@call QcStar {name} {coq_str(xs)}")
        plan.append((m, bss))
    btab.eval()
    res = run_w([{"queries": [{"op": "to_bytes_call", "m": m, "symtab": SYMS, "bss": bss}]} for m, bss in plan])
    for i, ((m, bss), r) in enumerate(zip(plan, res)):
        q = r[0]
        if "err" in q:
            viol(ctx, f"to_bytes:error:{q['err'][:30]}", f"WFSA.to_bytes raised {q['err']}", {"kind": "convert-error", "op": "to_bytes", "machine": m, "error": q["err"]})
            continue
        for bs, enc in zip(bss, q["ok"]):
            ref = sum((btab.get((i, tuple(xs))) for xs in decodings(bs, SYMS)), Fraction(0))
            ctx.count_case((i, "bytes", tuple(bs)), nontrivial=ref != 0)
            if not close_enough(dec_val(enc), ref, rel=1e-9):
                viol(ctx, "to_bytes", f"to_bytes()({bs}) = {dec_val(enc)}; total weight of the symbol strings it encodes is {ref}", {"kind": "convert", "op": "to_bytes", "machine": m, "bytes": bs, "observed": str(dec_val(enc)), "expected": str(ref)})
    # ---- CFG.to_bytes (multi-character terminals)
    gs = []
    while len(gs) < (20 if quick else 200):
        g = M.rand_grammar(ctx.rng, nN=ctx.rng.randint(1, 3), nT=len(GSYMS), nrules=ctx.rng.randint(2, 6), maxlen=2)
        if M.dep_acyclic(g):
            gs.append(g)
    gtab = LangTable(ctx, "Qc", "bytes-grammar")
    gplan = []
    for g in gs:
        gid = gtab.add(g)
        bss = byte_strings(ctx.rng, GSYMS, 12)
        for bs in bss:
            for xs in decodings(bs, GSYMS):
                if len(xs) <= 4:
                    gtab.want(gid, xs)
        gplan.append((g, gid, bss))
    gtab.eval()
    res = run_w([{"queries": [{"op": "cfg_to_bytes_call", "g": g, "symtab": GSYMS, "bss": bss, "timeout": 40}]} for g, gid, bss in gplan])
    for (g, gid, bss), r in zip(gplan, res):
        q = r[0]
        if "err" in q:
            viol(ctx, f"cfg_to_bytes:error:{q['err'][:30]}", f"CFG.to_bytes raised {q['err']}", {"kind": "convert-error", "op": "cfg_to_bytes", "grammar": g, "error": q["err"]})
            continue
        for bs, enc in zip(bss, q["ok"]):
            decs = [xs for xs in decodings(bs, GSYMS) if len(xs) <= 4]
            vals = [gtab.get(gid, xs) for xs in decs]
            if any(v is None for v in vals):
                continue
            ref = sum(vals, Fraction(0))
            ctx.count_case(("cfg-bytes", json.dumps(g), tuple(bs)), nontrivial=ref != 0)
            if not close_enough(dec_val(enc), ref, rel=1e-9):
                viol(ctx, "cfg_to_bytes", f"cfg.to_bytes()({bs}) = {dec_val(enc)}; total weight of the terminal strings it encodes is {ref}", {"kind": "convert", "op": "cfg_to_bytes", "grammar": g, "bytes": bs, "observed": str(dec_val(enc)), "expected": str(ref)})
    # ---- two byte-converted automata merged into one grammar
    jobs, cases = [], []
    for _ in range(8 if quick else 60):
        s1, s2 = ctx.rng.sample([1, 2, 3, 4, 5, 6], 2)   # multi-byte symbols
        m1 = {"nT": k, "init": [[0, "1/1"]], "final": [[1, "1/1"]], "arcs": [[0, s1, 1, "1/2"]]}
        m2 = {"nT": k, "init": [[0, "1/1"]], "final": [[1, "1/1"]], "arcs": [[0, s2, 1, "1/3"]]}
        cands = [[a, b] for a in (s1, s2) for b in (s1, s2)]
        bss = [list((SYMS[a] + SYMS[b]).encode("utf-8")) for a, b in cands]
        jobs.append({"queries": [{"op": "bytes_merge", "m1": m1, "m2": m2, "symtab": SYMS, "bss": bss}]})
        cases.append((m1, m2, s1, s2, cands, bss))
    res = run_w(jobs)
    for (m1, m2, s1, s2, cands, bss), r in zip(cases, res):
        q = r[0]
        if "err" in q:
            viol(ctx, f"bytes_merge:error:{q['err'][:30]}", f"merging byte-converted automata raised {q['err']}", {"kind": "convert-error", "op": "bytes_merge", "m1": m1, "m2": m2, "error": q["err"]})
            continue
        for (a, b), bs, enc in zip(cands, bss, q["ok"]):
            ref = Fraction(1, 6) if (a, b) == (s1, s2) else Fraction(0)
            ctx.cov["oracle_cases"] += 1
            if not close_enough(dec_val(enc), ref, rel=1e-9):
                viol(ctx, "bytes_merge", f"grammar S -> A B with A = bytes('{SYMS[s1]}'), B = bytes('{SYMS[s2]}') gives '{SYMS[a]}{SYMS[b]}' the weight {dec_val(enc)}, expected {ref}",
                     {"kind": "convert", "op": "bytes_merge", "m1": m1, "m2": m2, "bytes": bs, "observed": str(dec_val(enc)), "expected": str(ref)})
    ctx.sample({"machine": ms[0], "strings": strs[:4], "alphabet": SYMS})


def replay(obj):
    op = obj["op"]
    if op == "to_cfg":
        q = {"op": "to_cfg", "m": obj["machine"], "xs": [obj.get("xs", [])], "recursion": obj["recursion"], "flt": obj.get("flt", False)}
    elif op == "to_cfg-names":
        e = {"op": "from_string", "xs": obj["w"]} if obj["which"] == "from_string" else {"op": "from_strings", "Xs": obj["Xs"]}
        q = {"op": "to_cfg", "e": e, "xs": [obj.get("xs", [])], "recursion": obj["recursion"]}
    elif op == "to_bytes":
        q = {"op": "to_bytes_call", "m": obj["machine"], "symtab": SYMS, "bss": [obj.get("bytes", [])]}
    elif op == "cfg_to_bytes":
        q = {"op": "cfg_to_bytes_call", "g": obj["grammar"], "symtab": GSYMS, "bss": [obj.get("bytes", [])]}
    else:
        q = {"op": "bytes_merge", "m1": obj["m1"], "m2": obj["m2"], "symtab": SYMS, "bss": [obj.get("bytes", [])]}
    r = run_w([{"queries": [q]}])[0][0]
    print(json.dumps(q)[:1500])
    print("->", r, "expected:", obj.get("expected"))
    return 0
