"""C06: normal-form transformations preserve the weighted language (DESIGN.md §4 C06)."""
import json
from fractions import Fraction

import cfgmodel as M
import translate_cfg as TC
import transforms as TR
from cfgcheck import LangTable, finitely_ambiguous, decode_grammar, run_jobs
from common import dec_val, close_enough


def strings_for(ctx, g, maxlen, cap=24):
    strs = [list(x) for x in M.strings(g["nT"], maxlen)]
    if len(strs) > cap:
        strs = strs[:cap // 2] + ctx.rng.sample(strs[cap // 2:], cap - cap // 2)
    return strs


def shrink_and_report(ctx, sr, g, t, xs, got, want, how):
    sig = f"{TR.tname(t) if t[0] != 'unfold' else 'unfold'}:{how}"
    if ctx.seen(sig):
        return

    def fails(h):
        if t[0] == "unfold":
            return False
        r = run_jobs([{"g": h, "sr": sr, "queries": [{"op": "transform", "t": list(t), "xs": [list(xs)]}]}])[0][0]
        mir = (M.mirror_exact(h) if sr == "frac" else M.mirror_bool(h) if sr == "bool" else M.mirror_float(h))
        if sr != "bool" and not finitely_ambiguous(h):
            return False
        ref = mir.lang(h["S"], list(xs), fuel=40)
        if ref is None:
            return False
        if "err" in r:
            return how == "error"
        if how == "error":
            return False
        out = decode_grammar(r["ok"], sr)
        omir = (M.mirror_exact(out) if sr == "frac" else M.mirror_bool(out))
        try:
            v = omir.lang(out["S"], list(xs), fuel=40)
        except Exception:
            return False
        return v is not None and v != ref

    small = g
    try:
        if sr in ("frac", "bool") and fails(g):
            small = M.shrink_grammar(g, fails)
    except Exception:
        pass
    ctx.violation(sig, f"{TR.tname(t)}: weight of {list(xs)} is {got} after the transformation, {want} before ({how}, semiring {sr})",
                  {"kind": "transform", "transform": list(t), "sr": sr, "grammar": small, "original_grammar": g, "xs": list(xs), "observed": str(got), "expected": str(want), "how": how})


def stream(ctx, grammars, sr, maxlen, hashseed, same_object=False):
    coq_sr = "Qc" if sr == "frac" else "bool"
    tab = LangTable(ctx, coq_sr, f"orig-{sr}")
    strs = [strings_for(ctx, g, maxlen) for g in grammars]
    gids = []
    for g, xs in zip(grammars, strs):
        gid = tab.add(g)
        gids.append(gid)
        for x in xs:
            tab.want(gid, x)
        for f in M.features(g):
            ctx.dist(f"{sr}:{f}")
        ctx.dist(f"{sr}:grammars")
    # same_object: all transformations are applied, in a random order, to ONE grammar object (caches, memo tables and
    # name counters are shared between them) instead of to a fresh copy each
    res = TR.run_transforms(grammars, sr, strs, ctx.rng, hashseed=hashseed, fresh=not same_object, shuffle=same_object,
                            extra=(lambda g: TR.chains(g, ctx.rng)))
    if same_object:
        for _ in grammars:
            ctx.dist(f"{sr}:same-object")
    # second table: the transformed grammars evaluated by the same proved reference semantics
    otab = LangTable(ctx, coq_sr, f"out-{sr}")
    outs = []
    for g, xs, rs in zip(grammars, strs, res):
        row = []
        for t, r in rs:
            if "err" in r:
                row.append((t, r, None, None))
                continue
            try:
                og = decode_grammar(r["ok"], sr)
            except Exception as e:  # unexpected symbol kinds: cannot be evaluated by the model
                row.append((t, r, None, None))
                continue
            if sr == "frac" and not finitely_ambiguous(og):
                row.append((t, r, og, None))  # e.g. unfold of a recursive rule keeps finiteness; otherwise skip exact eval
                continue
            ogid = otab.add(og)
            for x in xs:
                otab.want(ogid, x)
            row.append((t, r, og, ogid))
        outs.append(row)
    tab.eval()
    otab.eval()
    for gid, g, xs, row in zip(gids, grammars, strs, outs):
        for t, r, og, ogid in row:
            ctx.dist("transform:" + t[0])
            if "err" in r:
                shrink_and_report(ctx, sr, g, t, [], r["err"], "no error", "error")
                continue
            vals = r["ok"].get("values")
            for k, x in enumerate(xs):
                ref = tab.get(gid, x)
                if ref is None:
                    continue
                ctx.count_case((sr, gid, TR.tname(t), tuple(x), hashseed), nontrivial=bool(ref))
                if ogid is not None:
                    ov = otab.get(ogid, x)
                    if ov is not None and ov != ref and not (og.get("inexact") and close_enough(float(ov), ref, rel=1e-9)):
                        shrink_and_report(ctx, sr, g, t, x, ov, ref, "grammar")
                        continue
                if vals is not None:
                    v = dec_val(vals[k])
                    if not close_enough(v, ref, rel=1e-9):
                        shrink_and_report(ctx, sr, g, t, x, v, ref, "call")
    ctx.sample({"semiring": sr, "grammar": grammars[0], "transforms": [TR.tname(t) for t, *_ in outs[0]], "strings": strs[0][:4]})


def stream_float(ctx, n, maxlen):
    gs = []
    tries = 0
    while len(gs) < n and tries < 60 * n:
        tries += 1
        g = (M.rand_linked_unary_cycles(ctx.rng, boolean=False) if tries % 4 == 0
             else M.rand_grammar(ctx.rng, weights=[Fraction(1, 4), Fraction(1, 5), Fraction(1, 8), Fraction(1, 3), Fraction(1, 10)]))
        if finitely_ambiguous(g):
            continue
        if M.total_float(g)[1]:
            gs.append(g)
    strs = [strings_for(ctx, g, maxlen, cap=16) for g in gs]
    res = TR.run_transforms(gs, "float", strs, ctx.rng)
    for g, xs, rs in zip(gs, strs, res):
        ctx.dist("float-cyclic:grammars")
        m = M.mirror_float(g)
        refs = [m.lang(g["S"], x, fuel=400, tol=1e-14) for x in xs]
        for t, r in rs:
            if "err" in r:
                # divergent closures (star of a weight >= 1) are outside the property's domain
                if "ZeroDivision" in r["err"] or "timeout" in r["err"]:
                    continue
                ctx.violation(f"{TR.tname(t)}:float-error", f"{TR.tname(t)} raised {r['err']} on a convergent grammar", {"kind": "transform", "transform": list(t), "sr": "float", "grammar": g, "error": r["err"]})
                continue
            for x, enc, ref in zip(xs, r["ok"]["values"], refs):
                if ref is None:
                    continue
                v = dec_val(enc)
                ctx.cov["oracle_cases"] += 1
                ctx.count_case(("float", json.dumps(g), TR.tname(t), tuple(x)), nontrivial=ref != 0)
                if not isinstance(v, (float, Fraction)) or abs(float(v) - ref) > 1e-6 * max(1.0, abs(ref)):
                    sig = f"{TR.tname(t) if t[0] != 'unfold' else 'unfold'}:float-cyclic"
                    ctx.violation(sig, f"{TR.tname(t)}: weight of {x} is {v} after the transformation, Kleene limit before is {ref}",
                                  {"kind": "transform", "transform": list(t), "sr": "float", "grammar": g, "xs": x, "observed": str(v), "expected": ref})


def run(ctx):
    quick = ctx.tier == "quick"
    ctx.cov["rule"] = ("random grammars x every transformation and option (trim, cotrim, binarize, separate_start, separate_terminals, nullaryremove x flags, unaryremove, unarycycleremove x flag, cnf, renumber, rename, unfold at random sites) x strings to a length bound; "
                       "the transformed grammar is read back and evaluated by the proved reference semantics (Coq `lang`) and compared with the reference value of the input grammar; T(cfg)(xs) is compared too; exact rationals on finitely ambiguous grammars, Booleans on all grammars, floats vs the Kleene limit on convergent cyclic grammars; non-trivial = non-zero weight")
    try:
        ctx.cov["translators"].append(TC.main())
        ctx.obligation("translate_cfg", True)
        tr_ok = True
    except TC.Refuse as e:
        ctx.obligation("translate_cfg", False, f"translator refused: {e}")
        tr_ok = False
    ok, out = ctx.build(["proofs/CfgTrees.vo", "proofs/CfgChart.vo", "proofs/CkyProofs.vo", "proofs/TrimProofs.vo", "proofs/NormProofs.vo", "proofs/GenCfgBridge.vo", "proofs/UnfoldTreeProofs.vo", "proofs/BinTreeProofs.vo", "proofs/NullUnaryProofs.vo", "proofs/TopDownTrimProofs.vo", "proofs/ReachProofs.vo", "proofs/UnaryCycleProofs.vo"]) if tr_ok else (False, "translator refused")
    if ok:
        ctx.prove("props/C06.v")
    else:
        ctx.obligation("coq-build(C06)", False, out[-3000:])
        ok2, _ = ctx.build(["proofs/CfgChart.vo"])
        if not ok2:
            return
    nG = 25 if quick else 250
    gs = []
    while len(gs) < nG:
        g = M.rand_nullable_grammar(ctx.rng, nT=ctx.rng.randint(1, 2)) if len(gs) % 4 == 3 else M.rand_grammar(ctx.rng)
        if finitely_ambiguous(g):
            gs.append(g)
    stream(ctx, gs, "frac", 3, 0)
    bg = [M.rand_grammar(ctx.rng, boolean=True, pnull=0.2, punary=0.25) for _ in range(nG)]
    bg += [M.rand_linked_unary_cycles(ctx.rng) for _ in range(max(5, nG // 4))]     # several unary cycles feeding one another
    stream(ctx, bg, "bool", 3, 1)
    stream(ctx, gs[: max(6, nG // 3)], "frac", 3, 2, same_object=True)
    stream(ctx, bg[: max(6, nG // 3)], "bool", 3, 3, same_object=True)
    stream_float(ctx, 15 if quick else 150, 3)


def replay(obj):
    g, sr, t = obj["grammar"], obj["sr"], obj["transform"]
    r = run_jobs([{"g": g, "sr": sr, "queries": [{"op": "transform", "t": t, "xs": [obj.get("xs", [])]}, {"op": "call", "xs": [obj.get("xs", [])]}]}])[0]
    print("grammar:", json.dumps(g))
    print("transform:", t, "->", json.dumps(r[0])[:1500])
    print("original grammar on the string:", r[1], "expected:", obj.get("expected"))
    return 0
