"""C03: prefix weight = total weight of all strings with that prefix (DESIGN.md §4 C03)."""
import json
from fractions import Fraction

import cfgmodel as M
import translate_machines as TM
from cfgcheck import LangTable, PrefixTable, finitely_ambiguous, run_jobs
from common import dec_val, close_enough


def viol(ctx, sig, what, obj):
    if not ctx.seen(sig):
        ctx.violation(sig, what, obj)


def prefixes_for(ctx, g, maxlen, cap=16):
    ps = [list(x) for x in M.strings(g["nT"], maxlen)]
    if len(ps) > cap:
        ps = ps[:cap // 2] + ctx.rng.sample(ps[cap // 2:], cap - cap // 2)
    return ps


def stream(ctx, grammars, sr, hashseed):
    coq_sr = "Qc" if sr == "frac" else "bool"
    ptab = PrefixTable(ctx, coq_sr, f"prefix-{sr}")
    ltab = LangTable(ctx, coq_sr, f"lang-{sr}")
    plan = []
    for g in grammars:
        pid = ptab.add(g)
        lid = ltab.add(g)
        ps = prefixes_for(ctx, g, 3)
        for p in ps:
            ptab.want(pid, p)
        a = ctx.rng.randrange(g["nT"])
        ys = [list(x) for x in M.strings(g["nT"], 2)]
        for y in ys:
            ltab.want(lid, [a] + y)
        # a derivative of a derivative grammar (same token again, or another one), one call at a time
        b = a if ctx.rng.random() < 0.6 else ctx.rng.randrange(g["nT"])
        zs = [list(x) for x in M.strings(g["nT"], 1)]
        for z in zs:
            ltab.want(lid, [a, b] + z)
        plan.append((g, pid, lid, ps, a, ys, b, zs))
        for f in M.features(g):
            ctx.dist(f"{sr}:{f}")
        ctx.dist(f"{sr}:grammars")
    ptab.eval()
    ltab.eval()
    # every third grammar is built over integer terminals 0..nT-1 (0 is falsy, unlike a one-letter string)
    jobs = [{"g": g, "sr": sr, "tnames": ("int" if k % 3 == 2 else "str"),
             "queries": [{"op": "prefix_weight", "xs": ps, "timeout": 40}, {"op": "derivatives_treesum", "xs": ps, "timeout": 40},
                         {"op": "derivative_call", "a": a, "xs": ys, "timeout": 40}, {"op": "derivative_call", "a": a, "then": [b], "xs": zs, "timeout": 40},
                         {"op": "derivative_call", "a_raw": M.ntname(g["rules"][0][1]), "xs": zs, "timeout": 40}]}
            for k, (g, pid, lid, ps, a, ys, b, zs) in enumerate(plan)]
    res = run_jobs(jobs, hashseed=hashseed)
    for k, ((g, pid, lid, ps, a, ys, b, zs), r) in enumerate(zip(plan, res)):
        tn = "int" if k % 3 == 2 else "str"
        ctx.dist(f"{sr}:terminals-{tn}")
        for op, q in zip(("prefix_weight", "derivatives_treesum"), r[:2]):
            if "err" in q:
                viol(ctx, f"{op}:error:{q['err'][:30]}", f"{op} raised {q['err']} (semiring {sr})", {"kind": "prefix-error", "op": op, "sr": sr, "tnames": tn, "grammar": g, "error": q["err"]})
                continue
            for p, enc in zip(ps, q["ok"]):
                ref = ptab.get(pid, p)
                if ref is None:
                    continue
                v = dec_val(enc)
                ctx.count_case((sr, json.dumps(g), op, tuple(p)), nontrivial=bool(ref))
                if not close_enough(v, ref):
                    viol(ctx, f"{op}:{sr}", f"{op}({p}) = {v}; total weight of the strings with that prefix is {ref}", {"kind": "prefix", "op": op, "sr": sr, "tnames": tn, "grammar": g, "xs": p, "observed": str(v), "expected": str(ref)})
        q = r[2]
        if "err" in q:
            viol(ctx, f"derivative:error:{q['err'][:30]}", f"derivative raised {q['err']}", {"kind": "prefix-error", "op": "derivative_call", "sr": sr, "grammar": g, "a": a, "error": q["err"]})
        else:
            for y, enc in zip(ys, q["ok"]):
                ref = ltab.get(lid, [a] + y)
                if ref is None:
                    continue
                v = dec_val(enc)
                ctx.count_case((sr, json.dumps(g), "derivative", a, tuple(y)), nontrivial=bool(ref))
                if not close_enough(v, ref):
                    viol(ctx, f"derivative:{sr}", f"derivative({a})({y}) = {v}; the grammar gives {[a] + y} the weight {ref}", {"kind": "prefix", "op": "derivative_call", "sr": sr, "tnames": tn, "grammar": g, "a": a, "xs": y, "observed": str(v), "expected": str(ref)})
        q = r[4]   # the derivative with respect to a token that is not in the vocabulary (it is spelled like a nonterminal): zero everywhere
        if "ok" in q:
            for z, enc in zip(zs, q["ok"]):
                v = dec_val(enc)
                ctx.cov["oracle_cases"] += 1
                if not close_enough(v, Fraction(0)) and not (v is False):
                    viol(ctx, f"derivative-foreign:{sr}", f"derivative({M.ntname(g['rules'][0][1])!r})({z}) = {v} although {M.ntname(g['rules'][0][1])!r} is not a terminal of the grammar (no string begins with it)",
                         {"kind": "prefix", "op": "derivative_call", "sr": sr, "tnames": tn, "grammar": g, "a_raw": M.ntname(g["rules"][0][1]), "xs": z, "observed": str(v), "expected": "0"})
        q = r[3]
        if "err" in q:
            viol(ctx, f"derivative2:error:{q['err'][:30]}", f"derivative({a}).derivative({b}) raised {q['err']}", {"kind": "prefix-error", "op": "derivative_call", "sr": sr, "tnames": tn, "grammar": g, "a": a, "then": [b], "error": q["err"]})
        else:
            for z, enc in zip(zs, q["ok"]):
                ref = ltab.get(lid, [a, b] + z)
                if ref is None:
                    continue
                v = dec_val(enc)
                ctx.count_case((sr, json.dumps(g), "derivative2", a, b, tuple(z)), nontrivial=bool(ref))
                if not close_enough(v, ref):
                    viol(ctx, f"derivative2:{sr}", f"derivative({a}).derivative({b})({z}) = {v}; the grammar gives {[a, b] + z} the weight {ref}",
                         {"kind": "prefix", "op": "derivative_call", "sr": sr, "tnames": tn, "grammar": g, "a": a, "then": [b], "xs": z, "observed": str(v), "expected": str(ref)})
    ctx.sample({"semiring": sr, "grammar": plan[0][0], "prefixes": plan[0][3][:4], "reference": [str(ptab.get(plan[0][1], p)) for p in plan[0][3][:4]]})


def stream_float(ctx, n):
    """recursive convergent grammars (infinitely many completions) on floats vs the limit of the model's iteration"""
    fg = []
    tries = 0
    while len(fg) < n and tries < 30000:
        tries += 1
        g = M.rand_grammar(ctx.rng, weights=[Fraction(1, 4), Fraction(1, 5), Fraction(1, 8), Fraction(1, 3), Fraction(1, 10)], nN=ctx.rng.randint(1, 3))
        if M.dep_acyclic(g):
            continue
        V, conv = M.total_float(g, iters=3000, tol=1e-15)
        if conv:
            fg.append(g)
    plans = [(g, prefixes_for(ctx, g, 3, cap=10)) for g in fg]
    res = run_jobs([{"g": g, "sr": "float", "queries": [{"op": "prefix_weight", "xs": ps, "timeout": 60}]} for g, ps in plans])
    for (g, ps), r in zip(plans, res):
        ctx.dist("float-recursive:grammars")
        q = r[0]
        if "err" in q:
            if "timeout" in q["err"]:
                continue
            viol(ctx, f"prefix_weight:float-error:{q['err'][:30]}", f"prefix_weight raised {q['err']}", {"kind": "prefix-error", "op": "prefix_weight", "sr": "float", "grammar": g, "error": q["err"]})
            continue
        m = M.pmirror_float(g)
        for p, enc in zip(ps, q["ok"]):
            ref = m.prefix(g["S"], p, fuel=600, tol=1e-13)
            if ref is None:
                continue
            v = dec_val(enc)
            ctx.cov["oracle_cases"] += 1
            ctx.count_case(("float", json.dumps(g), tuple(p)), nontrivial=ref != 0)
            if not isinstance(v, (float, Fraction)) or abs(float(v) - ref) > 1e-6 * max(1.0, abs(ref)):
                viol(ctx, "prefix_weight:float", f"prefix_weight({p}) = {v}; limit of the prefix-weight iteration is {ref}", {"kind": "prefix", "op": "prefix_weight", "sr": "float", "grammar": g, "xs": p, "observed": str(v), "expected": ref})


def run(ctx):
    quick = ctx.tier == "quick"
    ctx.cov["rule"] = ("prefix_weight / prefix_grammar, derivatives(p)[-1].treesum(), derivative(a)(y) on generated grammars: finite-language grammars with exact rationals and all Boolean grammars vs the Coq prefix-weight tabulation "
                       "(proved = sum over all derivation trees whose yield begins with p), recursive convergent grammars on floats vs the limit of the same iteration; prefixes incl. the empty one and prefixes of no string; non-trivial = non-zero prefix weight")
    try:
        ctx.cov["translators"].append(TM.main())
        ctx.obligation("translate_machines", True)
        tr_ok = True
    except TM.Refuse as e:
        ctx.obligation("translate_machines", False, f"translator refused: {e}")
        tr_ok = False
    ok, out = ctx.build(["proofs/PrefixMachine.vo", "proofs/PrefixTrees.vo", "proofs/PrefixChart.vo", "proofs/DerivProofs.vo", "proofs/PrefixStringsProofs.vo", "proofs/PrefixSumProofs.vo"]) if tr_ok else (False, "translator")
    if ok:
        ctx.prove("props/C03.v")
    else:
        ctx.obligation("coq-build(C03)", False, out[-3000:])
        ok2, _ = ctx.build(["model/Prefix.vo"])
        if not ok2:
            return
    n = 30 if quick else 300
    gs = []
    while len(gs) < n:
        g = M.rand_grammar(ctx.rng, nN=ctx.rng.randint(1, 4), nrules=ctx.rng.randint(2, 8))
        if M.dep_acyclic(g):
            gs.append(g)
    stream(ctx, gs, "frac", 0)
    stream(ctx, [M.rand_nullable_grammar(ctx.rng) for _ in range(n)], "frac", 2)
    stream(ctx, [M.rand_grammar(ctx.rng, boolean=True, pnull=0.2, punary=0.25) for _ in range(n)], "bool", 1)
    stream_float(ctx, 20 if quick else 200)


def replay(obj):
    g, sr, op = obj["grammar"], obj["sr"], obj["op"]
    q = {"op": op, "xs": [obj.get("xs", [])]}
    if op == "derivative_call":
        q["a"] = obj.get("a", 0)
        q["then"] = obj.get("then", [])
        if "a_raw" in obj:
            q["a_raw"] = obj["a_raw"]
    r = run_jobs([{"g": g, "sr": sr, "tnames": obj.get("tnames", "str"), "queries": [q]}])[0][0]
    print("grammar:", json.dumps(g))
    print(q, "->", r, "expected:", obj.get("expected"))
    return 0
