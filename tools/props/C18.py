"""C18: regex automata accept exactly the regex language and are normalised (DESIGN.md §4 C18)."""
import itertools
import json
import re
from fractions import Fraction

from common import CoqError, coq_eval_bools, cq, dec_val, run_impl

IMPORTS = ("From Coq Require Import List Arith Bool ZArith QArith Qcanon.\nImport ListNotations.\nFrom GV.lib Require Import Semiring BigSum.\nFrom GV.model Require Import Regex RegexLive.")
CHARSETS = [list("abcAB1."), list("abßsS\n"), list("ab01 _")]


def viol(ctx, sig, what, obj):
    if not ctx.seen(sig):
        ctx.violation(sig, what, obj)


def run_l(jobs, timeout=1200):
    return run_impl("larkops", {"jobs": jobs}, timeout=timeout)["results"]


def rand_regex(rng, depth, chars):
    lits = [c for c in chars if c.isalnum()]
    if depth == 0 or rng.random() < 0.3:
        r = rng.random()
        if r < 0.35:
            return re.escape(rng.choice(lits))
        if r < 0.5:
            return "."
        if r < 0.65:
            k = rng.randint(1, 3)
            return "[" + "".join(rng.sample(lits, min(k, len(lits)))) + "]"
        if r < 0.8:
            k = rng.randint(1, 2)
            return "[^" + "".join(rng.sample(lits, min(k, len(lits)))) + "]"
        if r < 0.86:
            return r"\d"
        if r < 0.9:
            return r"\."
        if r < 0.96:
            return "(?i:" + rng.choice(lits) + ")"
        return "(?i:ß)" if "ß" in chars else re.escape(rng.choice(lits))
    r = rng.random()
    a = rand_regex(rng, depth - 1, chars)
    if r < 0.3:
        return a + rand_regex(rng, depth - 1, chars)
    if r < 0.5:
        return "(" + a + "|" + rand_regex(rng, depth - 1, chars) + ")"
    if r < 0.62:
        return "(" + a + ")*"
    if r < 0.74:
        return "(" + a + ")+"
    if r < 0.86:
        return "(" + a + ")?"
    lo = rng.randint(0, 2)
    return "(" + a + "){" + str(lo) + "," + str(lo + rng.randint(0, 2)) + "}"


def nl(l):
    return "[" + "; ".join(f"{x}%nat" for x in l) + "]"


def coq_dfa(f):
    classes = []
    for c, d in f["classes"].items():
        if d.get("anything_else"):
            classes.append(f"({c}%nat, AnythingElse)")
        else:
            classes.append(f"({c}%nat, Explicit [" + "; ".join(nl(s) for s in d["syms"]) + "])")
    dmap = "[" + "; ".join(f"({i}%nat, [" + "; ".join(f"({a}%nat, {j}%nat)" for a, j in outs) + "])" for i, outs in sorted(f["map"].items(), key=lambda kv: int(kv[0]))) + "]"
    return f"(mkD {f['init']}%nat {nl(f['finals'])} {nl(f['live'])} {dmap} [" + "; ".join(classes) + "] [" + "; ".join(nl(s) for s in f["alphabet"]) + "])"


def run(ctx):
    quick = ctx.tier == "quick"
    ctx.cov["rule"] = ("random regular expressions (literals, classes, negated classes, dot, alternation, * + ? {m,n}, escapes, case-insensitive literals incl. ß) x three character sets: "
                       "the automaton returned by interegular_to_wfsa vs the Coq model of the post-processing run on the same DFA (arc list and weights exactly), weight > 0 vs re.fullmatch on all strings to length 3 over the character set, "
                       "per-state outgoing + final mass = 1; non-trivial = pattern matching at least one tested string")
    ok, out = ctx.build(["proofs/RegexProofs.vo", "proofs/RegexLiveProofs.vo", "proofs/RegexLangProofs.vo", "proofs/SubProbProofs.vo", "model/RegexLive.vo"])
    if ok:
        ctx.prove("props/C18.v")
    else:
        ctx.obligation("coq-build(C18)", False, out[-3000:])
        ok2, _ = ctx.build(["model/RegexLive.vo"])
        if not ok2:
            return
    n = 60 if quick else 600
    jobs, cases = [], []
    for k in range(n):
        cs = CHARSETS[k % len(CHARSETS)]
        pat = rand_regex(ctx.rng, ctx.rng.randint(1, 3), cs)
        try:
            re.compile(pat)
        except re.error:
            continue
        strs = ["".join(x) for L in range(0, 4) for x in itertools.product(cs, repeat=L)]
        if len(strs) > 120:
            strs = strs[:40] + ctx.rng.sample(strs[40:], 80)
        q = {"op": "regex", "pattern": pat, "charset": cs, "strings": strs}
        if k % 3 == 0:
            # one character-set object shared by several conversions (what LarkStuff does for the terminals of a grammar)
            q["before"] = [ctx.rng.choice(["[^a]b", ".", "a[^ab]*", "[^" + cs[0] + "]", "x[^a]|y"]) for _ in range(ctx.rng.randint(1, 2))]
            ctx.dist("shared-charset-object")
        jobs.append({"queries": [q]})
        cases.append((pat, cs, strs))
    fixed = [("x[^abxy]|y", list("abxy")), ("a[^a]", list("a")), ("a[^ab]*b|b", list("ab")), ("(?i:ß)", CHARSETS[1]), ("(?i:s)+ß?", CHARSETS[1]), ("[^a]*", CHARSETS[0]), (".", CHARSETS[1]), ("a{2,3}|b?", CHARSETS[0])]
    # patterns whose automaton has a state that is only left through arcs back to earlier (non-final) states
    fixed += [("x([^b]|b+[^by])*b+y", list("abxy"), ["xbaby", "xbbaby", "xabby", "xbabaaby", "xbay", "xbab"]),
              (r"/\*([^*]|\*+[^*/])*\*+/", list("/*a "), ["/**a*/", "/* a*a */", "/*a**/", "/**/", "/*a*/a", "/**a/"]),
              ("(ab|ba)*c", list("abc"), ["ababc", "abbac", "abab", "baabc"])]
    fixed += [("a[^ab]|b", list("ab")), ("a[^ab]|b", list("abc")), ("b|a[^ab]", list("abc")), ("b|a[^ab]", list("ab")),
              ("x[^ab]", list("abx")), ("a.c", list("ac\n")), ("b[^a]|bb", list("ab")), ("x[^ab]y", list("abxy")), ("[^a]a|aa", list("a"))]
    for fx in fixed:
        pat, cs = fx[0], fx[1]
        strs = ["".join(x) for L in range(0, 4) for x in itertools.product(cs, repeat=L)][:150] + (list(fx[2]) if len(fx) > 2 else [])
        jobs.append({"queries": [{"op": "regex", "pattern": pat, "charset": cs, "strings": strs}]})
        cases.append((pat, cs, strs))
    res = run_l(jobs)
    exprs, meta = [], []
    for (pat, cs, strs), r, job in zip(cases, res, jobs):
        bef = job["queries"][0].get("before", [])
        q = r[0]
        if "err" in q:
            if "NotImplemented" in q["err"] or "Unsupported" in q["err"] or "InvalidSyntax" in q["err"]:
                ctx.dist("unsupported-pattern")
                continue
            viol(ctx, f"regex:error:{q['err'][:40]}", f"interegular_to_wfsa({pat!r}) raised {q['err']}", {"kind": "regex-error", "pattern": pat, "charset": cs, "before": bef, "error": q["err"]})
            continue
        o = q["ok"]
        matched = 0
        if o.get("charset_after") is not None and o["charset_after"] != sorted(cs):
            viol(ctx, "regex:charset-mutated", f"interegular_to_wfsa changed the caller's character set {''.join(sorted(cs))!r} into {''.join(o['charset_after'])!r}", {"kind": "regex", "what": "charset-mutated", "pattern": pat, "charset": cs, "before": bef, "observed": o["charset_after"], "expected": sorted(cs)})
        # (1) language: weight > 0 iff re.fullmatch
        for s, enc in zip(strs, o["values"]):
            v = dec_val(enc)
            want = re.fullmatch(pat, s) is not None
            matched += want
            ctx.cov["oracle_cases"] += 1
            if (float(v) > 0) != want:
                viol(ctx, "regex:language", f"pattern {pat!r} over {''.join(cs)!r}: string {s!r} has weight {v} but fullmatch is {want}", {"kind": "regex", "what": "language", "pattern": pat, "charset": cs, "before": bef, "string": s, "observed": str(v), "expected": want})
        ctx.count_case((pat, "".join(cs)), nontrivial=matched > 0)
        # (2) local normalisation of the returned automaton
        mass = {}
        for s, w in o["wfsa"]["final"]:
            mass[s] = mass.get(s, 0.0) + float(dec_val(w))
        for i, a, j, w in o["wfsa"]["arcs"]:
            mass[i] = mass.get(i, 0.0) + float(dec_val(w))
            mass.setdefault(j, 0.0)   # a state that is only the target of arcs counts too ("at every state")
        for s, w in o["wfsa"]["init"]:
            mass.setdefault(s, 0.0)
        empty_language = not o["wfsa"]["arcs"] and not any(float(dec_val(w)) > 0 for s_, w in o["wfsa"]["final"] if s_ in {i_ for i_, _ in o["wfsa"]["init"]})
        for s, mval in mass.items():
            if empty_language and s in {i_ for i_, _ in o["wfsa"]["init"]}:
                continue  # no string over the character set matches: the lone initial state cannot be normalised
            if abs(mval - 1.0) > 1e-9:
                viol(ctx, "regex:mass", f"pattern {pat!r}: state {s} has outgoing + final mass {mval}", {"kind": "regex", "what": "mass", "pattern": pat, "charset": cs, "before": bef, "state": s, "observed": mval, "expected": 1.0})
        for i, a, j, w in o["wfsa"]["arcs"]:
            if a != "" and len(a) != 1:
                viol(ctx, "regex:multichar-arc", f"pattern {pat!r}: arc labelled {a!r} (not a single character)", {"kind": "regex", "what": "multichar", "pattern": pat, "charset": cs, "before": bef, "label": a})
        # (3) correspondence with the Coq model on the same DFA
        D = "(with_live " + nl([ord(c) for c in cs]) + " " + coq_dfa(o["fsm"]) + ")"
        chars = nl([ord(c) for c in cs])
        arcs = sorted((int(i), ord(a), int(j), Fraction(float(dec_val(w))).limit_denominator(10 ** 6)) for i, a, j, w in o["wfsa"]["arcs"] if len(a) == 1)
        fins = sorted((int(s), Fraction(float(dec_val(w))).limit_denominator(10 ** 6)) for s, w in o["wfsa"]["final"])
        got_a = "[" + "; ".join(f"({i}%nat, {a}%nat, {j}%nat, {cq(w)})" for i, a, j, w in arcs) + "]"
        got_f = "[" + "; ".join(f"({s}%nat, {cq(w)})" for s, w in fins) + "]"
        exprs.append(f"same_arcs (re_arcs {chars} {D}) {got_a} && same_finals (re_finals {chars} {D}) {got_f}")
        meta.append((pat, cs))
        exprs.append(f"forallb (fun e => orb (Nat.eqb (fanout {chars} {D} (fst e) (snd e)) 0) (Qc_eqb (re_mass {chars} {D} e) 1%Qc)) (d_map {D})")
        meta.append((pat, cs))
    defs = ("Definition arc_eqb (a b : nat * nat * nat * Qc) := match a, b with (i, x, j, w), (i', x', j', w') => Nat.eqb i i' && Nat.eqb x x' && Nat.eqb j j' && Qc_eqb w w' end.\n"
            "Definition count_arc a l := length (filter (arc_eqb a) l).\n"
            "Definition same_arcs (l1 l2 : list (nat * nat * nat * Qc)) := Nat.eqb (length l1) (length l2) && forallb (fun a => Nat.eqb (count_arc a l1) (count_arc a l2)) l1.\n"
            "Definition fin_eqb (a b : nat * Qc) := Nat.eqb (fst a) (fst b) && Qc_eqb (snd a) (snd b).\n"
            "Definition same_finals (l1 l2 : list (nat * Qc)) := Nat.eqb (length l1) (length l2) && forallb (fun a => Nat.eqb (length (filter (fin_eqb a) l1)) (length (filter (fin_eqb a) l2))) l1.\n")
    try:
        failing = coq_eval_bools(ctx, "model", IMPORTS, exprs, defs=defs, shard=60)
    except CoqError as e:
        ctx.broken.append(("correspondence(regex-model)", str(e)))
        failing = []
    ctx.cov["disagreements_checked"] += len(failing)
    for k in failing:
        pat, cs = meta[k]
        ctx.broken.append((f"correspondence(regex-model)#{k}", f"model and implementation differ for pattern {pat!r} over {''.join(cs)!r}"))
    ctx.sample({"pattern": cases[0][0], "charset": "".join(cases[0][1]), "strings": cases[0][2][:6]})


def replay(obj):
    cs = obj["charset"]
    s = obj.get("string", "")
    r = run_l([{"queries": [{"op": "regex", "pattern": obj["pattern"], "charset": cs, "strings": [s], "before": obj.get("before", [])}]}])[0][0]
    print("pattern:", obj["pattern"], "charset:", "".join(cs))
    print("->", json.dumps(r)[:2000], "expected:", obj.get("expected"))
    return 0
