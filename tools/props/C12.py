"""C12: rational operations implement the algebra of weighted languages (DESIGN.md §4 C12)."""
import json
from fractions import Fraction

import fsamodel as F
import translate_wfsa as TW
import translate_fromstring as TFS
from fsacheck import WTable, run_w, coq_str
from common import dec_val, close_enough


def viol(ctx, sig, what, obj):
    if not ctx.seen(sig):
        ctx.violation(sig, what, obj)


def rand_expr(rng, depth, nT):
    if depth == 0 or rng.random() < 0.25:
        r = rng.random()
        if r < 0.7:
            m = F.rand_wfsa(rng, n=rng.randint(1, 3), nT=nT, narcs=rng.randint(1, 4), peps=0.2, eps_acyclic=True, ws=[Fraction(1, 2), Fraction(1, 3), Fraction(1, 4), Fraction(1, 5)])
            # operands with a state that is both initial and final are wanted too
            if rng.random() < 0.3 and m["init"]:
                m["final"].append([m["init"][0][0], "1/3"])
            # operand states named like the tags used for renaming operands apart: (1, q) / (2, q)
            if rng.random() < 0.35:
                m["names"] = rng.choice([0, 1, 2])
            return {"op": "m", "m": m}
        if r < 0.8:
            return {"op": "lift", "x": rng.randrange(nT), "w": "1/2"}
        if r < 0.9:
            return {"op": "from_string", "xs": [rng.randrange(nT) for _ in range(rng.randint(0, 3))]}
        return {"op": "one", "a": {"op": "lift", "x": 0, "w": "1/2"}} if rng.random() < 0.5 else {"op": "zero", "a": {"op": "lift", "x": 0, "w": "1/2"}}
    op = rng.choice(["union", "concat", "concat", "star", "plus", "reverse", "rename", "union"])
    if op in ("union", "concat"):
        return {"op": op, "a": rand_expr(rng, depth - 1, nT), "b": rand_expr(rng, depth - 1, nT)}
    return {"op": op, "a": rand_expr(rng, depth - 1, nT)}


def scale(e, f):
    """scale all operand weights (keeps star convergent)"""
    if e["op"] == "m":
        m = e["m"]
        out = {"op": "m", "m": {"nT": m["nT"], "init": m["init"], "final": m["final"], "arcs": [[i, a, j, F.fs(Fraction(w) * f)] for i, a, j, w in m["arcs"]]}}
        if m.get("names") is not None:
            out["m"]["names"] = m["names"]
        return out
    out = dict(e)
    for k in ("a", "b"):
        if k in e:
            out[k] = scale(e[k], f)
    return out


def coq_expr(tab, e):
    op = e["op"]
    if op == "m":
        return tab.machine(e["m"])
    if op == "union":
        return f"(wunion {coq_expr(tab, e['a'])} {coq_expr(tab, e['b'])})"
    if op == "concat":
        return f"(wconcat {coq_expr(tab, e['a'])} {coq_expr(tab, e['b'])})"
    if op == "star":
        return f"(wstar {coq_expr(tab, e['a'])})"
    if op == "plus":
        return f"(wplus {coq_expr(tab, e['a'])})"
    if op == "reverse":
        return f"(wreverse {coq_expr(tab, e['a'])})"
    if op in ("rename", "renumber"):
        return f"(rename (fun q => 3 * q + 1)%nat {coq_expr(tab, e['a'])})"
    if op == "one":
        return "(@wone QcSR)"
    if op == "zero":
        return "(@wzero QcSR)"
    if op == "lift":
        from common import cq
        return f"(@wlift QcSR (Some {e['x']}%nat) {cq(Fraction(e['w']))})"
    if op == "from_string":
        # the Coq model of WFSA.from_string (C12_from_string is about this definition)
        return f"(Gen_FromString.gen_from_string QcSR {coq_str(e['xs'])} (mkq 1 1))"
    raise ValueError(op)


def mass(e):
    """total weight (sum over all strings) of the expression, or None if some star/plus diverges;
    all weights are non-negative, so a finite total mass means every series involved converges"""
    op = e["op"]
    if op == "m":
        try:
            t = F.wfsa_total(e["m"])
        except ZeroDivisionError:
            return None
        return t if t >= 0 else None
    if op in ("lift",):
        return Fraction(e["w"])
    if op in ("from_string", "one"):
        return Fraction(1)
    if op == "zero":
        return Fraction(0)
    a = mass(e["a"])
    if a is None:
        return None
    if op in ("reverse", "rename", "renumber"):
        return a
    if op in ("star", "plus"):
        if a >= Fraction(9, 10):
            return None
        return (1 if op == "star" else a) / (1 - a)
    b = mass(e["b"])
    if b is None:
        return None
    return a + b if op == "union" else a * b


def size(e):
    return 1 + sum(size(e[k]) for k in ("a", "b") if k in e)


def run(ctx):
    quick = ctx.tier == "quick"
    ctx.cov["rule"] = ("random nested expressions (depth <= 3) over union, concatenation, star, plus, reverse, rename, one, zero, lift, from_string with operand automata having epsilon arcs, several initial/final states and states that are both; "
                       "value on all strings to length 3 vs the Coq model of the same constructions (epsilon closure + forward pass, proved = path sums; union/reverse/rename/concat laws proved); from_strings vs set membership; both WFSA classes; non-trivial = non-zero weight")
    try:
        ctx.cov["translators"].append(TW.main())
        ctx.obligation("translate_wfsa", True)
        tr_ok = True
    except TW.Refuse as e:
        ctx.obligation("translate_wfsa", False, f"translator refused: {e}")
        tr_ok = False
    try:
        ctx.cov["translators"].append({k: v for k, v in TFS.main().items() if k != "text"})   # WFSA.from_string (bridged in proofs/GenFromStringBridge.v)
        ctx.obligation("translate_fromstring", True)
    except TFS.Refuse as e:
        ctx.obligation("translate_fromstring", False, f"translator refused: {e}")
        tr_ok = False
    ok, out = ctx.build(["proofs/WfsaProofs.vo", "proofs/RationalOps.vo", "proofs/GenWfsaBridge.vo", "proofs/StarStringProofs.vo", "proofs/GenFromStringBridge.vo", "model/EpsSpec.vo"]) if tr_ok else (False, "translator refused")
    if ok:
        ctx.prove("props/C12.v")
    else:
        ctx.obligation("coq-build(C12)", False, out[-3000:])
        ok2, _ = ctx.build(["model/EpsSpec.vo"])
        if not ok2:
            return
    n = 50 if quick else 500
    nT = 2
    es = []
    while len(es) < n:
        e = scale(rand_expr(ctx.rng, ctx.rng.randint(1, 3), nT), Fraction(1, 2))
        if mass(e) is not None:  # inside the domain: every star converges
            es.append(e)
    # binary operations whose operands' states are named like the tags used for renaming operands apart
    def leaf(tag):
        m = F.rand_wfsa(ctx.rng, n=ctx.rng.randint(1, 3), nT=nT, narcs=ctx.rng.randint(1, 4), peps=0.1, eps_acyclic=True, ws=[Fraction(1, 2), Fraction(1, 3), Fraction(1, 4)])
        if tag is not None:
            m["names"] = tag
        return {"op": "m", "m": m}
    k = 0
    while k < n // 2:
        e = scale({"op": ctx.rng.choice(["union", "concat"]), "a": leaf(ctx.rng.choice([0, 1, 2, None])), "b": leaf(ctx.rng.choice([None, None, 0, 1, 2]))}, Fraction(1, 2))
        if mass(e) is not None:
            es.append(e)
            k += 1
            ctx.dist("tagged-operands")
    # plus / star of operands that already have an epsilon arc from a final state back to an initial state
    k = 0
    while k < n // 4:
        lf = leaf(None)
        m = lf["m"]
        if not m["init"] or not m["final"]:
            continue
        m["arcs"].append([ctx.rng.choice(m["final"])[0], None, ctx.rng.choice(m["init"])[0], "1/3"])
        e = scale({"op": ctx.rng.choice(["plus", "star"]), "a": lf}, Fraction(1, 2))
        if ctx.rng.random() < 0.4:
            e = {"op": ctx.rng.choice(["plus", "star"]), "a": e}
        if mass(e) is not None:
            es.append(e)
            k += 1
            ctx.dist("plus-over-back-arc")
    # reverse (evaluated directly) of operands having a state with initial and final weight but no arc
    for _ in range(max(4, n // 8)):
        lf = leaf(None)
        m = lf["m"]
        iso = max(F.states_of(m) + [0]) + 1
        m["init"].append([iso, "1/3"])
        m["final"].append([iso, "1/2"])
        es.append(scale({"op": "reverse", "a": lf}, Fraction(1, 2)))
        if ctx.rng.random() < 0.5:
            es.append({"op": "reverse", "a": {"op": "from_string", "xs": []}})
        ctx.dist("reverse-isolated-state")
    tab = WTable(ctx, "expr", extra_imports="From GV.gen Require Gen_FromString.")
    strs = [list(x) for x in F.strings(nT, 3)]
    for i, e in enumerate(es):
        ce = coq_expr(tab, e)
        for xs in strs:
            tab.want((i, tuple(xs)), f"@call QcStar {ce} {coq_str(xs)}")
        ctx.dist(f"size:{min(size(e), 8)}")
        ctx.dist("top:" + e["op"])
    tab.eval()
    for cls in ("field", "base"):
        res = run_w([{"queries": [{"op": "expr_call", "e": e, "xs": strs, "cls": cls, "timeout": 30}]} for e in es])
        for i, (e, r) in enumerate(zip(es, res)):
            q = r[0]
            if "err" in q:
                viol(ctx, f"expr:{cls}:error:{q['err'][:40]}", f"evaluating a rational expression raised {q['err']} (class {cls})", {"kind": "rational-error", "cls": cls, "expr": e, "error": q["err"]})
                continue
            for xs, enc in zip(strs, q["ok"]):
                ref = tab.get((i, tuple(xs)))
                v = dec_val(enc)
                ctx.count_case((i, cls, tuple(xs)), nontrivial=ref != 0)
                if not close_enough(v, ref, rel=1e-9):
                    viol(ctx, f"expr:{cls}:{e['op']}", f"expression with top operator {e['op']} gives {xs} the weight {v}; the algebra of weighted languages gives {ref}", {"kind": "rational", "cls": cls, "expr": e, "xs": xs, "observed": str(v), "expected": str(ref)})
    # from_strings = indicator of the set
    sets = [[[ctx.rng.randrange(nT) for _ in range(ctx.rng.randint(0, 3))] for _ in range(ctx.rng.randint(1, 4))] for _ in range(10 if quick else 80)]
    res = run_w([{"queries": [{"op": "expr_call", "e": {"op": "from_strings", "Xs": Xs}, "xs": strs}]} for Xs in sets])
    for Xs, r in zip(sets, res):
        q = r[0]
        if "err" in q:
            viol(ctx, f"from_strings:error:{q['err'][:30]}", f"from_strings raised {q['err']}", {"kind": "rational-error", "cls": "field", "expr": {"op": "from_strings", "Xs": Xs}, "error": q["err"]})
            continue
        for xs, enc in zip(strs, q["ok"]):
            ref = Fraction(1 if xs in Xs else 0)
            ctx.cov["oracle_cases"] += 1
            if not close_enough(dec_val(enc), ref):
                viol(ctx, "from_strings", f"from_strings({Xs})({xs}) = {dec_val(enc)}, expected {ref}", {"kind": "rational", "cls": "field", "expr": {"op": "from_strings", "Xs": Xs}, "xs": xs, "observed": str(dec_val(enc)), "expected": str(ref)})
    ctx.sample({"expr": es[0], "strings": strs[:4], "reference": [str(tab.get((0, tuple(xs)))) for xs in strs[:4]]})


def replay(obj):
    r = run_w([{"queries": [{"op": "expr_call", "e": obj["expr"], "xs": [obj.get("xs", [])], "cls": obj.get("cls", "field")}]}])[0][0]
    print("expr:", json.dumps(obj["expr"]))
    print(obj.get("xs"), "->", r, "expected:", obj.get("expected"))
    return 0
