"""C05: incremental parsing is history-independent; queries are pure (DESIGN.md §4 C05)."""
import json
from fractions import Fraction

import cfgmodel as M
import transforms as TR
from cfgcheck import run_jobs
from common import dec_val, run_impl

KINDS = [("earley", "frac"), ("icky", "frac"), ("rescaled", "float"), ("earley_lm", "frac"), ("cky_lm", "frac"), ("rescaled_lm", "float"), ("bool_earley", "bool"), ("bool_cky", "bool")]


def viol(ctx, sig, what, obj):
    if not ctx.seen(sig):
        ctx.violation(sig, what, obj)


def run_lm(jobs, hashseed=0):
    return run_impl("lmops", {"jobs": jobs}, hashseed=hashseed, timeout=1200)["results"]


def same(a, b):
    """answers of the used and of the fresh object"""
    if a.keys() != b.keys():
        return False
    if "err" in a:
        return a["err"].split(":")[0] == b["err"].split(":")[0]
    x, y = a["ok"], b["ok"]
    if isinstance(x, dict):
        kx = {k for k, v in x.items() if v not in ("0/1", False) and v != {"f": "0.0"}}
        ky = {k for k, v in y.items() if v not in ("0/1", False) and v != {"f": "0.0"}}
        if kx != ky:
            return False
        return all(close(x[k], y[k]) for k in kx)
    return close(x, y)


def close(x, y):
    u, v = dec_val(x), dec_val(y)
    if isinstance(u, float) or isinstance(v, float):
        return abs(float(u) - float(v)) <= 1e-12 * max(1.0, abs(float(u)), abs(float(v)))
    return u == v


def gen_history(rng, nT, kind, length):
    """operation sequence over nested and sibling prefixes"""
    base = [rng.randrange(nT) for _ in range(rng.randint(2, 6))]
    ops = []
    qs = ["p_next", "call"] if kind.endswith("_lm") or kind.startswith("bool") else ["call", "chart"]
    if kind.startswith("bool"):
        qs = ["p_next"]
    for _ in range(length):
        r = rng.random()
        if r < 0.12:
            ops.append(["clear"])
            continue
        k = rng.randint(0, len(base))
        p = base[:k]
        if rng.random() < 0.4:  # sibling prefix
            p = p[:-1] + [rng.randrange(nT)] if p else [rng.randrange(nT)]
        if rng.random() < 0.2:
            p = p + [rng.randrange(nT)]
        ops.append([rng.choice(qs), p])
    return ops


_SPENT = [0.0]   # seconds spent shrinking (shrinking only makes replays smaller)


def shrink_ops(g, sr, kind, ops, idx):
    """drop operations before the failing one while the disagreement persists"""
    import time
    ops = ops[: idx + 1]
    target = ops[-1]
    changed = True
    t0 = time.time()
    while changed:
        changed = False
        for i in range(len(ops) - 1):
            if time.time() - t0 > 40 or _SPENT[0] + (time.time() - t0) > 120:
                _SPENT[0] += time.time() - t0
                return ops
            cand = ops[:i] + ops[i + 1:]
            r = run_lm([{"g": g, "sr": sr, "kind": kind, "ops": cand, "fresh_compare": True}])[0]
            if "build_err" in r:
                continue
            last = r["results"][-1]
            if "fresh" in last and not same({k: v for k, v in last.items() if k != "fresh"}, last["fresh"]):
                ops = cand
                changed = True
                break
    _SPENT[0] += time.time() - t0
    return ops


def run(ctx):
    quick = ctx.tier == "quick"
    ctx.cov["rule"] = ("random histories (5-40 operations: p_next / call / chart / clear_cache over nested and sibling prefixes) on one Earley, rescaled Earley, IncrementalCKY, EarleyLM, CKYLM, rescaled EarleyLM, BoolCFGLM(earley|cky) object; every answer is compared with the answer of a brand-new object to the same query; "
                       "cold vs warm vs cleared caches on contexts of 100-300 tokens; rules/V/S of the grammar are snapshotted before and after every history and every transformation; a case is a (grammar, object kind, history)")
    ok, out = ctx.build(["proofs/CacheProofs.vo"])
    if ok:
        ctx.prove("props/C05.v")
    else:
        ctx.obligation("coq-build(C05)", False, out[-3000:])
    n = 8 if quick else 60
    for kind, sr in KINDS:
        jobs = []
        for _ in range(n):
            if sr == "bool":
                g = M.rand_grammar(ctx.rng, boolean=True, pnull=0.2, punary=0.2)
            else:
                g = None
                while g is None or not M.dep_acyclic(g):
                    g = M.rand_grammar(ctx.rng, nN=ctx.rng.randint(1, 4))
            ops = gen_history(ctx.rng, g["nT"], kind, ctx.rng.randint(5, 40 if not quick else 18))
            jobs.append({"g": g, "sr": sr, "kind": kind, "ops": ops, "fresh_compare": True})
        # structured families: symbols awaited together at one position and alone at a sibling position (shared left corners),
        # cyclic left-corner graphs; the history visits the one-token contexts in a random order first
        for k in range(n):
            fam = k % 3
            if fam == 0 or (sr != "bool" and kind not in ("earley", "rescaled")):
                g = M.rand_sharedcorner_grammar(ctx.rng, boolean=(sr == "bool"))
            elif fam == 1 or sr != "bool":
                g = M.rand_mutual_leftrec_grammar(ctx.rng, boolean=(sr == "bool"))   # bare Earley parsers: weighted, left-recursive
            else:
                g = M.rand_leftcorner_grammar(ctx.rng)
            firsts = [[a] for a in range(g["nT"])]
            ctx.rng.shuffle(firsts)
            qop = "p_next" if kind not in ("earley", "rescaled", "icky") else "call"
            ops = [[qop, c] for c in firsts] + [[qop, c + [ctx.rng.randrange(g["nT"])]] for c in firsts] + gen_history(ctx.rng, g["nT"], kind, 6)
            snts = [M.random_sentence(ctx.rng, g, maxdepth=ctx.rng.randint(2, 5), maxlen=6) for _ in range(6)]
            snts = [s_ for s_ in snts if s_]
            ctx.rng.shuffle(snts)
            ops = [[qop, s_] for s_ in snts] + ops     # whole sentences first, in a random order (different entry points into the cycle)
            jobs.append({"g": g, "sr": sr, "kind": kind, "ops": ops, "fresh_compare": True})
        res = run_lm(jobs, hashseed=ctx.rng.randint(0, 3))
        for job, r in zip(jobs, res):
            ctx.dist(f"{kind}:histories")
            ctx.count_case((kind, json.dumps(job["g"]), json.dumps(job["ops"])))
            if "build_err" in r:
                ctx.dist(f"{kind}:build-error")
                continue
            if not r.get("grammar_unchanged", True):
                viol(ctx, f"{kind}:grammar-mutated", f"queries on a {kind} object changed the rules/V/S of its grammar", {"kind": "history", "obj": kind, "sr": sr, "grammar": job["g"], "ops": job["ops"]})
            for i, q in enumerate(r["results"]):
                if "fresh" not in q:
                    continue
                used = {k: v for k, v in q.items() if k != "fresh"}
                ctx.cov["traces_validated_against_impl"] = ctx.cov.get("traces_validated_against_impl", 0) + 1
                ctx.cov["oracle_cases"] += 1     # an answer compared with the answer of a brand-new object
                if not same(used, q["fresh"]):
                    sig = f"{kind}:history"
                    if not ctx.seen(sig):
                        ops = shrink_ops(job["g"], sr, kind, job["ops"], i)
                        ctx.violation(sig, f"{kind}: answer to {job['ops'][i]} after a history differs from a fresh object's: {json.dumps(used)[:200]} vs {json.dumps(q['fresh'])[:200]}",
                                      {"kind": "history", "obj": kind, "sr": sr, "grammar": job["g"], "ops": ops, "used": used, "fresh": q["fresh"]})
                    break
        if jobs:
            ctx.sample({"kind": kind, "grammar": jobs[0]["g"], "history": jobs[0]["ops"][:8]})
    # cold / warm / cleared on long contexts
    g = {"S": 0, "nT": 2, "rules": [["1/4", 0, [["N", 0], ["N", 0]]], ["1/2", 0, [["T", 0]]], ["1/4", 0, [["T", 1]]]]}
    for L in ([100] if quick else [100, 300]):
        c = [ctx.rng.randrange(2) for _ in range(L)]
        for kind, sr in (("earley_lm", "float"), ("rescaled_lm", "float"), ("earley", "float")):
            q = "p_next" if kind.endswith("_lm") else "call"
            ops = [[q, c], [q, c], [q, c[: L // 2]], ["clear"], [q, c[: L // 2] + [1 - c[L // 2]]], [q, c]]
            r = run_lm([{"g": g, "sr": sr, "kind": kind, "ops": ops, "timeout": 200}])[0]
            ctx.count_case(("long", kind, L))
            ctx.dist(f"long-context:{L}")
            if "build_err" in r:
                continue
            a = [x for x in r["results"]]
            if not (same(a[0], a[1]) and same(a[0], a[5])):
                viol(ctx, f"{kind}:cold-warm", f"{kind}: cold, warm and post-clear answers differ on a context of {L} tokens", {"kind": "history", "obj": kind, "sr": sr, "grammar": g, "ops": ops})
    # transformations and queries never modify the grammar they are applied to
    gs = [M.rand_grammar(ctx.rng) for _ in range(10 if quick else 80)]
    jobs = []
    for g in gs:
        qs = [{"op": "snapshot"}]
        for t in TR.BASE:
            qs.append({"op": "transform", "t": list(t), "xs": [[0]], "timeout": 20})
        qs += [{"op": "call", "xs": [[0], []]}, {"op": "prefix_weight", "xs": [[0]]}, {"op": "treesum"}, {"op": "snapshot"}]
        jobs.append({"g": g, "sr": "float", "queries": qs})
    res = run_jobs(jobs)
    for g, r in zip(gs, res):
        ctx.count_case(("purity", json.dumps(g)))
        ctx.dist("purity:grammars")
        if "ok" in r[0] and "ok" in r[-1] and r[0]["ok"] != r[-1]["ok"]:
            viol(ctx, "purity:grammar-mutated", "a transformation or query changed the rules, vocabulary or start symbol of the grammar it was applied to", {"kind": "purity", "sr": "float", "grammar": g, "before": r[0]["ok"], "after": r[-1]["ok"]})


def replay(obj):
    if obj.get("kind") == "purity":
        print("grammar:", json.dumps(obj["grammar"]))
        return 0
    r = run_lm([{"g": obj["grammar"], "sr": obj["sr"], "kind": obj["obj"], "ops": obj["ops"], "fresh_compare": True}])[0]
    print("grammar:", json.dumps(obj["grammar"]))
    for op, q in zip(obj["ops"], r.get("results", [])):
        print(op, "->", json.dumps(q)[:300])
    return 0
