"""C01: the next-token mask is exactly the set of viable continuations (DESIGN.md §4 C01)."""
import json

import cfgmodel as M
import translate_machines as TM
from cfgcheck import PrefixTable
from common import run_impl


def viol(ctx, sig, what, obj):
    if not ctx.seen(sig):
        ctx.violation(sig, what, obj)


def contexts_for(ctx, g, maxlen=4, cap=14):
    cs = [list(x) for x in M.strings(g["nT"], maxlen)]
    if len(cs) > cap:
        cs = cs[:6] + ctx.rng.sample(cs[6:], cap - 6)
    return cs


def run_lm(jobs, hashseed=0):
    return run_impl("lmops", {"jobs": jobs}, hashseed=hashseed, timeout=1200)["results"]


def shrink(ctx, g, kind, c, want):
    def fails(h):
        r = run_lm([{"g": h, "sr": "bool", "kind": kind, "ops": [["p_next", c]]}])[0]
        if "build_err" in r or "err" in r["results"][0]:
            return False
        got = set(r["results"][0]["ok"].keys())
        m = M.pmirror_bool(M.add_eos(h))
        ge = M.add_eos(h)
        spec = set()
        for t in list(range(h["nT"])) + ["eos"]:
            tt = h["nT"] if t == "eos" else t
            if m.prefix(ge["S"], list(c) + [tt], fuel=60):
                spec.add(str(t))
        return got != spec

    try:
        if fails(g):
            return M.shrink_grammar(g, fails)
    except Exception:
        pass
    return g


def run(ctx):
    quick = ctx.tier == "quick"
    ctx.cov["rule"] = ("random Boolean grammars (nullable chains and cycles, unary cycles, left/right recursion, useless symbols, empty language) x contexts up to length 4 (viable or not) x alg in {earley, cky} x rule permutation/renaming x hash seeds; "
                       "reference mask = { t : prefix weight of context+t in the EOS-wrapped grammar is true } computed by the Coq prefix tabulation over the Boolean semiring (proved: true iff some derivation tree's yield begins with it); "
                       "non-trivial = non-empty mask")
    try:
        ctx.cov["translators"].append(TM.main())
        ctx.obligation("translate_machines", True)
        tr_ok = True
    except TM.Refuse as e:
        ctx.obligation("translate_machines", False, f"translator refused: {e}")
        tr_ok = False
    ok, out = ctx.build(["proofs/PrefixMachine.vo", "proofs/PrefixTrees.vo", "proofs/PrefixChart.vo", "proofs/NormProofs.vo", "proofs/MaskStringsProofs.vo", "proofs/MaskEosProofs.vo"]) if tr_ok else (False, "translator")
    if ok:
        ctx.prove("props/C01.v")
    else:
        ctx.obligation("coq-build(C01)", False, out[-3000:])
        ok2, _ = ctx.build(["model/Prefix.vo"])
        if not ok2:
            return
    n = 40 if quick else 400
    seeds = [0, 1, 2] if quick else [0, 1, 2, 3, 4]
    gs = [M.rand_grammar(ctx.rng, boolean=True, pnull=0.2, punary=0.25) for _ in range(n)]
    # grammars whose left-corner graph is cyclic (unary cycles, mutual left recursion) and that are right recursive too
    gs += [M.rand_leftcorner_grammar(ctx.rng) for _ in range(n)]
    tab = PrefixTable(ctx, "bool", "mask")
    plan = []
    for g in gs:
        ge = M.add_eos(g)
        gid = tab.add(ge)
        cs = contexts_for(ctx, g)
        for c in cs:
            for t in range(g["nT"] + 1):  # nT = eos
                tab.want(gid, c + [t])
        plan.append((g, ge, gid, cs))
        for f in M.features(g):
            ctx.dist(f)
        ctx.dist("grammars")
    tab.eval()
    for hs in seeds:
        for kind in ("bool_earley", "bool_cky"):
            jobs = []
            for g, ge, gid, cs in plan:
                gg = g if hs == 0 else M.permute_rename(ctx.rng, g)
                jobs.append({"g": gg, "sr": "bool", "kind": kind, "ops": [["p_next", c] for c in cs]})
            res = run_lm(jobs, hashseed=hs)
            for (g, ge, gid, cs), job, r in zip(plan, jobs, res):
                if "build_err" in r:
                    viol(ctx, f"{kind}:build:{r['build_err'][:30]}", f"BoolCFGLM({kind}) construction raised {r['build_err']}", {"kind": "mask-error", "alg": kind, "grammar": job["g"], "error": r["build_err"]})
                    continue
                for c, q in zip(cs, r["results"]):
                    spec = set()
                    unknown = False
                    for t in range(g["nT"] + 1):
                        v = tab.get(gid, c + [t])
                        if v is None:
                            unknown = True
                        elif v:
                            spec.add("eos" if t == g["nT"] else str(t))
                    if unknown:
                        continue
                    ctx.count_case((json.dumps(g), kind, tuple(c), hs), nontrivial=bool(spec))
                    if "err" in q:
                        viol(ctx, f"{kind}:error:{q['err'][:40]}", f"BoolCFGLM({kind}).p_next({c}) raised {q['err']}", {"kind": "mask-error", "alg": kind, "grammar": job["g"], "context": c, "error": q["err"]})
                        continue
                    got = set(q["ok"].keys())
                    if got != spec:
                        sig = f"{kind}:mask"
                        if not ctx.seen(sig):
                            small = shrink(ctx, job["g"], kind, c, spec)
                            ctx.violation(sig, f"BoolCFGLM({kind}).p_next({c}) offers {sorted(got)}, viable continuations are {sorted(spec)}",
                                          {"kind": "mask", "alg": kind, "grammar": small, "original_grammar": job["g"], "context": c, "observed": sorted(got), "expected": sorted(spec)})
    # Float-weighted copies with extreme weights: only the support may matter (underflow must not drop tokens)
    tiny = "1/" + "1" + "0" * 200
    jobs = []
    for g, ge, gid, cs in plan[: (20 if quick else 200)]:
        fg = {"S": g["S"], "nT": g["nT"], "rules": [[tiny, h, b] for w, h, b in g["rules"]]}
        for kind in ("bool_earley", "bool_cky"):
            jobs.append((g, fg, gid, cs, kind))
    res = run_lm([{"g": fg, "sr": "float", "kind": kind, "ops": [["p_next", c] for c in cs]} for g, fg, gid, cs, kind in jobs], hashseed=0)
    for (g, fg, gid, cs, kind), r in zip(jobs, res):
        ctx.dist("float-weighted")
        if "build_err" in r:
            viol(ctx, f"{kind}:float-build:{r['build_err'][:30]}", f"BoolCFGLM({kind}) on a Float grammar raised {r['build_err']}", {"kind": "mask-error", "alg": kind, "sr": "float", "grammar": fg, "error": r["build_err"]})
            continue
        for c, q in zip(cs, r["results"]):
            spec = set()
            unknown = False
            for t in range(g["nT"] + 1):
                v = tab.get(gid, c + [t])
                if v is None:
                    unknown = True
                elif v:
                    spec.add("eos" if t == g["nT"] else str(t))
            if unknown:
                continue
            ctx.count_case(("float", json.dumps(g), kind, tuple(c)), nontrivial=bool(spec))
            if "err" in q:
                viol(ctx, f"{kind}:float-error:{q['err'][:40]}", f"BoolCFGLM({kind}).p_next({c}) on a Float grammar raised {q['err']}", {"kind": "mask-error", "alg": kind, "sr": "float", "grammar": fg, "context": c, "error": q["err"]})
                continue
            got = set(q["ok"].keys())
            if got != spec:
                viol(ctx, f"{kind}:mask-float", f"BoolCFGLM({kind}).p_next({c}) on a Float grammar with weights 1e-200 offers {sorted(got)}, viable continuations are {sorted(spec)}",
                     {"kind": "mask", "alg": kind, "sr": "float", "grammar": fg, "context": c, "observed": sorted(got), "expected": sorted(spec)})
    search_leftcorner(ctx, 300 if quick else 2500)
    g, ge, gid, cs = plan[0]
    ctx.sample({"grammar": g, "contexts": cs[:4], "masks": [[("eos" if t == g["nT"] else t) for t in range(g["nT"] + 1) if tab.get(gid, c + [t])] for c in cs[:4]]})


def search_leftcorner(ctx, n):
    """volume search on grammars with cyclic left-corner graphs and longer contexts: the Earley and the CKY back-end are
    run on the same histories; where they disagree the harness-side mirror of the proved prefix semantics decides"""
    gs = [(M.rand_leftcorner_grammar(ctx.rng) if k % 3 else M.rand_mutual_leftrec_grammar(ctx.rng)) for k in range(n)]
    plans = []
    for g in gs:
        cs = [list(x) for x in M.strings(g["nT"], 2)]
        cs += [[ctx.rng.randrange(g["nT"]) for _ in range(ctx.rng.randint(3, 5))] for _ in range(12)]
        plans.append((g, cs))
    for hs in (0, 1, 2):
        out = {}
        for kind in ("bool_earley", "bool_cky"):
            out[kind] = run_lm([{"g": g, "sr": "bool", "kind": kind, "ops": [["p_next", c] for c in cs], "timeout": 60} for g, cs in plans], hashseed=hs)
        for (g, cs), a, b in zip(plans, out["bool_earley"], out["bool_cky"]):
            ctx.dist("left-corner-search")
            if "results" not in a or "results" not in b:
                continue
            for i, (c, x, y) in enumerate(zip(cs, a["results"], b["results"])):
                ctx.cov["oracle_cases"] += 1
                if "ok" not in x or "ok" not in y or set(x["ok"]) == set(y["ok"]):
                    continue
                ge = M.add_eos(g)
                m = M.pmirror_bool(ge)
                spec = set()
                for t in list(range(g["nT"])) + ["eos"]:
                    tt = g["nT"] if t == "eos" else t
                    if m.prefix(ge["S"], list(c) + [tt], fuel=80):
                        spec.add(str(t))
                for kind, q in (("bool_earley", x), ("bool_cky", y)):
                    if set(q["ok"]) != spec:
                        viol(ctx, f"{kind}:mask", f"BoolCFGLM({kind}).p_next({c}) offers {sorted(q['ok'])} after the queries {cs[:i]}; viable continuations are {sorted(spec)} (hash seed {hs})",
                             {"kind": "mask", "alg": kind, "grammar": g, "context": c, "history": cs[:i], "hashseed": hs, "observed": sorted(q["ok"]), "expected": sorted(spec)})
                break


def replay(obj):
    r = run_lm([{"g": obj["grammar"], "sr": obj.get("sr", "bool"), "kind": obj["alg"], "ops": [["p_next", c] for c in obj.get("history", [])] + [["p_next", obj.get("context", [])]]}], hashseed=obj.get("hashseed", 0))[0]
    if "results" in r:
        r = r["results"][-1]
    print("grammar:", json.dumps(obj["grammar"]))
    print("p_next(", obj.get("context"), ") ->", r, "expected mask:", obj.get("expected"))
    return 0
