"""C11: automaton string weight is the sum over accepting paths (DESIGN.md §4 C11)."""
import json
from fractions import Fraction

import fsamodel as F
import translate_wfsa as TW
from fsacheck import WTable, run_w, coq_str
from common import dec_val, close_enough


def viol(ctx, sig, what, obj):
    if not ctx.seen(sig):
        ctx.violation(sig, what, obj)


def shrink(m, fails):
    m = json.loads(json.dumps(m))
    changed = True
    while changed:
        changed = False
        for key in ("arcs", "init", "final"):
            for i in range(len(m[key])):
                h = json.loads(json.dumps(m))
                del h[key][i]
                try:
                    if fails(h):
                        m = h
                        changed = True
                        break
                except Exception:
                    pass
            if changed:
                break
    return m


def run(ctx):
    quick = ctx.tier == "quick"
    ctx.cov["rule"] = ("random automata (1-4 states, several initial/final states, parallel arcs, epsilon arcs and epsilon cycles, unreachable and dead states, sub-stochastic rational weights) x all strings to length 3: "
                       "m(xs), m.epsremove(xs) (and absence of epsilon arcs), m.total_weight() vs the Coq model (epsilon closure by Lehmann elimination over Qc with star = 1/(1-x), then the forward pass, proved = path sum) and vs the exact matrix oracle; non-trivial = non-zero weight")
    try:
        ctx.cov["translators"].append(TW.main())
        ctx.obligation("translate_wfsa", True)
        tr_ok = True
    except TW.Refuse as e:
        ctx.obligation("translate_wfsa", False, f"translator refused: {e}")
        tr_ok = False
    ok, out = ctx.build(["proofs/WfsaProofs.vo", "proofs/LehmannProof.vo", "proofs/EpsRemove.vo", "proofs/GenWfsaBridge.vo", "proofs/EpsEquations.vo", "proofs/ClosureExtra.vo", "proofs/TotalWeightProofs.vo", "model/EpsSpec.vo"]) if tr_ok else (False, "translator refused")
    if ok:
        ctx.prove("props/C11.v")
    else:
        ctx.obligation("coq-build(C11)", False, out[-3000:])
        ok2, _ = ctx.build(["model/EpsSpec.vo", "model/Fst.vo"])
        if not ok2:
            return
    n = 60 if quick else 600
    ms = [F.rand_wfsa(ctx.rng, peps=ctx.rng.choice([0.0, 0.25, 0.5])) for _ in range(n)]
    tab = WTable(ctx, "call")
    plan = []
    for i, m in enumerate(ms):
        name = tab.machine(m)
        strs = [list(x) for x in F.strings(m["nT"], 3)]
        if len(strs) > 20:
            strs = strs[:8] + ctx.rng.sample(strs[8:], 12)
        for xs in strs:
            tab.want((i, tuple(xs)), f"@call QcStar {name} {coq_str(xs)}")
        tab.want((i, "total"), f"@total_weight QcStar {name}")
        plan.append((m, strs))
        ctx.dist("eps-cyclic" if F.eps_cyclic(m) else ("eps" if any(a[1] is None for a in m["arcs"]) else "eps-free"))
    tab.eval()
    for cls in ("field", "base"):
        res = run_w([{"queries": [{"op": "call", "m": m, "xs": strs, "cls": cls}, {"op": "epsremove", "m": m, "xs": strs, "cls": cls}, {"op": "total_weight", "m": m, "cls": cls}]} for m, strs in plan])
        for i, ((m, strs), r) in enumerate(zip(plan, res)):
            for op, q in zip(("call", "epsremove", "total_weight"), r):
                if "err" in q:
                    viol(ctx, f"{op}:{cls}:error:{q['err'][:30]}", f"{op} raised {q['err']}", {"kind": "wfsa-error", "op": op, "cls": cls, "machine": m, "error": q["err"]})
                    continue
                if op == "total_weight":
                    ref = tab.get((i, "total"))
                    v = dec_val(q["ok"])
                    orc = F.wfsa_total(m)
                    if ref != orc:
                        ctx.broken.append(("model-vs-oracle(total)", f"{m}: {ref} vs {orc}"))
                    ctx.count_case((i, cls, "total"), nontrivial=ref != 0)
                    if not close_enough(v, ref, rel=1e-9):
                        viol(ctx, f"total_weight:{cls}", f"total_weight() = {v}, sum over all accepting paths is {ref}", {"kind": "wfsa", "op": op, "cls": cls, "machine": m, "observed": str(v), "expected": str(ref)})
                    continue
                vals = q["ok"] if op == "call" else q["ok"]["values"]
                if op == "epsremove" and q["ok"]["eps_arcs"] != 0:
                    viol(ctx, f"epsremove:{cls}:eps-left", "epsremove left epsilon arcs in the result", {"kind": "wfsa", "op": op, "cls": cls, "machine": m})
                for xs, enc in zip(strs, vals):
                    ref = tab.get((i, tuple(xs)))
                    v = dec_val(enc)
                    ctx.count_case((i, cls, op, tuple(xs)), nontrivial=ref != 0)
                    if not close_enough(v, ref, rel=1e-9):
                        def fails(h, xs=xs, op=op, cls=cls):
                            rr = run_w([{"queries": [{"op": op, "m": h, "xs": [xs], "cls": cls}]}])[0][0]
                            if "err" in rr:
                                return False
                            vv = dec_val((rr["ok"] if op == "call" else rr["ok"]["values"])[0])
                            return not close_enough(vv, F.wfsa_oracle(h, xs), rel=1e-9)
                        sig = f"{op}:{cls}"
                        if not ctx.seen(sig):
                            small = shrink(m, fails)
                            ctx.violation(sig, f"{op} gives {xs} the weight {v}; the sum over accepting paths is {ref}", {"kind": "wfsa", "op": op, "cls": cls, "machine": small, "original": m, "xs": xs, "observed": str(v), "expected": str(ref)})
    # model sanity against the exact matrix oracle (independent of Lehmann's elimination order)
    for i, (m, strs) in enumerate(plan[:40]):
        for xs in strs[:6]:
            ctx.cov["oracle_cases"] += 1
            if tab.get((i, tuple(xs))) != F.wfsa_oracle(m, xs):
                ctx.broken.append(("model-vs-oracle(call)", f"{m} {xs}"))
    ctx.sample({"machine": plan[0][0], "strings": plan[0][1][:4], "reference": [str(tab.get((0, tuple(xs)))) for xs in plan[0][1][:4]]})


def replay(obj):
    q = {"op": obj["op"], "m": obj["machine"], "xs": [obj.get("xs", [])], "cls": obj.get("cls", "field")}
    r = run_w([{"queries": [q]}])[0][0]
    print("machine:", json.dumps(obj["machine"]))
    print(obj["op"], obj.get("xs"), "->", r, "expected:", obj.get("expected"))
    return 0
