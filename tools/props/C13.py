"""C13: determinisation, minimisation, pushing and trimming preserve the language (DESIGN.md §4 C13)."""
import json
import re
from fractions import Fraction

import fsamodel as F
from fsacheck import WTable, run_w, coq_str, decode_machine
from common import CoqError, coq_eval_bools, dec_val, close_enough

OPS = ["determinize", "min_det", "push", "trim", "trim_vals"]
BIMPORTS = ("From Coq Require Import List Arith ZArith QArith Qcanon.\nImport ListNotations.\nFrom GV.lib Require Import Semiring BigSum.\n"
            "From GV.model Require Import Linear Wfsa WfsaEps EpsSpec Det TrimW TrimSearch.")


def inexact_machine(d):
    """does the dumped automaton carry float weights (rational runs can be contaminated by float constants such as Float.star(0) = 1.0)?"""
    return any(isinstance(x, dict) for _, x in d["init"] + d["final"]) or any(isinstance(a[3], dict) for a in d["arcs"])


def stochastic_py(om, tol=1e-7):
    mass = {}
    for q_, w in om["final"]:
        mass[q_] = mass.get(q_, 0.0) + float(Fraction(w))
    for i_, _, _, w in om["arcs"]:
        mass[i_] = mass.get(i_, 0.0) + float(Fraction(w))
    return all(abs(v - 1.0) <= tol for v in mass.values())


def raw_states(d):
    """the state names of a dumped automaton as integers (None when the states are not plain integers)"""
    names = {q for q, _ in d["init"]} | {q for q, _ in d["final"]} | {a[0] for a in d["arcs"]} | {a[2] for a in d["arcs"]} | set(d.get("states", []))
    out = []
    for n_ in names:
        if not re.fullmatch(r"\d+", str(n_)):
            return None
        out.append(int(n_))
    return sorted(out)


def trim_state_check(m, d, bexprs, bmeta, om):
    """the states of m.trim are exactly the ones the Coq model of the two graph searches keeps (C13_trim_search)"""
    rs = raw_states(d)
    if rs is None or m.get("names") or any(Fraction(w) == 0 for _, w in m["init"] + m["final"]) or any(Fraction(a[3]) == 0 for a in m["arcs"]):
        return
    bexprs.append("same_states [" + "; ".join(f"{q}%nat" for q in rs) + f"] (active {F.coq_wfsa(m)})")
    bmeta.append((m, "trim", "the state set of the model of trim", om))


def viol(ctx, sig, what, obj):
    if not ctx.seen(sig):
        ctx.violation(sig, what, obj)


def gen(rng):
    """acyclic automaton (determinisation terminates) with shared prefixes, unequal weights, epsilon arcs,
    several initial states and dead states"""
    n = rng.randint(2, 5)
    nT = rng.randint(1, 2)
    m = {"nT": nT, "init": [], "final": [], "arcs": []}
    for _ in range(rng.randint(1, 2)):
        m["init"].append([rng.randrange(max(1, n - 2)), F.fs(Fraction(1, rng.randint(1, 4)))])
    for _ in range(rng.randint(1, 2)):
        m["final"].append([rng.randrange(1, n), F.fs(Fraction(1, rng.randint(1, 4)))])
    for _ in range(rng.randint(2, 8)):
        i, j = rng.randrange(n), rng.randrange(n)
        if i == j:
            continue
        i, j = min(i, j), max(i, j)
        a = None if rng.random() < 0.15 else rng.randrange(nT)
        m["arcs"].append([i, a, j, F.fs(Fraction(rng.randint(1, 3), rng.randint(3, 6)))])
    if rng.random() < 0.5:  # a dead state: reachable, not co-accessible
        d = n
        src = rng.randrange(n)
        m["arcs"].append([src, rng.randrange(nT), d, "1/3"])
        if rng.random() < 0.5:   # ... which carries an explicit final weight of zero (a retracted final state)
            m["final"].append([d, "0/1"])
    return m


def run(ctx):
    quick = ctx.tier == "quick"
    ctx.cov["rule"] = ("acyclic automata (determinisation terminates) with shared prefixes, unequal rational weights, epsilon arcs, several initial states and dead states x all strings up to the longest path: "
                       "determinize / min_det / push / trim / trim_vals: values vs the Coq reference m(xs); each result is read back and (a) re-evaluated by the Coq model, (b) checked by the Coq checkers: deterministic (single initial state, no epsilon, <=1 arc per state and symbol), "
                       "stochastic (outgoing + final mass of every live state = 1), trim (every state accessible and co-accessible); non-trivial = non-zero weight")
    ok, out = ctx.build(["proofs/DetProofs.vo", "proofs/TrimWProofs.vo", "proofs/TrimSearchProofs.vo", "proofs/DetCheckerProofs.vo", "proofs/CompareSpecs.vo", "proofs/WfsaProofs.vo", "model/Det.vo", "model/EpsSpec.vo", "model/TrimSearch.vo"])
    if ok:
        ctx.prove("props/C13.v")
    else:
        ctx.obligation("coq-build(C13)", False, out[-3000:])
        ok2, _ = ctx.build(["model/Det.vo", "model/EpsSpec.vo", "model/TrimSearch.vo"])
        if not ok2:
            return
    n = 40 if quick else 400
    ms = [gen(ctx.rng) for _ in range(n)]
    tab = WTable(ctx, "reference")
    plan = []
    for i, m in enumerate(ms):
        name = tab.machine(m)
        L = min(4, len(F.states_of(m)))
        strs = [list(x) for x in F.strings(m["nT"], L)]
        if len(strs) > 24:
            strs = strs[:10] + ctx.rng.sample(strs[10:], 14)
        for xs in strs:
            tab.want((i, tuple(xs)), f"@call QcStar {name} {coq_str(xs)}")
        plan.append((m, strs))
        ctx.dist("with-eps" if any(a[1] is None for a in m["arcs"]) else "eps-free")
    tab.eval()
    res = run_w([{"queries": [{"op": op, "m": m, "xs": strs, "timeout": 20} for op in OPS]} for m, strs in plan], hashseed=ctx.rng.randint(0, 3))
    otab = WTable(ctx, "readback")
    bexprs, bmeta = [], []
    outs = {}
    for i, ((m, strs), r) in enumerate(zip(plan, res)):
        for op, q in zip(OPS, r):
            if "err" in q:
                viol(ctx, f"{op}:error:{q['err'][:40]}", f"{op} raised {q['err']}", {"kind": "det-error", "op": op, "machine": m, "error": q["err"]})
                continue
            for xs, enc in zip(strs, q["ok"]["values"]):
                ref = tab.get((i, tuple(xs)))
                v = dec_val(enc)
                ctx.count_case((i, op, tuple(xs)), nontrivial=ref != 0)
                if not close_enough(v, ref, rel=1e-9):
                    viol(ctx, f"{op}:value", f"{op} gives {xs} the weight {v}; the input automaton gives {ref}", {"kind": "det", "op": op, "machine": m, "xs": xs, "observed": str(v), "expected": str(ref)})
            try:
                om = decode_machine(q["ok"]["machine"], m["nT"])
            except Exception as e:
                continue
            name = otab.machine(om)
            outs[(i, op)] = om
            for xs in strs[:12]:
                otab.want((i, op, tuple(xs)), f"@call QcStar {name} {coq_str(xs)}")
            lit = F.coq_wfsa(om)
            if op in ("determinize", "min_det"):
                bexprs.append(f"deterministic {lit}")
                bmeta.append((m, op, "deterministic", om))
            if op == "push" and inexact_machine(q["ok"]["machine"]):
                # float weights in the result: the mass is checked up to rounding, outside Coq
                if not stochastic_py(om):
                    viol(ctx, "push:stochastic", "the result of push is not stochastic", {"kind": "det-shape", "op": op, "pred": "stochastic", "machine": m, "output": om})
            elif op == "push":
                live = sorted({a[0] for a in om["arcs"]} | {q[0] for q in om["final"]})
                bexprs.append("forallb (fun q => Qc_eqb (@out_mass QcFR " + lit + " q) 1%Qc) [" + "; ".join(f"{q}%nat" for q in live) + "]")
                bmeta.append((m, op, "stochastic", om))
            if op in ("trim", "trim_vals"):
                bexprs.append(f"is_trim {lit}")
                bmeta.append((m, op, "trim", om))
                if op == "trim":
                    trim_state_check(m, q["ok"]["machine"], bexprs, bmeta, om)
    # ---- cyclic automata: pushing and trimming terminate on every input (determinisation may not)
    cyc = [F.rand_wfsa(ctx.rng, n=ctx.rng.randint(2, 4), nT=2, narcs=ctx.rng.randint(3, 8), peps=0.1) for _ in range(25 if quick else 250)]
    cops = ["push", "trim", "trim_vals"]
    cstrs = [list(x) for x in F.strings(2, 3)]
    ctab_ = WTable(ctx, "reference-cyclic")
    for i, m in enumerate(cyc):
        name = ctab_.machine(m)
        for xs in cstrs:
            ctab_.want((i, tuple(xs)), f"@call QcStar {name} {coq_str(xs)}")
    ctab_.eval()
    cres = run_w([{"queries": [{"op": op, "m": m, "xs": cstrs, "timeout": 20} for op in cops]} for m in cyc])
    for i, (m, r) in enumerate(zip(cyc, cres)):
        ctx.dist("cyclic")
        for op, q in zip(cops, r):
            if "err" in q:
                viol(ctx, f"{op}:cyclic-error:{q['err'][:40]}", f"{op} raised {q['err']} on a cyclic automaton", {"kind": "det-error", "op": op, "machine": m, "error": q["err"]})
                continue
            for xs, enc in zip(cstrs, q["ok"]["values"]):
                ref = ctab_.get((i, tuple(xs)))
                ctx.count_case(("cyc", i, op, tuple(xs)), nontrivial=ref != 0)
                if not close_enough(dec_val(enc), ref, rel=1e-9):
                    viol(ctx, f"{op}:value", f"{op} gives {xs} the weight {dec_val(enc)}; the input automaton gives {ref}", {"kind": "det", "op": op, "machine": m, "xs": xs, "observed": str(dec_val(enc)), "expected": str(ref)})
            try:
                om = decode_machine(q["ok"]["machine"], m["nT"])
            except Exception:
                continue
            lit = F.coq_wfsa(om)
            if op == "push" and inexact_machine(q["ok"]["machine"]):
                if not stochastic_py(om):
                    viol(ctx, "push:stochastic", "the result of push is not stochastic", {"kind": "det-shape", "op": op, "pred": "stochastic", "machine": m, "output": om})
            elif op == "push":
                live = sorted({a[0] for a in om["arcs"]} | {q_[0] for q_ in om["final"]})
                bexprs.append("forallb (fun q => Qc_eqb (@out_mass QcFR " + lit + " q) 1%Qc) [" + "; ".join(f"{q_}%nat" for q_ in live) + "]")
                bmeta.append((m, op, "stochastic", om))
            else:
                bexprs.append(f"is_trim {lit}")
                bmeta.append((m, op, "trim", om))
                if op == "trim":
                    trim_state_check(m, q["ok"]["machine"], bexprs, bmeta, om)
    otab.eval()
    for (i, op, xs), k in otab.keys.items():
        ref = tab.get((i, xs))
        v = otab.vals[k]
        if v != ref and abs(float(v) - float(ref)) > 1e-9 * max(1.0, abs(float(ref))):
            viol(ctx, f"{op}:readback", f"the automaton returned by {op} gives {list(xs)} the weight {v} (Coq model), the input gives {ref}", {"kind": "det", "op": op, "machine": plan[i][0], "xs": list(xs), "observed": str(v), "expected": str(ref)})
    try:
        failing = coq_eval_bools(ctx, "shape", BIMPORTS, bexprs, shard=150)
    except CoqError as e:
        ctx.broken.append(("correspondence(shape)", str(e)))
        failing = []
    ctx.cov["disagreements_checked"] += len(failing)
    for k in failing:
        m, op, pred, om = bmeta[k]
        viol(ctx, f"{op}:{pred}", f"the result of {op} is not {pred}", {"kind": "det-shape", "op": op, "pred": pred, "machine": m, "output": om})
    stream_reverse_grow(ctx, 15 if quick else 120)
    ctx.sample({"machine": plan[0][0], "strings": plan[0][1][:4]})


def stream_reverse_grow(ctx, n):
    """r = m.reverse is extended with a new accepting branch and then trimmed: the new branch must survive and all weights
    must be those of the extended machine (exact oracle); every remaining state must lie on an accepting path"""
    jobs, metas = [], []
    for _ in range(n):
        m = gen(ctx.rng)
        sts = F.states_of(m)
        if not m["init"] or not m["final"] or not sts:
            continue
        new = max(sts) + 3
        rev = {"nT": m["nT"], "init": [list(x) for x in m["final"]], "final": [list(x) for x in m["init"]],
               "arcs": [[j, a, i, w] for i, a, j, w in m["arcs"]]}
        src = ctx.rng.choice([q for q, _ in rev["init"]] + [j for _, _, j, _ in rev["arcs"]])
        extra_arcs = [[src, ctx.rng.randrange(m["nT"]), new, "1/3"]]
        extra_final = [[new, "1/2"]]
        ext = {"nT": m["nT"], "init": rev["init"], "final": rev["final"] + extra_final, "arcs": rev["arcs"] + extra_arcs}
        strs = [list(x) for x in F.strings(m["nT"], min(4, len(sts) + 1))][:30]
        jobs.append({"queries": [{"op": "reverse_grow_trim", "m": m, "extra_arcs": extra_arcs, "extra_final": extra_final, "xs": strs, "timeout": 20}]})
        metas.append((m, ext, strs, extra_arcs, extra_final))
    res = run_w(jobs)
    for (m, ext, strs, ea, ef), r in zip(metas, res):
        q = r[0]
        ctx.dist("reverse-then-extended-then-trimmed")
        if "err" in q:
            viol(ctx, f"reverse_grow_trim:error:{q['err'][:30]}", f"m.reverse extended and trimmed raised {q['err']}", {"kind": "det-error", "op": "reverse_grow_trim", "machine": m, "extra_arcs": ea, "extra_final": ef, "error": q["err"]})
            continue
        for xs, enc in zip(strs, q["ok"]["values"]):
            try:
                ref = F.wfsa_oracle(ext, xs)
            except ZeroDivisionError:
                continue
            ctx.cov["oracle_cases"] += 1
            ctx.count_case(("reverse-grow", json.dumps(m), tuple(xs)), nontrivial=ref != 0)
            if not close_enough(dec_val(enc), ref, rel=1e-9):
                viol(ctx, "reverse_grow_trim:value", f"r = m.reverse, extended by the arc {ea[0]} and the final state {ef[0][0]}, then r.trim gives {xs} the weight {dec_val(enc)}; the extended machine gives {ref}",
                     {"kind": "det", "op": "reverse_grow_trim", "machine": m, "extra_arcs": ea, "extra_final": ef, "xs": xs, "observed": str(dec_val(enc)), "expected": str(ref)})
                break


def replay(obj):
    q = {"op": obj["op"], "m": obj["machine"], "xs": [obj.get("xs", [])]}
    if obj["op"] == "reverse_grow_trim":
        q["extra_arcs"], q["extra_final"] = obj["extra_arcs"], obj["extra_final"]
    r = run_w([{"queries": [q]}])[0][0]
    print("machine:", json.dumps(obj["machine"]))
    print(obj["op"], "->", json.dumps(r)[:2000], "expected:", obj.get("expected"))
    return 0
