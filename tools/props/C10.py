"""C10: transducer composition counts every matching path pair exactly once (DESIGN.md §4 C10)."""
import itertools
import json
from fractions import Fraction

import fsamodel as F
import translate_machines as TM
import translate_fstops as TF
from fsacheck import WTable, run_w, coq_str
from common import dec_val, close_enough

CIMPORTS = "From GV.model Require Import FstCompose.\nFrom GV.gen Require Import Gen_Machines."


def viol(ctx, sig, what, obj):
    if not ctx.seen(sig):
        ctx.violation(sig, what, obj)


def strs(n, L):
    return [list(x) for k in range(L + 1) for x in itertools.product(range(n), repeat=k)]


def compose_ref(f, g, x, z, nB):
    """sum over y of f(x,y) g(y,z) with y enumerated up to the exact bound (f has no input-epsilon cycle)"""
    bound = F.max_out_len(f, len(x))
    if bound is None:
        return None
    bound = min(bound, 6)
    tot = Fraction(0)
    for y in strs(nB, bound):
        a = F.fst_oracle(f, x, y)
        if a != 0:
            tot += a * F.fst_oracle(g, y, z)
    # beyond the cap the contribution must vanish for the reference to be exact
    return tot


def shrink(t, fails):
    t = json.loads(json.dumps(t))
    changed = True
    while changed:
        changed = False
        for key in ("arcs", "init", "final"):
            for i in range(len(t[key])):
                h = json.loads(json.dumps(t))
                del h[key][i]
                try:
                    if fails(h):
                        t = h
                        changed = True
                        break
                except Exception:
                    pass
            if changed:
                break
    return t


def run(ctx):
    quick = ctx.tier == "quick"
    ctx.cov["rule"] = ("random pairs of transducers (1-3 states, epsilon on either tape, epsilon:epsilon arcs, cycles, several initial/final states, both size orderings) x string pairs to length 2: "
                       "f(x,y), f.T, cross-sections, projections vs the Coq relational semantics trel (path sums) and the exact DP oracle; (f@g)(x,z) vs the Coq model of the algorithm (augmentation + regenerated filter + product) and vs sum_y f(x,y) g(y,z); "
                       "from_string / from_pairs / diag vs their specifications; non-trivial = non-zero weight")
    try:
        ctx.cov["translators"].append(TM.main())
        ctx.obligation("translate_machines", True)
        tr_ok = True
    except TM.Refuse as e:
        ctx.obligation("translate_machines", False, f"translator refused: {e}")
        tr_ok = False
    try:
        ctx.cov["translators"].append(TF.main())   # FST.T / diag / project (bridged to the models in proofs/GenFstOpsBridge.v)
        ctx.obligation("translate_fstops", True)
    except TF.Refuse as e:
        ctx.obligation("translate_fstops", False, f"translator refused: {e}")
        tr_ok = False
    ok, out = ctx.build(["proofs/FilterMachine.vo", "proofs/ProductProofs.vo", "proofs/FstOpsProofs.vo", "proofs/GenFstOpsBridge.vo", "proofs/FstStringProofs.vo", "model/FstCompose.vo", "model/EpsSpec.vo"]) if tr_ok else (False, "translator")
    if ok:
        ctx.prove("props/C10.v")
    else:
        ctx.obligation("coq-build(C10)", False, out[-3000:])
        # keep searching for a failing input: the streams below compare the implementation with the
        # relational semantics and the exact oracle; the model of the algorithm is used only if the
        # last successfully generated machines still build
        ok2, _ = ctx.build(["model/FstCompose.vo", "model/EpsSpec.vo"])
        if not ok2:
            return
    n = 40 if quick else 400
    nA = nB = 2
    xs2 = strs(2, 2)
    # ---- single machines: relational semantics
    ts = [F.rand_fst(ctx.rng, nA=nA, nB=nB) for _ in range(n)]
    for t in ts[::3]:   # parallel arcs between one pair of states that agree on one tape and differ on the other
        if t["arcs"]:
            i_, a_, b_, j_, w_ = ctx.rng.choice(t["arcs"])
            if a_ is not None and b_ is not None:
                t["arcs"].append([i_, a_, 1 - b_, j_, "1/9"])
                t["arcs"].append([i_, 1 - a_, b_, j_, "1/11"])
                out_ = {}
                for p_, _, _, _, w2 in t["arcs"]:
                    out_[p_] = out_.get(p_, Fraction(0)) + Fraction(w2)
                t["arcs"] = [[p_, x_, y_, q_, (F.fs(Fraction(w2) * Fraction(4, 5) / out_[p_]) if out_[p_] >= Fraction(9, 10) else w2)] for p_, x_, y_, q_, w2 in t["arcs"]]
    tab = WTable(ctx, "trel")
    plan = []
    for i, t in enumerate(ts):
        name = tab.transducer(t)
        pairs = [(x, y) for x in xs2 for y in xs2]
        pairs = ctx.rng.sample(pairs, 12)
        fuel = 4 + len(F.fst_states(t)) + 2
        for x, y in pairs:
            tab.want((i, tuple(x), tuple(y)), f"@trel QcSR {name} {fuel} {coq_str(x)} {coq_str(y)}")
        plan.append((t, pairs))
    tab.eval()
    res = run_w([{"queries": [{"op": "fst_call", "t": t, "pairs": pairs}, {"op": "fst_misc", "t": t, "pairs": pairs}]} for t, pairs in plan])
    for i, ((t, pairs), r) in enumerate(zip(plan, res)):
        for (x, y) in pairs:
            ref = tab.get((i, tuple(x), tuple(y)))
            orc = F.fst_oracle(t, x, y)
            ctx.cov["oracle_cases"] += 1
            if ref != orc:
                ctx.broken.append(("model-vs-oracle(trel)", f"{t} {x} {y}: {ref} vs {orc}"))
        q = r[0]
        if "err" in q:
            viol(ctx, f"fst_call:error:{q['err'][:30]}", f"f(x, y) raised {q['err']}", {"kind": "fst-error", "op": "fst_call", "t": t, "error": q["err"]})
        else:
            for (x, y), enc in zip(pairs, q["ok"]):
                ref = tab.get((i, tuple(x), tuple(y)))
                v = dec_val(enc)
                ctx.count_case((i, "call", tuple(x), tuple(y)), nontrivial=ref != 0)
                if not close_enough(v, ref, rel=1e-9):
                    def fails(h, x=x, y=y):
                        rr = run_w([{"queries": [{"op": "fst_call", "t": h, "pairs": [(x, y)]}]}])[0][0]
                        return "ok" in rr and not close_enough(dec_val(rr["ok"][0]), F.fst_oracle(h, x, y), rel=1e-9)
                    if not ctx.seen("fst_call"):
                        ctx.violation("fst_call", f"f({x}, {y}) = {v}; sum over accepting paths is {ref}", {"kind": "fst", "op": "fst_call", "t": shrink(t, fails), "x": x, "y": y, "observed": str(v), "expected": str(ref)})
        q = r[1]
        if "err" in q:
            viol(ctx, f"fst_misc:error:{q['err'][:30]}", f"transpose/cross-section/projection raised {q['err']}", {"kind": "fst-error", "op": "fst_misc", "t": t, "error": q["err"]})
        else:
            for name in ("T", "cross_x", "cross_y"):
                for (x, y), enc in zip(pairs, q["ok"][name]):
                    ref = tab.get((i, tuple(x), tuple(y)))
                    if not close_enough(dec_val(enc), ref, rel=1e-9):
                        viol(ctx, f"fst:{name}", f"{name}: ({x}, {y}) gives {dec_val(enc)}; f(x, y) = {ref}", {"kind": "fst", "op": name, "t": t, "x": x, "y": y, "observed": str(dec_val(enc)), "expected": str(ref)})
            # projections: the automaton obtained by dropping one tape, evaluated by the exact path-sum oracle
            for axis, key in ((0, "project0"), (1, "project1")):
                if key not in q["ok"]:
                    continue
                pm = {"nT": 2, "init": t["init"], "final": t["final"], "arcs": [[i_, (a_ if axis == 0 else b_), j_, w_] for i_, a_, b_, j_, w_ in t["arcs"]]}
                for (x, y), enc in zip(pairs, q["ok"][key]):
                    s_ = x if axis == 0 else y
                    try:
                        ref = F.wfsa_oracle(pm, s_)
                    except ZeroDivisionError:
                        continue
                    ctx.cov["oracle_cases"] += 1
                    if not close_enough(dec_val(enc), ref, rel=1e-9):
                        viol(ctx, f"fst:{key}", f"project({axis})({s_}) = {dec_val(enc)}; the sum over the other tape is {ref}", {"kind": "fst", "op": key, "t": t, "x": x, "y": y, "observed": str(dec_val(enc)), "expected": str(ref)})
    # ---- machines with eps:eps cycles through two or more states (unequal weights): f(x, y) vs the exact oracle
    cyc = []
    while len(cyc) < (12 if quick else 100):
        t = F.rand_fst(ctx.rng, n=ctx.rng.randint(2, 3), nA=nA, nB=nB, narcs=ctx.rng.randint(2, 5), no_epseps_cycle=False)
        p_, q_ = ctx.rng.sample(sorted(F.fst_states(t)) + [7, 8], 2)
        t["arcs"] += [[p_, None, None, q_, "1/3"], [q_, None, None, p_, "1/5"]]
        if t["init"]:
            t["arcs"].append([t["init"][0][0], None, None, p_, "1/4"])
        if t["final"]:
            t["arcs"].append([q_, ctx.rng.randrange(nA), ctx.rng.randrange(nB), t["final"][0][0], "1/2"])
        out_ = {}
        for s_, _, _, _, w2 in t["arcs"]:
            out_[s_] = out_.get(s_, Fraction(0)) + Fraction(w2)
        t["arcs"] = [[s_, x_, y_, d_, (F.fs(Fraction(w2) * Fraction(3, 5) / out_[s_]) if out_[s_] >= Fraction(7, 10) else w2)] for s_, x_, y_, d_, w2 in t["arcs"]]
        cyc.append(t)
    cres = run_w([{"queries": [{"op": "fst_call", "t": t, "pairs": [(x, y) for x in xs2[:5] for y in xs2[:5]], "timeout": 30}]} for t in cyc])
    for t, r in zip(cyc, cres):
        ctx.dist("fst:eps-eps-cycle")
        q = r[0]
        if "err" in q:
            viol(ctx, f"fst_call:cyclic-error:{q['err'][:30]}", f"f(x, y) raised {q['err']} on a machine with an eps:eps cycle", {"kind": "fst-error", "op": "fst_call", "t": t, "error": q["err"]})
            continue
        for (x, y), enc in zip([(x, y) for x in xs2[:5] for y in xs2[:5]], q["ok"]):
            try:
                ref = F.fst_oracle(t, x, y)
            except ZeroDivisionError:
                continue
            ctx.cov["oracle_cases"] += 1
            ctx.count_case(("eps-eps", json.dumps(t), tuple(x), tuple(y)), nontrivial=ref != 0)
            if not close_enough(dec_val(enc), ref, rel=1e-9):
                viol(ctx, "fst_call:eps-eps-cycle", f"f({x}, {y}) = {dec_val(enc)} on a machine with an eps:eps cycle through two states; the sum over accepting paths is {ref}",
                     {"kind": "fst", "op": "fst_call", "t": t, "x": x, "y": y, "observed": str(dec_val(enc)), "expected": str(ref)})
                break
    # ---- composition
    m = 60 if quick else 500
    ctab = WTable(ctx, "compose", CIMPORTS)
    cplan = []
    for i in range(m):
        f = F.rand_fst(ctx.rng, n=ctx.rng.randint(1, 3), nA=2, nB=2, narcs=ctx.rng.randint(1, 5))
        g = F.rand_fst(ctx.rng, n=ctx.rng.randint(1, 3), nA=2, nB=2, narcs=ctx.rng.randint(1, 5))
        if F.max_out_len(f, 2) is None:
            continue
        fn, gn = ctab.transducer(f), ctab.transducer(g)
        pairs = ctx.rng.sample([(x, z) for x in xs2 for z in xs2], 6)
        M = 8
        for x, z in pairs:
            fuel = len(x) + len(z) + 6
            ctab.want((i, tuple(x), tuple(z)), f"@trel QcSR (@fcompose QcSR [0%nat; 1%nat] 2%nat 3%nat {M}%nat {fn} {gn}) {fuel} {coq_str(x)} {coq_str(z)}")
        cplan.append((i, f, g, pairs))
        ctx.dist("compose:" + ("f-smaller" if len(F.fst_states(f)) < len(F.fst_states(g)) else "g-smaller-or-equal"))
    # crafted pairs: m epsilon-output moves of f and n epsilon-input moves of g in the same gap
    # (exactly one matching path pair each; this is where a wrong filter double counts)
    base = 1000
    for mm_ in range(0, 4):
        for nn_ in range(0, 4):
            f = {"nA": 2, "nB": 2, "init": [[0, "1/2"]], "final": [[mm_ + 1, "1/3"]],
                 "arcs": [[k, 0, None, k + 1, F.fs(Fraction(1, k + 2))] for k in range(mm_)] + [[mm_, 1, 1, mm_ + 1, "1/5"]]}
            g = {"nA": 2, "nB": 2, "init": [[0, "1/7"]], "final": [[nn_ + 1, "1/2"]],
                 "arcs": [[k, None, 0, k + 1, F.fs(Fraction(1, k + 3))] for k in range(nn_)] + [[nn_, 1, 1, nn_ + 1, "2/3"]]}
            if mm_ % 2 == 1:  # exercise the other association order too
                g["arcs"].append([nn_ + 1, 0, 0, nn_ + 2, "1/9"])
                g["arcs"].append([nn_ + 2, 0, 0, nn_ + 3, "1/9"])
            x, z = [0] * mm_ + [1], [0] * nn_ + [1]
            i = base
            base += 1
            fn, gn = ctab.transducer(f), ctab.transducer(g)
            ctab.want((i, tuple(x), tuple(z)), f"@trel QcSR (@fcompose QcSR [0%nat; 1%nat] 2%nat 3%nat 8%nat {fn} {gn}) {len(x) + len(z) + 6} {coq_str(x)} {coq_str(z)}")
            cplan.append((i, f, g, [(x, z)]))
            ctx.dist("compose:crafted-eps-gap")
    # crafted pairs: the shared tape is ambiguous between the SAME pair of product states (f writes b or c on parallel
    # arcs p -> p', g reads b or c on parallel arcs q -> q'): the product arc must accumulate both contributions
    for k in range(6 if quick else 30):
        wa, wb, wc, wd = [F.fs(Fraction(1, ctx.rng.randint(2, 9))) for _ in range(4)]
        a_in = ctx.rng.randrange(2)
        d_out = ctx.rng.randrange(2)
        f = {"nA": 2, "nB": 2, "init": [[0, "1/1"]], "final": [[1, "1/2"]], "arcs": [[0, a_in, 0, 1, wa], [0, a_in, 1, 1, wb]]}
        g = {"nA": 2, "nB": 2, "init": [[0, "1/1"]], "final": [[1, "1/3"]], "arcs": [[0, 0, d_out, 1, wc], [0, 1, d_out, 1, wd]]}
        if ctx.rng.random() < 0.5:   # a longer ambiguous stretch
            f["arcs"] += [[1, a_in, 0, 1, "1/4"], [1, a_in, 1, 1, "1/5"]]
            g["arcs"] += [[1, 0, d_out, 1, "1/4"], [1, 1, d_out, 1, "1/7"]]
        pairs = [([a_in], [d_out]), ([a_in, a_in], [d_out, d_out]), ([a_in], [1 - d_out])]
        i = base
        base += 1
        fn, gn = ctab.transducer(f), ctab.transducer(g)
        for x, z in pairs:
            ctab.want((i, tuple(x), tuple(z)), f"@trel QcSR (@fcompose QcSR [0%nat; 1%nat] 2%nat 3%nat 8%nat {fn} {gn}) {len(x) + len(z) + 6} {coq_str(x)} {coq_str(z)}")
        cplan.append((i, f, g, pairs))
        ctx.dist("compose:crafted-parallel-arcs")
    ctab.eval()
    res = run_w([{"queries": [{"op": "fst_compose", "f": f, "g": g, "pairs": pairs, "timeout": 30}]} for i, f, g, pairs in cplan])
    for (i, f, g, pairs), r in zip(cplan, res):
        q = r[0]
        if "err" in q:
            viol(ctx, f"compose:error:{q['err'][:30]}", f"(f @ g) raised {q['err']}", {"kind": "fst-error", "op": "compose", "f": f, "g": g, "error": q["err"]})
            continue
        for (x, z), enc in zip(pairs, q["ok"]):
            ref = compose_ref(f, g, x, z, 2)
            mod = ctab.get((i, tuple(x), tuple(z)))
            v = dec_val(enc)
            ctx.count_case((i, "compose", tuple(x), tuple(z)), nontrivial=bool(ref))
            ctx.cov["oracle_cases"] += 1
            if ref is not None and not close_enough(v, ref, rel=1e-9):
                viol(ctx, "compose:relational", f"(f @ g)({x}, {z}) = {v}; sum over y of f(x,y) g(y,z) = {ref}", {"kind": "fst", "op": "compose", "f": f, "g": g, "x": x, "z": z, "observed": str(v), "expected": str(ref)})
            if ref is not None and mod != ref and abs(float(mod) - float(ref)) > 1e-12:
                # the bounded path sum of the model may miss paths longer than its fuel; only larger values are wrong
                if mod > ref:
                    ctx.broken.append(("model-vs-oracle(compose)", f"{f} {g} {x} {z}: model {mod} vs {ref}"))
                else:
                    ctx.dist("compose:model-fuel-too-small")
    # ---- constructors
    jobs = []
    cases = []
    for _ in range(10 if quick else 80):
        w = [ctx.rng.randrange(2) for _ in range(ctx.rng.randint(0, 3))]
        ps = [([ctx.rng.randrange(2) for _ in range(ctx.rng.randint(0, 2))], [ctx.rng.randrange(2) for _ in range(ctx.rng.randint(0, 2))]) for _ in range(ctx.rng.randint(1, 3))]
        if ctx.rng.random() < 0.6:   # the empty pair, listed after other pairs (or twice)
            ps.insert(ctx.rng.randint(1, len(ps)), ([], []))
        if ctx.rng.random() < 0.2:
            ps.append(([], []))
        pairs = ctx.rng.sample([(x, y) for x in xs2 for y in xs2], 10) + [(w, w)] + [p for p in ps] + [([], [])]
        jobs.append({"queries": [{"op": "fst_from", "kind": "from_string", "xs": w, "pairs": pairs}, {"op": "fst_from", "kind": "from_pairs", "ps": ps, "pairs": pairs}]})
        cases.append((w, ps, pairs))
    res = run_w(jobs)
    for (w, ps, pairs), r in zip(cases, res):
        for kind, q in zip(("from_string", "from_pairs"), r):
            if "err" in q:
                viol(ctx, f"{kind}:error:{q['err'][:30]}", f"FST.{kind} raised {q['err']} when evaluated", {"kind": "fst-error", "op": kind, "w": w, "ps": ps, "error": q["err"]})
                continue
            for (x, y), enc in zip(pairs, q["ok"]):
                if kind == "from_string":
                    ref = Fraction(1 if (list(x) == list(w) and list(y) == list(w)) else 0)
                else:
                    ref = Fraction(sum(1 for a, b in ps if list(a) == list(x) and list(b) == list(y)))
                ctx.cov["oracle_cases"] += 1
                if not close_enough(dec_val(enc), ref):
                    viol(ctx, f"{kind}:value", f"FST.{kind}: ({x}, {y}) has weight {dec_val(enc)}, expected {ref}", {"kind": "fst", "op": kind, "w": w, "ps": ps, "x": x, "y": y, "observed": str(dec_val(enc)), "expected": str(ref)})
    ctx.sample({"transducer": plan[0][0], "pairs": plan[0][1][:3]})


def replay(obj):
    op = obj["op"]
    if op == "compose":
        q = {"op": "fst_compose", "f": obj["f"], "g": obj["g"], "pairs": [(obj["x"], obj["z"])]}
    elif op in ("from_string", "from_pairs"):
        q = {"op": "fst_from", "kind": op, "xs": obj.get("w"), "ps": obj.get("ps"), "pairs": [(obj.get("x", []), obj.get("y", []))]}
    else:
        q = {"op": "fst_call", "t": obj["t"], "pairs": [(obj.get("x", []), obj.get("y", []))]}
    r = run_w([{"queries": [q]}])[0][0]
    print(json.dumps(q)[:1500])
    print("->", r, "expected:", obj.get("expected"))
    return 0
