"""C04: grammar language models are the exact left-to-right factorisation (DESIGN.md §4 C04)."""
import json
from fractions import Fraction

import cfgmodel as M
import translate_exprs as TE
from cfgcheck import LangTable, PrefixTable
from common import dec_val, close_enough, run_impl

KINDS = ["earley_lm", "cky_lm", "rescaled_lm"]


def viol(ctx, sig, what, obj):
    if not ctx.seen(sig):
        ctx.violation(sig, what, obj)


def run_lm(jobs, hashseed=0):
    return run_impl("lmops", {"jobs": jobs}, hashseed=hashseed, timeout=1200)["results"]


def tkey(t, nT):
    return "eos" if t == nT else str(t)


def cmp_dist(got, want, rel):
    """got: {token: enc}, want: {token: Fraction/float}; zero entries are immaterial"""
    keys = set(got) | set(want)
    for k in keys:
        g = dec_val(got[k]) if k in got else Fraction(0)
        w = want.get(k, Fraction(0))
        if isinstance(g, tuple):
            return k, g, w
        if isinstance(g, Fraction) and isinstance(w, Fraction):
            if g != w:
                return k, g, w
        elif abs(float(g) - float(w)) > rel * max(1.0, abs(float(w))):
            return k, g, w
    return None


def stream_exact(ctx, n, seeds):
    gs = []
    while len(gs) < n:
        g = M.rand_grammar(ctx.rng, nN=ctx.rng.randint(1, 4), nrules=ctx.rng.randint(2, 8))
        if M.dep_acyclic(g):
            gs.append(g)
    ptab = PrefixTable(ctx, "Qc", "prefix")
    ltab = LangTable(ctx, "Qc", "lang")
    plan = []
    for g in gs:
        ge = M.add_eos(g)
        pid = ptab.add(ge)
        lid = ltab.add(g)
        cs = [list(x) for x in M.strings(g["nT"], 3)]
        if len(cs) > 12:
            cs = cs[:6] + ctx.rng.sample(cs[6:], 6)
        for c in cs:
            ptab.want(pid, c)
            for t in range(g["nT"] + 1):
                ptab.want(pid, c + [t])
            ltab.want(lid, c)
        ptab.want(pid, [])
        plan.append((g, ge, pid, lid, cs))
        for f in M.features(g):
            ctx.dist("exact:" + f)
        ctx.dist("exact:grammars")
    ptab.eval()
    ltab.eval()
    for hs in seeds:
        for kind in KINDS:
            sr = "float" if kind == "rescaled_lm" else "frac"
            rel = 1e-9
            jobs = [{"g": g, "sr": sr, "kind": kind, "ops": [["p_next", c] for c in cs] + [["weights", c] for c in cs] + [["call", c] for c in cs]} for g, ge, pid, lid, cs in plan]
            res = run_lm(jobs, hashseed=hs)
            for (g, ge, pid, lid, cs), r in zip(plan, res):
                nT = g["nT"]
                total = ptab.get(pid, [])
                if "build_err" in r:
                    ctx.dist(f"build-error:{kind}:{r['build_err'][:20]}")
                    if r["build_err"] == "timeout":
                        continue  # exact rationals inside a tolerance-driven loop: outside the exact stream's domain (counted)
                    # a grammar with empty language / zero total has no distribution; construction may legitimately fail only then
                    if total:
                        viol(ctx, f"{kind}:build:{r['build_err'][:30]}", f"{kind} construction raised {r['build_err']}", {"kind": "lm-error", "lm": kind, "sr": sr, "grammar": g, "error": r["build_err"]})
                    continue
                k = len(cs)
                for i, c in enumerate(cs):
                    pw = {tkey(t, nT): ptab.get(pid, c + [t]) for t in range(nT + 1)}
                    if any(v is None for v in pw.values()):
                        continue
                    Zc = sum(pw.values(), Fraction(0))
                    ctx.count_case((json.dumps(g), kind, tuple(c), hs), nontrivial=Zc != 0)
                    # p_next
                    q = r["results"][i]
                    if "err" in q:
                        viol(ctx, f"{kind}:p_next-error:{q['err'][:30]}", f"{kind}.p_next({c}) raised {q['err']}", {"kind": "lm-error", "lm": kind, "sr": sr, "grammar": g, "context": c, "error": q["err"]})
                    else:
                        want = {t: (v / Zc if Zc else Fraction(0)) for t, v in pw.items()}
                        bad = cmp_dist(q["ok"], want, rel)
                        if bad:
                            viol(ctx, f"{kind}:p_next", f"{kind}.p_next({c})[{bad[0]}] = {bad[1]}, prefix-weight ratio is {bad[2]}", {"kind": "lm", "what": "p_next", "lm": kind, "sr": sr, "grammar": g, "context": c, "token": bad[0], "observed": str(bad[1]), "expected": str(bad[2])})
                        if Zc and sr == "frac":
                            vals_ = [dec_val(v) for v in q["ok"].values()]
                            tot = sum(vals_, Fraction(0))
                            # the CNF pipeline can turn rational weights into floats (Float.star of the int 0 is 1.0)
                            inexact = any(isinstance(v, float) for v in vals_)
                            if (abs(float(tot) - 1.0) > 1e-9) if inexact else (tot != 1):
                                viol(ctx, f"{kind}:sum-to-one", f"{kind}.p_next({c}) sums to {tot}", {"kind": "lm", "what": "sum", "lm": kind, "sr": sr, "grammar": g, "context": c, "observed": str(tot)})
                    # unnormalised weights = prefix weights = parser value on context+token
                    q = r["results"][k + i]
                    if "err" in q:
                        viol(ctx, f"{kind}:weights-error:{q['err'][:30]}", f"{kind} next_token_weights({c}) raised {q['err']}", {"kind": "lm-error", "lm": kind, "sr": sr, "grammar": g, "context": c, "error": q["err"]})
                    elif kind != "rescaled_lm":  # the rescaled variant normalises inside next_token_weights
                        bad = cmp_dist(q["ok"], pw, rel)
                        if bad:
                            viol(ctx, f"{kind}:weights", f"{kind} next-token weight of {bad[0]} after {c} is {bad[1]}, prefix weight is {bad[2]}", {"kind": "lm", "what": "weights", "lm": kind, "sr": sr, "grammar": g, "context": c, "token": bad[0], "observed": str(bad[1]), "expected": str(bad[2])})
                    # chain rule
                    q = r["results"][2 * k + i]
                    wx = ltab.get(lid, c)
                    if wx is None or not total:
                        continue
                    if "err" in q:
                        # LM.__call__ multiplies conditionals; it may stop early with P == 0 but must not fail on viable strings
                        if wx != 0:
                            viol(ctx, f"{kind}:call-error:{q['err'][:30]}", f"{kind}({c}+eos) raised {q['err']}", {"kind": "lm-error", "lm": kind, "sr": sr, "grammar": g, "context": c, "error": q["err"]})
                        continue
                    v = dec_val(q["ok"])
                    if not close_enough(v, wx / total, rel=rel):
                        viol(ctx, f"{kind}:chain-rule", f"{kind}({c}+eos) = {v}, weight/total = {wx / total}", {"kind": "lm", "what": "chain", "lm": kind, "sr": sr, "grammar": g, "context": c, "observed": str(v), "expected": str(wx / total)})
    g, ge, pid, lid, cs = plan[0]
    ctx.sample({"grammar": g, "context": cs[1] if len(cs) > 1 else [], "prefix_weights": {tkey(t, g["nT"]): str(ptab.get(pid, (cs[1] if len(cs) > 1 else []) + [t])) for t in range(g["nT"] + 1)}})


def stream_float(ctx, n):
    """recursive grammars with finite total weight (infinitely many completions), floats vs the limit of the model's prefix iteration"""
    fg = []
    tries = 0
    while len(fg) < n and tries < 30000:
        tries += 1
        g = M.rand_grammar(ctx.rng, weights=[Fraction(1, 4), Fraction(1, 5), Fraction(1, 8), Fraction(1, 3), Fraction(1, 10)], nN=ctx.rng.randint(1, 3))
        if M.dep_acyclic(g):
            continue
        V, conv = M.total_float(g, iters=3000, tol=1e-15)
        if conv and V.get(g["S"], 0.0) > 1e-4:
            fg.append(g)
    plans = []
    for g in fg:
        cs = [list(x) for x in M.strings(g["nT"], 3)]
        cs = cs[:4] + ctx.rng.sample(cs[4:], min(4, len(cs) - 4))
        plans.append((g, cs))
    for kind in KINDS:
        res = run_lm([{"g": g, "sr": "float", "kind": kind, "ops": [["p_next", c] for c in cs], "timeout": 60} for g, cs in plans])
        for (g, cs), r in zip(plans, res):
            ctx.dist("float-recursive:grammars")
            if "build_err" in r:
                ctx.dist(f"build-error:{kind}:{r['build_err'][:20]}")
                if r["build_err"] == "timeout":
                    continue
                viol(ctx, f"{kind}:float-build:{r['build_err'][:30]}", f"{kind} construction raised {r['build_err']}", {"kind": "lm-error", "lm": kind, "sr": "float", "grammar": g, "error": r["build_err"]})
                continue
            ge = M.add_eos(g)
            m = M.pmirror_float(ge)
            for c, q in zip(cs, r["results"]):
                pw = {tkey(t, g["nT"]): m.prefix(ge["S"], c + [t], fuel=600, tol=1e-13) for t in range(g["nT"] + 1)}
                if any(v is None for v in pw.values()):
                    continue
                Zc = sum(pw.values())
                ctx.cov["oracle_cases"] += 1
                ctx.count_case(("float", json.dumps(g), kind, tuple(c)), nontrivial=Zc > 0)
                if "err" in q:
                    if "timeout" in q["err"]:
                        continue
                    viol(ctx, f"{kind}:float-error:{q['err'][:30]}", f"{kind}.p_next({c}) raised {q['err']}", {"kind": "lm-error", "lm": kind, "sr": "float", "grammar": g, "context": c, "error": q["err"]})
                    continue
                if Zc < 1e-12:
                    want = {t: 0.0 for t in pw}
                else:
                    want = {t: v / Zc for t, v in pw.items()}
                bad = cmp_dist(q["ok"], want, 1e-6)
                if bad:
                    viol(ctx, f"{kind}:p_next-float", f"{kind}.p_next({c})[{bad[0]}] = {bad[1]}, prefix-weight ratio is {bad[2]}", {"kind": "lm", "what": "p_next", "lm": kind, "sr": "float", "grammar": g, "context": c, "token": bad[0], "observed": str(bad[1]), "expected": str(bad[2])})


def stream_long(ctx, lengths):
    """long contexts with very small probabilities: rescaled LM (floats) vs the plain Earley LM on exact rationals"""
    gs = [
        {"S": 0, "nT": 2, "rules": [["3/10", 0, [["T", 0], ["N", 0]]], ["7/10", 0, [["T", 1]]]]},
        {"S": 0, "nT": 2, "rules": [["1/5", 0, [["T", 0], ["N", 0], ["T", 1]]], ["4/5", 0, []]]},
        {"S": 0, "nT": 2, "rules": [["1/4", 0, [["N", 0], ["N", 0]]], ["1/2", 0, [["T", 0]]], ["1/4", 0, [["T", 1]]]]},
        # per-token probability ~ 5e-6: prefix probabilities far below the double range (1e-1000 and less)
        {"S": 0, "nT": 2, "rules": [["1/200000", 0, [["T", 0], ["N", 1]]], ["199999/200000", 0, [["T", 1]]], ["1/300000", 1, [["T", 0], ["N", 0]]], ["1/2", 1, [["T", 1], ["N", 0]]], ["149999/300000", 1, []]]},
    ]
    for gi, g in enumerate(gs):
        for L in lengths:
            if gi == 3:
                c = [0] * max(L, 150)
            elif gi == 0:
                c = [0] * L
            elif gi == 1:
                c = [0] * L + [1] * (L // 2)
            else:
                c = [ctx.rng.randrange(2) for _ in range(min(L, 60))]
            ops = [["p_next", c]]
            r1 = run_lm([{"g": g, "sr": "float", "kind": "rescaled_lm", "ops": ops, "timeout": 300}])[0]
            r2 = run_lm([{"g": g, "sr": "frac", "kind": "earley_lm", "ops": ops, "timeout": 300}])[0]
            ctx.cov["oracle_cases"] += 1
            ctx.count_case(("long", gi, L))
            ctx.dist(f"long-context:{len(c)}")
            if "build_err" in r1 or "build_err" in r2 or "err" in r2["results"][0]:
                continue
            q = r1["results"][0]
            if "err" in q:
                viol(ctx, f"rescaled_lm:long-error:{q['err'][:30]}", f"rescaled p_next on a context of {len(c)} tokens raised {q['err']}", {"kind": "lm-error", "lm": "rescaled_lm", "sr": "float", "grammar": g, "context": c, "error": q["err"]})
                continue
            want = {t: dec_val(v) for t, v in r2["results"][0]["ok"].items()}
            bad = cmp_dist(q["ok"], want, 1e-9)
            if bad:
                viol(ctx, "rescaled_lm:long-context", f"rescaled p_next after {len(c)} tokens: [{bad[0]}] = {bad[1]}, exact Earley LM gives {float(bad[2])}", {"kind": "lm", "what": "p_next", "lm": "rescaled_lm", "sr": "float", "grammar": g, "context": c, "token": bad[0], "observed": str(bad[1]), "expected": str(float(bad[2]))})


def stream_lockstep(ctx, n):
    """several sentences advanced in lock-step on ONE language-model object (beam search / SMC style): every answer must be
    the answer of a fresh object (whose answers the other streams compare with the prefix-weight semantics)"""
    gs = []
    tries = 0
    while len(gs) < n and tries < 20000:
        tries += 1
        g = M.rand_grammar(ctx.rng, weights=[Fraction(1, 4), Fraction(1, 5), Fraction(1, 8), Fraction(1, 3)], nN=ctx.rng.randint(1, 3), nT=2)
        if M.dep_acyclic(g):
            continue
        V, conv = M.total_float(g, iters=2000, tol=1e-14)
        if conv and V.get(g["S"], 0.0) > 1e-4:
            gs.append(g)
    jobs = []
    for g in gs:
        sents = []
        for _ in range(3):   # sentences of the language (so that every prefix is viable), padded with random tokens when short
            snt = M.random_sentence(ctx.rng, g, maxdepth=ctx.rng.randint(3, 6), maxlen=8) or []
            sents.append((snt + [ctx.rng.randrange(2) for _ in range(4)])[: max(len(snt), 4)])
        ops = []
        for L in range(0, 9):
            for sidx in ctx.rng.sample(range(3), 3):
                if L <= len(sents[sidx]):
                    ops.append(["p_next", sents[sidx][:L]])
        for kind in ("earley_lm", "rescaled_lm", "cky_lm"):
            jobs.append({"g": g, "sr": "float", "kind": kind, "ops": ops, "fresh_compare": True, "timeout": 60})
    res = run_lm(jobs)
    for job, r in zip(jobs, res):
        ctx.dist("lock-step:" + job["kind"])
        if "build_err" in r:
            continue
        for op, q in zip(job["ops"], r["results"]):
            ctx.cov["oracle_cases"] += 1
            if "fresh" not in q or "ok" not in q or "ok" not in q["fresh"]:
                continue
            a, b = q["ok"], q["fresh"]["ok"]
            keys = set(a) | set(b)
            bad = [t for t in keys if abs(float(dec_val(a.get(t, "0/1"))) - float(dec_val(b.get(t, "0/1")))) > 1e-9]
            ctx.count_case(("lock-step", json.dumps(job["g"]), job["kind"], tuple(op[1])), nontrivial=bool(b))
            if bad:
                viol(ctx, f"{job['kind']}:lock-step", f"{job['kind']}.p_next({op[1]})[{bad[0]}] = {dec_val(a.get(bad[0], '0/1'))} after other sentences were advanced on the same object; a fresh object gives {dec_val(b.get(bad[0], '0/1'))}",
                     {"kind": "lm", "what": "lock-step", "lm": job["kind"], "sr": "float", "grammar": job["g"], "context": op[1], "history": job["ops"][: job["ops"].index(op) + 1], "token": bad[0], "observed": str(dec_val(a.get(bad[0], "0/1"))), "expected": str(dec_val(b.get(bad[0], "0/1")))})
                break


def run(ctx):
    quick = ctx.tier == "quick"
    ctx.cov["rule"] = ("EarleyLM, CKYLM, rescaled EarleyLM on generated grammars: finite-language grammars with exact rationals (p_next vs normalised prefix weights of context+token from the Coq prefix tabulation, eos = weight of the context, unnormalised weights vs prefix weights, chain rule vs weight/total), "
                       "recursive finite-total grammars on floats vs the limit of the same iteration, contexts of 50-200 tokens for the rescaled variant vs the exact-rational Earley LM; hash seeds; non-trivial = viable context")
    try:
        ctx.cov["translators"].append(TE.main())
        ctx.obligation("translate_exprs", True)
        tr_ok = True
    except TE.Refuse as e:
        ctx.obligation("translate_exprs", False, f"translator refused: {e}")
        tr_ok = False
    ok, out = ctx.build(["proofs/NormProofs.vo", "proofs/PrefixTrees.vo", "proofs/PrefixChart.vo", "proofs/PriorityProofs.vo", "proofs/PriorityRescaled.vo", "proofs/RescaleProofs.vo", "proofs/PrefixSumProofs.vo"]) if tr_ok else (False, "translator")
    if ok:
        ctx.prove("props/C04.v")
    else:
        ctx.obligation("coq-build(C04)", False, out[-3000:])
        ok2, _ = ctx.build(["model/Prefix.vo"])
        if not ok2:
            return
    stream_exact(ctx, 20 if quick else 200, [0] if quick else [0, 1, 2])
    stream_float(ctx, 12 if quick else 120)
    stream_long(ctx, [50, 200] if quick else [50, 100, 200, 400])
    stream_lockstep(ctx, 24 if quick else 150)


def replay(obj):
    op = {"p_next": "p_next", "weights": "weights", "chain": "call", "sum": "p_next"}.get(obj.get("what"), "p_next")
    if obj.get("what") == "lock-step":
        r = run_lm([{"g": obj["grammar"], "sr": obj["sr"], "kind": obj["lm"], "ops": obj["history"], "fresh_compare": True}])[0]
        print("grammar:", json.dumps(obj["grammar"]))
        print("history:", obj["history"], "-> last:", json.dumps(r["results"][-1])[:1500] if "results" in r else r)
        return 0
    r = run_lm([{"g": obj["grammar"], "sr": obj["sr"], "kind": obj["lm"], "ops": [[op, obj.get("context", [])]]}])[0]
    print("grammar:", json.dumps(obj["grammar"]))
    print(op, obj.get("context"), "->", json.dumps(r)[:1500], "expected:", obj.get("expected"))
    return 0
