"""C09: grammar-transducer composition is relational composition (DESIGN.md §4 C09)."""
import itertools
import json
from fractions import Fraction

import cfgmodel as M
import fsamodel as F
import translate_machines as TM
from cfgcheck import LangTable, run_jobs
from fsacheck import run_w
from common import dec_val, close_enough


def viol(ctx, sig, what, obj):
    if not ctx.seen(sig):
        ctx.violation(sig, what, obj)


def strs(n, L):
    return [list(x) for k in range(L + 1) for x in itertools.product(range(n), repeat=k)]


def no_input_eps_cycle(t):
    return F.max_out_len(t, 1) is not None


def run(ctx):
    quick = ctx.tier == "quick"
    ctx.cov["rule"] = ("finite-language grammars (exact rationals, empty rules allowed) x random transducers (epsilon input, epsilon output, epsilon:epsilon arcs, output cycles, dead states, several initial/final states): (cfg @ fst)(ys) and (fst @ cfg) vs sum_x G(x) T(x, ys) "
                       "with G(x) from the Coq derivation-sum model and T(x, y) from the exact path-sum oracle (cross-checked with Coq trel in C10); (cfg @ xs).treesum() vs G(xs); truncate_length(n)(xs) vs G(xs)[|xs| <= n]; "
                       "recursive grammars on floats against truncation bounds; non-trivial = non-zero weight")
    try:
        ctx.cov["translators"].append(TM.main())
        ctx.obligation("translate_machines", True)
        tr_ok = True
    except TM.Refuse as e:
        ctx.obligation("translate_machines", False, f"translator refused: {e}")
        tr_ok = False
    ok, out = ctx.build(["proofs/TruncateMachine.vo", "proofs/PrefixMachine.vo", "proofs/CfgChart.vo", "proofs/BarHillelProofs.vo", "proofs/IntersectStringProofs.vo"]) if tr_ok else (False, "translator")
    if ok:
        ctx.prove("props/C09.v")
    else:
        ctx.obligation("coq-build(C09)", False, out[-3000:])
        ok2, _ = ctx.build(["proofs/CfgChart.vo"])
        if not ok2:
            return
    n = 30 if quick else 300
    gs = []
    while len(gs) < n:
        g = M.rand_grammar(ctx.rng, nN=ctx.rng.randint(1, 3), nT=2, nrules=ctx.rng.randint(2, 6), maxlen=2)
        if M.dep_acyclic(g):
            gs.append(g)
    tab = LangTable(ctx, "Qc", "lang")
    X = strs(2, 4)
    for g in gs:
        gid = tab.add(g)
        for x in X:
            tab.want(gid, x)
    tab.eval()
    ys = strs(2, 2)
    # ---- composition with transducers
    jobs, plan, grows = [], [], {}
    for gi, g in enumerate(gs):
        t = None
        while t is None or not no_input_eps_cycle(t):
            t = F.rand_fst(ctx.rng, n=ctx.rng.randint(1, 3), nA=2, nB=2, narcs=ctx.rng.randint(1, 5))
            if gi % 4 == 1:     # epsilon on ONE tape only: insertions (eps:b) or deletions (a:eps), never both kinds
                keep_in = ctx.rng.random() < 0.5
                t["arcs"] = [ar for ar in t["arcs"] if not (ar[1] is None and ar[2] is None) and not ((ar[2] is None) if keep_in else (ar[1] is None))]
                if not any((ar[1] is None) if keep_in else (ar[2] is None) for ar in t["arcs"]) and t["init"]:
                    q0 = t["init"][0][0]
                    t["arcs"].append([q0, None, 0, q0 + 1, "1/3"] if keep_in else [q0, 0, None, q0 + 1, "1/3"])
                    t["arcs"].append([q0 + 1, 1, 1, t["final"][0][0] if t["final"] else q0, "1/4"])
        order = "cfg@fst" if gi % 2 == 0 else "fst@cfg"
        # every third job uses integer symbols on both tapes (0 is falsy, unlike a one-letter string)
        # (only for cfg @ fst: fst.T is a cached property of a mutable machine, so the transposed order is not meaningful here)
        grow = ctx.rng.randint(1, max(1, len(t["arcs"]) - 1)) if (gi % 5 in (1, 3) and order == "cfg@fst" and len(t["arcs"]) > 1) else 0
        if grow:
            ctx.dist("transducer-completed-after-a-first-composition")
        jobs.append({"tnames": ("int" if gi % 3 == 2 else "str"), "queries": [{"op": "cfg_compose", "g": g, "t": t, "ys": ys, "order": order, "grow": grow, "timeout": 40}]})
        grows[gi] = grow
        plan.append((gi, g, t, order))
    res = run_w(jobs)
    for (gi, g, t, order), r in zip(plan, res):
        q = r[0]
        ctx.dist(order)
        lang = {tuple(x): tab.get(gi, x) for x in X}
        if any(v is None for v in lang.values()):
            continue
        if any(v != 0 for x, v in lang.items() if len(x) == 4):
            continue  # language not contained in the enumerated strings
        if "err" in q:
            viol(ctx, f"compose:{order}:error:{q['err'][:30]}", f"{order} raised {q['err']}", {"kind": "compose-error", "grammar": g, "t": t, "order": order, "error": q["err"]})
            continue
        for y, enc in zip(ys, q["ok"]):
            ref = sum((gx * F.fst_oracle(t, list(x), y) for x, gx in lang.items() if gx != 0), Fraction(0))
            v = dec_val(enc)
            ctx.count_case((gi, order, tuple(y)), nontrivial=ref != 0)
            ctx.cov["oracle_cases"] += 1
            if not close_enough(v, ref, rel=1e-9):
                viol(ctx, f"compose:{order}", f"({order})({y}) = {v}; sum over x of grammar(x) * transducer(x, y) = {ref}", {"kind": "compose", "tnames": ("int" if gi % 3 == 2 else "str"), "grow": grows.get(gi, 0), "grammar": g, "t": t, "order": order, "ys": y, "observed": str(v), "expected": str(ref)})
    # ---- chained operations on a composed grammar: truncation, and a second composition
    jobs, cplan = [], []
    for (gi, g, t, order) in plan[: (20 if quick else 200)]:
        lang = {tuple(x): tab.get(gi, x) for x in X}
        if any(v is None for v in lang.values()) or any(v != 0 for x, v in lang.items() if len(x) == 4):
            continue
        t2 = None
        while t2 is None or not no_input_eps_cycle(t2):
            t2 = F.rand_fst(ctx.rng, n=ctx.rng.randint(1, 3), nA=2, nB=2, narcs=ctx.rng.randint(1, 5), peps=0.4)
        jobs.append({"queries": [{"op": "cfg_compose", "g": g, "t": t, "ys": ys, "then": ["truncate", 1], "timeout": 40},
                                 {"op": "cfg_compose", "g": g, "t": t, "ys": ys, "then": ["fst", t2], "timeout": 60}]})
        cplan.append((gi, g, t, t2, lang))
    res2 = run_w(jobs)
    for (gi, g, t, t2, lang), r in zip(cplan, res2):
        bound = F.max_out_len(t, 3)
        if bound is None or bound > 6:
            bound = 6
        Ys = strs(2, bound)
        h = {tuple(y): sum((gx * F.fst_oracle(t, list(x), y) for x, gx in lang.items() if gx != 0), Fraction(0)) for y in Ys}
        exact2 = F.max_out_len(t, 3) is not None and F.max_out_len(t, 3) <= 6
        q = r[0]
        if "err" in q:
            viol(ctx, f"compose-then-truncate:error:{q['err'][:30]}", f"(cfg @ fst).truncate_length(1) raised {q['err']}", {"kind": "compose-error", "grammar": g, "t": t, "what": "then-truncate", "error": q["err"]})
        else:
            for y, enc in zip(ys, q["ok"]):
                want = h[tuple(y)] if len(y) <= 1 else Fraction(0)
                ctx.count_case((gi, "then-truncate", tuple(y)), nontrivial=want != 0)
                if not close_enough(dec_val(enc), want, rel=1e-9):
                    viol(ctx, "compose-then-truncate", f"(cfg @ fst).truncate_length(1)({y}) = {dec_val(enc)}, expected {want}", {"kind": "compose", "what": "then-truncate", "grammar": g, "t": t, "ys": y, "observed": str(dec_val(enc)), "expected": str(want)})
        q = r[1]
        if "err" in q:
            if "timeout" not in q["err"]:
                viol(ctx, f"compose-twice:error:{q['err'][:30]}", f"(cfg @ fst) @ fst2 raised {q['err']}", {"kind": "compose-error", "grammar": g, "t": t, "t2": t2, "what": "twice", "error": q["err"]})
        elif exact2:
            for z, enc in zip(ys, q["ok"]):
                want = sum((hv * F.fst_oracle(t2, list(y), z) for y, hv in h.items() if hv != 0), Fraction(0))
                ctx.count_case((gi, "twice", tuple(z)), nontrivial=want != 0)
                ctx.cov["oracle_cases"] += 1
                if not close_enough(dec_val(enc), want, rel=1e-9):
                    viol(ctx, "compose-twice", f"((cfg @ fst) @ fst2)({z}) = {dec_val(enc)}; relational composition gives {want}", {"kind": "compose", "what": "twice", "grammar": g, "t": t, "t2": t2, "ys": z, "observed": str(dec_val(enc)), "expected": str(want)})
    # ---- composition with a plain string; length truncation
    jobs = [{"g": g, "sr": "frac", "queries": [{"op": "compose_string_treesum", "xs": X[:15]}] + [{"op": "truncate_call", "n": k, "xs": X[:15]} for k in (0, 1, 2)]} for g in gs]
    res = run_jobs(jobs)
    for gi, (g, r) in enumerate(zip(gs, res)):
        q = r[0]
        if "err" in q:
            viol(ctx, f"compose-string:error:{q['err'][:30]}", f"(cfg @ xs).treesum() raised {q['err']}", {"kind": "compose-error", "grammar": g, "error": q["err"], "what": "string"})
        else:
            for x, enc in zip(X[:15], q["ok"]):
                ref = tab.get(gi, x)
                if ref is None:
                    continue
                ctx.count_case((gi, "string", tuple(x)), nontrivial=ref != 0)
                if not close_enough(dec_val(enc), ref, rel=1e-9):
                    viol(ctx, "compose-string", f"(cfg @ {x}).treesum() = {dec_val(enc)}; grammar({x}) = {ref}", {"kind": "compose", "what": "string", "grammar": g, "xs": x, "observed": str(dec_val(enc)), "expected": str(ref)})
        for k, q in zip((0, 1, 2), r[1:]):
            if "err" in q:
                viol(ctx, f"truncate:error:{q['err'][:30]}", f"truncate_length({k}) raised {q['err']}", {"kind": "compose-error", "grammar": g, "error": q["err"], "what": "truncate", "n": k})
                continue
            for x, enc in zip(X[:15], q["ok"]):
                ref = tab.get(gi, x)
                if ref is None:
                    continue
                want = ref if len(x) <= k else Fraction(0)
                ctx.count_case((gi, "truncate", k, tuple(x)), nontrivial=want != 0)
                if not close_enough(dec_val(enc), want, rel=1e-9):
                    viol(ctx, "truncate_length", f"truncate_length({k})({x}) = {dec_val(enc)}, expected {want}", {"kind": "compose", "what": "truncate", "n": k, "grammar": g, "xs": x, "observed": str(dec_val(enc)), "expected": str(want)})
    # ---- recursive grammars on floats: truncation and string product vs the Kleene limit
    fg = []
    tries = 0
    while len(fg) < (10 if quick else 100) and tries < 20000:
        tries += 1
        g = M.rand_grammar(ctx.rng, weights=[Fraction(1, 4), Fraction(1, 5), Fraction(1, 8), Fraction(1, 3)], nN=ctx.rng.randint(1, 3), nT=2)
        if not M.dep_acyclic(g) and M.total_float(g)[1]:
            fg.append(g)
    res = run_jobs([{"g": g, "sr": "float", "queries": [{"op": "truncate_call", "n": 2, "xs": X[:15], "timeout": 60}, {"op": "compose_string_treesum", "xs": X[:10], "timeout": 60}]} for g in fg])
    for g, r in zip(fg, res):
        m = M.mirror_float(g)
        ctx.dist("float-recursive:grammars")
        for which, q, xs_ in (("truncate", r[0], X[:15]), ("string", r[1], X[:10])):
            if "err" in q:
                if "timeout" not in q["err"]:
                    viol(ctx, f"{which}:float-error:{q['err'][:30]}", f"{which} raised {q['err']} on a convergent grammar", {"kind": "compose-error", "grammar": g, "error": q["err"], "what": which, "sr": "float"})
                continue
            for x, enc in zip(xs_, q["ok"]):
                ref = m.lang(g["S"], x, fuel=400, tol=1e-14)
                if ref is None:
                    continue
                want = ref if (which == "string" or len(x) <= 2) else 0.0
                v = dec_val(enc)
                ctx.cov["oracle_cases"] += 1
                if not isinstance(v, (float, Fraction)) or abs(float(v) - want) > 1e-6 * max(1.0, abs(want)):
                    viol(ctx, f"{which}:float", f"{which}: {x} -> {v}, expected {want}", {"kind": "compose", "what": which, "sr": "float", "grammar": g, "xs": x, "n": 2, "observed": str(v), "expected": want})
    ctx.sample({"grammar": plan[0][1], "transducer": plan[0][2], "order": plan[0][3], "outputs": ys[:4]})


def replay(obj):
    if obj.get("what") in ("string", "truncate"):
        op = {"op": "compose_string_treesum", "xs": [obj.get("xs", [])]} if obj["what"] == "string" else {"op": "truncate_call", "n": obj.get("n", 0), "xs": [obj.get("xs", [])]}
        r = run_jobs([{"g": obj["grammar"], "sr": obj.get("sr", "frac"), "queries": [op]}])[0][0]
    else:
        r = run_w([{"tnames": obj.get("tnames", "str"), "queries": [{"op": "cfg_compose", "g": obj["grammar"], "t": obj["t"], "ys": [obj.get("ys", [])], "order": obj["order"], "grow": obj.get("grow", 0)}]}])[0][0]
    print(json.dumps({k: v for k, v in obj.items() if k in ("grammar", "t", "order", "ys", "xs", "n")}))
    print("->", r, "expected:", obj.get("expected"))
    return 0
