"""C19: character- and byte-level grammars built from Lark grammars (DESIGN.md §4 C19)."""
import itertools
import json
import re
from functools import lru_cache

from common import dec_val, run_impl

TERMS = [
    ("A", '"a"', "a"), ("B", "/[bc]/", "[bc]"), ("C", '"é"', "é"), ("D", '"ü"', "ü"), ("E", '"ab"', "ab"),
    ("F", '"s"i', "(?i:s)"), ("G", '"ß"i', "(?i:ß)"), ("H", "/a+b/", "a+b"), ("I", "/[^a]/", "(?=[\\t-\\r -~])[^a]"), ("J", '"€"', "€"),
    # multi-byte characters leaving one automaton state whose encodings share some but not all bytes
    # (e2 82 ac / e8 82 b1; f0 9f 9f a0 repeats a continuation byte; f0 9f 91 8b / f0 9f 98 8a share a prefix)
    ("K", "/[€肱]/", "[€肱]"), ("L", '"🟠"', "🟠"), ("M", "/[👋😊é]/", "[👋😊é]"),
    # terminal names of the form <NAME>_<k>: k is also a state number of NAME's automaton
    ("E_1", '"x"', "x"), ("E_2", '"c"', "c"), ("H_1", '"s"', "s"), ("H_2", '"x"', "x"), ("A_1", '"c"', "c"), ("B_0", '"x"', "x"),
    # an automaton state that is only left through arcs back to earlier states (comment-like pattern)
    ("N", "/x([^b]|b+[^by])*b+y/", "x((?=[\\t-\\r -~])[^b]|b+(?=[\\t-\\r -~])[^by])*b+y"),
    # the same multi-byte character leaving different states of one terminal's automaton
    ("O", '"été"', "été"), ("P", "/é(a|é)ü/", "é(a|é)ü"),
    # two-byte characters differing in both bytes on parallel arcs (é = c3 a9, ā = c4 81)
    ("Q", "/[éāx]+/", "[éāx]+"),
    # the same source text as another terminal, with a different flag or kind
    ("E_I", '"ab"i', "(?i:ab)"), ("LIT", '"a."', "a\\."), ("RE", "/a./", "a(?=[\\t-\\r -~])."),
]
EXTRA = {"E_I": ["aB", "AB", "Ab"], "LIT": ["a."], "RE": ["ab", "a.", "aa"], "Q": ["éā", "āx", "é"], "N": ["xbaby", "xbbaby", "xabby", "xbay", "xbab", "xby"], "O": ["été", "ét", "éé", "é", "tété"], "P": ["éaü", "ééü", "éü", "éé"]}
RELATED = {"E": ["E_1", "E_2", "E_I"], "H": ["H_1", "H_2"], "A": ["A_1"], "B": ["B_0"], "E_I": ["E"], "LIT": ["RE"], "RE": ["LIT"]}
# (negated classes are relative to the default character set, string.printable: the oracle pattern of I says so)
ALPHA = list("abcsSé ü€ßx肱🟠👋😊ytāAB.")


def viol(ctx, sig, what, obj):
    if not ctx.seen(sig):
        ctx.violation(sig, what, obj)


def run_l(jobs, timeout=1200):
    return run_impl("larkops", {"jobs": jobs}, timeout=timeout)["results"]


# ---- rule expressions: ("t", NAME) | ("n", idx) | ("seq", [..]) | ("alt", [..]) | ("opt", e) | ("star", e) | ("plus", e)


def rand_expr(rng, depth, terms, rule_idx, nrules):
    if depth == 0 or rng.random() < 0.35:
        if rule_idx + 1 < nrules and rng.random() < 0.35:
            return ("n", rng.randint(rule_idx + 1, nrules - 1))
        return ("t", rng.choice(terms))
    r = rng.random()
    if r < 0.4:
        return ("seq", [rand_expr(rng, depth - 1, terms, rule_idx, nrules) for _ in range(rng.randint(2, 3))])
    if r < 0.6:
        return ("alt", [rand_expr(rng, depth - 1, terms, rule_idx, nrules) for _ in range(2)])
    if r < 0.75:
        return ("opt", rand_expr(rng, depth - 1, terms, rule_idx, nrules))
    if r < 0.88:
        return ("star", rand_expr(rng, depth - 1, terms, rule_idx, nrules))
    return ("plus", rand_expr(rng, depth - 1, terms, rule_idx, nrules))


def show(e):
    k = e[0]
    if k == "t":
        return e[1]
    if k == "n":
        return f"r{e[1]}"
    if k == "seq":
        return " ".join(show(x) if x[0] != "alt" else "(" + show(x) + ")" for x in e[1])
    if k == "alt":
        return " | ".join(show(x) for x in e[1])
    inner = show(e[1])
    if e[1][0] in ("seq", "alt"):
        inner = "(" + inner + ")"
    return inner + {"opt": "?", "star": "*", "plus": "+"}[k]


def can_be_empty(e, rules):
    k = e[0]
    if k == "t":
        return False
    if k == "n":
        return can_be_empty(rules[e[1]], rules)
    if k == "seq":
        return all(can_be_empty(x, rules) for x in e[1])
    if k == "alt":
        return any(can_be_empty(x, rules) for x in e[1])
    if k in ("opt", "star"):
        return True
    return can_be_empty(e[1], rules)


# groups of terminals that are only interesting together (or whose interesting strings are long): every other grammar is
# built around one of them, in rotation, so that each group is exercised in every run
FOCUS = [["N"], ["E", "E_1", "E_2"], ["H", "H_1", "H_2"], ["A", "A_1"], ["B", "B_0"], ["E", "E_I"], ["LIT", "RE"], ["O"], ["P"], ["Q"],
         ["K"], ["L"], ["M"], ["I", "J"], ["F", "G"], ["B", "I"], ["H", "I"], ["E", "N"]]


def gen_grammar(rng, focus=None):
    nterm = rng.randint(2, 4)
    terms = rng.sample(TERMS, nterm)
    byname = {t[0]: t for t in TERMS}
    if focus is not None:
        terms = [byname[nm] for nm in focus] + [t for t in rng.sample(TERMS, 1) if t[0] not in focus]
    for t in list(terms):  # a terminal and its numbered namesake together
        for rel_name in RELATED.get(t[0], []):
            o = byname[rel_name]
            if rng.random() < 0.4 and o not in terms and len(terms) < 7:
                terms.append(o)
    names = [t[0] for t in terms]
    nrules = rng.randint(1, 3)
    rules = [rand_expr(rng, rng.randint(1, 2), names, i, nrules) for i in range(nrules)]
    if focus is not None:
        # the focus terminals are used together in the start rule: in sequence, or as alternatives followed by the first one
        fs_ = [("t", nm) for nm in focus]
        core = ("seq", fs_) if (len(fs_) > 1 and rng.random() < 0.6) else (("seq", [("alt", fs_), fs_[0]]) if len(fs_) > 1 else ("seq", [fs_[0], ("opt", fs_[0])]))
        rules[0] = ("alt", [core, rules[0]]) if rng.random() < 0.5 else core
    ignore = rng.random() < 0.4
    lines = ["start: " + show(rules[0])] + [f"r{i}: " + show(rules[i]) for i in range(1, nrules)]
    for nm, src, _ in terms:
        lines.append(f"{nm}: {src}")
    if ignore:
        lines.append("WS: /[ ]+/")
        lines.append("%ignore WS")
    return {"text": "\n".join(lines) + "\n", "rules": rules, "terms": {t[0]: t[2] for t in terms}, "ignore": "[ ]+" if ignore else None}


@lru_cache(maxsize=None)
def term_samples(nm):
    """a few strings matching the terminal nm (longer, hand-picked ones first)"""
    pat = {t[0]: t[2] for t in TERMS}[nm]
    pool = list(EXTRA.get(nm, [])) + ["".join(x) for L in (1, 2, 3) for x in itertools.product(ALPHA, repeat=L)]
    out = []
    for c in pool:
        if re.fullmatch(pat, c):
            out.append(c)
            if len(out) >= 4:
                break
    return out


def sample_sentences(G, rng, k):
    """strings of the language: random derivations of the rule expressions, every terminal replaced by one of its samples"""
    rules = G["rules"]

    def expand(e, depth):
        kind = e[0]
        if kind == "t":
            ss = term_samples(e[1])
            return rng.choice(ss) if ss else None
        if kind == "n":
            return expand(rules[e[1]], depth + 1)
        if kind == "seq":
            parts = [expand(x, depth + 1) for x in e[1]]
            return None if any(p is None for p in parts) else "".join(parts)
        if kind == "alt":
            return expand(rng.choice(e[1]), depth + 1)
        if kind == "opt":
            return "" if rng.random() < 0.5 else expand(e[1], depth + 1)
        reps = rng.randint(0 if kind == "star" else 1, 2 if depth < 3 else 1)
        parts = [expand(e[1], depth + 1) for _ in range(reps)]
        return None if any(p is None for p in parts) else "".join(parts)

    out = []
    for _ in range(4 * k):
        s_ = expand(rules[0], 0)
        if s_ is not None and len(s_) <= 14 and s_ not in out:
            out.append(s_)
        if len(out) >= k:
            break
    return out


def accepts(G, s):
    """substitution semantics: a terminal sequence derivable in the rule grammar, each terminal replaced by a
    string matching its pattern, optionally preceded by one match of the ignored terminal"""
    rules, terms, ign = G["rules"], G["terms"], G["ignore"]
    n = len(s)
    memo = {}

    def term_ends(name, i):
        out = set()
        starts = {i}
        if ign:
            for j in range(i + 1, n + 1):
                if re.fullmatch(ign, s[i:j]):
                    starts.add(j)
        for st in starts:
            for j in range(st + 1, n + 1):
                if re.fullmatch(terms[name], s[st:j]):
                    out.add(j)
        return out

    def ends(e, i, depth=0):
        key = (id(e), i)
        if key in memo:
            return memo[key]
        memo[key] = set()
        k = e[0]
        if k == "t":
            r = term_ends(e[1], i)
        elif k == "n":
            r = ends(rules[e[1]], i)
        elif k == "seq":
            cur = {i}
            for x in e[1]:
                nxt = set()
                for p in cur:
                    nxt |= ends(x, p)
                cur = nxt
            r = cur
        elif k == "alt":
            r = set()
            for x in e[1]:
                r |= ends(x, i)
        elif k == "opt":
            r = {i} | ends(e[1], i)
        else:  # star / plus: iterate to a fixed point (each iteration must consume at least one character)
            r = {i} if k == "star" else set()
            frontier = {i}
            seen = set()
            while frontier:
                p = frontier.pop()
                if p in seen:
                    continue
                seen.add(p)
                for q in ends(e[1], p):
                    if q not in r or q not in seen:
                        r.add(q)
                        if q > p:
                            frontier.add(q)
        memo[key] = r
        return r

    return n in ends(rules[0], 0)


def accepts_prefix_ok(c):
    return True


def run(ctx):
    quick = ctx.tier == "quick"
    ctx.cov["rule"] = ("random Lark grammars in the supported subset (string and regex terminals, case-insensitive literals incl. ß and s, multi-byte characters, optional/star/plus/alternation in rules, %ignore) x candidate strings up to length 4 over the characters of the terminals: "
                       "char_cfg(s) > 0 and byte_cfg(utf8(s)) > 0 vs the substitution semantics evaluated with Python re per terminal and a recogniser for the rule expressions; truncated byte strings must be rejected; N and V of the result must be disjoint; both recursion directions; "
                       "non-trivial = grammar accepting at least one candidate")
    ok, out = ctx.build(["proofs/UnionProofs.vo", "proofs/ConvertProofs.vo", "proofs/RegexProofs.vo", "proofs/SubstProofs.vo"])
    if ok:
        ctx.prove("props/C19.v")
    else:
        ctx.obligation("coq-build(C19)", False, out[-3000:])
    n = 60 if quick else 300
    gs = [gen_grammar(ctx.rng, focus=(FOCUS[(k // 2) % len(FOCUS)] if k % 2 == 0 else None)) for k in range(n)]
    jobs, plan = [], []
    for k, G in enumerate(gs):
        rel = [c for c in ALPHA if any(re.search(re.escape(c), v) or re.fullmatch(v, c) for v in G["terms"].values())]
        rel.sort(key=lambda c: (-len(c.encode("utf-8")), c))
        chars = rel[:5] + [c for c in ([" "] if G["ignore"] else []) + ["a", "x"] if c not in rel[:5]]
        chars = sorted(chars[:6])
        cands = ["".join(x) for L in range(0, 5) for x in itertools.product(chars, repeat=L)]
        if len(cands) > 160:
            cands = cands[:60] + ctx.rng.sample(cands[60:], 100)
        for snt in sample_sentences(G, ctx.rng, 8):   # sentences of the language and one-character corruptions of them
            for c2 in (snt, snt[:-1], snt[1:], snt + snt[-1:] if snt else "x"):
                if c2 not in cands:
                    cands.append(c2)
        for nm in G["terms"]:   # longer candidates that reach the interesting states of some terminals
            for e in EXTRA.get(nm, []):
                if e not in cands:
                    cands.append(e)
        bts = [list(c.encode("utf-8")) for c in cands]
        trunc = [b[:-1] for b in bts if len(b) > len(bytes(b).decode("utf-8", "ignore").encode("utf-8")) or (b and b[-1] >= 0x80)][:10]
        # byte strings obtained by exchanging bytes between the encodings of the multi-byte characters in play:
        # either another character's encoding or no UTF-8 at all
        mb = [list(c.encode("utf-8")) for c in chars if len(c.encode("utf-8")) > 1]
        mixes = []
        for e1 in mb:
            for e2 in mb + [e1]:
                for pos in range(len(e1)):
                    for b2 in set(e2):
                        z = e1[:pos] + [b2] + e1[pos + 1:]
                        if z != e1 and z not in mixes:
                            mixes.append(z)
            for pos in range(1, len(e1)):
                z = e1[:pos] + e1[pos + 1:]
                if z not in mixes:
                    mixes.append(z)
        if len(mixes) > 40:
            mixes = ctx.rng.sample(mixes, 40)
        pre = [list(c.encode("utf-8")) for c in cands if 0 < len(c) <= 1 and accepts_prefix_ok(c)][:3]
        mixes = mixes + [p + z for p in pre for z in mixes[:10]]
        trunc = trunc + mixes
        rec = "right" if k % 2 == 0 else "left"
        q_ = {"op": "lark", "grammar": G["text"], "chars": cands, "bytes": bts + trunc, "recursion": rec, "timeout": 120}
        if k % 3 == 1 or (k % 2 == 0 and ("I" in G["terms"] or "N" in G["terms"])):
            # a caller-supplied character set (the same characters as the default one): ONE set object is handed to every
            # terminal's conversion, first for the character-level and then for the byte-level grammar
            import string
            q_["charset"] = sorted(string.printable)
            ctx.dist("caller-supplied-charset")
        jobs.append({"queries": [q_]})
        plan.append((G, cands, bts, trunc, rec))
    res = run_l(jobs)
    for (G, cands, bts, trunc, rec), r in zip(plan, res):
        q = r[0]
        if "err" in q:
            if "GrammarError" in q["err"] or "UnexpectedCharacters" in q["err"] or "UnexpectedToken" in q["err"] or "zero-width" in q["err"].lower():
                ctx.dist("grammar-rejected-by-lark")
                continue
            viol(ctx, f"lark:error:{q['err'][:40]}", f"char_cfg/byte_cfg raised {q['err']}", {"kind": "lark-error", "grammar": G["text"], "recursion": rec, "error": q["err"]})
            continue
        o = q["ok"]
        acc = 0
        for s, ec, eb in zip(cands, o["char"], o["byte"]):
            want = accepts(G, s)
            acc += want
            ctx.cov["oracle_cases"] += 1
            gc = float(dec_val(ec)) > 0
            gb = float(dec_val(eb)) > 0
            if gc != want:
                viol(ctx, "char_cfg:language", f"char_cfg accepts {s!r}: {gc}; substitution semantics: {want}", {"kind": "lark", "what": "char", "grammar": G["text"], "recursion": rec, "string": s, "observed": gc, "expected": want})
            if gb != want:
                viol(ctx, "byte_cfg:language", f"byte_cfg accepts utf8({s!r}): {gb}; substitution semantics: {want}", {"kind": "lark", "what": "byte", "grammar": G["text"], "recursion": rec, "string": s, "observed": gb, "expected": want})
        for bs, eb in zip(trunc, o["byte"][len(bts):]):
            try:
                dec = bytes(bs).decode("utf-8")
                want = accepts(G, dec)
            except UnicodeDecodeError:
                dec, want = None, False
            ctx.cov["oracle_cases"] += 1
            ctx.dist("bytes:not-utf8" if dec is None else "bytes:other-utf8")
            if (float(dec_val(eb)) > 0) != want:
                viol(ctx, "byte_cfg:truncated" if dec is None else "byte_cfg:language", f"byte_cfg accepts the byte string {bs} ({'not UTF-8' if dec is None else repr(dec)}): {float(dec_val(eb)) > 0}; expected {want}",
                     {"kind": "lark", "what": "byte-trunc", "grammar": G["text"], "recursion": rec, "bytes": bs, "string": dec or "", "expected": want})
        if not o.get("names_disjoint", True) or not o.get("byte_names_disjoint", True):
            viol(ctx, "names-collide", "terminal and nonterminal names collide in the converted grammar", {"kind": "lark", "what": "names", "grammar": G["text"], "recursion": rec})
        ctx.count_case(G["text"], nontrivial=acc > 0)
        ctx.dist("ignore" if G["ignore"] else "no-ignore")
        ctx.dist("recursion:" + rec)
    ctx.sample({"grammar": gs[0]["text"], "candidates": plan[0][1][:6]})


def replay(obj):
    s = obj.get("string", "")
    r = run_l([{"queries": [{"op": "lark", "grammar": obj["grammar"], "chars": [s], "bytes": [obj.get("bytes") or list(s.encode("utf-8"))], "recursion": obj.get("recursion", "right")}]}])[0][0]
    print(obj["grammar"])
    print(repr(s), "->", r, "expected:", obj.get("expected"))
    return 0
