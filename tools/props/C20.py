"""C20: local normalisation yields the proportional proper grammar; EOS wrapping (DESIGN.md §4 C20)."""
import json
from fractions import Fraction

import cfgmodel as M
import translate_exprs as TE
import translate_cfg as TC
from cfgcheck import LangTable, finitely_ambiguous, run_jobs
from common import CoqError, coq_eval_values, coq_eval_bools, cq, dec_val, close_enough

IMPORTS = ("From GV.lib Require Import Semiring BigSum.\nFrom GV.model Require Import Cfg Agenda Prefix Norm.\nFrom GV.gen Require Import Gen_Exprs.")


def viol(ctx, sig, what, obj):
    if not ctx.seen(sig):
        ctx.violation(sig, what, obj)


def compensated(rng):
    """heads whose inside weight is exactly 1 although the nonterminals in their bodies have inside weight != 1:
    e.g. 4: S -> A A with 1/4: A -> a, 1/4: A -> b"""
    nT = 2
    kids = {}
    rules = []
    for X in (1, 2):
        zs = [rng.choice([Fraction(1, 4), Fraction(1, 8), Fraction(1, 2)]) for _ in range(rng.randint(1, 2))]
        for z in zs:
            rules.append([M.fs(z), X, [["T", rng.randrange(nT)]] if rng.random() < 0.8 else []])
        kids[X] = sum(zs)
    body = [rng.choice([1, 2]) for _ in range(rng.randint(1, 2))]
    zb = Fraction(1)
    for X in body:
        zb *= kids[X]
    top = 3 if rng.random() < 0.5 else 0
    rules.append([M.fs(1 / zb), top, [["N", X] for X in body]])
    if top == 3:
        rules.append([M.fs(rng.choice([Fraction(1, 2), Fraction(1, 3)])), 0, [["N", 3], ["T", rng.randrange(nT)]]])
        rules.append([M.fs(Fraction(1, 4)), 0, [["N", 3]]])
    rng.shuffle(rules)
    return {"S": 0, "nT": nT, "rules": rules}


def exact_totals(g):
    """inside weights of a dependency-acyclic grammar, exactly (harness-side oracle)"""
    Z = {}
    for _ in range(len(M.nts_of(g)) + 2):
        Z2 = {}
        for w, h, b in g["rules"]:
            v = Fraction(w)
            for k, x in b:
                if k == "N":
                    v *= Z.get(x, Fraction(0))
            Z2[h] = Z2.get(h, Fraction(0)) + v
        Z = Z2
    return Z


def search_exact(ctx, n):
    """failing-input search that needs no Coq: exact rationals, per-head sums and proportionality vs the harness-side mirror
    of the reference semantics; grammars built in one go and built incrementally"""
    gs = []
    while len(gs) < n:
        g = compensated(ctx.rng) if len(gs) % 3 == 0 else M.rand_grammar(ctx.rng, nN=ctx.rng.randint(1, 4), nrules=ctx.rng.randint(2, 8))
        if len(gs) % 3 == 1 and g["rules"]:
            g["rules"].insert(ctx.rng.randrange(len(g["rules"]) + 1), list(ctx.rng.choice(g["rules"])))
        if M.dep_acyclic(g):
            gs.append(g)
    strs = [[list(x) for x in M.strings(g["nT"], 3)][:15] for g in gs]
    qs = []
    for g, xs in zip(gs, strs):
        late = ctx.rng.randint(1, max(1, len(g["rules"]) - 1))
        qs.append({"g": g, "sr": "frac", "queries": [{"op": "locally_normalize", "xs": xs}, {"op": "locally_normalize", "xs": xs, "late": late}]})
    res = run_jobs(qs)
    for g, xs, r, job in zip(gs, strs, res, qs):
        Zs = exact_totals(g)
        Z = Zs.get(g["S"], Fraction(0))
        m = M.mirror_exact(g)
        for q, spec in zip(r, job["queries"]):
            late = spec.get("late", 0)
            tag = "incremental:" if late else ""
            ctx.cov["oracle_cases"] += 1
            if "err" in q:
                if Z != 0:
                    viol(ctx, f"locally_normalize:{tag}error:{q['err'][:30]}", f"locally_normalize raised {q['err']}", {"kind": "norm-error", "sr": "frac", "grammar": g, "late": late, "error": q["err"]})
                continue
            o = q["ok"]
            for hname, hm in o["head_mass"].items():
                v = dec_val(hm)
                if v != 1:
                    viol(ctx, f"locally_normalize:{tag}head-mass", f"rules of {hname} sum to {v} after local normalisation" + (f" (last {late} rules added after the grammar object had been inspected)" if late else ""),
                         {"kind": "norm", "what": "head_mass", "sr": "frac", "grammar": g, "late": late, "head": hname, "observed": str(v)})
            if Z != 0:
                for x, enc in zip(xs, o["values"]):
                    ref = m.lang(g["S"], x)
                    if ref is None:
                        continue
                    v = dec_val(enc)
                    ctx.count_case(("exact-oracle", json.dumps(g), late, tuple(x)), nontrivial=ref != 0)
                    if not close_enough(v, ref / Z):
                        viol(ctx, f"locally_normalize:{tag}proportional", f"normalised grammar gives {v} to {x}; original weight {ref} / total {Z} = {ref / Z}" + (f" (last {late} rules added after the grammar object had been inspected)" if late else ""),
                             {"kind": "norm", "what": "proportional", "sr": "frac", "grammar": g, "late": late, "xs": x, "observed": str(v), "expected": str(ref / Z)})


def run(ctx):
    quick = ctx.tier == "quick"
    ctx.cov["rule"] = ("locally_normalize and add_EOS on generated grammars: dependency-acyclic grammars with exact rationals (rule weights compared with the Coq model lnorm over the regenerated factor, per-head sums, ln(xs)*Z vs the reference weight), "
                       "convergent recursive grammars on floats (per-head sums, proportionality vs the Kleene limit); add_EOS on strings ending in zero, one or two EOS symbols; non-trivial = non-zero weight")
    try:
        ctx.cov["translators"].append(TE.main())
        ctx.obligation("translate_exprs", True)
        tr_ok = True
    except TE.Refuse as e:
        ctx.obligation("translate_exprs", False, f"translator refused: {e}")
        tr_ok = False
    try:
        ctx.cov["translators"].append(TC.main())
        ctx.obligation("translate_cfg", True)
    except TC.Refuse as e:
        ctx.obligation("translate_cfg", False, f"translator refused: {e}")
        tr_ok = False
    ok, out = ctx.build(["proofs/NormProofs.vo", "proofs/PrefixChart.vo", "proofs/GenCfgBridge.vo", "proofs/LnormStringsProofs.vo"]) if tr_ok else (False, "translator")
    if ok:
        ctx.prove("props/C20.v")
    else:
        ctx.obligation("coq-build(C20)", False, out[-3000:])
        ok2, _ = ctx.build(["model/Prefix.vo", "model/Norm.vo"])
        if not ok2 or not tr_ok:
            search_exact(ctx, 150)
            search_float(ctx, 200)
            return
    n = 40 if quick else 400
    gs = []
    while len(gs) < n:
        g = compensated(ctx.rng) if len(gs) % 4 == 0 else M.rand_grammar(ctx.rng, nN=ctx.rng.randint(1, 4), nrules=ctx.rng.randint(2, 8))
        if len(gs) % 3 == 1 and g["rules"]:   # a production listed more than once (every copy counts)
            g["rules"].insert(ctx.rng.randrange(len(g["rules"]) + 1), list(ctx.rng.choice(g["rules"])))
        if M.dep_acyclic(g):
            gs.append(g)
    # reference: string weights and totals from the model
    tab = LangTable(ctx, "Qc", "lang")
    strs = []
    for g in gs:
        gid = tab.add(g)
        xs = [list(x) for x in M.strings(g["nT"], 3)][:20]
        strs.append(xs)
        for x in xs:
            tab.want(gid, x)
    tab.eval()
    defs = [(f"G{i}", f"Definition G{i} : grammar QcSR := {M.coq_grammar(g, 'Qc')}.") for i, g in enumerate(gs)]
    texprs, tkeys = [], []
    for i, g in enumerate(gs):
        h = len(M.nts_of(g)) + 2
        for X in M.nts_of(g):
            texprs.append(f"total_h G{i} {h} {X}%nat")
            tkeys.append((i, X))
    tot = dict(zip(tkeys, coq_eval_values(ctx, "totals", IMPORTS, defs, texprs, kind="qc")))
    res = run_jobs([{"g": g, "sr": "frac", "queries": [{"op": "locally_normalize", "xs": xs}, {"op": "add_eos_call", "xs": [x + ["eos"] for x in xs] + [x + ["eos", "eos"] for x in xs[:6]] + [x for x in xs[:6]] + [["eos"] + x for x in xs[1:5]]}]} for g, xs in zip(gs, strs)])
    exprs, meta = [], []
    for i, (g, xs, r) in enumerate(zip(gs, strs, res)):
        for f in M.features(g):
            ctx.dist("exact:" + f)
        ctx.dist("exact:grammars")
        Z = tot[(i, g["S"])]
        q = r[0]
        if "err" in q:
            if Z != 0:
                viol(ctx, f"locally_normalize:error:{q['err'][:30]}", f"locally_normalize raised {q['err']}", {"kind": "norm-error", "sr": "frac", "grammar": g, "error": q["err"]})
        else:
            o = q["ok"]
            # (1) rule weights vs the Coq model of locally_normalize over the regenerated factor
            zfun = "(fun s => match s with T _ => 1%Qc | N x => " + "".join(f"if Nat.eqb x {X}%nat then {cq(tot[(i, X)])} else " for X in M.nts_of(g)) + "0%Qc end)"
            got = "[" + "; ".join(cq(Fraction(dec_val(w))) if not isinstance(dec_val(w), tuple) else "0%Qc" for w, _, _ in o["rules"]) + "]"
            # CFG.add drops rules whose weight is zero, so zero entries are filtered from the model's list
            exprs.append(f"list_eqb Qc_eqb (filter (fun w => negb (Qc_eqb w 0%Qc)) (map (fun r => rw r) (lnorm (norm_factor QcFR) {zfun} G{i}))) {got}")
            meta.append((g, "rule-weights"))
            # (2) per-head sums
            for hname, hm in o["head_mass"].items():
                v = dec_val(hm)
                ctx.count_case(("head", i, hname))
                if v != 1:
                    viol(ctx, "locally_normalize:head-mass", f"rules of {hname} sum to {v} after local normalisation", {"kind": "norm", "what": "head_mass", "sr": "frac", "grammar": g, "head": hname, "observed": str(v)})
            # (3) proportionality
            if Z != 0:
                for x, enc in zip(xs, o["values"]):
                    ref = tab.get(tab.gs.index(g) if False else i, x)
                    if ref is None:
                        continue
                    v = dec_val(enc)
                    ctx.count_case(("prop", i, tuple(x)), nontrivial=ref != 0)
                    if not close_enough(v, ref / Z):
                        viol(ctx, "locally_normalize:proportional", f"normalised grammar gives {v} to {x}; original weight {ref} / total {Z} = {ref / Z}", {"kind": "norm", "what": "proportional", "sr": "frac", "grammar": g, "xs": x, "observed": str(v), "expected": str(ref / Z)})
        q = r[1]
        if "err" in q:
            viol(ctx, f"add_EOS:error:{q['err'][:30]}", f"add_EOS raised {q['err']}", {"kind": "norm-error", "sr": "frac", "grammar": g, "error": q["err"]})
        else:
            qs = [x + ["eos"] for x in xs] + [x + ["eos", "eos"] for x in xs[:6]] + [x for x in xs[:6]] + [["eos"] + x for x in xs[1:5]]
            for k, (toks, enc) in enumerate(zip(qs, q["ok"])):
                v = dec_val(enc)
                if k < len(xs):
                    ref = tab.get(i, xs[k])
                    if ref is None:
                        continue
                else:
                    ref = Fraction(0)
                ctx.count_case(("eos", i, tuple(map(str, toks))), nontrivial=ref != 0)
                if not close_enough(v, ref):
                    viol(ctx, "add_EOS:" + ("value" if k < len(xs) else "bad-eos-position"), f"add_EOS(cfg)({toks}) = {v}, expected {ref}", {"kind": "eos", "sr": "frac", "grammar": g, "tokens": toks, "observed": str(v), "expected": str(ref)})
    try:
        failing = coq_eval_bools(ctx, "lnorm-model", "From Coq Require Import List Arith ZArith QArith Qcanon.\nImport ListNotations.\n" + IMPORTS, exprs, defs="\n".join(d for _, d in defs), shard=60)
    except CoqError as e:
        ctx.broken.append(("correspondence(lnorm-model)", str(e)))
        failing = []
    ctx.cov["disagreements_checked"] += len(failing)
    for k in failing:
        ctx.broken.append((f"correspondence(lnorm-model)#{k}", f"model lnorm and implementation rule weights differ for {json.dumps(meta[k][0])}"))
    if failing:
        search_exact(ctx, 100)
        search_float(ctx, 100)
    ctx.sample({"grammar": gs[0], "strings": strs[0][:4], "Z": str(tot[(0, gs[0]["S"])])})
    search_exact(ctx, 30 if quick else 300)
    search_float(ctx, 25 if quick else 300)
    stream_budget(ctx, 6 if quick else 40)


def search_float(ctx, n):
    """recursive convergent grammars on floats: per-head sums and proportionality (the failing-input search)"""
    fg = []
    tries = 0
    while len(fg) < n and tries < 30000:
        tries += 1
        g = M.rand_grammar(ctx.rng, weights=[Fraction(1, 4), Fraction(1, 5), Fraction(1, 8), Fraction(1, 3), Fraction(1, 10)], nN=ctx.rng.randint(1, 4))
        if M.dep_acyclic(g):
            continue
        V, conv = M.total_float(g, iters=3000, tol=1e-15)
        if conv and V.get(g["S"], 0.0) > 1e-6:
            fg.append((g, V))
    strs = [[list(x) for x in M.strings(g["nT"], 3)][:15] for g, _ in fg]
    def eos_queries(xs):
        return [x + ["eos"] for x in xs[:8]] + [x + ["eos", "eos"] for x in xs[:4]] + [x for x in xs[:4]] + [x[:1] + ["eos"] + x[1:] for x in xs[1:4]]

    res = run_jobs([{"g": g, "sr": "float", "queries": [{"op": "locally_normalize", "xs": xs}, {"op": "add_eos_call", "xs": eos_queries(xs)}]} for (g, _), xs in zip(fg, strs)])
    for (g, V), xs, r in zip(fg, strs, res):
        ctx.dist("float-recursive:grammars")
        # add_EOS on recursive grammars (the start symbol may be recursive only through other nonterminals)
        qe = r[1]
        if "err" in qe:
            viol(ctx, f"add_EOS:float-error:{qe['err'][:30]}", f"add_EOS raised {qe['err']}", {"kind": "norm-error", "sr": "float", "grammar": g, "error": qe["err"]})
        else:
            me = M.mirror_float(g)
            for toks, enc in zip(eos_queries(xs), qe["ok"]):
                v = dec_val(enc)
                if toks and toks[-1] == "eos" and "eos" not in toks[:-1]:
                    ref = me.lang(g["S"], toks[:-1], fuel=400, tol=1e-14)
                    if ref is None:
                        continue
                else:
                    ref = 0.0
                ctx.cov["oracle_cases"] += 1
                if not isinstance(v, (float, Fraction, int)) or abs(float(v) - ref) > 1e-6 * max(1.0, abs(ref)):
                    viol(ctx, "add_EOS:" + ("value" if ref else "bad-eos-position"), f"add_EOS(cfg)({toks}) = {v}, expected {ref}", {"kind": "eos", "sr": "float", "grammar": g, "tokens": toks, "observed": str(v), "expected": str(ref)})
        q = r[0]
        ctx.cov["oracle_cases"] += 1
        if "err" in q:
            viol(ctx, f"locally_normalize:float-error:{q['err'][:30]}", f"locally_normalize raised {q['err']}", {"kind": "norm-error", "sr": "float", "grammar": g, "error": q["err"]})
            continue
        o = q["ok"]
        for hname, hm in o["head_mass"].items():
            v = dec_val(hm)
            if not isinstance(v, (float, Fraction)) or abs(float(v) - 1.0) > 1e-6:
                viol(ctx, "locally_normalize:head-mass", f"rules of {hname} sum to {v} after local normalisation", {"kind": "norm", "what": "head_mass", "sr": "float", "grammar": g, "head": hname, "observed": str(v)})
        m = M.mirror_float(g)
        Z = V[g["S"]]
        for x, enc in zip(xs, o["values"]):
            ref = m.lang(g["S"], x, fuel=400, tol=1e-14)
            if ref is None:
                continue
            v = dec_val(enc)
            ctx.count_case(("float-prop", json.dumps(g), tuple(x)), nontrivial=ref != 0)
            if not isinstance(v, (float, Fraction)) or abs(float(v) - ref / Z) > 1e-6 * max(1.0, ref / Z):
                viol(ctx, "locally_normalize:proportional", f"normalised grammar gives {v} to {x}; Kleene limit {ref} / total {Z}", {"kind": "norm", "what": "proportional", "sr": "float", "grammar": g, "xs": x, "observed": str(v), "expected": ref / Z})


def stream_budget(ctx, n):
    """locally_normalize with a small iteration budget (kwargs are forwarded to agenda): a geometric recursion at the bottom
    uses up its budget, the components above it must still be evaluated"""
    jobs, metas = [], []
    for _ in range(n):
        p = Fraction(ctx.rng.randint(1, 3), 8)
        q = Fraction(ctx.rng.randint(2, 4), 8)
        rules = [[M.fs(p), 2, [["T", 0], ["N", 2]]], [M.fs(q), 2, [["T", 1]]],          # B -> a B | b       (geometric)
                 [M.fs(Fraction(1, 2)), 1, [["N", 2], ["N", 2]]], [M.fs(Fraction(1, 4)), 1, [["T", 0]]],   # A -> B B | a
                 [M.fs(Fraction(1, 2)), 0, [["N", 1], ["T", 1]]], [M.fs(Fraction(1, 8)), 0, [["N", 2]]]]   # S -> A b | B
        ctx.rng.shuffle(rules)
        g = {"S": 0, "nT": 2, "rules": rules}
        xs = [list(x) for x in M.strings(2, 3)][:15]
        jobs.append({"g": g, "sr": "float", "queries": [{"op": "locally_normalize", "xs": xs, "kwargs": {"maxiter": ctx.rng.choice([10, 12, 14])}, "timeout": 60}]})
        metas.append((g, xs))
    res = run_jobs(jobs)
    for (g, xs), job, r in zip(metas, jobs, res):
        ctx.dist("small-iteration-budget")
        q = r[0]
        ctx.cov["oracle_cases"] += 1
        kw = job["queries"][0]["kwargs"]
        if "err" in q:
            viol(ctx, f"locally_normalize:budget-error:{q['err'][:30]}", f"locally_normalize(cfg, **{kw}) raised {q['err']}", {"kind": "norm-error", "sr": "float", "grammar": g, "kwargs": kw, "error": q["err"]})
            continue
        V, conv = M.total_float(g, iters=3000, tol=1e-15)
        m = M.mirror_float(g)
        for x, enc in zip(xs, q["ok"]["values"]):
            ref = m.lang(g["S"], x, fuel=400, tol=1e-14)
            if ref is None:
                continue
            v = dec_val(enc)
            if not isinstance(v, (float, Fraction, int)) or abs(float(v) - ref / V[g["S"]]) > 2e-3 * max(1.0, ref / V[g["S"]]):
                viol(ctx, "locally_normalize:budget", f"locally_normalize(cfg, **{kw}) gives {v} to {x}; weight {ref} / total {V[g['S']]} (the recursion at the bottom exhausts the budget; the components above it were not evaluated)",
                     {"kind": "norm", "what": "proportional", "sr": "float", "grammar": g, "kwargs": kw, "xs": x, "observed": str(v), "expected": ref / V[g["S"]]})
                break


def replay(obj):
    g, sr = obj["grammar"], obj["sr"]
    if obj.get("kind") == "eos":
        r = run_jobs([{"g": g, "sr": sr, "queries": [{"op": "add_eos_call", "xs": [obj["tokens"]]}]}])[0][0]
    else:
        r = run_jobs([{"g": g, "sr": sr, "queries": [{"op": "locally_normalize", "xs": [obj.get("xs", [])], "late": obj.get("late", 0), "kwargs": obj.get("kwargs", {})}]}])[0][0]
    print("grammar:", json.dumps(g))
    print("->", json.dumps(r)[:1500], "expected:", obj.get("expected"))
    return 0
