"""./check <Cxx> [--tier quick|thorough] [--replay file]   (DESIGN.md §6)"""
import argparse
import importlib
import json
import os
import sys
import traceback

sys.path.insert(0, os.path.dirname(os.path.abspath(__file__)))
from common import Ctx  # noqa: E402


def main():
    ap = argparse.ArgumentParser()
    ap.add_argument("pid")
    ap.add_argument("--tier", default=os.environ.get("VERIF_TIER", "quick"), choices=["quick", "thorough"])
    ap.add_argument("--replay", default=None)
    a = ap.parse_args()
    seed = int(os.environ.get("VERIF_SEED", "0") or 0)
    mod = importlib.import_module(f"props.{a.pid}")
    if a.replay:
        obj = json.load(open(a.replay))
        return mod.replay(obj)
    ctx = Ctx(a.pid, a.tier, seed)
    # thorough tier: the streams are ten times larger, and the cheaper checks are run for several independent PRNG streams
    rounds = 1
    if a.tier == "thorough":
        rounds = int(os.environ.get("VERIF_THOROUGH_ROUNDS", "0") or 0) or (1 if a.pid in ("C01", "C02", "C04", "C06") else 3)
    try:
        for k in range(rounds):
            if k:
                import random
                ctx.rng = random.Random(f"{a.pid}-{seed}-round{k}")
            mod.run(ctx)
            if ctx.violations or ctx.broken:
                break
    except Exception:  # harness failure: never silently pass
        tb = traceback.format_exc()
        print(tb)
        ctx.broken.append(("harness-exception", tb[-3000:]))
    return ctx.finish()


if __name__ == "__main__":
    sys.exit(main())
