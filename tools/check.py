"""./check <Cxx> [--tier quick|thorough] [--replay file]   (DESIGN.md §6)"""
import argparse
import importlib
import json
import os
import sys
import traceback

sys.path.insert(0, os.path.dirname(os.path.abspath(__file__)))
from common import Ctx  # noqa: E402


def main():
    ap = argparse.ArgumentParser()
    ap.add_argument("pid")
    ap.add_argument("--tier", default=os.environ.get("VERIF_TIER", "quick"), choices=["quick", "thorough"])
    ap.add_argument("--replay", default=None)
    a = ap.parse_args()
    seed = int(os.environ.get("VERIF_SEED", "0") or 0)
    mod = importlib.import_module(f"props.{a.pid}")
    if a.replay:
        obj = json.load(open(a.replay))
        return mod.replay(obj)
    ctx = Ctx(a.pid, a.tier, seed)
    try:
        mod.run(ctx)
    except Exception:  # harness failure: never silently pass
        tb = traceback.format_exc()
        print(tb)
        ctx.broken.append(("harness-exception", tb[-3000:]))
    return ctx.finish()


if __name__ == "__main__":
    sys.exit(main())
