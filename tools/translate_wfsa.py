"""Fail-closed translator for the automaton-building methods of genlm/grammar/wfsa/base.py:
   rename, rename_apart, spawn, reverse, __add__, __mul__, kleene_plus, star, one, zero, lift, epsremove
-> coq/gen/Gen_Wfsa.v  (definitions over the record `wfsa` of model/Wfsa.v).

The methods are straight-line "builder programs":
    m = self.spawn(keep_init=.., keep_arcs=.., keep_stop=..)
    for <pattern> in <X.I | X.F | X.arcs() | S.outgoing[q]>:  [if <label> == EPSILON: continue]  ... m.add_I / add_F / add_arc(...)
    return m
A builder denotes the three lists of its add_* calls in program order (add_* accumulates with +=, which is checked
against the source of add_I/add_F/add_arc/I/F); every loop nest becomes map / flat_map over the model's lists.
Anything outside this fragment makes the translator refuse."""
import ast
import os

from common import REPO, COQ, sha256_file

OUT = os.path.join(COQ, "gen", "Gen_Wfsa.v")
SRC = os.path.join(REPO, "genlm", "grammar", "wfsa", "base.py")


class Refuse(Exception):
    pass


# the primitives the builder semantics relies on, compared as normalised source
PRIMS = {
    "add_state": "def add_state(self, q):\n    self.states.add(q)",
    "add_arc": "def add_arc(self, i, a, j, w):\n    self.add_state(i)\n    self.add_state(j)\n    self.alphabet.add(a)\n    self.delta[i][a][j] += w",
    "add_I": "def add_I(self, q, w):\n    self.add_state(q)\n    self.start[q] += w",
    "add_F": "def add_F(self, q, w):\n    self.add_state(q)\n    self.stop[q] += w",
    "I": "@property\ndef I(self):\n    for q, w in self.start.items():\n        if w != self.R.zero:\n            yield (q, w)",
    "F": "@property\ndef F(self):\n    for q, w in self.stop.items():\n        if w != self.R.zero:\n            yield (q, w)",
    "zero": "@property\ndef zero(self):\n    return self.__class__(self.R)",
    "one": "@property\ndef one(self):\n    return self.__class__.lift(EPSILON, self.R.one, R=self.R)",
    "star": "def star(self):\n    return self.one + self.kleene_plus()",
    "rename_apart": "def rename_apart(self, other):\n    f = Integerizer()\n    return (self.rename(lambda i: f((0, i))), other.rename(lambda i: f((1, i))))",
    "E": "@cached_property\ndef E(self):\n    E = WeightedGraph(self.R)\n    for i, a, j, w in self.arcs():\n        if a == EPSILON:\n            E[i, j] += w\n    E.N |= self.states\n    return E",
}


def strip_doc(fn):
    body = fn.body
    if body and isinstance(body[0], ast.Expr) and isinstance(body[0].value, ast.Constant) and isinstance(body[0].value.value, str):
        body = body[1:]
    return body


def norm_src(fn):
    f2 = ast.parse(ast.unparse(fn)).body[0]
    f2.body = strip_doc(f2) or [ast.Pass()]
    return ast.unparse(f2)


class Env:
    def __init__(self):
        self.vars = {}      # python name -> coq term
        self.machines = {}  # python name -> coq term of type wfsa
        self.funs = set()   # python names of function parameters
        self.counter = 0

    def fresh(self, base):
        self.counter += 1
        return f"{base}{self.counter}"


def tr_expr(n, env):
    s = ast.unparse(n)
    if isinstance(n, ast.Name):
        if n.id in env.vars:
            return env.vars[n.id]
        if n.id == "EPSILON":
            return "None"
        raise Refuse(f"unbound name {s}")
    if s in ("self.R.one", "R.one"):
        return "1"
    if isinstance(n, ast.Constant) and isinstance(n.value, int) and 0 <= n.value <= 3:
        return f"{n.value}%nat"
    if isinstance(n, ast.BinOp) and isinstance(n.op, ast.Mult):
        return f"({tr_expr(n.left, env)} * {tr_expr(n.right, env)})"
    if isinstance(n, ast.Call) and isinstance(n.func, ast.Name) and n.func.id in env.funs and len(n.args) == 1 and not n.keywords:
        return f"({n.func.id} {tr_expr(n.args[0], env)})"
    if isinstance(n, ast.Subscript) and isinstance(n.value, ast.Name) and n.value.id in env.vars and env.vars[n.value.id] == "K" \
            and isinstance(n.slice, ast.Tuple) and len(n.slice.elts) == 2:
        return f"(mget K {tr_expr(n.slice.elts[0], env)} {tr_expr(n.slice.elts[1], env)})"
    raise Refuse(f"expression {s}")


def source(it, env):
    """iteration source -> (coq list, kind)"""
    s = ast.unparse(it)
    if isinstance(it, ast.Attribute) and isinstance(it.value, ast.Name) and it.value.id in env.machines and it.attr in ("I", "F"):
        return (f"(winit {env.machines[it.value.id]})" if it.attr == "I" else f"(wfinal {env.machines[it.value.id]})"), "pair"
    if isinstance(it, ast.Call) and isinstance(it.func, ast.Attribute) and it.func.attr == "arcs" and isinstance(it.func.value, ast.Name) \
            and it.func.value.id in env.machines and not it.args and not it.keywords:
        return f"(warcs {env.machines[it.func.value.id]})", "arc"
    if isinstance(it, ast.Subscript) and ast.unparse(it.value) == "S.outgoing" and env.vars.get("S") == "K":
        tr_expr(it.slice, env)  # must be a bound state
        # the closure's non-zero row entries; the model ranges over all states (zero entries add zero weight)
        return "st", "state"
    raise Refuse(f"loop source {s}")


def bind(target, kind, env):
    """bind the loop pattern to projections of a fresh element variable; returns the variable"""
    names = [ast.unparse(e) for e in target.elts] if isinstance(target, ast.Tuple) else [ast.unparse(target)]
    if kind == "pair":
        if len(names) != 2:
            raise Refuse("pattern of an I/F loop")
        v = env.fresh("e")
        env.vars[names[0]] = f"(fst {v})"
        env.vars[names[1]] = f"(snd {v})"
        return v
    if kind == "arc":
        if len(names) != 4:
            raise Refuse("pattern of an arcs() loop")
        v = env.fresh("ar")
        for nm, proj in zip(names, ("asrc", "albl", "adst", "awt")):
            env.vars[nm] = f"({proj} {v})"
        env.labels = getattr(env, "labels", set()) | {names[1]}
        return v
    if kind == "state":
        if len(names) != 1:
            raise Refuse("pattern of an outgoing[] loop")
        v = env.fresh("k")
        env.vars[names[0]] = v
        return v
    raise Refuse(kind)


def tr_block(stmts, builder, env):
    """translate a loop body: returns {component: coq list expression} for the emissions of the block"""
    out = {"I": [], "F": [], "A": []}
    guard = None
    rest = list(stmts)
    # optional leading `if <label> == EPSILON: continue`
    if rest and isinstance(rest[0], ast.If):
        c = rest[0]
        if not (len(c.body) == 1 and isinstance(c.body[0], ast.Continue) and not c.orelse):
            raise Refuse("only `if ...: continue` guards are supported")
        t = c.test
        if not (isinstance(t, ast.Compare) and len(t.ops) == 1 and isinstance(t.ops[0], ast.Eq) and ast.unparse(t.comparators[0]) == "EPSILON"
                and isinstance(t.left, ast.Name) and t.left.id in getattr(env, "labels", set())):
            raise Refuse(f"guard {ast.unparse(t)}")
        guard = f"is_eps {env.vars[t.left.id]}"
        rest = rest[1:]
    for st in rest:
        if isinstance(st, ast.For):
            if st.orelse:
                raise Refuse("for/else")
            src, kind = source(st.iter, env)
            saved = dict(env.vars)
            v = bind(st.target, kind, env)
            inner = tr_block(st.body, builder, env)
            env.vars = saved
            for comp, items in inner.items():
                for it in items:
                    out[comp].append(("loop", v, src, it))
        elif isinstance(st, ast.Expr) and isinstance(st.value, ast.Call) and isinstance(st.value.func, ast.Attribute) \
                and isinstance(st.value.func.value, ast.Name) and st.value.func.value.id == builder and not st.value.keywords:
            m, args = st.value.func.attr, st.value.args
            if m in ("add_I", "add_F") and len(args) == 2:
                out["I" if m == "add_I" else "F"].append(("emit", f"({tr_expr(args[0], env)}, {tr_expr(args[1], env)})"))
            elif m == "add_arc" and len(args) == 4:
                out["A"].append(("emit", "(" + ", ".join(tr_expr(a, env) for a in args) + ")"))
            else:
                raise Refuse(f"builder call {ast.unparse(st)}")
        else:
            raise Refuse(f"statement {ast.unparse(st)[:60]}")
    if guard:
        out = {c: [("guard", guard, it) for it in items] for c, items in out.items()}
    return out


def render(item):
    """loop nest -> list expression; canonical shapes: map for a plain loop around one emission, flat_map otherwise"""
    k = item[0]
    if k == "emit":
        return f"[{item[1]}]"
    if k == "guard":
        return f"(if {item[1]} then [] else {render(item[2])})"
    if k == "loop":
        _, v, src, inner = item
        if inner[0] == "emit":
            return f"(map (fun {v} => {inner[1]}) {src})"
        return f"(flat_map (fun {v} => {render(inner)}) {src})"
    raise Refuse(k)


def app(parts):
    parts = [p for p in parts if p != "[]"]
    if not parts:
        return "[]"
    return "(" + " ++ ".join(parts) + ")" if len(parts) > 1 else parts[0]


def tr_builder(fn, name, params, mparams, fparams, extra=(), spawn_ref="gen_spawn"):
    """translate a builder method; params: list of (python name, coq binder)"""
    env = Env()
    for p in mparams:
        env.machines[p] = p if p != "self" else "a"
    env.funs = set(fparams)
    body = strip_doc(fn)
    lets = []
    builder = None
    spawn = ("false", "false", "false")
    comps = {"I": [], "F": [], "A": []}
    i = 0
    while i < len(body):
        st = body[i]
        s = ast.unparse(st)
        if s == "self, other = self.rename_apart(other)":
            lets.append("let a' := gen_apart_self a in let b' := gen_apart_other other in")
            env.machines["self"] = "a'"
            env.machines["other"] = "b'"
        elif s in ("E = self.E",) and "K" in extra:
            pass  # the epsilon graph; its closure is the parameter K
        elif s == "S = E.closure()" and "K" in extra:
            env.vars["S"] = "K"
        elif isinstance(st, ast.Assign) and len(st.targets) == 1 and isinstance(st.targets[0], ast.Name) and isinstance(st.value, ast.Call) \
                and ast.unparse(st.value.func) == "self.spawn" and builder is None and not st.value.args:
            builder = st.targets[0].id
            kw = {k.arg: ast.unparse(k.value) for k in st.value.keywords}
            if not set(kw) <= {"keep_init", "keep_arcs", "keep_stop"} or not set(kw.values()) <= {"True", "False"}:
                raise Refuse(f"spawn arguments {s}")
            spawn = tuple("true" if kw.get(k) == "True" else "false" for k in ("keep_init", "keep_arcs", "keep_stop"))
        elif isinstance(st, ast.Return):
            if builder is None or ast.unparse(st.value) != builder or i != len(body) - 1:
                raise Refuse(f"return {s}")
        elif isinstance(st, (ast.For, ast.Expr)) and builder is not None:
            blk = tr_block([st], builder, env)
            for c in comps:
                comps[c] += blk[c]
        else:
            raise Refuse(f"{name}: statement {s[:70]}")
        i += 1
    if builder is None or not isinstance(body[-1], ast.Return):
        raise Refuse(f"{name}: no builder / return")
    base = f"{spawn_ref} {' '.join(spawn)} {env.machines['self']}"
    sp = {"I": f"(winit ({base}))", "F": f"(wfinal ({base}))", "A": f"(warcs ({base}))"}
    if spawn == ("false", "false", "false"):
        sp = {"I": "[]", "F": "[]", "A": "[]"}
    fields = [app([sp[c]] + [render(it) for it in comps[c]]) for c in ("I", "F", "A")]
    binders = " ".join(params)
    return (f"Definition {name} {binders} : wfsa S :=\n  " + "\n  ".join(lets) + ("\n  " if lets else "")
            + f"mkW {fields[0]}\n      {fields[1]}\n      {fields[2]}.")


def tr_spawn(fn):
    """spawn: m = self.__class__(self.R); if keep_X: for ... add ...; return m"""
    body = strip_doc(fn)
    if [a.arg for a in fn.args.kwonlyargs] != ["keep_init", "keep_arcs", "keep_stop"] or [ast.unparse(d) for d in fn.args.kw_defaults] != ["False"] * 3:
        raise Refuse("spawn signature")
    if ast.unparse(body[0]) != "m = self.__class__(self.R)" or ast.unparse(body[-1]) != "return m":
        raise Refuse("spawn frame")
    comps = {}
    for st in body[1:-1]:
        if not (isinstance(st, ast.If) and isinstance(st.test, ast.Name) and not st.orelse):
            raise Refuse(f"spawn statement {ast.unparse(st)[:50]}")
        env = Env()
        env.machines["self"] = "a"
        blk = tr_block(st.body, "m", env)
        for c, items in blk.items():
            for it in items:
                comps.setdefault(c, []).append((st.test.id, render(it)))
    flag = {"keep_init": "ki", "keep_arcs": "ka", "keep_stop": "ks"}
    fields = []
    for c in ("I", "F", "A"):
        fields.append(app([f"(if {flag[f]} then {e} else [])" for f, e in comps.get(c, [])]))
    return f"Definition gen_spawn (ki ka ks : bool) (a : wfsa S) : wfsa S :=\n  mkW {fields[0]}\n      {fields[1]}\n      {fields[2]}."


def tr_lift(fn):
    want = ("@classmethod\ndef lift(cls, x, w, R=None):\n    if R is None:\n        R = w.__class__\n    m = cls(R=R)\n"
            "    m.add_I(0, R.one)\n    m.add_arc(0, x, 1, w)\n    m.add_F(1, R.one)\n    return m")
    body = strip_doc(fn)
    if ast.unparse(body[0]) != "if R is None:\n    R = w.__class__" or ast.unparse(body[1]) != "m = cls(R=R)" or ast.unparse(body[-1]) != "return m":
        raise Refuse("lift frame")
    env = Env()
    env.vars = {"x": "x", "w": "w"}
    blk = tr_block(body[2:-1], "m", env)
    fields = [app([render(it) for it in blk[c]]) for c in ("I", "F", "A")]
    return f"Definition gen_lift (x : option nat) (w : S) : wfsa S :=\n  mkW {fields[0]}\n      {fields[1]}\n      {fields[2]}."


def main(write=True):
    tree = ast.parse(open(SRC).read())
    cls = next(n for n in tree.body if isinstance(n, ast.ClassDef) and n.name == "WFSA")
    fns = {}
    for n in cls.body:
        if isinstance(n, ast.FunctionDef):
            fns.setdefault(n.name, n)
    for name, want in PRIMS.items():
        if name not in fns:
            raise Refuse(f"{name} not found")
        got = norm_src(fns[name])
        if got != want:
            raise Refuse(f"primitive {name} changed:\n{got}")
    eps = [n for n in tree.body if isinstance(n, ast.Assign) and ast.unparse(n.targets[0]) == "EPSILON"]
    if len(eps) != 1:
        raise Refuse("EPSILON definition")
    out = ["(* GENERATED by tools/translate_wfsa.py -- do not edit.\n   base.py sha256=" + sha256_file(SRC) + " *)",
           "From Coq Require Import List Arith Bool.", "From GV.lib Require Import Semiring BigSum.", "From GV.model Require Import Linear Wfsa.",
           "Import ListNotations.", "Local Open Scope sr_scope.", "", "Section GEN_WFSA.", "Variable S : SR.", ""]
    out.append(tr_spawn(fns["spawn"]))
    out.append(tr_builder(fns["rename"], "gen_rename", ["(f : nat -> nat)", "(a : wfsa S)"], ["self"], ["f"]))
    # rename_apart: tags (0, i) / (1, i) through an injective Integerizer: modelled as the parity tags of model/Wfsa.v
    out.append("Definition gen_apart_self (a : wfsa S) : wfsa S := gen_rename tagL a.")
    out.append("Definition gen_apart_other (b : wfsa S) : wfsa S := gen_rename tagR b.")
    out.append(tr_builder(fns["reverse"], "gen_reverse", ["(a : wfsa S)"], ["self"], []))
    out.append(tr_builder(fns["__add__"], "gen_add", ["(a other : wfsa S)"], ["self", "other"], []))
    out.append(tr_builder(fns["__mul__"], "gen_mul", ["(a other : wfsa S)"], ["self", "other"], []))
    out.append(tr_builder(fns["kleene_plus"], "gen_kleene_plus", ["(a : wfsa S)"], ["self"], []))
    out.append(tr_lift(fns["lift"]))
    out.append("Definition gen_one : wfsa S := gen_lift None 1.")
    out.append("Definition gen_zero : wfsa S := mkW [] [] [].")
    out.append("Definition gen_star (a : wfsa S) : wfsa S := gen_add gen_one (gen_kleene_plus a).")
    out.append("")
    out.append("End GEN_WFSA.")
    out.append("")
    out.append("Section GEN_EPS.")
    out.append("Variable S : StarSR.")
    out.append(tr_builder(fns["epsremove"], "gen_epsremove_with", ["(K : mat S)", "(st : list nat)", "(a : wfsa S)"], ["self"], [], extra=("K",), spawn_ref="gen_spawn S"))
    out.append("End GEN_EPS.")
    text = "\n".join(out) + "\n"
    if write:
        old = open(OUT).read() if os.path.exists(OUT) else None
        if old != text:
            open(OUT, "w").write(text)
    return {"sources": [SRC], "sha256": [sha256_file(SRC)], "fragments": sorted(["spawn", "rename", "rename_apart", "reverse", "__add__", "__mul__", "kleene_plus", "lift", "one", "zero", "star", "epsremove"] + list(PRIMS)), "out": OUT}


if __name__ == "__main__":
    import sys
    r = main(write="--dry" not in sys.argv)
    print(r)
    if "--show" in sys.argv:
        print(open(OUT).read())
