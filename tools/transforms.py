"""Shared by C06/C07: run every grammar transformation of cfg.py on generated grammars."""
import json
import cfgmodel as M
from cfgcheck import run_jobs, decode_grammar

BASE = [("trim",), ("cotrim",), ("binarize",), ("separate_start",), ("separate_terminals",),
        ("nullaryremove", True, True), ("nullaryremove", False, False), ("nullaryremove", True, False),
        ("unaryremove",), ("unarycycleremove", True), ("unarycycleremove", False), ("cnf",), ("renumber",), ("rename",)]


def tname(t):
    if t[0] == "chain":
        return tname(t[1]) + " then " + tname(t[2])
    return t[0] + ("(" + ",".join(str(x) for x in t[1:]) + ")" if len(t) > 1 else "")


def unfold_sites(g, rng, k=2):
    sites = [(i, j) for i, (w, h, b) in enumerate(g["rules"]) for j, (kk, v) in enumerate(b) if kk == "N"]
    rng.shuffle(sites)
    # rules that occur more than once (same weight, head and body) are unfolded first: removing "the"
    # rule must remove one copy only
    keyf = lambda r: json.dumps(r)
    dup = {keyf(r) for r in g["rules"] if sum(1 for q in g["rules"] if keyf(q) == keyf(r)) > 1}
    first = [s for s in sites if keyf(g["rules"][s[0]]) in dup]
    rest = [s for s in sites if s not in first]
    return [("unfold", i, j) for i, j in (first[:2] + rest)[: k + len(first[:2])]]


CHAINABLE = [("trim",), ("binarize",), ("separate_start",), ("separate_terminals",), ("nullaryremove", True, True), ("unaryremove",),
             ("unarycycleremove", True), ("cnf",), ("renumber",)]


def chains(g, rng, k=4):
    """pairs of transformations applied one after the other (the first one may be an unfold)"""
    out = []
    sites = unfold_sites(g, rng, k=1)
    for _ in range(k):
        first = list(rng.choice(sites)) if sites and rng.random() < 0.5 else list(rng.choice(CHAINABLE))
        out.append(("chain", first, list(rng.choice(CHAINABLE))))
    return out


def run_transforms(grammars, sr, strs, rng, hashseed=0, with_values=True, extra=None, fresh=True, shuffle=False):
    """returns, per grammar, a list of (transform, result) where result is the driver's
    {"ok": {...}} / {"err": ...}"""
    jobs = []
    plans = []
    for g, xs in zip(grammars, strs):
        ts = BASE + unfold_sites(g, rng) + (extra(g) if extra else [])
        if shuffle:
            ts = list(ts)
            rng.shuffle(ts)
        jobs.append({"g": g, "sr": sr, "queries": [{"op": "transform", "t": list(t), "xs": xs if with_values else None, "fresh": fresh, "timeout": 30} for t in ts]})
        plans.append(ts)
    res = run_jobs(jobs, hashseed=hashseed)
    return [list(zip(ts, r)) for ts, r in zip(plans, res)]


# which structural postcondition each transformation promises (C07)
POST = {
    "cnf": "in_cnf",
    "nullaryremove": "no_nullary_except",
    "unaryremove": "no_unary",
    "unarycycleremove": "no_unary_cycle",
    "binarize": "arity_le2",
    "separate_start": "start_not_on_rhs",
    "separate_terminals": "terminals_separated",
    "trim": "all_useful",
    "sub_trim": "all_useful",
}
