"""Run every seeded change in /verif/seeded against the check(s) of the property it breaks and write
seeded/<id>/meta.json (what it breaks, what it needs, what was run, which checks caught it)."""
import json
import os
import subprocess
import sys

VERIF = os.path.dirname(os.path.dirname(os.path.abspath(__file__)))
EXTRA = {"C13-2": ["C15"], "C05-2": ["C01"], "C04-6": ["C20"], "C04-4": ["C05"]}


def main():
    only = sys.argv[1:]
    table = []
    for d in sorted(os.listdir(os.path.join(VERIF, "seeded"))):
        full = os.path.join(VERIF, "seeded", d)
        if not os.path.isdir(full) or (only and d not in only):
            continue
        prop = d.split("-")[0]
        props = [prop] + EXTRA.get(d, [])
        cmd = ["python3", os.path.join(VERIF, "tools", "seedrun.py"), os.path.join(full, "patch.diff")] + props + ["--verify", os.path.join(full, "demo.py")]
        r = subprocess.run(cmd, stdout=subprocess.PIPE, stderr=subprocess.STDOUT, text=True, timeout=6000)
        try:
            o = json.loads(r.stdout[r.stdout.index("{"):])
        except Exception:
            print(d, "seedrun failed:", r.stdout[-500:])
            continue
        agent = json.load(open(os.path.join(full, "meta_agent.json"))) if os.path.exists(os.path.join(full, "meta_agent.json")) else {}
        meta = {
            "property": prop,
            "summary": agent.get("summary"),
            "files_changed": agent.get("files_changed"),
            "needs_to_manifest": agent.get("needs_to_manifest"),
            "verified_by_me": {
                "demo_exit_without_change": o.get("demo_without"), "demo_exit_with_change": o.get("demo_with"),
                "test_suite_with_change": o.get("tests_with"),
                "commands": ["git -C /repo apply patch.diff", "PYTHONPATH=/repo /venv/bin/python demo.py", "cd /repo && /venv/bin/python -m pytest -q -p no:cacheprovider -x -n 8", "./check <Cxx> --tier quick", "git -C /repo checkout -- ."],
            },
            "checks": {p: {"caught": c["rc"] != 0, "with_failing_input": any("VIOLATION" in ln and "no-failing-input-found" not in ln for ln in c["lines"]), "first_lines": c["lines"][:3], "wall_s": c["wall"]} for p, c in o["checks"].items()},
        }
        json.dump(meta, open(os.path.join(full, "meta.json"), "w"), indent=1)
        caught = [p for p, c in meta["checks"].items() if c["caught"]]
        print(d, "demo", o.get("demo_without"), o.get("demo_with"), "| tests:", o.get("tests_with"), "| caught by:", caught, "| concrete input:", [p for p, c in meta["checks"].items() if c["with_failing_input"]])
        table.append((d, meta))
    # the runs above were made against a CHANGED /repo: their evidence files must not stay in the tree
    subprocess.run(["git", "-C", VERIF, "checkout", "--", "evidence"], stdout=subprocess.DEVNULL, stderr=subprocess.DEVNULL)
    return 0


if __name__ == "__main__":
    sys.exit(main())
