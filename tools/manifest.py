"""Regenerates MANIFEST.json from the table below (kept valid at all times)."""
import json
import os

VERIF = os.path.dirname(os.path.dirname(os.path.abspath(__file__)))
ALL = [f"C{i:02d}" for i in range(1, 21)]

CLAIMED = {
    "C02": dict(
        technique="Coq proofs: reference semantics = sum over all derivation trees (complete, duplicate-free enumeration), CKY = reference on CNF, permutation/renaming invariance, regenerated agenda-priority lemmas; vm_compute correspondence of every parser entry point against the proved reference",
        text="The derivation sum W is proved (any commutative semiring, any grammar) to be the sum over a sound, complete, duplicate-free enumeration of derivation trees; the executable tabulation used for the correspondence is proved equal to W; CKY on CNF is proved equal to W; W is proved invariant under rule permutation and injective renaming; the agenda priorities of both Earley parsers are regenerated from source and proved to pop contributors first. cfg(xs), Earley, IncrementalCKY, rescaled Earley and materialize are compared with the proved reference on generated grammars (exact rationals, Booleans incl. cyclic grammars, floats on convergent cyclic grammars) under rule permutation, renaming and several hash seeds.",
        note="Partial: Earley's functional correctness and the CNF pipeline are tied to the reference by correspondence only (mechanism theorem = priority order); cyclic non-Boolean grammars only by float comparison with the Kleene limit. Trusted: Coq kernel, translators, harness.",
        design="§4 C02",
    ),
    "C16": dict(
        technique="Coq proofs (ring/field/lra over R) about definitions regenerated from semiring.py by a fail-closed ast translator; vm_compute differential run of the Qc instantiation",
        text="All semiring laws and the star unfolding laws are proved in Coq for every value of each class' domain, about operator definitions that are regenerated from genlm/grammar/semiring.py on every run; the rational instantiation of the same generated text is executed against the Python classes. A law-breaking edit makes a proof fail (or the translator refuse) and the Python law oracle then supplies the failing triple.",
        note="Trusted: Coq kernel; stdlib real-number axioms (sig_forall_dec, sig_not_dec, functional_extensionality_dep, classic) for theorems over R; the translator; float rounding is not modelled (scores are exact reals/rationals; -inf modelled, +inf/nan not).",
        design="§4 C16",
    ),
}


def main():
    checks = []
    for pid in ALL:
        if pid not in CLAIMED:
            continue
        c = CLAIMED[pid]
        checks.append({
            "property_id": pid,
            "quick_cmd": f"./check {pid} --tier quick",
            "thorough_cmd": f"./check {pid} --tier thorough",
            "evidence_file": f"/verif/evidence/{pid}.json",
            "replay_cmd_template": f"./check {pid} --replay {{path}}",
            "engine": "coq-proof",
            "level_claimed": {"category": "proof", "text": c["text"], "design_ref": c["design"]},
            "level_note": c["note"],
            "technique": c["technique"],
        })
    man = {
        "version": 1,
        "setup_cmd": "./setup.sh",
        "hooks": {
            "guard": "GENLM_GRAMMAR_VERIF",
            "enable": "no source hooks are needed: all observation is black-box (PYTHONPATH=/repo sub-processes); the guard variable is set by the harness but nothing in /repo reads it",
            "baseline_off_cmd": "cd /repo && /venv/bin/python -m pytest -ra -q -p no:cacheprovider --timeout=900 --continue-on-collection-errors",
            "source_commits": [],
            "add_only": True,
        },
        "engines": [{"name": "coq-proof", "path": "/verif/coq", "serves_properties": sorted(CLAIMED), "kind_free_text": "Coq 8.16.1 development (lib/model/proofs/props) + Python harness (translators, correspondence via generated cases + vm_compute, failing-input search)"}],
        "checks": checks,
        "notes": "See DESIGN.md. Every check: regenerate translated models, rebuild proofs, Print Assumptions audit, correspondence model-vs-implementation, failing-input search.",
        "not_applicable": [{"property_id": p, "reason": "check not built yet in this revision (work in progress; see DESIGN.md §8 for the build order)"} for p in ALL if p not in CLAIMED],
    }
    with open(os.path.join(VERIF, "MANIFEST.json"), "w") as f:
        json.dump(man, f, indent=1)


if __name__ == "__main__":
    main()
