"""Regenerates MANIFEST.json from the table below (kept valid at all times)."""
import json
import os

VERIF = os.path.dirname(os.path.dirname(os.path.abspath(__file__)))
ALL = [f"C{i:02d}" for i in range(1, 21)]

CLAIMED = {
    "C05": dict(
        technique="Coq proof by induction over operation histories of a memo-table state machine (history independence, cache invariant); differential runs of query histories on the real parser and LM objects against fresh objects",
        text="The prefix-keyed chart cache (recursive fill through x[:-1], clear_cache) is modelled as a state machine over immutable columns and it is proved that for every history of queries and clears every answer equals the answer of a fresh object to that query, and that every cached chart is the chart of its prefix. On the implementation, random histories over nested and sibling prefixes on all eight parser / language-model object kinds are compared query by query with brand-new objects, cold/warm/cleared caches on 100-300 token contexts are compared, and rules/V/S are snapshotted around every history and every transformation.",
        note="Partial: columns are immutable values in the model, so CPython aliasing (shared Column objects, defaultdict insert-on-read on older columns) is exhibited only by the differential run, not by the theorem.",
        design="§4 C05",
    ),
    "C11": dict(
        technique="Coq proofs: forward pass = sum over enumerated accepting paths; epsilon removal = matrix form for any closure table; for epsilon-acyclic machines m(xs) = sum over all paths incl. epsilon arcs; Lehmann closure fixpoint; vm_compute correspondence against the model and an exact matrix oracle",
        text="For every automaton over every commutative semiring the forward pass is proved equal to the sum over all accepting paths; epsilon removal is proved to leave no epsilon arcs and to compute alpha K A K ... K omega; for epsilon-acyclic machines over any star semiring the library's m(xs) (Lehmann closure + epsilon removal + forward) is proved equal to the sum over ALL accepting paths including epsilon arcs; in general the closure satisfies K = I + EK = I + KE. m(xs), epsremove and total_weight are compared with the Coq model (Qc, exact star) on automata with epsilon cycles, parallel arcs, dead and unreachable states.",
        note="Partial: for epsilon-cyclic machines the 'sum over all paths' is a limit; the theorem gives the closure equations and the correspondence compares with the exact inverse of I - E.",
        design="§4 C11",
    ),
    "C12": dict(
        technique="Coq proofs of the language-level laws of union, reversal, injective renaming, concatenation (split convolution), Kleene plus (unfolding), one/zero/lift; vm_compute correspondence of nested expressions",
        text="Union, reversal and injective renaming are proved at the level of string weights for all automata and semirings; concatenation is proved to be the convolution over splits and Kleene plus to satisfy A+ = A + A.A+ (sums over all paths including the epsilon links), one/zero/lift are characterised. Nested random expressions (depth <= 3, operands with epsilon arcs and states both initial and final) are evaluated by the implementation (both WFSA classes) and by the Coq model of the same constructions.",
        note="Partial: star with a non-zero empty-string weight and operands with epsilon arcs inside concat/plus are covered by the correspondence (model = Lehmann closure + forward), not by the term-wise theorems.",
        design="§4 C12",
    ),
    "C13": dict(
        technique="Coq proofs over an abstract field: pushing is stochastic and language-preserving; residual invariant of the weighted subset construction (determinised value = input value); Coq checkers + reference semantics evaluated on every automaton the implementation returns",
        text="Over any field, pushing with backward weights is proved to make every kept state's outgoing plus final mass one and to preserve every string weight; the step of the weighted subset construction is proved to maintain forward(xs) = c . Q, so the determinised automaton gives every string its original weight whenever the normalisers are non-zero. determinize, min_det, push, trim and trim_vals are run on acyclic automata (epsilon arcs, dead states, several initial states); their results are read back, re-evaluated by the Coq model on all strings and checked by the Coq checkers for determinism, stochasticity and trimness.",
        note="Partial: termination of determinisation and Brzozowski minimisation are not modelled; min_det and trim are decided by read-back checks only.",
        design="§4 C13",
    ),
    "C15": dict(
        technique="Coq proofs: Lehmann elimination yields K = I + AK = I + KA in every star semiring; acyclic closure = power sum; Boolean closure = reachability; block solvers satisfy x = xA + b / x = Ax + b; sound SCC checker; vm_compute correspondence incl. translation validation of Tarjan's output",
        text="Lehmann's elimination is proved to return a solution of both closure equations whenever its pivot stars are defined, to equal the sum over all paths on acyclic graphs and reachability over the Boolean semiring; the block solvers are proved correct for every forward-ordered partition, and the SCC checker is proved sound. closure_scc_based, closure_reference, solve_left/right are compared with the Coq models and the exact inverse; the implementation's block list is checked by the Coq checker on every graph.",
        note="Partial: Tarjan's algorithm itself is validated per input by the verified checker, not proved for all graphs; minimality (least solution) over the reals is not formalised beyond the acyclic and Boolean cases.",
        design="§4 C15",
    ),
    "C01": dict(
        technique="Coq proofs: regenerated prefix transducer (each string/prefix pair exactly once), Boolean prefix weight <-> existence of a derivation tree whose yield begins with the context, EOS wrapping; vm_compute correspondence of the mask for both back-ends",
        text="The mask bit computed by the Coq prefix tabulation over the Boolean semiring is proved to hold exactly when some derivation tree has a yield beginning with the context (for every grammar: empty rules, unary cycles, recursion, useless symbols), the tabulation is proved to compute that reference, the regenerated prefix transducer is proved to relate every string to each of its prefixes with exactly one path, and EOS wrapping is proved to add exactly one trailing eos. BoolCFGLM(alg=earley|cky).p_next(ctx).keys() is compared with that mask on generated grammars and contexts (viable or not) under permutation/renaming and hash seeds.",
        note="Partial: the implementation's route (prefix grammar by composition + Earley/CKY back-ends) is tied to the reference mask by correspondence, not by a refinement proof.",
        design="§4 C01",
    ),
    "C03": dict(
        technique="Coq proofs: regenerated prefix transducer theorem; prefix-weight reference = sum over all derivation trees whose yield begins with p; tabulation = reference; vm_compute correspondence of prefix_weight / derivatives / derivative",
        text="Wpre (prefix weight at bounded height) is proved equal to the sum of the weights of the derivation trees whose yield begins with p, each once, for every grammar over every commutative semiring, with the empty prefix giving the total weight; the executable tabulation is proved to compute it; the prefix transducer regenerated from source is proved to accept each (string, prefix) pair with exactly one path of weight one. prefix_weight, prefix_grammar, derivatives(p)[-1].treesum() and derivative(a)(y) are compared with these references (exact rationals on finite languages, Booleans on all grammars, floats against the iteration limit on recursive grammars).",
        note="Partial: infinitely many completions are a limit (compared numerically); the derivative construction and the composition that builds the prefix grammar are decided by correspondence only.",
        design="§4 C03",
    ),
    "C04": dict(
        technique="Coq proofs over an abstract field: next-token distribution sums to one, chain rule by telescoping from the prefix-sum identity; prefix-weight semantics; regenerated rescaled priority; vm_compute correspondence of p_next / unnormalised weights / chain rule for the three LMs",
        text="Over any field the chain rule prod p_next = weight/total is proved from the prefix-sum identity and the identification of next-token weights with prefix weights, and normalised distributions are proved to sum to one; prefix weights are proved to be sums over derivation trees. EarleyLM, CKYLM and the rescaled EarleyLM are compared with normalised Coq prefix weights (exact rationals), unnormalised weights with prefix weights, lm(xs+eos) with weight/total, recursive grammars on floats with the iteration limit, and the rescaled variant on contexts of up to hundreds of tokens with the exact-rational Earley LM.",
        note="Partial: the hypotheses of the chain-rule theorem (next-token weight = prefix weight of context+token) are established for the implementation by correspondence only; rescaling factors are not modelled (their cancellation is observed on long contexts).",
        design="§4 C04",
    ),
    "C06": dict(
        technique="Coq proofs of weight preservation for bottom-up trimming, injective renaming and start separation (any commutative semiring); every transformation's output is read back and evaluated by the proved reference semantics under vm_compute and compared with the input's",
        text="cotrim, rename and separate_start are proved to preserve the derivation sum of every string at every height for every grammar over every commutative semiring (non-generating symbols are proved to have weight zero; the generating set is proved to be exactly the productive symbols). For all transformations and options the implementation's output grammar is read back, evaluated in Coq by the reference semantics (proved to be the sum over all derivation trees) and compared with the input grammar's values: exact rationals on finitely ambiguous grammars, Booleans on all grammars (nullable and unary cycles included), floats against the Kleene limit on convergent cyclic grammars.",
        note="Partial: binarize, separate_terminals, nullaryremove, unaryremove, unarycycleremove, cnf, unfold and top-down trimming have no preservation theorem for all inputs; they are decided by the correspondence run (translation validation against the proved semantics). Cyclic non-Boolean sums are limits and are only compared numerically.",
        design="§4 C06",
    ),
    "C07": dict(
        technique="Coq proofs: shape theorems for models of binarize/separate_terminals/push_null_weights/unaryremove/separate_start and the whole CNF pipeline for every grammar; verified (sound and complete) checkers evaluated by vm_compute on every output of the implementation",
        text="For every input grammar the models of the transformations are proved to produce the promised shapes and the CNF pipeline is proved to end in Chomsky normal form. The boolean checkers (in_cnf, arity, no unary, no nullary except start, start not on rhs, all symbols useful via generating/reachable closures, unary cycle) are proved sound and complete for their predicates, and are evaluated in Coq on every grammar the implementation returns; the library's own in_cnf()/has_unary_cycle() are compared with them.",
        note="The transformation models are tied to the code by the checker run on the implementation's outputs (translation validation) rather than by a structural comparison of rule lists, because the implementation invents fresh names. unarycycleremove and trim have no model-level theorem (checker only).",
        design="§4 C07",
    ),
    "C08": dict(
        technique="Coq proofs: Kleene iterate = sum over all derivation trees of bounded height; semi-naive identity for the regenerated factor selection; agenda invariant and fixed-point theorem for every pop order; vm_compute correspondence of agenda/naive/treesum/expected_length",
        text="bu_iter (naive evaluation) is proved equal to the sum of the weights of all derivation trees of bounded height (complete, duplicate-free enumeration). The agenda's update is regenerated from source and proved to push exactly the change of every rule's product; the invariant old + pending = rhs(old) is proved for every reachable state under every pop order, so an empty agenda means the grammar equations hold. agenda(), naive_bottom_up(), treesum() and expected_length are compared with the Coq iterate on acyclic grammars (exact), Boolean grammars (all shapes) and convergent cyclic float grammars under several hash seeds.",
        note="Partial: convergence in the reals (least solution as a limit) and the tolerance test are not formalised; the theorems are about the exact (tol = 0) transition system. expected_length is decided by correspondence only.",
        design="§4 C08",
    ),
    "C20": dict(
        technique="Coq proofs over an abstract field about the regenerated normalisation factor: per-head sums, tree proportionality, EOS wrapping; vm_compute correspondence of the normalised rule weights",
        text="With the factor expression regenerated from locally_normalize, it is proved over any field that the rules of a head with Z <> 0 sum to one when Z solves the grammar equations, and that every derivation tree's weight is divided by Z of its root (so every string weight, finite or infinite sum, is divided by Z[S]); add_EOS is proved to give xs+[eos] the weight of xs and to require exactly one trailing eos. The implementation's normalised rule weights are compared exactly with the Coq model, and per-head sums, proportionality and EOS placement are checked on generated grammars.",
        note="Z = agenda() is taken as a solution of the grammar equations (that is C08); float grammars are compared with tolerance 1e-6.",
        design="§4 C20",
    ),
    "C02": dict(
        technique="Coq proofs: reference semantics = sum over all derivation trees (complete, duplicate-free enumeration), CKY = reference on CNF, permutation/renaming invariance, regenerated agenda-priority lemmas; vm_compute correspondence of every parser entry point against the proved reference",
        text="The derivation sum W is proved (any commutative semiring, any grammar) to be the sum over a sound, complete, duplicate-free enumeration of derivation trees; the executable tabulation used for the correspondence is proved equal to W; CKY on CNF is proved equal to W; W is proved invariant under rule permutation and injective renaming; the agenda priorities of both Earley parsers are regenerated from source and proved to pop contributors first. cfg(xs), Earley, IncrementalCKY, rescaled Earley and materialize are compared with the proved reference on generated grammars (exact rationals, Booleans incl. cyclic grammars, floats on convergent cyclic grammars) under rule permutation, renaming and several hash seeds.",
        note="Partial: Earley's functional correctness and the CNF pipeline are tied to the reference by correspondence only (mechanism theorem = priority order); cyclic non-Boolean grammars only by float comparison with the Kleene limit. Trusted: Coq kernel, translators, harness.",
        design="§4 C02",
    ),
    "C16": dict(
        technique="Coq proofs (ring/field/lra over R) about definitions regenerated from semiring.py by a fail-closed ast translator; vm_compute differential run of the Qc instantiation",
        text="All semiring laws and the star unfolding laws are proved in Coq for every value of each class' domain, about operator definitions that are regenerated from genlm/grammar/semiring.py on every run; the rational instantiation of the same generated text is executed against the Python classes. A law-breaking edit makes a proof fail (or the translator refuse) and the Python law oracle then supplies the failing triple.",
        note="Trusted: Coq kernel; stdlib real-number axioms (sig_forall_dec, sig_not_dec, functional_extensionality_dep, classic) for theorems over R; the translator; float rounding is not modelled (scores are exact reals/rationals; -inf modelled, +inf/nan not).",
        design="§4 C16",
    ),
}


def main():
    checks = []
    for pid in ALL:
        if pid not in CLAIMED:
            continue
        c = CLAIMED[pid]
        checks.append({
            "property_id": pid,
            "quick_cmd": f"./check {pid} --tier quick",
            "thorough_cmd": f"./check {pid} --tier thorough",
            "evidence_file": f"/verif/evidence/{pid}.json",
            "replay_cmd_template": f"./check {pid} --replay {{path}}",
            "engine": "coq-proof",
            "level_claimed": {"category": "proof", "text": c["text"], "design_ref": c["design"]},
            "level_note": c["note"],
            "technique": c["technique"],
        })
    man = {
        "version": 1,
        "setup_cmd": "./setup.sh",
        "hooks": {
            "guard": "GENLM_GRAMMAR_VERIF",
            "enable": "no source hooks are needed: all observation is black-box (PYTHONPATH=/repo sub-processes); the guard variable is set by the harness but nothing in /repo reads it",
            "baseline_off_cmd": "cd /repo && /venv/bin/python -m pytest -ra -q -p no:cacheprovider --timeout=900 --continue-on-collection-errors",
            "source_commits": [],
            "add_only": True,
        },
        "engines": [{"name": "coq-proof", "path": "/verif/coq", "serves_properties": sorted(CLAIMED), "kind_free_text": "Coq 8.16.1 development (lib/model/proofs/props) + Python harness (translators, correspondence via generated cases + vm_compute, failing-input search)"}],
        "checks": checks,
        "notes": "See DESIGN.md. Every check: regenerate translated models, rebuild proofs, Print Assumptions audit, correspondence model-vs-implementation, failing-input search.",
        "not_applicable": [{"property_id": p, "reason": "check not built yet in this revision (work in progress; see DESIGN.md §8 for the build order)"} for p in ALL if p not in CLAIMED],
    }
    with open(os.path.join(VERIF, "MANIFEST.json"), "w") as f:
        json.dump(man, f, indent=1)


if __name__ == "__main__":
    main()
