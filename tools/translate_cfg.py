"""Fail-closed translator for the grammar-building methods
   cfg.py   CFG.rename, CFG._trim, CFG.separate_start, CFG.unfold   and   cfglm.py  add_EOS
-> coq/gen/Gen_Cfg.v  (definitions over `grammar S` of model/Cfg.v).

A method is a builder program:  new = self.spawn([S=..]);  [new.add(...)];  for r in self: [if <cond>:] new.add(w, head, *body);  return new.
The result is the list of its add calls in program order (CFG.add appends a Rule; its source is compared literally).
Symbols are typed in the model (T a | N x): `self.is_terminal(y)` becomes a match on the constructor, the start symbol and
rule heads are nonterminals, `eos` is a terminal, `_gen_nt(..)` is a fresh nonterminal passed as a parameter.
CFG.add drops rules of weight zero; the model keeps them (they contribute zero) and conjuncts `p.w != self.R.zero` are dropped.
Anything outside this fragment makes the translator refuse."""
import ast
import os

from common import REPO, COQ, sha256_file

OUT = os.path.join(COQ, "gen", "Gen_Cfg.v")
SRC_CFG = os.path.join(REPO, "genlm", "grammar", "cfg.py")
SRC_LM = os.path.join(REPO, "genlm", "grammar", "cfglm.py")


class Refuse(Exception):
    pass


PRIMS = {
    "add": "def add(self, w, head, *body):\n    if w == self.R.zero:\n        return\n    self.N.add(head)\n    r = Rule(w, head, body)\n    self.rules.append(r)\n    return r",
    "spawn": "def spawn(self, *, R=None, S=None, V=None):\n    return self.__class__(R=self.R if R is None else R, S=self.S if S is None else S, V=set(self.V) if V is None else V)",
    "__iter__": "def __iter__(self):\n    return iter(self.rules)",
    "is_terminal": "def is_terminal(self, x):\n    return x in self.V",
    "is_nonterminal": "def is_nonterminal(self, X):\n    return not self.is_terminal(X)",
    "cotrim": "def cotrim(self):\n    return self.trim(bottomup_only=True)",
}


def strip_doc(body):
    if body and isinstance(body[0], ast.Expr) and isinstance(body[0].value, ast.Constant) and isinstance(body[0].value.value, str):
        return body[1:]
    return body


def norm_src(fn):
    f2 = ast.parse(ast.unparse(fn)).body[0]
    f2.body = strip_doc(f2.body) or [ast.Pass()]
    # drop comments-only differences: unparse already did
    return ast.unparse(f2)


class Ctx:
    def __init__(self, me, rule_vars=()):
        self.me = me                  # python name of the grammar object (self / cfg)
        self.rules = set(rule_vars)   # python names bound to rules -> coq variable of the same name
        self.fresh = {}               # python name -> coq nat (fresh nonterminal)
        self.funs = set()
        self.terms = {}               # python name -> coq nat (terminal symbol)
        self.nats = {}                # python name -> coq nat (indices)


def weight(n, c):
    s = ast.unparse(n)
    if s in (f"{c.me}.R.one",):
        return "1"
    if isinstance(n, ast.Attribute) and isinstance(n.value, ast.Name) and n.value.id in c.rules and n.attr == "w":
        return f"(rw {n.value.id})"
    if isinstance(n, ast.BinOp) and isinstance(n.op, ast.Mult):
        return f"({weight(n.left, c)} * {weight(n.right, c)})"
    raise Refuse(f"weight {s}")


def head(n, c):
    """an expression in head position -> nat"""
    s = ast.unparse(n)
    if isinstance(n, ast.Name) and n.id in c.fresh:
        return c.fresh[n.id]
    if s == f"{c.me}.S":
        return "s"
    if isinstance(n, ast.Attribute) and isinstance(n.value, ast.Name) and n.value.id in c.rules and n.attr == "head":
        return f"(rhead {n.value.id})"
    if isinstance(n, ast.Call) and isinstance(n.func, ast.Name) and n.func.id in c.funs and len(n.args) == 1:
        return f"({n.func.id} {head(n.args[0], c)})"
    raise Refuse(f"head {s}")


def index(n, c):
    if isinstance(n, ast.Name) and n.id in c.nats:
        return c.nats[n.id]
    if isinstance(n, ast.BinOp) and isinstance(n.op, ast.Add) and isinstance(n.right, ast.Constant) and n.right.value == 1:
        return f"(Datatypes.S {index(n.left, c)})"
    raise Refuse(f"index {ast.unparse(n)}")


def body_parts(args, c):
    """the *body arguments of add -> coq list expression"""
    parts = []
    for a in args:
        s = ast.unparse(a)
        if isinstance(a, ast.Starred):
            v = a.value
            vs = ast.unparse(v)
            if isinstance(v, ast.Attribute) and isinstance(v.value, ast.Name) and v.value.id in c.rules and v.attr == "body":
                parts.append(f"(rbody {v.value.id})")
            elif isinstance(v, ast.Subscript) and isinstance(v.value, ast.Attribute) and isinstance(v.value.value, ast.Name) \
                    and v.value.value.id in c.rules and v.value.attr == "body" and isinstance(v.slice, ast.Slice) and v.slice.step is None:
                r = v.value.value.id
                if v.slice.lower is None and v.slice.upper is not None:
                    parts.append(f"(firstn {index(v.slice.upper, c)} (rbody {r}))")
                elif v.slice.upper is None and v.slice.lower is not None:
                    parts.append(f"(skipn {index(v.slice.lower, c)} (rbody {r}))")
                else:
                    raise Refuse(f"slice {vs}")
            elif isinstance(v, ast.GeneratorExp) and len(v.generators) == 1 and not v.generators[0].ifs:
                g = v.generators[0]
                y = ast.unparse(g.target)
                it = g.iter
                if not (isinstance(it, ast.Attribute) and isinstance(it.value, ast.Name) and it.value.id in c.rules and it.attr == "body"):
                    raise Refuse(f"generator source {vs}")
                e = v.elt
                # y if self.is_terminal(y) else f(y)
                if isinstance(e, ast.IfExp) and ast.unparse(e.test) == f"{c.me}.is_terminal({y})" and ast.unparse(e.body) == y \
                        and isinstance(e.orelse, ast.Call) and isinstance(e.orelse.func, ast.Name) and e.orelse.func.id in c.funs \
                        and [ast.unparse(x) for x in e.orelse.args] == [y]:
                    f = e.orelse.func.id
                    parts.append(f"(map (fun y => match y with T a => T a | N x => N ({f} x) end) (rbody {it.value.id}))")
                else:
                    raise Refuse(f"generator element {ast.unparse(e)}")
            else:
                raise Refuse(f"body argument {s}")
        else:
            if s == f"{c.me}.S":
                parts.append("[N s]")
            elif isinstance(a, ast.Name) and a.id in c.terms:
                parts.append(f"[T {c.terms[a.id]}]")
            else:
                raise Refuse(f"body symbol {s}")
    if not parts:
        return "[]"
    return "(" + " ++ ".join(parts) + ")" if len(parts) > 1 else parts[0]


def add_call(st, builder, c):
    if not (isinstance(st, ast.Expr) and isinstance(st.value, ast.Call) and ast.unparse(st.value.func) == f"{builder}.add" and not st.value.keywords and len(st.value.args) >= 2):
        raise Refuse(f"statement {ast.unparse(st)[:60]}")
    a = st.value.args
    return f"({weight(a[0], c)}, {head(a[1], c)}, {body_parts(a[2:], c)})"


def cond(n, c, symbols=None):
    """rule filter -> coq bool"""
    if isinstance(n, ast.BoolOp) and isinstance(n.op, ast.And):
        parts = [cond(v, c, symbols) for v in n.values]
        parts = [p for p in parts if p is not None]
        return " && ".join(parts) if parts else "true"
    s = ast.unparse(n)
    for r in c.rules:
        if s == f"{r}.w != {c.me}.R.zero":
            return None  # rules stored by add have non-zero weight
        if symbols and s == f"{r}.head in {symbols}":
            return f"keep (N (rhead {r}))"
        if symbols and s == f"set({r}.body) <= {symbols}":
            return f"forallb keep (rbody {r})"
    if isinstance(n, ast.Compare) and len(n.ops) == 1 and isinstance(n.ops[0], ast.NotEq) and isinstance(n.left, ast.Name) and n.left.id in c.nats \
            and isinstance(n.comparators[0], ast.Name) and n.comparators[0].id in c.nats:
        return f"negb (Nat.eqb {c.nats[n.left.id]} {c.nats[n.comparators[0].id]})"
    raise Refuse(f"condition {s}")


def rule_loop(st, builder, c, symbols=None):
    """for r in self: [if cond:] new.add(...)  ->  map / flat_map over G"""
    if not (isinstance(st, ast.For) and not st.orelse):
        raise Refuse("expected a loop over the rules")
    it = ast.unparse(st.iter)
    if it == c.me and isinstance(st.target, ast.Name):
        r = st.target.id
        c.rules.add(r)
        src, var = "G", r
        pre = ""
    elif it == f"enumerate({c.me})" and isinstance(st.target, ast.Tuple) and len(st.target.elts) == 2:
        j, r = (ast.unparse(x) for x in st.target.elts)
        c.rules.add(r)
        c.nats[j] = f"(fst j{r})"
        src, var = "(combine (seq 0 (length G)) G)", f"j{r}"
        pre = f"let {r} := snd j{r} in "
    else:
        raise Refuse(f"loop source {it}")
    body = st.body
    if len(body) == 1 and isinstance(body[0], ast.If) and not body[0].orelse and len(body[0].body) == 1:
        g = cond(body[0].test, c, symbols)
        e = add_call(body[0].body[0], builder, c)
        return f"(flat_map (fun {var} => {pre}if {g} then [{e}] else []) {src})"
    if len(body) == 1:
        e = add_call(body[0], builder, c)
        return f"(map (fun {var} => {pre}{e}) {src})"
    raise Refuse("loop body")


def find(tree, name, cls=None):
    body = tree.body
    if cls:
        body = next(n for n in body if isinstance(n, ast.ClassDef) and n.name == cls).body
    for n in body:
        if isinstance(n, ast.FunctionDef) and n.name == name:
            return n
    raise Refuse(f"{name} not found")


def tr_rename(fn):
    b = strip_doc(fn.body)
    if [ast.unparse(x) for x in (b[0], b[-1])] != ["new = self.spawn(S=f(self.S))", "return new"] or len(b) != 3:
        raise Refuse("rename frame")
    c = Ctx("self")
    c.funs = {"f"}
    return ("Definition gen_rename_start (f : nat -> nat) (s : nat) : nat := (f s).\n"
            f"Definition gen_rename (f : nat -> nat) (G : grammar S) : grammar S :=\n  {rule_loop(b[1], 'new', c)}.")


def tr_trim(fn):
    b = strip_doc(fn.body)
    if [a.arg for a in fn.args.args] != ["self", "symbols"] or [ast.unparse(x) for x in (b[0], b[-1])] != ["new = self.spawn()", "return new"] or len(b) != 3:
        raise Refuse("_trim frame")
    c = Ctx("self")
    return f"Definition gen_trim (keep : sym -> bool) (G : grammar S) : grammar S :=\n  {rule_loop(b[1], 'new', c, symbols='symbols')}."


def tr_separate_start(fn):
    b = strip_doc(fn.body)
    if len(b) != 1 or not isinstance(b[0], ast.If) or ast.unparse(b[0].test) != "self.S in {y for r in self for y in r.body}":
        raise Refuse("separate_start test")
    th, el = b[0].body, b[0].orelse
    if [ast.unparse(x) for x in el] != ["return self"]:
        raise Refuse("separate_start else")
    if ast.unparse(th[0]) != "S = _gen_nt(self.S)" or ast.unparse(th[1]) != "new = self.spawn(S=S)" or ast.unparse(th[-1]) != "return new" or len(th) != 5:
        raise Refuse("separate_start frame")
    c = Ctx("self")
    c.fresh["S"] = "s'"
    first = add_call(th[2], "new", c)
    loop = rule_loop(th[3], "new", c)
    return ("Definition gen_separate_start (s' s : nat) (G : grammar S) : nat * grammar S :=\n"
            "  if existsb (fun r => existsb (sym_eqb (N s)) (rbody r)) G\n"
            f"  then (s', {first} :: {loop})\n  else (s, G).")


def tr_add_eos(fn):
    b = strip_doc(fn.body)
    src = [ast.unparse(x) for x in b]
    if src[:5] != ["S = _gen_nt('<START>')", "new = cfg.spawn(S=S)", "eos = eos or EOS", "assert eos not in cfg.V", "new.V.add(eos)"] or src[-1] != "return new" or len(b) != 8:
        raise Refuse("add_EOS frame")
    c = Ctx("cfg")
    c.fresh["S"] = "s'"
    c.terms["eos"] = "eos"
    first = add_call(b[5], "new", c)
    loop = rule_loop(b[6], "new", c)
    return f"Definition gen_add_eos (s' s eos : nat) (G : grammar S) : grammar S :=\n  {first} :: {loop}."


def tr_unfold(fn):
    b = strip_doc(fn.body)
    src = [ast.unparse(x) for x in b]
    if [a.arg for a in fn.args.args] != ["self", "i", "k"]:
        raise Refuse("unfold signature")
    want = ["assert isinstance(i, int) and isinstance(k, int)", "s = self.rules[i]", "assert self.is_nonterminal(s.body[k])", "new = self.spawn()"]
    if src[:4] != want or src[-1] != "return new" or len(b) != 7:
        raise Refuse("unfold frame")
    c = Ctx("self", rule_vars=("s",))
    c.nats = {"i": "i", "k": "k"}
    keep = rule_loop(b[4], "new", c)
    st = b[5]
    if not (isinstance(st, ast.For) and ast.unparse(st.iter) == "self.rhs[s.body[k]]" and isinstance(st.target, ast.Name) and len(st.body) == 1):
        raise Refuse("unfold expansion loop")
    r = st.target.id
    c.rules.add(r)
    e = add_call(st.body[0], "new", c)
    # self.rhs[X]: the rules whose head is X, in rule order (cached_property rhs checked below)
    return ("Definition gen_unfold (i k : nat) (G : grammar S) : grammar S :=\n"
            "  match nth_error G i with\n  | None => G\n  | Some s =>\n    match nth_error (rbody s) k with\n    | Some (N X) =>\n"
            f"      {keep} ++\n      (map (fun {r} => {e}) (filter (fun r0 => Nat.eqb (rhead r0) X) G))\n"
            "    | _ => G\n    end\n  end.")


RHS = ("@cached_property\ndef rhs(self):\n    rhs = defaultdict(list)\n    for r in self:\n        rhs[r.head].append(r)\n    return rhs")


def main(write=True):
    tc = ast.parse(open(SRC_CFG).read())
    tl = ast.parse(open(SRC_LM).read())
    for name, want in PRIMS.items():
        got = norm_src(find(tc, name, "CFG"))
        if got != want:
            raise Refuse(f"primitive {name} changed:\n{got}")
    got = norm_src(find(tc, "rhs", "CFG"))
    if got != RHS:
        raise Refuse(f"primitive rhs changed:\n{got}")
    out = ["(* GENERATED by tools/translate_cfg.py -- do not edit.\n   cfg.py sha256=" + sha256_file(SRC_CFG) + "\n   cfglm.py sha256=" + sha256_file(SRC_LM) + " *)",
           "From Coq Require Import List Arith Bool.", "From GV.lib Require Import Semiring BigSum.", "From GV.model Require Import Cfg.",
           "Import ListNotations.", "Local Open Scope sr_scope.", "", "Section GEN_CFG.", "Variable S : SR.", ""]
    out.append(tr_rename(find(tc, "rename", "CFG")))
    out.append(tr_trim(find(tc, "_trim", "CFG")))
    out.append(tr_separate_start(find(tc, "separate_start", "CFG")))
    out.append(tr_unfold(find(tc, "unfold", "CFG")))
    out.append(tr_add_eos(find(tl, "add_EOS")))
    out += ["", "End GEN_CFG."]
    text = "\n".join(out) + "\n"
    if write:
        old = open(OUT).read() if os.path.exists(OUT) else None
        if old != text:
            open(OUT, "w").write(text)
    return {"sources": [SRC_CFG, SRC_LM], "sha256": [sha256_file(SRC_CFG), sha256_file(SRC_LM)],
            "fragments": ["rename", "_trim", "separate_start", "unfold", "add_EOS"] + sorted(PRIMS) + ["rhs"], "out": OUT}


if __name__ == "__main__":
    print(main())
