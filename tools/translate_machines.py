"""Fail-closed translator for the literal machine builders:
   cfg.py: prefix_transducer, CFG.truncate_length (its automaton)
   fst.py: epsilon_filter_fst
-> coq/gen/Gen_Machines.v  (functions from the alphabet, a list of nat, to machines)."""
import ast
import os

from common import REPO, COQ, sha256_file

OUT = os.path.join(COQ, "gen", "Gen_Machines.v")


class Refuse(Exception):
    pass


class B:
    """translates one builder function body"""

    def __init__(self, machine_var, alphabet_exprs, kind, one_exprs, range_var=None):
        self.m = machine_var
        self.alpha = alphabet_exprs  # source expressions denoting the alphabet -> 'V'
        self.kind = kind  # 'fst' | 'wfsa'
        self.one = one_exprs
        self.range_var = range_var
        self.vars = set()

    def src(self, n):
        return ast.unparse(n)

    def state(self, n):
        if isinstance(n, ast.Constant) and isinstance(n.value, int) and 0 <= n.value < 100:
            return f"{n.value}%nat"
        if isinstance(n, ast.Name) and n.id in self.vars:
            return n.id
        if isinstance(n, ast.BinOp) and isinstance(n.op, ast.Add):
            return f"({self.state(n.left)} + {self.state(n.right)})%nat"
        raise Refuse(f"state expression {self.src(n)}")

    def sym(self, n):
        if isinstance(n, ast.Name):
            if n.id in self.vars:
                return f"(Some {n.id})"
            if n.id in ("EPSILON", "ε"):
                return "None"
            if n.id == "ε_1":
                return "(Some e1)"
            if n.id == "ε_2":
                return "(Some e2)"
        raise Refuse(f"symbol {self.src(n)}")

    def weight(self, n):
        if self.src(n) in self.one:
            return "1"
        raise Refuse(f"weight {self.src(n)}")

    def call(self, c, kind):
        """returns entry string if call is m.<kind>(...) else None"""
        if not (isinstance(c, ast.Call) and isinstance(c.func, ast.Attribute) and isinstance(c.func.value, ast.Name) and c.func.value.id == self.m):
            raise Refuse(f"statement {self.src(c)}")
        f = c.func.attr
        if c.keywords:
            raise Refuse("kwargs")
        if f not in ("add_I", "add_F", "add_arc"):
            raise Refuse(f"method {f}")
        if f != kind:
            return None
        if f in ("add_I", "add_F"):
            q, w = c.args
            return f"({self.state(q)}, {self.weight(w)})"
        i, lab, j, w = c.args
        if self.kind == "fst":
            if not (isinstance(lab, ast.Tuple) and len(lab.elts) == 2):
                raise Refuse("fst label")
            return f"({self.state(i)}, {self.sym(lab.elts[0])}, {self.sym(lab.elts[1])}, {self.state(j)}, {self.weight(w)})"
        return f"({self.state(i)}, {self.sym(lab)}, {self.state(j)}, {self.weight(w)})"

    def emit(self, stmts, kind):
        parts = []
        for s in stmts:
            if isinstance(s, ast.Expr) and isinstance(s.value, ast.Constant):
                continue
            if isinstance(s, ast.Expr):
                e = self.call(s.value, kind)
                if e is not None:
                    parts.append(f"[{e}]")
            elif isinstance(s, ast.For):
                if not isinstance(s.target, ast.Name) or s.orelse:
                    raise Refuse("for target")
                it = self.src(s.iter)
                if it in self.alpha:
                    dom = "V"
                elif self.range_var and it == f"range({self.range_var})":
                    dom = f"(seq O {self.range_var})"
                else:
                    raise Refuse(f"iteration domain {it}")
                self.vars.add(s.target.id)
                body = self.emit(s.body, kind)
                parts.append(f"(flat_map (fun {s.target.id} => {body}) {dom})")
            else:
                raise Refuse(f"statement {type(s).__name__}: {self.src(s)}")
        return " ++ ".join(parts) if parts else "[]"


def find_func(tree, name, cls=None):
    body = tree.body
    if cls:
        for n in body:
            if isinstance(n, ast.ClassDef) and n.name == cls:
                body = n.body
    for n in body:
        if isinstance(n, ast.FunctionDef) and n.name == name:
            return n
    raise Refuse(f"function {name} not found")


def strip(fn, machine_var, ctor_srcs, ret_srcs, allow_imports=False):
    """check the frame of a builder: doc, [imports], m = Ctor(..), body, return"""
    stmts = list(fn.body)
    if stmts and isinstance(stmts[0], ast.Expr) and isinstance(stmts[0].value, ast.Constant):
        stmts = stmts[1:]
    if allow_imports:
        stmts = [s for s in stmts if not isinstance(s, ast.ImportFrom)]
    first, last = stmts[0], stmts[-1]
    if not (isinstance(first, ast.Assign) and len(first.targets) == 1 and isinstance(first.targets[0], ast.Name) and first.targets[0].id == machine_var and ast.unparse(first.value) in ctor_srcs):
        raise Refuse(f"constructor line: {ast.unparse(first)}")
    if not (isinstance(last, ast.Return) and ast.unparse(last.value) in ret_srcs):
        raise Refuse(f"return line: {ast.unparse(last)}")
    return stmts[1:-1]


def main(write=True):
    cfg_src = os.path.join(REPO, "genlm", "grammar", "cfg.py")
    fst_src = os.path.join(REPO, "genlm", "grammar", "fst.py")
    cfg_t = ast.parse(open(cfg_src).read())
    fst_t = ast.parse(open(fst_src).read())
    out = [f"(* GENERATED by tools/translate_machines.py -- do not edit.\n   cfg.py sha256={sha256_file(cfg_src)}\n   fst.py sha256={sha256_file(fst_src)} *)",
           "From Coq Require Import List Arith.",
           "From GV.lib Require Import Semiring.",
           "From GV.model Require Import Wfsa Fst.",
           "Import ListNotations.",
           "Local Open Scope sr_scope.",
           "Section Machines.",
           "Variable S : SR.",
           "Variables e1 e2 : nat.  (* the reserved symbols eps_1, eps_2 *)"]
    info = {}
    # prefix_transducer(R, V)
    fn = find_func(cfg_t, "prefix_transducer")
    if [a.arg for a in fn.args.args] != ["R", "V"]:
        raise Refuse("prefix_transducer signature")
    b = B("P", {"V"}, "fst", {"R.one"})
    body = strip(fn, "P", {"FST(R)"}, {"P"})
    out.append(f"Definition prefix_transducer (V : list nat) : fst_t S :=\n  mkT ({b.emit(body, 'add_I')})\n      ({b.emit(body, 'add_F')})\n      ({b.emit(body, 'add_arc')}).")
    info["prefix_transducer"] = (fn.lineno, fn.end_lineno)
    # epsilon_filter_fst(R, Sigma)
    fn = find_func(fst_t, "epsilon_filter_fst")
    if [a.arg for a in fn.args.args] != ["R", "Sigma"]:
        raise Refuse("epsilon_filter_fst signature")
    b = B("F", {"Sigma"}, "fst", {"R.one"})
    body = strip(fn, "F", {"FST(R)"}, {"F"})
    out.append(f"Definition epsilon_filter (V : list nat) : fst_t S :=\n  mkT ({b.emit(body, 'add_I')})\n      ({b.emit(body, 'add_F')})\n      ({b.emit(body, 'add_arc')}).")
    info["epsilon_filter_fst"] = (fn.lineno, fn.end_lineno)
    # CFG.truncate_length(self, max_length)
    fn = find_func(cfg_t, "truncate_length", cls="CFG")
    if [a.arg for a in fn.args.args] != ["self", "max_length"]:
        raise Refuse("truncate_length signature")
    b = B("m", {"self.V"}, "wfsa", {"self.R.one"}, range_var="max_length")
    body = strip(fn, "m", {"WFSA(self.R)"}, {"self @ m"}, allow_imports=True)
    out.append(f"Definition truncate_machine (V : list nat) (max_length : nat) : wfsa S :=\n  mkW ({b.emit(body, 'add_I')})\n      ({b.emit(body, 'add_F')})\n      ({b.emit(body, 'add_arc')}).")
    info["truncate_length"] = (fn.lineno, fn.end_lineno)
    out.append("End Machines.")
    out.append("Arguments prefix_transducer {S} V. Arguments epsilon_filter {S} e1 e2 V. Arguments truncate_machine {S} V max_length.")
    text = "\n".join(out) + "\n"
    if write:
        old = open(OUT).read() if os.path.exists(OUT) else None
        if old != text:
            open(OUT, "w").write(text)
    return {"sources": [cfg_src, fst_src], "sha256": [sha256_file(cfg_src), sha256_file(fst_src)], "functions": info, "out": OUT}


if __name__ == "__main__":
    print(main())
