"""Fail-closed translator for the arithmetic of genlm/grammar/linear.py:
   WeightedGraph._closure   : the elimination update, the pivot star, the reflexive step, the |N| = 1 shortcut
   solve_left / solve_right : the `enter` accumulation and the block completion, and the block order
-> coq/gen/Gen_Linear.v.

The loop frames (which nodes are iterated in which nesting, the swap of old/new, the order in which blocks are visited)
are compared with their expected source text; the weight expressions inside are translated term by term, keeping the
ORDER of the factors (the closure is used over non-commutative weights too)."""
import ast
import os

from common import REPO, COQ, sha256_file

OUT = os.path.join(COQ, "gen", "Gen_Linear.v")
SRC = os.path.join(REPO, "genlm", "grammar", "linear.py")


class Refuse(Exception):
    pass


def strip_doc(body):
    if body and isinstance(body[0], ast.Expr) and isinstance(body[0].value, ast.Constant) and isinstance(body[0].value.value, str):
        return body[1:]
    return body


def expr(n, names):
    s = ast.unparse(n)
    if s in names:
        return names[s]
    if isinstance(n, ast.BinOp) and isinstance(n.op, ast.Add):
        return f"({expr(n.left, names)} + {expr(n.right, names)})"
    if isinstance(n, ast.BinOp) and isinstance(n.op, ast.Mult):
        return f"({expr(n.left, names)} * {expr(n.right, names)})"
    raise Refuse(f"expression {s}")


def find(cls, name):
    for n in cls.body:
        if isinstance(n, ast.FunctionDef) and n.name == name:
            return n
    raise Refuse(f"{name} not found")


def want(stmt, text, what):
    got = ast.unparse(stmt)
    if got != text:
        raise Refuse(f"{what}: expected `{text}`, found `{got[:120]}`")


def tr_closure(fn):
    b = strip_doc(fn.body)
    if len(b) != 7:
        raise Refuse("_closure frame (statement count)")
    want(b[0], "if len(N) == 1:\n    [i] = N\n    return {(i, i): self.WeightType.star(self.E[i, i])}", "_closure shortcut")
    want(b[1], "A = self.E", "_closure")
    want(b[2], "old = A.copy()", "_closure")
    want(b[3], "new = self.WeightType.chart()", "_closure")
    loop = b[4]
    if not (isinstance(loop, ast.For) and ast.unparse(loop.target) == "j" and ast.unparse(loop.iter) == "N" and len(loop.body) == 4):
        raise Refuse("_closure pivot loop")
    want(loop.body[0], "new.clear()", "_closure pivot loop")
    want(loop.body[1], "sjj = self.WeightType.star(old[j, j])", "_closure pivot star")
    li = loop.body[2]
    if not (isinstance(li, ast.For) and ast.unparse(li.target) == "i" and ast.unparse(li.iter) == "N" and len(li.body) == 1):
        raise Refuse("_closure i loop")
    lk = li.body[0]
    if not (isinstance(lk, ast.For) and ast.unparse(lk.target) == "k" and ast.unparse(lk.iter) == "N" and len(lk.body) == 1):
        raise Refuse("_closure k loop")
    upd = lk.body[0]
    if not (isinstance(upd, ast.Assign) and ast.unparse(upd.targets[0]) == "new[i, k]"):
        raise Refuse("_closure update target")
    e = expr(upd.value, {"old[i, k]": "oik", "old[i, j]": "oij", "old[j, k]": "ojk", "sjj": "sjj"})
    want(loop.body[3], "old, new = (new, old)", "_closure swap")
    refl = b[5]
    if not (isinstance(refl, ast.For) and ast.unparse(refl.target) == "i" and ast.unparse(refl.iter) == "N" and len(refl.body) == 1
            and isinstance(refl.body[0], ast.AugAssign) and isinstance(refl.body[0].op, ast.Add) and ast.unparse(refl.body[0].target) == "old[i, i]"):
        raise Refuse("_closure reflexive step")
    r = expr(refl.body[0].value, {"self.WeightType.one": "1"})
    want(b[6], "return old", "_closure")
    return (f"Definition gen_elim_upd (oik oij sjj ojk : S) : S := {e}.\n"
            f"Definition gen_refl_upd (oii : S) : S := (oii + {r}).")


def tr_solver(fn, side):
    b = strip_doc(fn.body)
    if len(b) != 3:
        raise Refuse(f"{fn.name} frame")
    want(b[0], "sol = self.WeightType.chart()", fn.name)
    want(b[2], "return sol", fn.name)
    loop = b[1]
    it = "self.Blocks" if side == "left" else "reversed(self.Blocks)"
    if not (isinstance(loop, ast.For) and ast.unparse(loop.target) == "(block, B)" and ast.unparse(loop.iter) == it and len(loop.body) == 3):
        raise Refuse(f"{fn.name} block loop / order")
    want(loop.body[0], "enter = self.WeightType.chart()", fn.name)
    lj = loop.body[1]
    inner_var, inner_it = ("i", "self.incoming[j]") if side == "left" else ("k", "self.outgoing[j]")
    if not (isinstance(lj, ast.For) and ast.unparse(lj.target) == "j" and ast.unparse(lj.iter) == "block" and len(lj.body) == 2):
        raise Refuse(f"{fn.name} enter loop")
    want(lj.body[0], "enter[j] += b[j]", fn.name)
    inner = lj.body[1]
    if not (isinstance(inner, ast.For) and ast.unparse(inner.target) == inner_var and ast.unparse(inner.iter) == inner_it and len(inner.body) == 1
            and isinstance(inner.body[0], ast.AugAssign) and isinstance(inner.body[0].op, ast.Add) and ast.unparse(inner.body[0].target) == "enter[j]"):
        raise Refuse(f"{fn.name} enter accumulation")
    names = {"sol[i]": "soli", "self.E[i, j]": "eij"} if side == "left" else {"self.E[j, k]": "ejk", "sol[k]": "solk"}
    ent = expr(inner.body[0].value, names)
    comp = loop.body[2]
    tgt, pat = ("sol[k]", "(j, k)") if side == "left" else ("sol[i]", "(i, j)")
    if not (isinstance(comp, ast.For) and ast.unparse(comp.target) == pat and ast.unparse(comp.iter) == "B" and len(comp.body) == 1
            and isinstance(comp.body[0], ast.AugAssign) and isinstance(comp.body[0].op, ast.Add) and ast.unparse(comp.body[0].target) == tgt):
        raise Refuse(f"{fn.name} completion loop")
    names = {"enter[j]": "enterj", "B[j, k]": "bjk"} if side == "left" else {"B[i, j]": "bij", "enter[j]": "enterj"}
    c = expr(comp.body[0].value, names)
    if side == "left":
        return (f"Definition gen_left_enter (soli eij : S) : S := {ent}.\nDefinition gen_left_complete (enterj bjk : S) : S := {c}.")
    return (f"Definition gen_right_enter (ejk solk : S) : S := {ent}.\nDefinition gen_right_complete (bij enterj : S) : S := {c}.")


def main(write=True):
    tree = ast.parse(open(SRC).read())
    cls = next(n for n in tree.body if isinstance(n, ast.ClassDef) and n.name == "WeightedGraph")
    out = ["(* GENERATED by tools/translate_linear.py -- do not edit.\n   linear.py sha256=" + sha256_file(SRC) + " *)",
           "From GV.lib Require Import Semiring.", "Local Open Scope sr_scope.", "", "Section GEN_LINEAR.", "Variable S : SR.", "",
           tr_closure(find(cls, "_closure")), tr_solver(find(cls, "solve_left"), "left"), tr_solver(find(cls, "solve_right"), "right"),
           "", "End GEN_LINEAR."]
    blocks = find(cls, "Blocks")
    want(strip_doc(blocks.body)[0], "return [(block, self._closure(self.E, block)) for block in self.blocks]", "Blocks")
    text = "\n".join(out) + "\n"
    if write:
        old = open(OUT).read() if os.path.exists(OUT) else None
        if old != text:
            open(OUT, "w").write(text)
    return {"sources": [SRC], "sha256": [sha256_file(SRC)], "fragments": ["_closure", "solve_left", "solve_right", "Blocks"], "out": OUT, "text": text}


if __name__ == "__main__":
    print(main(write=False)["text"])
