(* WFSA.to_bytes: every arc labelled by a symbol a is replaced by a chain of arcs spelling the
   code word enc a (its UTF-8 bytes), through fresh intermediate states that belong to that arc
   alone; the weight sits on the last arc.  Definitions only. *)
From Coq Require Import List Arith Bool Lia.
From GV.lib Require Import Semiring BigSum.
From GV.model Require Import Wfsa.
Import ListNotations.
Local Open Scope sr_scope.

Section BYTES.
Variable S : SR.
Variable enc : nat -> list nat.              (* code word of a symbol (non-empty) *)
Variable fresh : nat -> nat -> nat.          (* fresh k i: i-th chain state of the k-th arc *)

(* chain from state p through the bytes bs to state q, weight w on the last arc; k = arc index, i = next fresh index *)
Fixpoint chain (k i : nat) (p : nat) (bs : list nat) (q : nat) (w : S) : list (arc S) :=
  match bs with
  | [] => []
  | [b] => [(p, Some b, q, w)]
  | b :: rest => (p, Some b, fresh k i, 1) :: chain k (Datatypes.S i) (fresh k i) rest q w
  end.

Definition expand_arc (k : nat) (ar : arc S) : list (arc S) :=
  match albl ar with
  | None => [ar]
  | Some a => chain k O (asrc ar) (enc a) (adst ar) (awt ar)
  end.

Definition to_bytes (m : wfsa S) : wfsa S :=
  mkW (winit m) (wfinal m)
      (flat_map (fun ka => expand_arc (fst ka) (snd ka)) (combine (seq O (length (warcs m))) (warcs m))).

(* all symbol strings over V whose encoding is exactly bs (finitely many: code words are non-empty) *)
Fixpoint strip (pre l : list nat) : option (list nat) :=
  match pre, l with
  | [], _ => Some l
  | a :: p, b :: t => if Nat.eqb a b then strip p t else None
  | _ :: _, [] => None
  end.
Fixpoint decodings (V : list nat) (fuel : nat) (bs : list nat) : list (list nat) :=
  match bs with
  | [] => [[]]
  | _ => match fuel with
         | O => []
         | Datatypes.S f =>
             flat_map (fun a => match enc a with
                                | [] => []
                                | c => match strip c bs with
                                       | Some rest => map (cons a) (decodings V f rest)
                                       | None => []
                                       end
                                end) V
         end
  end.
End BYTES.
Arguments chain {S} fresh k i p bs q w. Arguments expand_arc {S} enc fresh k ar. Arguments to_bytes {S} enc fresh m.
Arguments decodings enc V fuel bs. Arguments strip pre l.
