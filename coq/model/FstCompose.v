(* FST.__matmul__: composition through epsilon augmentation and the regenerated filter.
   Definitions only. *)
From Coq Require Import List Arith Bool Lia.
From GV.lib Require Import Semiring BigSum.
From GV.model Require Import Wfsa Fst.
From GV.gen Require Import Gen_Machines.
Import ListNotations.

Section FC.
Variable S : SR.
(* V: the (non-epsilon) symbols of the shared tape; e1 e2: reserved symbols for eps_1, eps_2;
   M: a bound on state names used to encode state pairs *)
Definition fcompose (V : list nat) (e1 e2 M : nat) (f g : fst_t S) : fst_t S :=
  compose_nf M (compose_nf M (augment0 e1 e2 f) (epsilon_filter e1 e2 V)) (augment1 e1 e2 g).
(* the other association order chosen when the first machine is not smaller *)
Definition fcompose' (V : list nat) (e1 e2 M : nat) (f g : fst_t S) : fst_t S :=
  compose_nf (M * M) (augment0 e1 e2 f) (compose_nf M (epsilon_filter e1 e2 V) (augment1 e1 e2 g)).

(* FST.from_string / diag of the string automaton *)
Definition fst_of_string (xs : list nat) : fst_t S :=
  mkT [(O, s1)] [(length xs, s1)]
      (map (fun ia => (fst ia, Some (snd ia), Some (snd ia), Datatypes.S (fst ia), s1)) (combine (seq O (length xs)) xs)).
End FC.
Arguments fcompose {S} V e1 e2 M f g. Arguments fcompose' {S} V e1 e2 M f g. Arguments fst_of_string {S} xs.
