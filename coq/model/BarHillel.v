(* The Bar-Hillel style product  CFG @ FST  for a LETTER-TO-LETTER transducer
   (every arc reads exactly one input symbol and writes exactly one output symbol).
   The nonterminals of the product are the triples (p, X, q) (p, q states, X a
   nonterminal of the grammar), the "terminal items" (p, a, q) (a a terminal of the
   grammar) and a fresh start symbol.  The model is parametric in the naming of the
   triples:  nt p X q,  tm p a q,  s'.
   Definitions only; proofs are in proofs/BarHillelProofs.v. *)
From Coq Require Import List Arith Bool Lia.
From GV.lib Require Import Semiring BigSum.
From GV.model Require Import Cfg.
Import ListNotations.
Local Open Scope sr_scope.

Section BarHillel.
Variable S : SR.

(* an arc  p -a:b-> q  with weight w  is  (p, a, b, q, w) *)
Definition larc := (nat * nat * nat * nat * S)%type.
Definition asrc (x : larc) : nat := fst (fst (fst (fst x))).
Definition ain (x : larc) : nat := snd (fst (fst (fst x))).
Definition aout (x : larc) : nat := snd (fst (fst x)).
Definition adst (x : larc) : nat := snd (fst x).
Definition awt (x : larc) : S := snd x.

(* ---- path weights of the transducer -------------------------------------- *)

(* Tw arcs p q xs ys: total weight of the paths from p to q that read xs and write ys *)
Fixpoint Tw (arcs : list larc) (p q : nat) (xs ys : list nat) {struct xs} : S :=
  match xs, ys with
  | [], [] => if Nat.eqb p q then 1 else 0
  | a :: xs', b :: ys' =>
      bsum arcs (fun x =>
        if Nat.eqb (asrc x) p && Nat.eqb (ain x) a && Nat.eqb (aout x) b
        then awt x * Tw arcs (adst x) q xs' ys' else 0)
  | _, _ => 0
  end.

(* weight of the pair (xs, ys) in the relation of the machine *)
Definition Mrel (init fin : list (nat * S)) (arcs : list larc) (xs ys : list nat) : S :=
  bsum init (fun i => bsum fin (fun k => snd i * snd k * Tw arcs (fst i) (fst k) xs ys)).

(* ---- the product grammar ------------------------------------------------- *)

Variables (nt tm : nat -> nat -> nat -> nat) (s' : nat).

(* the symbol y of the grammar between the states p and r *)
Definition item (p : nat) (y : sym) (r : nat) : sym :=
  match y with T a => N (tm p a r) | N X => N (nt p X r) end.

(* all the ways of threading states through a body, starting at p:
   (end state, threaded body) *)
Fixpoint expand (states : list nat) (p : nat) (body : list sym) : list (nat * list sym) :=
  match body with
  | [] => [(p, [])]
  | y :: rest =>
      flat_map (fun r => map (fun e => (fst e, item p y r :: snd e)) (expand states r rest)) states
  end.

(* (p0, X, pn) -> (p0, Y1, p1) ... (p_{n-1}, Yn, pn)   for every rule X -> Y1 ... Yn *)
Definition bh_rules (states : list nat) (G : grammar S) : grammar S :=
  flat_map (fun r =>
    flat_map (fun p =>
      map (fun e => (rw r, nt p (rhead r) (fst e), snd e)) (expand states p (rbody r))) states) G.

(* (p, a, q) -> b   for every arc p -a:b-> q *)
Definition bh_arcs (arcs : list larc) : grammar S :=
  map (fun x => (awt x, tm (asrc x) (ain x) (adst x), [T (aout x)])) arcs.

(* S' -> (i, S, k)   for every initial state i and final state k *)
Definition bh_start (init fin : list (nat * S)) (start : nat) : grammar S :=
  flat_map (fun i => map (fun k => (snd i * snd k, s', [N (nt (fst i) start (fst k))])) fin) init.

Definition bar_hillel (states : list nat) (init fin : list (nat * S)) (arcs : list larc)
           (G : grammar S) (start : nat) : grammar S :=
  bh_start init fin start ++ bh_rules states G ++ bh_arcs arcs.

End BarHillel.

Arguments asrc {S} x. Arguments ain {S} x. Arguments aout {S} x. Arguments adst {S} x. Arguments awt {S} x.
Arguments Tw {S} arcs p q xs ys. Arguments Mrel {S} init fin arcs xs ys.
Arguments bh_rules {S} nt tm states G. Arguments bh_arcs {S} tm arcs.
Arguments bh_start {S} nt s' init fin start.
Arguments bar_hillel {S} nt tm s' states init fin arcs G start.
