(* Post-processing of a regex DFA into a locally normalised automaton
   (lark_interface.interegular_to_wfsa).  The regex -> DFA step is interegular's and is not modelled:
   the DFA is an input.  A symbol is a list of code points (case-insensitive expansion can produce
   multi-character symbols); only single-character symbols become arcs.  Definitions only. *)
From Coq Require Import List Arith Bool QArith Qcanon.
From GV.lib Require Import Semiring BigSum.
Import ListNotations.

Inductive cls := Explicit (syms : list (list nat)) | AnythingElse.

Record dfa := mkD {
  d_init : nat;
  d_finals : list nat;
  d_live : list nat;                                  (* states from which a final state is reachable *)
  d_map : list (nat * list (nat * nat));              (* state -> [(class, target)] *)
  d_classes : list (nat * cls);
  d_alphabet : list (list nat)                        (* every explicit symbol of the DFA's alphabet *)
}.

Definition memn (x : nat) (l : list nat) : bool := existsb (Nat.eqb x) l.
Definition sym_is (x : nat) (s : list nat) : bool := match s with [y] => Nat.eqb x y | _ => false end.

(* expand_alphabet: the "anything else" class stands for the character set minus the explicit symbols *)
Definition expand (charset : list nat) (D : dfa) (c : nat) : list (list nat) :=
  match find (fun e => Nat.eqb c (fst e)) (d_classes D) with
  | Some (_, Explicit l) => l
  | Some (_, AnythingElse) => map (fun x => [x]) (filter (fun x => negb (existsb (sym_is x) (d_alphabet D))) charset)
  | None => []
  end.

(* the labelled moves out of one state entry: single-character symbols into live states *)
Definition moves (charset : list nat) (D : dfa) (outs : list (nat * nat)) : list (nat * nat) :=
  flat_map (fun cj => if memn (snd cj) (d_live D)
                      then flat_map (fun s => match s with [x] => [(x, snd cj)] | _ => [] end) (expand charset D (fst cj))
                      else []) outs.

Definition fanout (charset : list nat) (D : dfa) (i : nat) (outs : list (nat * nat)) : nat :=
  length (moves charset D outs) + (if memn i (d_finals D) then 1 else 0).

Definition invK (k : nat) : Qc := Q2Qc (1 # Pos.of_nat k).

(* arcs (source, symbol, target, weight) and final weights of the result *)
Definition re_arcs (charset : list nat) (D : dfa) : list (nat * nat * nat * Qc) :=
  flat_map (fun e => let i := fst e in let K := fanout charset D i (snd e) in
                     if Nat.eqb K 0 then [] else map (fun xj => (i, fst xj, snd xj, invK K)) (moves charset D (snd e))) (d_map D).
Definition re_finals (charset : list nat) (D : dfa) : list (nat * Qc) :=
  flat_map (fun e => let i := fst e in let K := fanout charset D i (snd e) in
                     if Nat.eqb K 0 then [] else if memn i (d_finals D) then [(i, invK K)] else []) (d_map D).

(* outgoing + final mass of the entry for state i *)
Definition re_mass (charset : list nat) (D : dfa) (e : nat * list (nat * nat)) : Qc :=
  let K := fanout charset D (fst e) (snd e) in
  if Nat.eqb K 0 then 0%Qc
  else (bsum (S:=QcSR) (moves charset D (snd e)) (fun _ => invK K) + (if memn (fst e) (d_finals D) then invK K else 0))%Qc.
