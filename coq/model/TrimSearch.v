(* The two graph searches of WFSA.trim (wfsa/base.py: accessible, co_accessible, trim):
     accessible    = the states reached from the initial states along arcs (any label, epsilon included),
     co_accessible = accessible of the reversed machine,
     trim          = _trim(accessible & co_accessible).
   The worklist search is modelled as repeated passes over the arc list: a pass adds the target of every arc
   whose source is already in the set; S |arcs| passes suffice from the de-duplicated initial states, because
   each productive pass adds a new arc target.  Definitions only. *)
From Coq Require Import List Arith Bool.
From GV.lib Require Import Semiring BigSum.
From GV.model Require Import Wfsa TrimW.
Import ListNotations.

Section TRIMSEARCH.
Variable S : SR.

Definition add_if_new (R : list nat) (x : nat) : list nat := if inb x R then R else x :: R.
Definition acc_step (R : list nat) (ar : arc S) : list nat :=
  if inb (asrc ar) R then add_if_new R (adst ar) else R.
Definition acc_pass (m : wfsa S) (R : list nat) : list nat := fold_left acc_step (warcs m) R.
Fixpoint acc_iter (m : wfsa S) (fuel : nat) (R : list nat) : list nat :=
  match fuel with O => R | Datatypes.S f => acc_iter m f (acc_pass m R) end.
Definition accessible (m : wfsa S) : list nat :=
  acc_iter m (Datatypes.S (length (warcs m))) (fold_left add_if_new (map fst (winit m)) []).
Definition coaccessible (m : wfsa S) : list nat := accessible (wreverse m).
Definition active (m : wfsa S) : list nat := filter (fun q => inb q (coaccessible m)) (accessible m).
Definition trim_model (m : wfsa S) : wfsa S := wtrim (active m) m.

End TRIMSEARCH.
Arguments acc_step {S} R ar. Arguments acc_pass {S} m R. Arguments acc_iter {S} m fuel R.
Arguments accessible {S} m. Arguments coaccessible {S} m. Arguments active {S} m. Arguments trim_model {S} m.

(* two state lists denote the same set (the correspondence compares the states of the implementation's trim with [active]) *)
Definition same_states (a b : list nat) : bool := forallb (fun x => inb x b) a && forallb (fun x => inb x a) b.
