(* Weighted finite automata (genlm/grammar/wfsa/base.py): forward evaluation,
   declarative path sums, epsilon removal, rational operations.  Definitions only.
   States and symbols are natural numbers; label None is EPSILON. *)
From Coq Require Import List Arith Bool Lia.
From GV.lib Require Import Semiring BigSum.
From GV.model Require Import Linear.
Import ListNotations.
Local Open Scope sr_scope.

Section WFSA.
Variable S : SR.

Definition arc := (nat * option nat * nat * S)%type.
Definition asrc (a : arc) : nat := fst (fst (fst a)).
Definition albl (a : arc) : option nat := snd (fst (fst a)).
Definition adst (a : arc) : nat := snd (fst a).
Definition awt (a : arc) : S := snd a.

Record wfsa := mkW { winit : list (nat * S); wfinal : list (nat * S); warcs : list arc }.

Definition lbl_eqb (l : option nat) (a : nat) : bool := match l with Some b => Nat.eqb a b | None => false end.
Definition is_eps (l : option nat) : bool := match l with None => true | Some _ => false end.

(* sparse vectors with accumulation: a key may occur several times, its value is the sum *)
Definition wvec := list (nat * S).
Definition wget (v : wvec) (q : nat) : S := bsum v (fun e => if Nat.eqb q (fst e) then snd e else 0).

(* one step of the loop in WFSA.__call__ (on an epsilon-free machine) *)
Definition fstep (m : wfsa) (v : wvec) (a : nat) : wvec :=
  flat_map (fun ar => if lbl_eqb (albl ar) a then [(adst ar, wget v (asrc ar) * awt ar)] else []) (warcs m).

Definition fwd (m : wfsa) (xs : list nat) : wvec := fold_left (fstep m) xs (winit m).

Definition weight (m : wfsa) (xs : list nat) : S :=
  bsum (wfinal m) (fun e => wget (fwd m xs) (fst e) * snd e).

(* declarative semantics of an epsilon-free machine: total weight of all arc
   sequences from state q that spell xs and end in a final state *)
Fixpoint pw (m : wfsa) (q : nat) (xs : list nat) : S :=
  match xs with
  | [] => wget (wfinal m) q
  | a :: xs' => bsum (warcs m) (fun ar => if Nat.eqb (asrc ar) q && lbl_eqb (albl ar) a then awt ar * pw m (adst ar) xs' else 0)
  end.
Definition pathsum (m : wfsa) (xs : list nat) : S := bsum (winit m) (fun e => snd e * pw m (fst e) xs).

(* explicit accepting paths: (initial entry, arcs, final entry) *)
Fixpoint paths_from (m : wfsa) (q : nat) (xs : list nat) : list (list arc * (nat * S)) :=
  match xs with
  | [] => map (fun f => ([], f)) (filter (fun f => Nat.eqb q (fst f)) (wfinal m))
  | a :: xs' => flat_map (fun ar => if Nat.eqb (asrc ar) q && lbl_eqb (albl ar) a
                                    then map (fun p => (ar :: fst p, snd p)) (paths_from m (adst ar) xs') else []) (warcs m)
  end.
Definition path_weight (p : list arc * (nat * S)) : S := sprod (map awt (fst p)) * snd (snd p).
Definition apaths (m : wfsa) (xs : list nat) : list ((nat * S) * (list arc * (nat * S))) :=
  flat_map (fun i => map (fun p => (i, p)) (paths_from m (fst i) xs)) (winit m).
Definition apath_weight (p : (nat * S) * (list arc * (nat * S))) : S := snd (fst p) * path_weight (snd p).

Definition eps_free (m : wfsa) : Prop := forall ar, In ar (warcs m) -> albl ar <> None.

(* ---- rational operations (states of the operands are kept apart by parity) ---- *)
Definition tagL (q : nat) : nat := 2 * q.
Definition tagR (q : nat) : nat := 2 * q + 1.
Definition rename (f : nat -> nat) (m : wfsa) : wfsa :=
  mkW (map (fun e => (f (fst e), snd e)) (winit m))
      (map (fun e => (f (fst e), snd e)) (wfinal m))
      (map (fun ar => (f (asrc ar), albl ar, f (adst ar), awt ar)) (warcs m)).

Definition wunion (a b : wfsa) : wfsa :=
  let a' := rename tagL a in let b' := rename tagR b in
  mkW (winit a' ++ winit b') (wfinal a' ++ wfinal b') (warcs a' ++ warcs b').

Definition wconcat (a b : wfsa) : wfsa :=
  let a' := rename tagL a in let b' := rename tagR b in
  mkW (winit a') (wfinal b')
      (warcs a' ++ warcs b' ++
       flat_map (fun f => map (fun i => (fst f, None, fst i, snd f * snd i)) (winit b')) (wfinal a')).

Definition wplus (a : wfsa) : wfsa :=
  mkW (winit a) (wfinal a)
      (warcs a ++ flat_map (fun f => map (fun i => (fst f, None, fst i, snd f * snd i)) (winit a)) (wfinal a)).

Definition wlift (x : option nat) (w : S) : wfsa := mkW [(O, 1)] [(1%nat, 1)] [(O, x, 1%nat, w)].
Definition wone : wfsa := wlift None 1.
Definition wzero : wfsa := mkW [] [] [].
Definition wstar (a : wfsa) : wfsa := wunion wone (wplus a).

Definition wreverse (m : wfsa) : wfsa :=
  mkW (wfinal m) (winit m) (map (fun ar => (adst ar, albl ar, asrc ar, awt ar)) (warcs m)).

End WFSA.

Arguments asrc {S} a. Arguments albl {S} a. Arguments adst {S} a. Arguments awt {S} a.
Arguments winit {S} w. Arguments wfinal {S} w. Arguments warcs {S} w. Arguments mkW {S} _ _ _.
Arguments wget {S} v q. Arguments fstep {S} m v a. Arguments fwd {S} m xs. Arguments weight {S} m xs.
Arguments pw {S} m q xs. Arguments pathsum {S} m xs. Arguments paths_from {S} m q xs.
Arguments path_weight {S} p. Arguments apaths {S} m xs. Arguments apath_weight {S} p.
Arguments eps_free {S} m. Arguments rename {S} f m. Arguments wunion {S} a b. Arguments wconcat {S} a b.
Arguments wplus {S} a. Arguments wlift {S} x w. Arguments wone {S}. Arguments wzero {S}. Arguments wstar {S} a.
Arguments wreverse {S} m.

(* ---- epsilon removal over a star semiring -------------------------------- *)
Section EPS.
Variable S : StarSR.

Definition states_of (m : wfsa S) : list nat :=
  nodup Nat.eq_dec (map fst (winit m) ++ map fst (wfinal m) ++ flat_map (fun ar => [asrc ar; adst ar]) (warcs m)).

(* the epsilon graph E[i,j] += w *)
Definition eps_mat (m : wfsa S) : mat S :=
  tabulate (states_of m) (fun i j => bsum (warcs m) (fun ar => if is_eps (albl ar) && Nat.eqb (asrc ar) i && Nat.eqb (adst ar) j then awt ar else 0)).

(* WFSA.epsremove with a given closure table K of the epsilon graph *)
Definition epsremove_with (K : mat S) (m : wfsa S) : wfsa S :=
  let st := states_of m in
  mkW (flat_map (fun e => map (fun k => (k, snd e * mget K (fst e) k)) st) (winit m))
      (wfinal m)
      (flat_map (fun ar => if is_eps (albl ar) then [] else map (fun k => (asrc ar, albl ar, k, awt ar * mget K (adst ar) k)) st) (warcs m)).

Definition epsremove (m : wfsa S) : wfsa S := epsremove_with (lehmann (states_of m) (eps_mat m)) m.

(* m(xs) as WFSA.__call__ computes it *)
Definition call (m : wfsa S) (xs : list nat) : S := weight (epsremove m) xs.

End EPS.
Arguments states_of {S} m. Arguments eps_mat {S} m. Arguments epsremove_with {S} K m.
Arguments epsremove {S} m. Arguments call {S} m xs.
