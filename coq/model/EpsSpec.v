(* Specification vocabulary for epsilon removal: the "matrix form" alpha K A_x1 K ... K omega. *)
From Coq Require Import List Arith Bool Lia.
From GV.lib Require Import Semiring BigSum.
From GV.model Require Import Linear Wfsa WfsaEps.
Import ListNotations.
Local Open Scope sr_scope.

Section EPSSPEC.
Variable S : StarSR.

(* weight from q of spelling xs when a closure table K is applied first at q and after every arc *)
Fixpoint pwK (K : mat S) (st : list nat) (m : wfsa S) (q : nat) (xs : list nat) : S :=
  match xs with
  | [] => bsum st (fun k => mget K q k * wget (wfinal m) k)
  | a :: t => bsum st (fun k => mget K q k *
                bsum (warcs m) (fun ar => if Nat.eqb (asrc ar) k && lbl_eqb (albl ar) a then awt ar * pwK K st m (adst ar) t else 0))
  end.
Definition matrix_form (K : mat S) (st : list nat) (m : wfsa S) (xs : list nat) : S :=
  bsum (winit m) (fun e => snd e * pwK K st m (fst e) xs).

(* the epsilon graph as a function *)
Definition epsf (m : wfsa S) (i j : nat) : S :=
  bsum (warcs m) (fun ar => if is_eps (albl ar) && Nat.eqb (asrc ar) i && Nat.eqb (adst ar) j then awt ar else 0).

(* total weight: all labels ignored (WFSA.total_weight) = call of the all-epsilon copy on the empty string *)
Definition all_eps (m : wfsa S) : wfsa S :=
  mkW (winit m) (wfinal m) (map (fun ar => (asrc ar, None, adst ar, awt ar)) (warcs m)).
Definition total_weight (m : wfsa S) : S := call (all_eps m) [].
End EPSSPEC.
Arguments pwK {S} K st m q xs. Arguments matrix_form {S} K st m xs. Arguments epsf {S} m i j.
Arguments all_eps {S} m. Arguments total_weight {S} m.
