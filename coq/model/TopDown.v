(* Hand-written model of the top-down half of CFG.trim (cfg.py): the nonterminals reachable from the start symbol
   through rules all of whose body symbols are generating, and the trimmed grammar CFG._trim(T) built from them.
   (The code's set T also holds the reached terminals; a rule with a kept head and a generating body has all of its
   terminals in T, and a rule with a non-generating body symbol is dropped either way, so keeping every terminal
   selects the same rules.)  Tied to the code by the correspondence stream of C07 (rule lists compared, in order). *)
From Coq Require Import List Arith Bool.
From GV.lib Require Import Semiring BigSum.
From GV.model Require Import Cfg Transform.
From GV.gen Require Import Gen_Cfg.
Import ListNotations.

Section TOPDOWN.
Variable S : SR.

Definition body_nts (b : list sym) : list nat := flat_map (fun y => match y with N x => [x] | T _ => [] end) b.
Definition add_new (R : list nat) (xs : list nat) : list nat :=
  fold_left (fun R x => if existsb (Nat.eqb x) R then R else x :: R) xs R.
Definition reach_step (C : list nat) (R : list nat) (r : rule S) : list nat :=
  if existsb (Nat.eqb (rhead r)) R && forallb (gen_sym C) (rbody r) then add_new R (body_nts (rbody r)) else R.
Definition reach_pass (G : grammar S) (C R : list nat) : list nat := fold_left (reach_step C) G R.
Fixpoint reach_iter (G : grammar S) (C : list nat) (fuel : nat) (R : list nat) : list nat :=
  match fuel with O => R | Datatypes.S f => reach_iter G C f (reach_pass G C R) end.
(* a non-generating start symbol reaches nothing; |G| passes suffice: each productive pass adds a head *)
Definition reachable (G : grammar S) (s : nat) : list nat :=
  let C := generating G in
  if existsb (Nat.eqb s) C then reach_iter G C (Datatypes.S (length G)) [s] else [].
Definition keep_nts (R : list nat) (y : sym) : bool := match y with T _ => true | N x => existsb (Nat.eqb x) R end.
Definition trim_model (s : nat) (G : grammar S) : grammar S := gen_trim S (keep_nts (reachable G s)) G.

End TOPDOWN.
Arguments reach_step {S} C R r. Arguments reach_pass {S} G C R. Arguments reach_iter {S} G C fuel R.
Arguments reachable {S} G s. Arguments trim_model {S} s G.

(* rule lists compared by head and body, in order (the correspondence compares shapes; weights are copied) *)
Definition shape_eqb {S : SR} (G1 G2 : grammar S) : bool :=
  list_eqb (fun r1 r2 => Nat.eqb (rhead r1) (rhead r2) && list_eqb sym_eqb (rbody r1) (rbody r2)) G1 G2.
