(* Prefix weights: total weight of the derivation trees (of bounded height) whose yield
   begins with a given string.  Reference semantics (Wpre), and an executable tabulation
   (spans, prefix items and totals iterated together).  Definitions only. *)
From Coq Require Import List Arith Bool Lia.
From GV.lib Require Import Semiring BigSum.
From GV.model Require Import Cfg Agenda MachSpec.
Import ListNotations.
Local Open Scope sr_scope.

Section PRE.
Variable S : SR.

(* total weight of a right-hand side under total weights Z of the nonterminals *)
Definition Zb (Z : nat -> S) (body : list sym) : S := sprod (map (sval Z) body).

(* splits (u, v) of p with v non-empty *)
Definition splits_ne {A} (l : list A) : list (list A * list A) :=
  filter (fun p => negb (Nat.eqb (length (snd p)) O)) (splits l).

(* weight of the forests for [body] whose yield begins with p.
   w  Y u : weight of Y deriving exactly u          (W G h)
   wp Y p : weight of Y deriving something that begins with p   (Wpre G h)
   Z  Y   : total weight of Y                        (bu_iter G h)
   For a nonterminal Y followed by rest: either Y's whole yield u is a proper prefix of p and
   rest continues with the remainder, or p is a prefix of Y's yield and rest is arbitrary. *)
Fixpoint WBpre (w : nat -> list nat -> S) (wp : nat -> list nat -> S) (Z : nat -> S)
         (body : list sym) (p : list nat) : S :=
  match body with
  | [] => match p with [] => 1 | _ => 0 end
  | T a :: rest => match p with
                   | [] => Zb Z rest
                   | b :: p' => if Nat.eqb a b then WBpre w wp Z rest p' else 0
                   end
  | N Y :: rest => bsum (splits_ne p) (fun uv => w Y (fst uv) * WBpre w wp Z rest (snd uv))
                   + wp Y p * Zb Z rest
  end.

Fixpoint Wpre (G : grammar S) (h : nat) (X : nat) (p : list nat) : S :=
  match h with
  | O => 0
  | Datatypes.S h' =>
      bsum G (fun r => if Nat.eqb (rhead r) X
                       then rw r * WBpre (W G h') (Wpre G h') (bu_iter G h') (rbody r) p
                       else 0)
  end.

(* ---- executable tabulation: state = (span chart, prefix chart, totals) ---------- *)
Definition pchart := list ((nat * nat) * S).        (* (X, i) : X over a string beginning with xs[i..n) *)
Definition tchart := list (nat * S).
Definition pkeyeq (a b : nat * nat) : bool := Nat.eqb (fst a) (fst b) && Nat.eqb (snd a) (snd b).
Fixpoint pget (c : pchart) (k : nat * nat) : S :=
  match c with [] => 0 | (k', v) :: t => if pkeyeq k k' then v else pget t k end.
Fixpoint tget (c : tchart) (X : nat) : S :=
  match c with [] => 0 | (Y, v) :: t => if Nat.eqb X Y then v else tget t X end.

Definition zb_exec (tc : tchart) (body : list sym) : S := Zb (tget tc) body.

(* prefix weight of body over xs[i..n), n = length xs *)
Fixpoint body_pre (c : chart S) (pc : pchart) (tc : tchart) (xs : list nat) (body : list sym) (i : nat) {struct body} : S :=
  let n := length xs in
  match body with
  | [] => if Nat.eqb i n then 1 else 0
  | T a :: rest =>
      if Nat.eqb i n then zb_exec tc rest
      else match nth_error xs i with
           | Some b => if Nat.eqb a b then body_pre c pc tc xs rest (Datatypes.S i) else 0
           | None => 0
           end
  | N Y :: rest =>
      bsum (seq i (n - i)) (fun m => cget c (Y, i, m) * body_pre c pc tc xs rest m)
      + pget pc (Y, i) * zb_exec tc rest
  end.

Definition pstep (G : grammar S) (xs : list nat) (c : chart S) (pc : pchart) (tc : tchart) : pchart :=
  flat_map (fun X => map (fun i =>
     ((X, i), bsum G (fun r => if Nat.eqb (rhead r) X then rw r * body_pre c pc tc xs (rbody r) i else 0)))
     (seq O (Datatypes.S (length xs)))) (heads S G).

Definition tstep (G : grammar S) (tc : tchart) : tchart :=
  map (fun X => (X, bu_step G (tget tc) X)) (heads S G).

Definition pstate := (chart S * pchart * tchart)%type.
Definition pstep_all (G : grammar S) (xs : list nat) (st : pstate) : pstate :=
  match st with (c, pc, tc) => (cstep G xs c, pstep G xs c pc tc, tstep G tc) end.
Fixpoint piter (G : grammar S) (xs : list nat) (n : nat) (st : pstate) : pstate :=
  match n with O => st | Datatypes.S n' => piter G xs n' (pstep_all G xs st) end.

Definition pchart_eqb (a b : pchart) : bool :=
  Nat.eqb (length a) (length b) && forallb (fun e => pkeyeq (fst (fst e)) (fst (snd e)) && seqb (snd (fst e)) (snd (snd e))) (combine a b).
Definition tchart_eqb (a b : tchart) : bool :=
  Nat.eqb (length a) (length b) && forallb (fun e => Nat.eqb (fst (fst e)) (fst (snd e)) && seqb (snd (fst e)) (snd (snd e))) (combine a b).
Definition pstate_eqb (a b : pstate) : bool :=
  match a, b with (c, pc, tc), (c', pc', tc') => chart_eqb S c c' && pchart_eqb pc pc' && tchart_eqb tc tc' end.

Fixpoint pfix (G : grammar S) (xs : list nat) (fuel : nat) (st : pstate) : option pstate :=
  match fuel with
  | O => None
  | Datatypes.S f => let st' := pstep_all G xs st in if pstate_eqb st st' then Some st else pfix G xs f st'
  end.

(* prefix weight of xs from X when the joint iteration stabilises *)
Definition prefix_lang (G : grammar S) (fuel : nat) (X : nat) (xs : list nat) : option S :=
  match pfix G xs fuel ([], [], []) with
  | Some (c, pc, tc) => Some (pget pc (X, O))
  | None => None
  end.
Definition prefix_lang_h (G : grammar S) (h : nat) (X : nat) (xs : list nat) : S :=
  match piter G xs h ([], [], []) with (c, pc, tc) => pget pc (X, O) end.
Definition total_h (G : grammar S) (h : nat) (X : nat) : S :=
  match piter G [] h ([], [], []) with (c, pc, tc) => tget tc X end.
End PRE.

Arguments Zb {S} Z body. Arguments WBpre {S} w wp Z body p. Arguments Wpre {S} G h X p.
Arguments prefix_lang {S} G fuel X xs. Arguments prefix_lang_h {S} G h X xs. Arguments total_h {S} G h X.
Arguments piter {S} G xs n st. Arguments pstep_all {S} G xs st. Arguments pfix {S} G xs fuel st.
Arguments pget {S} c k. Arguments tget {S} c X. Arguments splits_ne {A} l.
