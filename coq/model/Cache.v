(* Memoised incremental parsing (Earley.chart / IncrementalCKY.chart / clear_cache) as a
   state machine over a cache from prefixes to charts.  Definitions only.
   A chart is a list of columns; the column for prefix p ++ [a] is a pure function
   [next] of the columns of p and the token a (next_column / extend_chart).
   Prefixes are kept REVERSED (last token first) so that x[:-1] is the tail. *)
From Coq Require Import List Arith Bool Lia.
Import ListNotations.

Section CACHE.
Variable col : Type.                       (* chart columns (immutable values) *)
Variable init : col.                       (* the initial column *)
Variable next : list col -> nat -> col.    (* new column from the previous columns and a token *)
Variable out : Type.
Variable answer : list col -> list nat -> out.   (* what a query reads off the chart of its prefix *)

(* pure specification: the chart of a (reversed) prefix *)
Fixpoint cols_r (r : list nat) : list col :=
  match r with
  | [] => [init]
  | a :: r' => let c := cols_r r' in c ++ [next c a]
  end.

Definition cache := list (list nat * list col).
Fixpoint lookup (m : cache) (r : list nat) : option (list col) :=
  match m with
  | [] => None
  | (k, c) :: t => if list_eq_dec Nat.eq_dec k r then Some c else lookup t r
  end.

(* Earley.chart / _compute_chart: memoised, recursive on x[:-1] *)
Fixpoint get_chart (m : cache) (r : list nat) : list col * cache :=
  match lookup m r with
  | Some c => (c, m)
  | None =>
      match r with
      | [] => ([init], ([], [init]) :: m)
      | a :: r' =>
          let (c, m') := get_chart m r' in
          let c' := c ++ [next c a] in
          (c', (r, c') :: m')
      end
  end.

Inductive op := Query (r : list nat) | Clear.

Definition step (m : cache) (o : op) : cache * option out :=
  match o with
  | Query r => let (c, m') := get_chart m r in (m', Some (answer c r))
  | Clear => ([], None)
  end.

(* run a history, collecting the answers *)
Fixpoint run (m : cache) (ops : list op) : cache * list (option out) :=
  match ops with
  | [] => (m, [])
  | o :: t => let (m', a) := step m o in let (m'', l) := run m' t in (m'', a :: l)
  end.

(* the answer a fresh object gives to a single operation *)
Definition fresh_answer (o : op) : option out :=
  match o with Query r => Some (answer (cols_r r) r) | Clear => None end.

Definition cache_ok (m : cache) : Prop := forall r c, lookup m r = Some c -> c = cols_r r.
End CACHE.
Arguments cols_r {col} init next r. Arguments lookup {col} m r. Arguments get_chart {col} init next m r.
Arguments Query r. Arguments Clear. Arguments step {col} init next {out} answer m o. Arguments run {col} init next {out} answer m ops.
Arguments fresh_answer {col} init next {out} answer o. Arguments cache_ok {col} init next m.
