(* Weight pushing, the weighted subset construction, and checkers for determinism,
   stochasticity and trimness (wfsa/base.py: push, determinize, trim).  Definitions only. *)
From Coq Require Import List Arith Bool Lia.
From GV.lib Require Import Semiring BigSum.
From GV.model Require Import Linear Wfsa.
Import ListNotations.
Local Open Scope sr_scope.

Section DET.
Variable F : FR.

(* ---- WFSA.push with a given vector V of backward weights: states with V = 0 are dropped *)
Definition push_with (V : nat -> F) (m : wfsa F) : wfsa F :=
  mkW (flat_map (fun e => if seqb (V (fst e)) 0 then [] else [(fst e, snd e * V (fst e))]) (winit m))
      (flat_map (fun e => if seqb (V (fst e)) 0 then [] else [(fst e, finv F (V (fst e)) * snd e)]) (wfinal m))
      (flat_map (fun ar => if seqb (V (asrc ar)) 0 then []
                           else [(asrc ar, albl ar, adst ar, finv F (V (asrc ar)) * awt ar * V (adst ar))]) (warcs m)).

(* V solves the backward equations: V[i] = stop[i] + sum over arcs i -> j of w * V[j] *)
Definition backward_eq (V : nat -> F) (m : wfsa F) : Prop :=
  forall i, V i = wget (wfinal m) i + bsum (warcs m) (fun ar => if Nat.eqb (asrc ar) i then awt ar * V (adst ar) else 0).

(* outgoing arc mass plus final mass of a state *)
Definition out_mass (m : wfsa F) (i : nat) : F :=
  wget (wfinal m) i + bsum (warcs m) (fun ar => if Nat.eqb (asrc ar) i then awt ar else 0).

(* ---- one step of the weighted subset construction (_powerarcs): Q is a residual vector *)
Definition det_R (m : wfsa F) (Q : wvec F) (a : nat) : wvec F :=
  flat_map (fun ar => if lbl_eqb (albl ar) a then [(adst ar, wget Q (asrc ar) * awt ar)] else []) (warcs m).
Definition vsum (v : wvec F) : F := bsum v snd.
Definition vscale (c : F) (v : wvec F) : wvec F := map (fun e => (fst e, c * snd e)) v.
(* (arc weight W, next residual R / W) *)
Definition det_step (m : wfsa F) (Q : wvec F) (a : nat) : F * wvec F :=
  let R := det_R m Q a in let W := vsum R in (W, vscale (finv F W) R).
(* read a string from residual Q: accumulated weight and final residual *)
Fixpoint det_run (m : wfsa F) (c : F) (Q : wvec F) (xs : list nat) : F * wvec F :=
  match xs with
  | [] => (c, Q)
  | a :: t => let (W, Q') := det_step m Q a in det_run m (c * W) Q' t
  end.
(* weight the determinised machine gives to xs: path weight times the final weight of the state *)
Definition det_value (m : wfsa F) (xs : list nat) : F :=
  let (c, Q) := det_run m 1 (winit m) xs in c * bsum (wfinal m) (fun e => wget Q (fst e) * snd e).
(* all the arc weights met along xs are non-zero (otherwise W ** -1 is undefined) *)
Fixpoint det_defined (m : wfsa F) (Q : wvec F) (xs : list nat) : Prop :=
  match xs with
  | [] => True
  | a :: t => let (W, Q') := det_step m Q a in W <> 0 /\ det_defined m Q' t
  end.
End DET.
Arguments push_with {F} V m. Arguments backward_eq {F} V m. Arguments out_mass {F} m i.
Arguments det_R {F} m Q a. Arguments vsum {F} v. Arguments vscale {F} c v. Arguments det_step {F} m Q a.
Arguments det_run {F} m c Q xs. Arguments det_value {F} m xs. Arguments det_defined {F} m Q xs.

(* ---- checkers over any semiring ---- *)
Section CHK.
Variable S : SR.
Definition memq (x : nat) (l : list nat) : bool := existsb (Nat.eqb x) l.
(* single initial entry, no epsilon arcs, at most one arc per (state, symbol) *)
Fixpoint no_dup_keys (l : list (nat * nat)) : bool :=
  match l with [] => true | (i, a) :: t => negb (existsb (fun e => Nat.eqb i (fst e) && Nat.eqb a (snd e)) t) && no_dup_keys t end.
Definition deterministic (m : wfsa S) : bool :=
  Nat.leb (length (nodup Nat.eq_dec (map fst (winit m)))) 1 &&
  forallb (fun ar => negb (is_eps (albl ar))) (warcs m) &&
  no_dup_keys (flat_map (fun ar => match albl ar with Some a => [(asrc ar, a)] | None => [] end) (warcs m)).

(* accessible / co-accessible states by iterated closure *)
Definition succs (m : wfsa S) (front : list nat) : list nat :=
  nodup Nat.eq_dec (flat_map (fun ar => if memq (asrc ar) front then [adst ar] else []) (warcs m)).
Definition preds (m : wfsa S) (front : list nat) : list nat :=
  nodup Nat.eq_dec (flat_map (fun ar => if memq (adst ar) front then [asrc ar] else []) (warcs m)).
Fixpoint grow (step : list nat -> list nat) (fuel : nat) (seen : list nat) : list nat :=
  match fuel with
  | O => seen
  | Datatypes.S f => let fresh := filter (fun x => negb (memq x seen)) (step seen) in
                     match fresh with [] => seen | _ => grow step f (fresh ++ seen) end
  end.
Definition accessible (m : wfsa S) : list nat := grow (succs m) (Datatypes.S (length (warcs m))) (nodup Nat.eq_dec (map fst (winit m))).
Definition coaccessible (m : wfsa S) : list nat := grow (preds m) (Datatypes.S (length (warcs m))) (nodup Nat.eq_dec (map fst (wfinal m))).
Definition all_states (m : wfsa S) : list nat :=
  nodup Nat.eq_dec (map fst (winit m) ++ map fst (wfinal m) ++ flat_map (fun ar => [asrc ar; adst ar]) (warcs m)).
(* every state lies on a path from an initial to a final state *)
Definition is_trim (m : wfsa S) : bool :=
  forallb (fun q => memq q (accessible m) && memq q (coaccessible m)) (all_states m).
End CHK.
Arguments deterministic {S} m. Arguments accessible {S} m. Arguments coaccessible {S} m. Arguments is_trim {S} m.
Arguments all_states {S} m. Arguments memq x l.
