(* Weighted transducers (genlm/grammar/fst.py): relational path-sum semantics
   and the product construction.  Definitions only.  Labels: None is EPSILON. *)
From Coq Require Import List Arith Bool Lia.
From GV.lib Require Import Semiring BigSum.
Import ListNotations.
Local Open Scope sr_scope.

Section FST.
Variable S : SR.

Definition tarc := (nat * option nat * option nat * nat * S)%type.
Definition tsrc (a : tarc) : nat := fst (fst (fst (fst a))).
Definition tin (a : tarc) : option nat := snd (fst (fst (fst a))).
Definition tout (a : tarc) : option nat := snd (fst (fst a)).
Definition tdst (a : tarc) : nat := snd (fst a).
Definition twt (a : tarc) : S := snd a.

Record fst_t := mkT { tinit : list (nat * S); tfinal : list (nat * S); tarcs : list tarc }.

Definition fget (v : list (nat * S)) (q : nat) : S := bsum v (fun e => if Nat.eqb q (fst e) then snd e else 0).

(* consume a label from a tape: None (epsilon) consumes nothing *)
Definition eat (l : option nat) (xs : list nat) : option (list nat) :=
  match l with
  | None => Some xs
  | Some a => match xs with b :: t => if Nat.eqb a b then Some t else None | [] => None end
  end.

(* total weight of the paths with at most [fuel] arcs from q that read xs, write ys
   and end in a final state *)
Fixpoint trelf (m : fst_t) (fuel : nat) (q : nat) (xs ys : list nat) : S :=
  (match xs, ys with [], [] => fget (tfinal m) q | _, _ => 0 end) +
  match fuel with
  | O => 0
  | Datatypes.S f =>
      bsum (tarcs m) (fun a =>
        if Nat.eqb (tsrc a) q then
          match eat (tin a) xs, eat (tout a) ys with
          | Some xs', Some ys' => twt a * trelf m f (tdst a) xs' ys'
          | _, _ => 0
          end
        else 0)
  end.

Definition trel (m : fst_t) (fuel : nat) (xs ys : list nat) : S :=
  bsum (tinit m) (fun e => snd e * trelf m fuel (fst e) xs ys).

(* product of a machine whose output tape has no epsilon with a machine whose
   input tape has no epsilon (FST._pruned_compose without pruning); all state pairs *)
Definition penc (M p q : nat) : nat := p * M + q.
Definition olbl_eqb (a b : option nat) : bool :=
  match a, b with Some x, Some y => Nat.eqb x y | _, _ => false end.

Definition compose_nf (M : nat) (a b : fst_t) : fst_t :=
  mkT (flat_map (fun i => map (fun j => (penc M (fst i) (fst j), snd i * snd j)) (tinit b)) (tinit a))
      (flat_map (fun i => map (fun j => (penc M (fst i) (fst j), snd i * snd j)) (tfinal b)) (tfinal a))
      (flat_map (fun x => flat_map (fun y =>
          if olbl_eqb (tout x) (tin y)
          then [(penc M (tsrc x) (tsrc y), tin x, tout y, penc M (tdst x) (tdst y), twt x * twt y)]
          else []) (tarcs b)) (tarcs a)).

Definition tstates (m : fst_t) : list nat :=
  nodup Nat.eq_dec (map fst (tinit m) ++ map fst (tfinal m) ++ flat_map (fun a => [tsrc a; tdst a]) (tarcs m)).

(* FST._augment_epsilon_transitions: e1, e2 are the reserved symbols for eps_1, eps_2 *)
Definition augment0 (e1 e2 : nat) (m : fst_t) : fst_t :=
  mkT (tinit m) (tfinal m)
      (map (fun q => (q, None, Some e1, q, 1)) (tstates m) ++
       map (fun a => match tout a with None => (tsrc a, tin a, Some e2, tdst a, twt a) | Some _ => a end) (tarcs m)).
Definition augment1 (e1 e2 : nat) (m : fst_t) : fst_t :=
  mkT (tinit m) (tfinal m)
      (map (fun q => (q, Some e2, None, q, 1)) (tstates m) ++
       map (fun a => match tin a with None => (tsrc a, Some e1, tout a, tdst a, twt a) | Some _ => a end) (tarcs m)).

Definition transpose (m : fst_t) : fst_t :=
  mkT (tinit m) (tfinal m) (map (fun a => (tsrc a, tout a, tin a, tdst a, twt a)) (tarcs m)).

End FST.

Arguments tsrc {S} a. Arguments tin {S} a. Arguments tout {S} a. Arguments tdst {S} a. Arguments twt {S} a.
Arguments mkT {S} _ _ _. Arguments tinit {S} f. Arguments tfinal {S} f. Arguments tarcs {S} f.
Arguments fget {S} v q. Arguments trelf {S} m fuel q xs ys. Arguments trel {S} m fuel xs ys.
Arguments compose_nf {S} M a b. Arguments tstates {S} m. Arguments augment0 {S} e1 e2 m. Arguments augment1 {S} e1 e2 m.
Arguments transpose {S} m.
