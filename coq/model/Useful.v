(* Checkers for trimming and unary-cycle freedom.  Definitions only. *)
From Coq Require Import List Arith Bool Lia.
From GV.lib Require Import Semiring BigSum.
From GV.model Require Import Cfg Transform.
Import ListNotations.

Section USE.
Variable S : SR.

Definition memb (x : nat) (l : list nat) : bool := existsb (Nat.eqb x) l.

(* symbols reachable from the start symbol through rules *)
Definition reach_pass (G : grammar S) (R : list nat) : list nat :=
  fold_left (fun R r => if memb (rhead r) R
                        then fold_left (fun R y => match y with N x => if memb x R then R else x :: R | T _ => R end) (rbody r) R
                        else R) G R.
Fixpoint reach_iter (G : grammar S) (fuel : nat) (R : list nat) : list nat :=
  match fuel with O => R | Datatypes.S f => reach_iter G f (reach_pass G R) end.
Definition nts_count (G : grammar S) : nat := length G + length (flat_map (fun r => rbody r) G).
Definition reachable (s : nat) (G : grammar S) : list nat := reach_iter G (Datatypes.S (nts_count G)) [s].

(* every symbol of every rule is reachable from s and generating *)
Definition all_useful (s : nat) (G : grammar S) : bool :=
  let C := generating G in let R := reachable s G in
  forallb (fun r => memb (rhead r) C && memb (rhead r) R &&
                    forallb (fun y => match y with T _ => true | N x => memb x C && memb x R end) (rbody r)) G.

(* unary graph: X -> Y for rules X -> Y; cyclic iff some X reaches itself in >= 1 steps *)
Definition unary_succ (G : grammar S) (X : nat) : list nat :=
  flat_map (fun r => match rbody r with [N y] => if Nat.eqb (rhead r) X then [y] else [] | _ => [] end) G.
Fixpoint reach_from (G : grammar S) (fuel : nat) (front seen : list nat) : list nat :=
  match fuel with
  | O => seen
  | Datatypes.S f =>
      let nxt := nodup Nat.eq_dec (flat_map (unary_succ G) front) in
      let fresh := filter (fun y => negb (memb y seen)) nxt in
      match fresh with [] => seen | _ => reach_from G f fresh (fresh ++ seen) end
  end.
Definition unary_cyclic (G : grammar S) : bool :=
  existsb (fun X => memb X (reach_from G (Datatypes.S (length G)) [X] [])) (nodup Nat.eq_dec (map rhead G)).
End USE.
Arguments reachable {S} s G. Arguments all_useful {S} s G. Arguments unary_cyclic {S} G.
Arguments unary_succ {S} G X. Arguments reach_from {S} G fuel front seen.
