(* Specification vocabulary for the regenerated machines (Gen_Machines.v). *)
From Coq Require Import List Arith Bool.
Import ListNotations.

Fixpoint is_prefix (p s : list nat) : bool :=
  match p, s with
  | [], _ => true
  | a :: p', b :: s' => Nat.eqb a b && is_prefix p' s'
  | _ :: _, [] => false
  end.

(* joint epsilon moves of two composed transducers between two matched symbols:
   MD = both move (left writes eps, right reads eps), MA = only the right machine
   moves, MB = only the left machine moves *)
Inductive move := MD | MA | MB.
Definition move_eqb (a b : move) : bool :=
  match a, b with MD, MD | MA, MA | MB, MB => true | _, _ => false end.

(* what the filter sees on its two tapes for a joint move (e1 = eps_1, e2 = eps_2) *)
Definition move_in (e1 e2 : nat) (m : move) : nat := match m with MD => e2 | MA => e1 | MB => e2 end.
Definition move_out (e1 e2 : nat) (m : move) : nat := match m with MD => e1 | MA => e1 | MB => e2 end.

(* number of real moves of the left (right) machine in a block *)
Fixpoint left_moves (w : list move) : nat :=
  match w with [] => O | MA :: t => left_moves t | _ :: t => S (left_moves t) end.
Fixpoint right_moves (w : list move) : nat :=
  match w with [] => O | MB :: t => right_moves t | _ :: t => S (right_moves t) end.

(* the canonical interleaving of m left moves and n right moves *)
Definition canonical (m n : nat) : list move :=
  repeat MD (Nat.min m n) ++ repeat MB (m - n) ++ repeat MA (n - m).
