(* Algebraic path problems (genlm/grammar/linear.py): matrices as tables over an
   explicit node list, Lehmann/Kleene elimination (WeightedGraph._closure), and
   the block solvers.  Definitions only. *)
From Coq Require Import List Arith Bool Lia.
From GV.lib Require Import Semiring BigSum.
Import ListNotations.
Local Open Scope sr_scope.

Section Linear.
Variable S : StarSR.

Definition mat := list (nat * nat * S).
Fixpoint mget (M : mat) (i k : nat) : S :=
  match M with
  | [] => 0
  | (i', k', v) :: t => if Nat.eqb i i' && Nat.eqb k k' then v else mget t i k
  end.
(* sum of all entries with that key (a table built by accumulation, as E[i,j] += w) *)
Definition msum (M : mat) (i k : nat) : S :=
  bsum M (fun e => if Nat.eqb i (fst (fst e)) && Nat.eqb k (snd (fst e)) then snd e else 0).

Definition tabulate (nodes : list nat) (f : nat -> nat -> S) : mat :=
  flat_map (fun i => map (fun k => (i, k, f i k)) nodes) nodes.

(* one elimination step of _closure: new[i,k] = old[i,k] + old[i,j] * star(old[j,j]) * old[j,k] *)
Definition elim_step (nodes : list nat) (j : nat) (old : mat) : mat :=
  let sjj := sstar S (mget old j j) in
  tabulate nodes (fun i k => mget old i k + mget old i j * sjj * mget old j k).

Definition lehmann_trans (nodes : list nat) (A : mat) : mat :=
  fold_left (fun old j => elim_step nodes j old) nodes (tabulate nodes (mget A)).

(* reflexive-transitive closure as computed by WeightedGraph._closure for |N| <> 1 *)
Definition lehmann (nodes : list nat) (A : mat) : mat :=
  let Tm := lehmann_trans nodes A in
  tabulate nodes (fun i k => if Nat.eqb i k then mget Tm i k + 1 else mget Tm i k).

(* the |N| = 1 shortcut *)
Definition closure1 (i : nat) (A : mat) : mat := [(i, i, sstar S (mget A i i))].

Definition closure (nodes : list nat) (A : mat) : mat :=
  match nodes with
  | [i] => closure1 i A
  | _ => lehmann nodes A
  end.

(* matrix product / identity as functions, for the specifications *)
Definition fmul (nodes : list nat) (A B : nat -> nat -> S) : nat -> nat -> S :=
  fun i k => bsum nodes (fun j => A i j * B j k).
Definition fid : nat -> nat -> S := fun i k => if Nat.eqb i k then 1 else 0.
Definition fadd (A B : nat -> nat -> S) : nat -> nat -> S := fun i k => A i k + B i k.

(* ---- block solvers (solve_left / solve_right) ---------------------------
   blocks: list of (nodes of the block); the graph A is restricted to a block
   when its closure is taken (Blocks = [(block, _closure(E, block))]). *)
Definition vec := list (nat * S).
Definition vget (v : vec) (i : nat) : S := bsum v (fun e => if Nat.eqb i (fst e) then snd e else 0).

Definition restrict (nodes : list nat) (A : mat) : mat :=
  tabulate nodes (mget A).

Definition block_closure (block : list nat) (A : mat) : mat := closure block (restrict block A).

(* x = x A + b, blocks in topological order (sources first) *)
Definition solve_left_block (allnodes : list nat) (A : mat) (b : vec) (sol : vec) (block : list nat) : vec :=
  let B := block_closure block A in
  let enter := map (fun j => (j, vget b j + bsum allnodes (fun i => vget sol i * mget A i j))) block in
  sol ++ flat_map (fun e => map (fun k => (k, snd e * mget B (fst e) k)) block) enter.

Definition solve_left (allnodes : list nat) (blocks : list (list nat)) (A : mat) (b : vec) : vec :=
  fold_left (solve_left_block allnodes A b) blocks [].

Definition solve_right_block (allnodes : list nat) (A : mat) (b : vec) (sol : vec) (block : list nat) : vec :=
  let B := block_closure block A in
  let enter := map (fun j => (j, vget b j + bsum allnodes (fun k => mget A j k * vget sol k))) block in
  sol ++ flat_map (fun e => map (fun i => (i, mget B i (fst e) * snd e)) block) enter.

Definition solve_right (allnodes : list nat) (blocks : list (list nat)) (A : mat) (b : vec) : vec :=
  fold_left (solve_right_block allnodes A b) (rev blocks) [].

Definition closure_scc (allnodes : list nat) (blocks : list (list nat)) (A : mat) : mat :=
  flat_map (fun i => let sol := solve_left allnodes blocks A [(i, 1)] in
                     map (fun j => (i, j, vget sol j)) allnodes) allnodes.

(* ---- checker for a block decomposition (translation validation of Tarjan) --- *)
Definition edge (A : mat) (i k : nat) : bool := negb (seqb (mget A i k) 0).

Fixpoint index_of (x : nat) (bs : list (list nat)) (n : nat) : option nat :=
  match bs with
  | [] => None
  | b :: t => if existsb (Nat.eqb x) b then Some n else index_of x t (Datatypes.S n)
  end.

End Linear.

Arguments mget {S} M i k. Arguments msum {S} M i k. Arguments tabulate {S} nodes f.
Arguments lehmann {S} nodes A. Arguments lehmann_trans {S} nodes A. Arguments elim_step {S} nodes j old.
Arguments closure {S} nodes A. Arguments closure1 {S} i A.
Arguments fmul {S} nodes A B i k. Arguments fid {S} i k. Arguments fadd {S} A B i k.
Arguments vget {S} v i. Arguments solve_left {S} allnodes blocks A b. Arguments solve_right {S} allnodes blocks A b.
Arguments closure_scc {S} allnodes blocks A. Arguments block_closure {S} block A. Arguments restrict {S} nodes A.
