(* CFG.derivative(a): the Brzozowski (left) derivative of a weighted grammar with respect
   to the terminal a, with nullary elimination done on the fly.

     D = self.spawn(S=slash(self.S, a));  U = self.null_weight()
     for r in self:
         D.add(r.w, r.head, *r.body)
         delta = one
         for k, y in enumerate(r.body):
             if is_terminal(y):
                 if y == a: D.add(delta * r.w, slash(r.head, a), *r.body[k+1:])
             else:
                 D.add(delta * r.w, slash(r.head, a), slash(y, a), *r.body[k+1:])
             delta *= U[y]

   U Y is the null weight of Y (weight of Y deriving the empty string); it is zero for a
   terminal, so after the first terminal of the body delta is zero and the remaining
   additions have weight zero (CFG.add drops them): deriv_body stops there.
   sl X is the fresh nonterminal "X/a" (a is fixed).  The start symbol of the derivative
   of (G, s) is sl s.
   Definitions only; proofs are in proofs/DerivProofs.v. *)
From Coq Require Import List Arith Bool.
From GV.lib Require Import Semiring BigSum.
From GV.model Require Import Cfg.
Import ListNotations.
Local Open Scope sr_scope.

Section Deriv.
Variable S : SR.

(* the rules added for one rule (w, head, body); delta is the product of the null weights
   of the symbols already passed *)
Fixpoint deriv_body (U : nat -> S) (sl : nat -> nat) (a : nat) (w : S) (head : nat)
         (delta : S) (body : list sym) : list (rule S) :=
  match body with
  | [] => []
  | T b :: rest => if Nat.eqb b a then [(delta * w, sl head, rest)] else []
  | N Y :: rest =>
      (delta * w, sl head, N (sl Y) :: rest) :: deriv_body U sl a w head (delta * U Y) rest
  end.

Definition derivative (U : nat -> S) (sl : nat -> nat) (a : nat) (G : grammar S) : grammar S :=
  G ++ flat_map (fun r => deriv_body U sl a (rw r) (rhead r) 1 (rbody r)) G.

(* the nonterminals of a grammar: heads and body nonterminals *)
Definition body_nts (body : list sym) : list nat :=
  flat_map (fun s => match s with N Y => [Y] | T _ => [] end) body.

Definition nts (G : grammar S) : list nat :=
  flat_map (fun r => rhead r :: body_nts (rbody r)) G.

(* the valuation of the derivative grammar obtained from a valuation f of G:
   a slash name X/a (X a nonterminal of G) gets xs |-> f X (a :: xs), any other symbol
   keeps its value *)
Definition deriv_val (sl : nat -> nat) (a : nat) (G : grammar S)
           (f : nat -> list nat -> S) (Z : nat) (xs : list nat) : S :=
  match find (fun X => Nat.eqb (sl X) Z) (nts G) with
  | Some X => f X (a :: xs)
  | None => f Z xs
  end.

End Deriv.

Arguments deriv_body {S} U sl a w head delta body.
Arguments derivative {S} U sl a G.
Arguments nts {S} G.
Arguments deriv_val {S} sl a G f Z xs.
