(* Local normalisation (cfglm.locally_normalize), EOS wrapping (cfglm.add_EOS),
   and the chain rule of language models (lm.LM).  Definitions only. *)
From Coq Require Import List Arith Bool Lia.
From GV.lib Require Import Semiring BigSum.
From GV.model Require Import Cfg.
Import ListNotations.
Local Open Scope sr_scope.

Section NORM.
Variable F : FR.

(* Z: the vector of total weights (one per symbol; Z (T a) = 1) *)
Definition prodZ (Z : sym -> F) (body : list sym) : F := sprod (map Z body).

(* the expression of locally_normalize, given as a parameter so that the
   regenerated one (Gen_Norm.norm_factor) can be plugged in *)
Definition lnorm (factor : F -> F -> F -> F) (Z : sym -> F) (G : grammar F) : grammar F :=
  flat_map (fun r => if seqb (Z (N (rhead r))) 0 then []
                     else [(factor (rw r) (prodZ Z (rbody r)) (Z (N (rhead r))), rhead r, rbody r)]) G.

(* Z solves the grammar equations *)
Definition solves (Z : sym -> F) (G : grammar F) : Prop :=
  (forall a, Z (T a) = 1) /\
  (forall X, Z (N X) = bsum G (fun r => if Nat.eqb (rhead r) X then rw r * prodZ Z (rbody r) else 0)).

(* total weight of the rules with head X *)
Definition head_mass (G : grammar F) (X : nat) : F :=
  bsum G (fun r => if Nat.eqb (rhead r) X then rw r else 0).
End NORM.
Arguments prodZ {F} Z body. Arguments lnorm {F} factor Z G. Arguments solves {F} Z G. Arguments head_mass {F} G X.

Section EOS.
Variable S : SR.
(* add_EOS: new start s' -> old start, eos *)
Definition add_eos (s' s eos : nat) (G : grammar S) : grammar S := (1, s', [N s; T eos]) :: G.
End EOS.
Arguments add_eos {S} s' s eos G.

Section CHAIN.
Variable F : FR.
(* a language model given by unnormalised next-token weights nw ctx t over the tokens V ++ [eos] *)
Definition zsum (V : list nat) (eos : nat) (nw : list nat -> nat -> F) (ctx : list nat) : F :=
  bsum (V ++ [eos]) (nw ctx).
Definition p_next (V : list nat) (eos : nat) (nw : list nat -> nat -> F) (ctx : list nat) (t : nat) : F :=
  fdiv F (nw ctx t) (zsum V eos nw ctx).
(* LM.__call__ on xs ++ [eos] *)
Fixpoint chain (V : list nat) (eos : nat) (nw : list nat -> nat -> F) (ctx : list nat) (xs : list nat) : F :=
  match xs with
  | [] => p_next V eos nw ctx eos
  | x :: t => p_next V eos nw ctx x * chain V eos nw (ctx ++ [x]) t
  end.
End CHAIN.
Arguments zsum {F} V eos nw ctx. Arguments p_next {F} V eos nw ctx t. Arguments chain {F} V eos nw ctx xs.
