(* The agenda loop of CFG.agenda as a transition system over (old, pending updates),
   for an arbitrary pop order.  Definitions only. *)
From Coq Require Import List Arith Bool Lia.
From GV.lib Require Import Semiring BigSum.
From GV.model Require Import Cfg Agenda.
Import ListNotations.
Local Open Scope sr_scope.

Section AG2.
Variable S : SR.
(* the factor selection and the new value, as regenerated from the source (Gen_Exprs.agenda_sel /
   agenda_new) -- kept as parameters here *)
Variable sel : nat -> nat -> S -> S -> S -> S.
Variable mknew : S -> S -> S.

Definition pending := list (sym * S).
(* change[x]: the sum of the pending updates of x *)
Definition pend (ch : pending) (x : sym) : S := bsum ch (fun e => if sym_eqb x (fst e) then snd e else 0).

Definition astate := ((sym -> S) * pending)%type.

(* updates pushed when (u, v) is popped: for r, k in routing[u]: update(r.head, W) *)
Definition pushes (G : grammar S) (old : sym -> S) (u : sym) (v : S) : pending :=
  let new := mknew (old u) v in
  flat_map (fun r => map (fun k => (N (rhead r), rw r * factor sel old u new v (rbody r) k)) (occ u (rbody r))) G.

(* popping (u, v) from ch leaves ch' (any representation of the pending multiset) *)
Definition pops (ch : pending) (u : sym) (v : S) (ch' : pending) : Prop :=
  forall x, pend ch x = (if sym_eqb x u then v else 0) + pend ch' x.

(* the body of the while loop for a popped (u, v); the tolerance test is modelled exactly:
   the update is skipped iff it does not change the value *)
Definition astep (G : grammar S) (old : sym -> S) (u : sym) (v : S) (ch' : pending) : astate :=
  let new := mknew (old u) v in
  if seqb (old u) new then (old, ch')
  else (upd old u new, ch' ++ pushes G old u v).

Definition ainit (G : grammar S) (terminals : list nat) : astate :=
  (fun _ => 0,
   map (fun a => (T a, 1)) terminals ++
   flat_map (fun r => match rbody r with [] => [(N (rhead r), rw r)] | _ => [] end) G).

(* value of the right-hand sides of X under old *)
Definition rhs_val (G : grammar S) (old : sym -> S) (X : nat) : S :=
  bsum G (fun r => if Nat.eqb (rhead r) X then rw r * sprod (map old (rbody r)) else 0).

(* the semi-naive invariant *)
Definition ainv (G : grammar S) (terminals : list nat) (st : astate) : Prop :=
  let (old, ch) := st in
  (forall a, old (T a) + pend ch (T a) = if existsb (Nat.eqb a) terminals then 1 else 0) /\
  (forall X, old (N X) + pend ch (N X) = rhs_val G old X).

(* states reachable by popping pending updates in any order *)
Inductive areach (G : grammar S) (terminals : list nat) : astate -> Prop :=
| areach_init : areach G terminals (ainit G terminals)
| areach_step : forall old ch u v ch', areach G terminals (old, ch) -> pops ch u v ch' ->
    areach G terminals (astep G old u v ch').
End AG2.
Arguments pend {S} ch x. Arguments pushes {S} sel mknew G old u v. Arguments pops {S} ch u v ch'.
Arguments astep {S} sel mknew G old u v ch'. Arguments ainit {S} G terminals. Arguments rhs_val {S} G old X.
Arguments ainv {S} G terminals st. Arguments areach {S} sel mknew G terminals _.
