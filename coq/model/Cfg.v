(* Weighted context-free grammars over an abstract commutative semiring:
   reference semantics (height-bounded derivation sum W), derivation trees, and an
   executable tabulated version of W used by the correspondence runs.
   Definitions only; proofs are in proofs/. *)
From Coq Require Import List Arith Bool Lia.
From GV.lib Require Import Semiring BigSum.
Import ListNotations.
Local Open Scope sr_scope.

Inductive sym := T (a : nat) | N (x : nat).

Definition sym_eqb (s t : sym) : bool :=
  match s, t with T a, T b => Nat.eqb a b | N x, N y => Nat.eqb x y | _, _ => false end.

Fixpoint list_eqb {A} (eqb : A -> A -> bool) (l1 l2 : list A) : bool :=
  match l1, l2 with
  | [], [] => true
  | x :: t, y :: u => eqb x y && list_eqb eqb t u
  | _, _ => false
  end.

(* all ways of cutting a list in two: ([],l), ..., (l,[]) *)
Fixpoint splits {A} (l : list A) : list (list A * list A) :=
  match l with
  | [] => [([], [])]
  | x :: t => ([], l) :: map (fun p => (x :: fst p, snd p)) (splits t)
  end.

Section CFG.
Variable S : SR.

(* rule = (weight, head, body); a grammar is a list of rules (duplicates allowed,
   as in CFG.rules) *)
Definition rule := (S * nat * list sym)%type.
Definition rw (r : rule) : S := fst (fst r).
Definition rhead (r : rule) : nat := snd (fst r).
Definition rbody (r : rule) : list sym := snd r.
Definition grammar := list rule.

(* ---- reference semantics ------------------------------------------------ *)

(* weight of deriving xs from a right-hand side, given the weights f of the
   nonterminals *)
Fixpoint Wb (f : nat -> list nat -> S) (body : list sym) (xs : list nat) : S :=
  match body with
  | [] => match xs with [] => 1 | _ => 0 end
  | T a :: rest => match xs with
                   | b :: xs' => if Nat.eqb a b then Wb f rest xs' else 0
                   | [] => 0
                   end
  | N Y :: rest => bsum (splits xs) (fun p => f Y (fst p) * Wb f rest (snd p))
  end.

(* W G h X xs: total weight of the derivation trees of height <= h rooted at
   nonterminal X with yield xs (theorem W_trees in proofs/CfgTrees.v) *)
Fixpoint W (G : grammar) (h : nat) (X : nat) (xs : list nat) : S :=
  match h with
  | O => 0
  | Datatypes.S h' => bsum G (fun r => if Nat.eqb (rhead r) X then rw r * Wb (W G h') (rbody r) xs else 0)
  end.

(* the derivation sum of xs is finite and equals v *)
Definition stable (G : grammar) (X : nat) (xs : list nat) (v : S) : Prop :=
  exists H, forall h, H <= h -> W G h X xs = v.

(* ---- derivation trees --------------------------------------------------- *)

(* a node records the position of its rule in the rule list, so that duplicate
   rules give distinct trees (as Derivation objects do) *)
Inductive tree := Leaf (a : nat) | Node (i : nat) (r : rule) (kids : forest)
with forest := Fnil | Fcons (t : tree) (f : forest).

Fixpoint tyield (t : tree) : list nat :=
  match t with Leaf a => [a] | Node _ _ k => fyield k end
with fyield (f : forest) : list nat :=
  match f with Fnil => [] | Fcons t f' => tyield t ++ fyield f' end.

Fixpoint tweight (t : tree) : S :=
  match t with Leaf _ => 1 | Node _ r k => rw r * fweight k end
with fweight (f : forest) : S :=
  match f with Fnil => 1 | Fcons t f' => tweight t * fweight f' end.

Fixpoint theight (t : tree) : nat :=
  match t with Leaf _ => 0 | Node _ _ k => Datatypes.S (fheight k) end
with fheight (f : forest) : nat :=
  match f with Fnil => 0 | Fcons t f' => Nat.max (theight t) (fheight f') end.

Inductive twf (G : grammar) : sym -> tree -> Prop :=
| twf_leaf a : twf G (T a) (Leaf a)
| twf_node i r kids : nth_error G i = Some r -> fwf G (rbody r) kids -> twf G (N (rhead r)) (Node i r kids)
with fwf (G : grammar) : list sym -> forest -> Prop :=
| fwf_nil : fwf G [] Fnil
| fwf_cons s body t f : twf G s t -> fwf G body f -> fwf G (s :: body) (Fcons t f).

(* enumeration of all trees of height <= h *)
Definition indexed (G : grammar) : list (nat * rule) := combine (seq O (length G)) G.

Fixpoint forests_of (tr : nat -> list tree) (body : list sym) : list forest :=
  match body with
  | [] => [Fnil]
  | T a :: rest => map (Fcons (Leaf a)) (forests_of tr rest)
  | N Y :: rest => flat_map (fun t => map (Fcons t) (forests_of tr rest)) (tr Y)
  end.

Fixpoint trees (G : grammar) (h : nat) (X : nat) : list tree :=
  match h with
  | O => []
  | Datatypes.S h' =>
      flat_map (fun ir => if Nat.eqb (rhead (snd ir)) X
                          then map (Node (fst ir) (snd ir)) (forests_of (trees G h') (rbody (snd ir)))
                          else []) (indexed G)
  end.

Definition yields (xs : list nat) (t : tree) : bool := list_eqb Nat.eqb (tyield t) xs.

(* ---- executable tabulated version --------------------------------------- *)

Definition key := (nat * nat * nat)%type.      (* (X, i, j): X over xs[i..j) *)
Definition keyeq (a b : key) : bool :=
  match a, b with (x, i, j), (y, k, l) => Nat.eqb x y && Nat.eqb i k && Nat.eqb j l end.
Definition chart := list (key * S).
Fixpoint cget (c : chart) (k : key) : S :=
  match c with [] => 0 | (k', v) :: t => if keyeq k k' then v else cget t k end.

(* weight of body over xs[i..j) given the chart of the previous iterate *)
Fixpoint body_w (c : chart) (xs : list nat) (body : list sym) (i j : nat) {struct body} : S :=
  match body with
  | [] => if Nat.eqb i j then 1 else 0
  | T a :: rest =>
      if Nat.ltb i j then
        match nth_error xs i with
        | Some b => if Nat.eqb a b then body_w c xs rest (Datatypes.S i) j else 0
        | None => 0
        end
      else 0
  | N Y :: rest =>
      bsum (seq i (Datatypes.S j - i))
           (fun m => let v := cget c (Y, i, m) in if seqb v 0 then 0 else v * body_w c xs rest m j)
  end.

Definition spans (n : nat) : list (nat * nat) :=
  flat_map (fun i => map (fun j => (i, j)) (seq i (Datatypes.S n - i))) (seq O (Datatypes.S n)).

Definition heads (G : grammar) : list nat := nodup Nat.eq_dec (map rhead G).

Definition cstep (G : grammar) (xs : list nat) (c : chart) : chart :=
  flat_map (fun X =>
    flat_map (fun ij =>
      let v := bsum G (fun r => if Nat.eqb (rhead r) X then rw r * body_w c xs (rbody r) (fst ij) (snd ij) else 0) in
      if seqb v 0 then [] else [((X, fst ij, snd ij), v)]) (spans (length xs))) (heads G).

Fixpoint chart_eqb (a b : chart) : bool :=
  match a, b with
  | [], [] => true
  | (k, v) :: s, (k', v') :: t => keyeq k k' && seqb v v' && chart_eqb s t
  | _, _ => false
  end.

Fixpoint citer (G : grammar) (xs : list nat) (n : nat) (c : chart) : chart :=
  match n with O => c | Datatypes.S n' => citer G xs n' (cstep G xs c) end.

(* iterate until two successive charts agree; None = out of fuel *)
Fixpoint cfix (G : grammar) (xs : list nat) (fuel : nat) (c : chart) : option chart :=
  match fuel with
  | O => None
  | Datatypes.S f => let c' := cstep G xs c in if chart_eqb c c' then Some c else cfix G xs f c'
  end.

Definition sub {A} (l : list A) (i j : nat) : list A := firstn (j - i) (skipn i l).

(* weight of the whole string xs from X: Some v when the iteration stabilises *)
Definition lang (G : grammar) (fuel : nat) (X : nat) (xs : list nat) : option S :=
  match cfix G xs fuel [] with
  | Some c => Some (cget c (X, O, length xs))
  | None => None
  end.

(* weights of all the spans at a fixed height (used by prefix/infix queries) *)
Definition lang_h (G : grammar) (h : nat) (X : nat) (xs : list nat) : S :=
  cget (citer G xs h []) (X, O, length xs).

End CFG.

Arguments rw {S} r. Arguments rhead {S} r. Arguments rbody {S} r.
Arguments Wb {S} f body xs. Arguments W {S} G h X xs.
Arguments Leaf {S} a. Arguments Node {S} i r kids. Arguments Fnil {S}. Arguments Fcons {S} t f.
Arguments tyield {S} t. Arguments fyield {S} f. Arguments tweight {S} t. Arguments fweight {S} f.
Arguments theight {S} t. Arguments fheight {S} f.
Arguments trees {S} G h X. Arguments forests_of {S} tr body. Arguments yields {S} xs t.
Arguments lang {S} G fuel X xs. Arguments lang_h {S} G h X xs.
Arguments cfix {S} G xs fuel c. Arguments citer {S} G xs n c. Arguments cstep {S} G xs c. Arguments cget {S} c k.
