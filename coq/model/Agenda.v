(* Total weights of nonterminals: naive Kleene iteration (CFG._bottom_up_step) and the
   update of the semi-naive agenda (CFG.agenda).  Definitions only. *)
From Coq Require Import List Arith Bool Lia.
From GV.lib Require Import Semiring BigSum.
From GV.model Require Import Cfg.
Import ListNotations.
Local Open Scope sr_scope.

Section AG.
Variable S : SR.

(* value of a symbol under a chart of nonterminal values: terminals count 1 *)
Definition sval (V : nat -> S) (s : sym) : S := match s with T _ => 1 | N Y => V Y end.

(* CFG._bottom_up_step restricted to nonterminals *)
Definition bu_step (G : grammar S) (V : nat -> S) : nat -> S :=
  fun X => bsum G (fun r => if Nat.eqb (rhead r) X then rw r * sprod (map (sval V) (rbody r)) else 0).
Fixpoint bu_iter (G : grammar S) (h : nat) : nat -> S :=
  match h with O => fun _ => 0 | Datatypes.S h' => bu_step G (bu_iter G h') end.

(* ---- the agenda update.  old: current chart over symbols; (u, v): the popped
   update; new = agenda_new old[u] v.  For a rule body and a routing position k
   (body[k] = u) the pushed weight is w * factor ... k, where the factor of an
   occurrence j of u is chosen by [sel j k new v old[u]] (regenerated from the
   source: Gen_Exprs.agenda_sel). *)
Definition factor (sel : nat -> nat -> S -> S -> S -> S) (old : sym -> S) (u : sym) (new v : S)
           (body : list sym) (k : nat) : S :=
  sprod (map (fun jy => if sym_eqb u (snd jy) then sel (fst jy) k new v (old u) else old (snd jy))
             (combine (seq O (length body)) body)).

(* routing positions of u in body *)
Definition occ (u : sym) (body : list sym) : list nat :=
  map fst (filter (fun jy => sym_eqb u (snd jy)) (combine (seq O (length body)) body)).

Definition upd (old : sym -> S) (u : sym) (x : S) : sym -> S :=
  fun y => if sym_eqb u y then x else old y.
End AG.
Arguments sval {S} V s. Arguments bu_step {S} G V X. Arguments bu_iter {S} G h X.
Arguments factor {S} sel old u new v body k. Arguments occ u body. Arguments upd {S} old u x y.
