(* Models of the name-inventing transformations of cfg.py, for the structural
   postconditions (C07).  Fresh nonterminals are drawn from a counter / given by injective
   naming functions.  Definitions only. *)
From Coq Require Import List Arith Bool Lia.
From GV.lib Require Import Semiring BigSum.
From GV.model Require Import Cfg Transform Cky.
Import ListNotations.
Local Open Scope sr_scope.

Section TR2.
Variable S : SR.

(* ---- CFG.binarize / _fold: X -> Y1 Y2 Y3 ... becomes X' -> Y1 Y2 (weight one) and
   X -> X' Y3 ... , repeated until the body has at most two symbols.  [fresh] is the next
   unused nonterminal. *)
Fixpoint bin_body (fuel : nat) (fresh : nat) (w : S) (head : nat) (body : list sym) : (list (rule S) * nat)%type :=
  match fuel with
  | O => ([(w, head, body)], fresh)
  | Datatypes.S f =>
      match body with
      | y1 :: y2 :: y3 :: rest =>
          let (rs, fr) := bin_body f (Datatypes.S fresh) w head (N fresh :: y3 :: rest) in
          ((1, fresh, [y1; y2]) :: rs, fr)
      | _ => ([(w, head, body)], fresh)
      end
  end.
Definition binarize_from (fresh : nat) (G : grammar S) : (grammar S * nat)%type :=
  fold_left (fun (acc : (grammar S * nat)%type) (r : rule S) => let (out, fr) := acc in
                          let (rs, fr') := bin_body (length (rbody r)) fr (rw r) (rhead r) (rbody r) in
                          (out ++ rs, fr')) G ([], fresh).
Definition binarize (fresh : nat) (G : grammar S) : grammar S := fst (binarize_from fresh G).

(* ---- CFG.separate_terminals: pt a is the preterminal invented for terminal a *)
Definition sep_sym (pt : nat -> nat) (y : sym) : sym := match y with T a => N (pt a) | N x => N x end.
Definition terminals_of (G : grammar S) : list nat :=
  nodup Nat.eq_dec (flat_map (fun r => match rbody r with
                                       | [T _] => []
                                       | b => flat_map (fun y => match y with T a => [a] | N _ => [] end) b
                                       end) G).
Definition separate_terminals (pt : nat -> nat) (G : grammar S) : grammar S :=
  map (fun a => (1, pt a, [T a])) (terminals_of G) ++
  map (fun r => match rbody r with
                | [T _] => r
                | b => (rw r, rhead r, map (sep_sym pt) b)
                end) G.

(* ---- CFG._push_null_weights: nullw X = weight of X deriving the empty string;
   nn X = the NotNull(X) name; s = start symbol (not on any right-hand side). *)
Definition nullw_sym (nullw : nat -> S) (y : sym) : S := match y with T _ => 0 | N x => nullw x end.
Definition nn_name (nullw : nat -> S) (nn : nat -> nat) (s : nat) (x : nat) : nat :=
  if seqb (nullw x) 0 || Nat.eqb x s then x else nn x.
Definition nn_sym (nullw : nat -> S) (nn : nat -> nat) (s : nat) (y : sym) : sym :=
  match y with T a => T a | N x => N (nn_name nullw nn s x) end.
(* all ways of deleting a subset of the body symbols: (weight factor, remaining body) *)
Fixpoint null_expansions (nullw : nat -> S) (nn : nat -> nat) (s : nat) (body : list sym) : list (S * list sym)%type :=
  match body with
  | [] => [(1, [])]
  | y :: rest =>
      let tl := null_expansions nullw nn s rest in
      map (fun e => (fst e, nn_sym nullw nn s y :: snd e)) tl ++        (* keep y *)
      map (fun e => (nullw_sym nullw y * fst e, snd e)) tl               (* delete y *)
  end.
Definition push_null_weights (nullw : nat -> S) (nn : nat -> nat) (s : nat) (G : grammar S) : grammar S :=
  (if seqb (nullw s) 0 then [] else [(nullw s, s, [])]) ++
  flat_map (fun r => match rbody r with
                     | [] => []
                     | b => flat_map (fun e => match snd e with
                                               | [] => []
                                               | nb => if seqb (rw r * fst e) 0 then [] else [(rw r * fst e, nn_name nullw nn s (rhead r), nb)]
                                               end) (null_expansions nullw nn s b)
                     end) G.

(* ---- CFG.unaryremove with a given closure K of the unary graph (K Y X = W[Y, X]) *)
Definition is_unary (r : rule S) : bool := match rbody r with [N _] => true | _ => false end.
Definition unaryremove (K : nat -> nat -> S) (nts : list nat) (G : grammar S) : grammar S :=
  flat_map (fun r => if is_unary r then []
                     else flat_map (fun Y => if seqb (K Y (rhead r) * rw r) 0 then [] else [(K Y (rhead r) * rw r, Y, rbody r)]) nts) G.

(* shape predicates used by the pipeline theorem *)
Definition terminal_free_or_unit (r : rule S) : bool :=
  match rbody r with [T _] => true | b => forallb (fun y => match y with T _ => false | N _ => true end) b end.
End TR2.
Arguments bin_body {S} fuel fresh w head body. Arguments binarize_from {S} fresh G. Arguments binarize {S} fresh G.
Arguments separate_terminals {S} pt G. Arguments terminals_of {S} G. 
Arguments push_null_weights {S} nullw nn s G. Arguments null_expansions {S} nullw nn s body.
Arguments nn_name {S} nullw nn s x. Arguments nn_sym {S} nullw nn s y. Arguments nullw_sym {S} nullw y.
Arguments unaryremove {S} K nts G. Arguments is_unary {S} r. Arguments terminal_free_or_unit {S} r.
