(* WFSA._trim(active): keep the initial/final entries and arcs whose states are all in `active`
   (wfsa/base.py: trim, trim_vals).  Definitions only. *)
From Coq Require Import List Arith Bool.
From GV.lib Require Import Semiring BigSum.
From GV.model Require Import Wfsa.
Import ListNotations.
Local Open Scope sr_scope.

Section TRIMW.
Variable S : SR.
Definition inb (x : nat) (l : list nat) : bool := existsb (Nat.eqb x) l.
Definition wtrim (active : list nat) (m : wfsa S) : wfsa S :=
  mkW (filter (fun e => inb (fst e) active) (winit m))
      (filter (fun e => inb (fst e) active) (wfinal m))
      (filter (fun ar => inb (asrc ar) active && inb (adst ar) active) (warcs m)).
End TRIMW.
Arguments wtrim {S} active m. Arguments inb x l.
