(* Grammar transformations of cfg.py that do not invent names, and verified checkers
   for the structural postconditions of the others.  Definitions only. *)
From Coq Require Import List Arith Bool Lia.
From GV.lib Require Import Semiring BigSum.
From GV.model Require Import Cfg.
Import ListNotations.
Local Open Scope sr_scope.

Section TR.
Variable S : SR.

Definition rename_sym (f : nat -> nat) (s : sym) : sym := match s with T a => T a | N x => N (f x) end.
Definition rename_g (f : nat -> nat) (G : grammar S) : grammar S :=
  map (fun r => (rw r, f (rhead r), map (rename_sym f) (rbody r))) G.

Definition on_rhs (X : nat) (G : grammar S) : bool :=
  existsb (fun r => existsb (sym_eqb (N X)) (rbody r)) G.

(* CFG.separate_start: s' is the fresh start symbol *)
Definition separate_start (s' s : nat) (G : grammar S) : nat * grammar S :=
  if on_rhs s G then (s', (1, s', [N s]) :: G) else (s, G).

(* ---- trimming (CFG.trim): C = generating symbols, then reachable symbols ---- *)
Definition gen_sym (C : list nat) (s : sym) : bool := match s with T _ => true | N x => existsb (Nat.eqb x) C end.
Definition gen_pass (G : grammar S) (C : list nat) : list nat :=
  fold_left (fun C r => if forallb (gen_sym C) (rbody r) && negb (existsb (Nat.eqb (rhead r)) C) then rhead r :: C else C) G C.
Fixpoint gen_iter (G : grammar S) (fuel : nat) (C : list nat) : list nat :=
  match fuel with O => C | Datatypes.S f => gen_iter G f (gen_pass G C) end.
(* |G| passes suffice: each productive pass adds a head *)
Definition generating (G : grammar S) : list nat := gen_iter G (Datatypes.S (length G)) [].

Definition cotrim (G : grammar S) : grammar S :=
  let C := generating G in
  filter (fun r => existsb (Nat.eqb (rhead r)) C && forallb (gen_sym C) (rbody r)) G.

(* structural predicates (checkers) *)
Definition arity_le2 (G : grammar S) : bool := forallb (fun r => Nat.leb (length (rbody r)) 2) G.
Definition no_nullary_except (s : nat) (G : grammar S) : bool :=
  forallb (fun r => match rbody r with [] => Nat.eqb (rhead r) s | _ => true end) G.
Definition no_unary (G : grammar S) : bool :=
  forallb (fun r => match rbody r with [N _] => false | _ => true end) G.
Definition start_not_on_rhs (s : nat) (G : grammar S) : bool := negb (on_rhs s G).
Definition terminals_separated (G : grammar S) : bool :=
  forallb (fun r => match rbody r with [T _] => true | b => forallb (fun y => match y with T _ => false | N _ => true end) b end) G.
End TR.
Arguments rename_g {S} f G. Arguments on_rhs {S} X G. Arguments separate_start {S} s' s G.
Arguments generating {S} G. Arguments cotrim {S} G. Arguments gen_pass {S} G C. Arguments gen_iter {S} G fuel C.
Arguments arity_le2 {S} G. Arguments no_nullary_except {S} s G. Arguments no_unary {S} G.
Arguments start_not_on_rhs {S} s G. Arguments terminals_separated {S} G.
