(* The expectation semiring over a commutative semiring (semiring.Expectation) and the lifting of a
   grammar used by CFG.expected_length.  Definitions only. *)
From Coq Require Import List Arith Bool.
From GV.lib Require Import Semiring BigSum.
From GV.model Require Import Cfg.
Import ListNotations.
Local Open Scope sr_scope.

Section EXPECT.
Variable S : SR.
Definition ecar := (S * S)%type.
Definition e0 : ecar := (0, 0).
Definition e1 : ecar := (1, 0).
Definition eadd (a b : ecar) : ecar := (fst a + fst b, snd a + snd b).
Definition emul (a b : ecar) : ecar := (fst a * fst b, fst a * snd b + fst b * snd a).
Definition eeqb (a b : ecar) : bool := seqb (fst a) (fst b) && seqb (snd a) (snd b).

(* n as a semiring element *)
Fixpoint nat_s (n : nat) : S := match n with O => 0 | Datatypes.S n' => 1 + nat_s n' end.
Definition n_terminals (body : list sym) : nat := length (filter (fun y => match y with T _ => true | N _ => false end) body).

(* expected_length: rule weight w becomes <w, w * #terminals(body)> *)
Definition lift_rule (r : rule S) : (ecar * nat * list sym) :=
  ((rw r, rw r * nat_s (n_terminals (rbody r))), rhead r, rbody r).
End EXPECT.
Arguments e0 {S}. Arguments e1 {S}. Arguments eadd {S} a b. Arguments emul {S} a b. Arguments eeqb {S} a b.
Arguments nat_s {S} n. Arguments lift_rule {S} r. Arguments n_terminals body.
