(* Checker for a block decomposition of a weighted graph (the output of
   linear.scc_decomposition as used by WeightedGraph.blocks), and the specification of the
   block solvers.  Definitions only. *)
From Coq Require Import List Arith Bool Lia.
From GV.lib Require Import Semiring BigSum.
From GV.model Require Import Linear.
Import ListNotations.
Local Open Scope sr_scope.

Section BLK.
Variable S : StarSR.

Definition memn (x : nat) (l : list nat) : bool := existsb (Nat.eqb x) l.

(* block index of a node *)
Fixpoint block_of (x : nat) (bs : list (list nat)) (n : nat) : option nat :=
  match bs with
  | [] => None
  | b :: t => if memn x b then Some n else block_of x t (Datatypes.S n)
  end.

Definition nonzero (A : mat S) (i k : nat) : bool := negb (seqb (mget A i k) 0).

(* the blocks partition the nodes *)
Fixpoint nodupb (l : list nat) : bool :=
  match l with [] => true | x :: t => negb (memn x t) && nodupb t end.
Definition is_partition (nodes : list nat) (bs : list (list nat)) : bool :=
  nodupb (concat bs) && forallb (fun x => memn x (concat bs)) nodes && forallb (fun x => memn x nodes) (concat bs)
  && forallb (fun b => negb (Nat.eqb (length b) O)) bs.

(* every edge goes from a block to the same or a LATER block (sources first) *)
Definition forward_edges (nodes : list nat) (bs : list (list nat)) (A : mat S) : bool :=
  forallb (fun i => forallb (fun k =>
    if nonzero A i k then
      match block_of i bs O, block_of k bs O with
      | Some p, Some q => Nat.leb p q
      | _, _ => false
      end
    else true) nodes) nodes.

(* Boolean adjacency of A restricted to a block, and its reflexive-transitive closure *)
Definition adj_bool (block : list nat) (A : mat S) : mat BoolStar :=
  @tabulate BoolStar block (fun i k => (nonzero A i k : BoolStar)).
Definition strongly_connected (block : list nat) (A : mat S) : bool :=
  let R := @lehmann BoolStar block (adj_bool block A) in
  forallb (fun i => forallb (fun k => (@mget BoolStar R i k : bool)) block) block.

(* accepted iff bs lists exactly the strongly connected components, in an order compatible
   with the edges *)
Definition scc_check (nodes : list nat) (bs : list (list nat)) (A : mat S) : bool :=
  is_partition nodes bs && forward_edges nodes bs A && forallb (fun b => strongly_connected b A) bs.
End BLK.
Arguments memn x l. Arguments block_of x bs n. Arguments nonzero {S} A i k. Arguments is_partition nodes bs.
Arguments forward_edges {S} nodes bs A. Arguments adj_bool {S} block A. Arguments strongly_connected {S} block A.
Arguments scc_check {S} nodes bs A. Arguments nodupb l.
