(* Epsilon-aware, fuel-bounded path sums for automata, and conversions
   automaton -> grammar (WFSA.to_cfg).  Definitions only. *)
From Coq Require Import List Arith Bool Lia.
From GV.lib Require Import Semiring BigSum.
From GV.model Require Import Cfg Wfsa.
Import ListNotations.
Local Open Scope sr_scope.

Section EPSPATH.
Variable S : SR.

(* total weight of the paths with at most [fuel] arcs (epsilon arcs included) from q
   that spell xs and end in a final state *)
Fixpoint pwe (m : wfsa S) (fuel : nat) (q : nat) (xs : list nat) : S :=
  (match xs with [] => wget (wfinal m) q | _ => 0 end) +
  match fuel with
  | O => 0
  | Datatypes.S f =>
      bsum (warcs m) (fun ar =>
        if Nat.eqb (asrc ar) q then
          match albl ar with
          | None => awt ar * pwe m f (adst ar) xs
          | Some a => match xs with
                      | b :: t => if Nat.eqb a b then awt ar * pwe m f (adst ar) t else 0
                      | [] => 0
                      end
          end
        else 0)
  end.
Definition pathsum_e (m : wfsa S) (fuel : nat) (xs : list nat) : S :=
  bsum (winit m) (fun e => snd e * pwe m fuel (fst e) xs).

(* ---- WFSA.to_cfg, with state q named by nonterminal (nt q) and the start symbol s0.
   Terminals and nonterminals are different constructors of [sym], i.e. names are
   kept apart by type. *)
Definition to_cfg_right (s0 : nat) (nt : nat -> nat) (m : wfsa S) : grammar S :=
  map (fun e => (snd e, s0, [N (nt (fst e))])) (winit m) ++
  map (fun e => (snd e, nt (fst e), [])) (wfinal m) ++
  map (fun ar => match albl ar with
                 | None => (awt ar, nt (asrc ar), [N (nt (adst ar))])
                 | Some a => (awt ar, nt (asrc ar), [T a; N (nt (adst ar))])
                 end) (warcs m).

Definition to_cfg_left (s0 : nat) (nt : nat -> nat) (m : wfsa S) : grammar S :=
  map (fun e => (snd e, s0, [N (nt (fst e))])) (wfinal m) ++
  map (fun e => (snd e, nt (fst e), [])) (winit m) ++
  map (fun ar => match albl ar with
                 | None => (awt ar, nt (adst ar), [N (nt (asrc ar))])
                 | Some a => (awt ar, nt (adst ar), [N (nt (asrc ar)); T a])
                 end) (warcs m).

(* Python's is_terminal is "name in V": a body is a list of raw names and a name
   that happens to be in the alphabet is read as a terminal.  This is the faithful
   model of the shipped to_cfg on automata whose state names are also symbols. *)
Definition classify (V : list nat) (name : nat) : sym :=
  if existsb (Nat.eqb name) V then T name else N name.
Definition to_cfg_right_names (V : list nat) (s0 : nat) (m : wfsa S) : grammar S :=
  map (fun e => (snd e, s0, [classify V (fst e)])) (winit m) ++
  map (fun e => (snd e, fst e, [])) (wfinal m) ++
  map (fun ar => match albl ar with
                 | None => (awt ar, asrc ar, [classify V (adst ar)])
                 | Some a => (awt ar, asrc ar, [T a; classify V (adst ar)])
                 end) (warcs m).
End EPSPATH.
Arguments pwe {S} m fuel q xs. Arguments pathsum_e {S} m fuel xs.
Arguments to_cfg_right {S} s0 nt m. Arguments to_cfg_left {S} s0 nt m. Arguments to_cfg_right_names {S} V s0 m.
