(* Conjugation of weighted automata in matrix form (field_wfsa: forward_conjugate,
   backward_conjugate, min = forward_conjugate().backward_conjugate()).
   An automaton is a start row vector alpha, one square matrix M_a per symbol a and a stop
   column vector omega, all indexed by an explicit index list [dim]; the weight of a word
   w = a1...ak is alpha M_a1 ... M_ak omega.
   The forward conjugate with respect to a basis matrix F (rows indexed by the new states,
   columns by the old ones) and P = pinv(F) is
        start' = alpha P,   M'_a = F M_a P,   stop' = F omega
   and is justified by the identities  alpha = start' F,  F M_a = M'_a F,  stop' = F omega
   ("F intertwines the two automata").  Definitions only; everything is over a commutative
   semiring (no subtraction or division is used). *)
From Coq Require Import List Arith Bool Lia.
From GV.lib Require Import Semiring BigSum.
Import ListNotations.
Local Open Scope sr_scope.

Section CJ.
Variable S : SR.

Record mauto := mkMauto {
  dim    : list nat;                    (* index list (intended NoDup) *)
  mstart : nat -> S;                    (* alpha *)
  marc   : nat -> nat -> nat -> S;      (* symbol, row, column *)
  mstop  : nat -> S                     (* omega *)
}.

(* value vectors: mact A (a1...ak) = M_a1 (M_a2 (... (M_ak omega))) *)
Fixpoint mact (A : mauto) (w : list nat) : nat -> S :=
  match w with
  | [] => mstop A
  | a :: t => fun i => bsum (dim A) (fun j => marc A a i j * mact A t j)
  end.

Definition mweight (A : mauto) (w : list nat) : S :=
  bsum (dim A) (fun i => mstart A i * mact A w i).

(* F : rows indexed by dim B, columns by dim A.
     alpha_A = alpha_B F,   F M^A_a = M^B_a F,   omega_B = F omega_A *)
Definition intertwines (F : nat -> nat -> S) (A B : mauto) : Prop :=
     (forall j, In j (dim A) -> mstart A j = bsum (dim B) (fun i => mstart B i * F i j))
  /\ (forall a i j, In i (dim B) -> In j (dim A) ->
        bsum (dim A) (fun k => F i k * marc A a k j) = bsum (dim B) (fun k => marc B a i k * F k j))
  /\ (forall i, In i (dim B) -> mstop B i = bsum (dim A) (fun j => F i j * mstop A j)).

(* G : rows indexed by dim A, columns by dim B  (the backward conjugate B of A).
     alpha_B = alpha_A G,   M^A_a G = G M^B_a,   omega_A = G omega_B *)
Definition intertwines_back (G : nat -> nat -> S) (A B : mauto) : Prop :=
     (forall j, In j (dim B) -> mstart B j = bsum (dim A) (fun i => mstart A i * G i j))
  /\ (forall a i j, In i (dim A) -> In j (dim B) ->
        bsum (dim A) (fun k => marc A a i k * G k j) = bsum (dim B) (fun k => G i k * marc B a k j))
  /\ (forall i, In i (dim A) -> mstop A i = bsum (dim B) (fun j => G i j * mstop B j)).

(* the reversed automaton: transpose the matrices, swap start and stop *)
Definition mreverse (A : mauto) : mauto :=
  mkMauto (dim A) (mstop A) (fun a i j => marc A a j i) (mstart A).

Definition transpose (F : nat -> nat -> S) : nat -> nat -> S := fun i j => F j i.

(* the concrete forward conjugate: F is (dimB x dim A), P is (dim A x dimB) *)
Definition conj (dimB : list nat) (F P : nat -> nat -> S) (A : mauto) : mauto :=
  mkMauto dimB
    (fun i => bsum (dim A) (fun k => mstart A k * P k i))                                   (* alpha P *)
    (fun a i i' => bsum (dim A) (fun k => bsum (dim A) (fun l => F i k * marc A a k l * P l i')))  (* F M_a P *)
    (fun i => bsum (dim A) (fun j => F i j * mstop A j)).                                   (* F omega *)

(* the concrete backward conjugate: G is (dim A x dimB), Q is (dimB x dim A) *)
Definition conj_back (dimB : list nat) (G Q : nat -> nat -> S) (A : mauto) : mauto :=
  mkMauto dimB
    (fun j => bsum (dim A) (fun k => mstart A k * G k j))                                   (* alpha G *)
    (fun a i i' => bsum (dim A) (fun k => bsum (dim A) (fun l => Q i k * marc A a k l * G l i')))  (* Q M_a G *)
    (fun i => bsum (dim A) (fun j => Q i j * mstop A j)).                                   (* Q omega *)

End CJ.

Arguments mkMauto {S} dim mstart marc mstop.
Arguments dim {S} m. Arguments mstart {S} m _. Arguments marc {S} m _ _ _. Arguments mstop {S} m _.
Arguments mact {S} A w _. Arguments mweight {S} A w.
Arguments intertwines {S} F A B. Arguments intertwines_back {S} G A B.
Arguments mreverse {S} A. Arguments transpose {S} F _ _.
Arguments conj {S} dimB F P A. Arguments conj_back {S} dimB G Q A.
