(* Liveness of DFA states relative to the character set (lark_interface.interegular_to_wfsa):
   a state is live if a final state can be reached from it by single-character moves.  Definitions only. *)
From Coq Require Import List Arith Bool QArith Qcanon.
From GV.lib Require Import Semiring BigSum.
From GV.model Require Import Regex.
Import ListNotations.

Definition single_char_class (charset : list nat) (D : dfa) (c : nat) : bool :=
  existsb (fun s => match s with [_] => true | _ => false end) (expand charset D c).

Definition moves_into (charset : list nat) (D : dfa) (L : list nat) (outs : list (nat * nat)) : bool :=
  existsb (fun cj => memn (snd cj) L && single_char_class charset D (fst cj)) outs.

Definition live_step (charset : list nat) (D : dfa) (L : list nat) : list nat :=
  L ++ flat_map (fun e => if negb (memn (fst e) L) && moves_into charset D L (snd e) then [fst e] else []) (d_map D).

Fixpoint live_iter (charset : list nat) (D : dfa) (fuel : nat) (L : list nat) : list nat :=
  match fuel with O => L | S f => live_iter charset D f (live_step charset D L) end.

Definition live_of (charset : list nat) (D : dfa) : list nat :=
  live_iter charset D (S (length (d_map D))) (d_finals D).

(* the DFA with its live set recomputed relative to the character set *)
Definition with_live (charset : list nat) (D : dfa) : dfa :=
  mkD (d_init D) (d_finals D) (live_of charset D) (d_map D) (d_classes D) (d_alphabet D).
