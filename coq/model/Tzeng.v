(* Equivalence test for automata over a field (field_wfsa.Simple.counterexample, after
   Tzeng / Kiefer): search for a word w with d . M_w eta <> 0 while maintaining an orthogonal
   basis of the space spanned by the vectors M_w eta.  Here d = [start_A, -start_B],
   eta = [stop_A; stop_B], M_a = diag(A_a, B_a) (the "difference automaton").
   Vectors are functions on an index list, frozen into tables after each step.  Definitions only. *)
From Coq Require Import List Arith Bool Lia.
From GV.lib Require Import Semiring BigSum.
Import ListNotations.
Local Open Scope sr_scope.

Section TZ.
Variable F : FR.
Variable idx : list nat.                       (* the state indices 0..n-1 *)

Definition vec := nat -> F.
Definition dot (u v : vec) : F := bsum idx (fun i => u i * v i).
Definition vzero : vec := fun _ => 0.
Definition vsub (u v : vec) : vec := fun i => fsub F (u i) (v i).
Definition vscale (c : F) (u : vec) : vec := fun i => c * u i.
Definition mv (M : nat -> nat -> F) (v : vec) : vec := fun i => bsum idx (fun j => M i j * v j).
Definition is_zero (u : vec) : bool := forallb (fun i => seqb (u i) 0) idx.

(* tabulate a vector (so that nested closures are not re-evaluated) *)
Fixpoint lookup (l : list (nat * F)) (i : nat) : F :=
  match l with [] => 0 | (k, v) :: t => if Nat.eqb i k then v else lookup t i end.
Definition freeze (u : vec) : vec := let l := map (fun i => (i, u i)) idx in lookup l.

(* Gram-Schmidt residual of u against the vectors of Q (field_wfsa.proj) *)
Definition proj1 (u q : vec) : vec := vsub u (vscale (fdiv F (dot q u) (dot q q)) q).
Definition proj (u : vec) (Q : list vec) : vec := fold_left (fun u q => freeze (proj1 u q)) Q u.

(* act w eta = M_{w1} (M_{w2} (... eta)) : the word is consumed from the right *)
Fixpoint act (M : nat -> nat -> nat -> F) (w : list nat) (eta : vec) : vec :=
  match w with [] => eta | a :: t => mv (M a) (act M t eta) end.

(* one work-list item (w, V) expanded over the alphabet: returns a counterexample or the new
   work list and basis *)
Fixpoint expand (M : nat -> nat -> nat -> F) (d : vec) (alphabet : list nat) (w : list nat) (V : vec)
         (work : list (list nat * vec)) (basis : list vec)
  : (list nat * F) + (list (list nat * vec) * list vec) :=
  match alphabet with
  | [] => inr (work, basis)
  | a :: rest =>
      let u := freeze (mv (M a) V) in
      let val := dot d u in
      if negb (seqb val 0) then inl (a :: w, val)
      else let q := proj u basis in
           if is_zero q then expand M d rest w V work basis
           else expand M d rest w V ((a :: w, u) :: work) (basis ++ [q])
  end.

Fixpoint search (M : nat -> nat -> nat -> F) (d : vec) (alphabet : list nat) (fuel : nat)
         (work : list (list nat * vec)) (basis : list vec) : option (option (list nat * F)) :=
  match fuel with
  | O => None                                                   (* out of fuel *)
  | Datatypes.S f =>
      match work with
      | [] => Some None                                          (* no counterexample: equivalent *)
      | (w, V) :: rest =>
          match expand M d alphabet w V rest basis with
          | inl cex => Some (Some cex)
          | inr (work', basis') => search M d alphabet f work' basis'
          end
      end
  end.

Definition counterexample (M : nat -> nat -> nat -> F) (d eta : vec) (alphabet : list nat) (fuel : nat)
  : option (option (list nat * F)) :=
  let v0 := dot d eta in
  if negb (seqb v0 0) then Some (Some ([], v0))
  else if is_zero eta then Some None
  else search M d alphabet fuel [([], freeze eta)] [freeze eta].
End TZ.
Arguments dot {F} idx u v. Arguments mv {F} idx M v. Arguments act {F} idx M w eta. Arguments proj {F} idx u Q.
Arguments freeze {F} idx u. Arguments is_zero {F} idx u. Arguments search {F} idx M d alphabet fuel work basis.
Arguments counterexample {F} idx M d eta alphabet fuel. Arguments expand {F} idx M d alphabet w V work basis.
Arguments proj1 {F} idx u q. Arguments vsub {F} u v. Arguments vscale {F} c u. Arguments vzero {F}. Arguments lookup {F} l i.
