(* CKY evaluation of a grammar in Chomsky normal form (CFG._parse_chart), as a
   memo-free recursion, and the CNF predicate (CFG.in_cnf).  Definitions only. *)
From Coq Require Import List Arith Bool Lia.
From GV.lib Require Import Semiring BigSum.
From GV.model Require Import Cfg.
Import ListNotations.
Local Open Scope sr_scope.

Section CKY.
Variable S : SR.

(* CFG._find_invalid_cnf_rule: S -> eps | A -> a | A -> B C with B, C <> S *)
Definition cnf_rule (s : nat) (r : rule S) : bool :=
  match rbody r with
  | [] => Nat.eqb (rhead r) s
  | [T _] => true
  | [N y; N z] => negb (Nat.eqb y s) && negb (Nat.eqb z s)
  | _ => false
  end.
Definition in_cnf (s : nat) (G : grammar S) : bool := forallb (cnf_rule s) G.

(* proper splits: both parts non-empty *)
Definition psplits {A} (l : list A) : list (list A * list A) :=
  filter (fun p => negb (Nat.eqb (length (fst p)) O) && negb (Nat.eqb (length (snd p)) O)) (splits l).

(* weight of a non-empty string from X; fuel bounds the recursion depth (>= length) *)
Fixpoint ckyf (G : grammar S) (fuel : nat) (X : nat) (xs : list nat) : S :=
  match fuel with
  | O => 0
  | Datatypes.S f =>
      match xs with
      | [] => 0
      | [a] => bsum G (fun r => match rbody r with
                                | [T b] => if Nat.eqb (rhead r) X && Nat.eqb a b then rw r else 0
                                | _ => 0 end)
      | _ => bsum G (fun r => match rbody r with
                              | [N y; N z] => if Nat.eqb (rhead r) X
                                              then bsum (psplits xs) (fun p => rw r * ckyf G f y (fst p) * ckyf G f z (snd p))
                                              else 0
                              | _ => 0 end)
      end
  end.

(* cfg._parse_chart(xs)[0, S, len(xs)] *)
Definition cky (G : grammar S) (s : nat) (xs : list nat) : S :=
  match xs with
  | [] => bsum G (fun r => match rbody r with [] => rw r | _ => 0 end)
  | _ => ckyf G (length xs) s xs
  end.
End CKY.
Arguments cnf_rule {S} s r. Arguments in_cnf {S} s G. Arguments ckyf {S} G fuel X xs. Arguments cky {S} G s xs.
Arguments psplits {A} l.
