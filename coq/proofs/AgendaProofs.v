(* 1. The semi-naive identity behind the update of CFG.agenda: when old[u] becomes
      new = old[u] + v, the sum over the routing positions k of u in a rule body of
      the products (new before k, v at k, old after k) is exactly the change of the
      body product.
   2. The naive Kleene iterate bu_iter G h is the sum of the weights of all the
      derivation trees of height <= h. *)
From Coq Require Import List Arith Bool Lia.
From GV.lib Require Import Semiring BigSum.
From GV.model Require Import Cfg Agenda Wfsa WfsaEps.
From GV.gen Require Import Gen_Exprs.
From GV.proofs Require Import CfgTrees.
Import ListNotations.
Local Open Scope sr_scope.

Lemma sym_eqb_eq (u y : sym) : sym_eqb u y = true <-> u = y.
Proof.
  destruct u as [a|a], y as [b|b]; simpl; split; intros H; try discriminate.
  - apply Nat.eqb_eq in H. subst; reflexivity.
  - injection H as ->. apply Nat.eqb_refl.
  - apply Nat.eqb_eq in H. subst; reflexivity.
  - injection H as ->. apply Nat.eqb_refl.
Qed.

Lemma sym_eqb_refl (u : sym) : sym_eqb u u = true.
Proof. apply sym_eqb_eq; reflexivity. Qed.

Section AgendaProofs.
Variable S : SR.
Add Ring SRing : (sth S).

(* ---------- 1. the semi-naive identity ---------- *)

(* [factor] and [occ] with an arbitrary start index *)
Definition fac_from (old : sym -> S) (u : sym) (new v : S) (o : nat) (body : list sym) (k : nat) : S :=
  sprod (map (fun jy : nat * sym =>
                if sym_eqb u (snd jy) then agenda_sel S (fst jy) k new v (old u) else old (snd jy))
             (combine (seq o (length body)) body)).

Definition occ_from (u : sym) (o : nat) (body : list sym) : list nat :=
  map fst (filter (fun jy : nat * sym => sym_eqb u (snd jy)) (combine (seq o (length body)) body)).

Lemma fac_from_0 old u new v body k :
  factor (agenda_sel S) old u new v body k = fac_from old u new v O body k.
Proof. reflexivity. Qed.

Lemma occ_from_0 u body : occ u body = occ_from u O body.
Proof. reflexivity. Qed.

Lemma fac_from_cons old u new v o y t k :
  fac_from old u new v o (y :: t) k
  = (if sym_eqb u y then agenda_sel S o k new v (old u) else old y) * fac_from old u new v (Datatypes.S o) t k.
Proof. reflexivity. Qed.

Lemma occ_from_cons u o y t :
  occ_from u o (y :: t) = if sym_eqb u y then o :: occ_from u (Datatypes.S o) t else occ_from u (Datatypes.S o) t.
Proof. unfold occ_from. simpl. destruct (sym_eqb u y); reflexivity. Qed.

Lemma occ_from_ge u body : forall o k, In k (occ_from u o body) -> o <= k.
Proof.
  induction body as [|y t IH]; intros o k Hin.
  - contradiction.
  - rewrite occ_from_cons in Hin. destruct (sym_eqb u y).
    + destruct Hin as [Hin|Hin]; [lia|]. apply IH in Hin. lia.
    + apply IH in Hin. lia.
Qed.

(* a routing position before the whole list: every occurrence of u uses old u *)
Lemma fac_from_before old u new v body : forall o k, k < o ->
  fac_from old u new v o body k = sprod (map old body).
Proof.
  induction body as [|y t IH]; intros o k Hk.
  - reflexivity.
  - rewrite fac_from_cons. rewrite IH by lia. simpl map. simpl sprod.
    destruct (sym_eqb u y) eqn:E; [|reflexivity].
    apply sym_eqb_eq in E. subst y. unfold agenda_sel.
    destruct (Nat.ltb_spec o k) as [H|H]; [lia|].
    destruct (Nat.eqb_spec o k) as [H'|H']; [lia|]. reflexivity.
Qed.

Lemma seminaive_from old u v body : forall o,
  sprod (map (upd old u (agenda_new S (old u) v)) body)
  = sprod (map old body)
    + bsum (occ_from u o body) (fac_from old u (agenda_new S (old u) v) v o body).
Proof.
  set (new := agenda_new S (old u) v).
  induction body as [|y t IH]; intros o.
  - simpl. unfold occ_from. simpl. rewrite bsum_nil. ring.
  - simpl map. simpl sprod. rewrite (IH (Datatypes.S o)). rewrite occ_from_cons.
    unfold upd at 1. destruct (sym_eqb u y) eqn:E.
    + apply sym_eqb_eq in E. subst y. rewrite bsum_cons.
      rewrite fac_from_cons. rewrite sym_eqb_refl.
      rewrite fac_from_before by lia.
      assert (Hsum : bsum (occ_from u (Datatypes.S o) t) (fac_from old u new v o (u :: t))
                     = new * bsum (occ_from u (Datatypes.S o) t) (fac_from old u new v (Datatypes.S o) t)).
      { rewrite <- bsum_mul_l. apply bsum_ext; intros k Hk. apply occ_from_ge in Hk.
        rewrite fac_from_cons. rewrite sym_eqb_refl. unfold agenda_sel.
        destruct (Nat.ltb_spec o k) as [H|H]; [reflexivity|lia]. }
      rewrite Hsum.
      assert (Hsel : agenda_sel S o o new v (old u) = v).
      { unfold agenda_sel. rewrite Nat.ltb_irrefl, Nat.eqb_refl. reflexivity. }
      rewrite Hsel. unfold new at 1 3. unfold agenda_new. ring.
    + assert (Hsum : bsum (occ_from u (Datatypes.S o) t) (fac_from old u new v o (y :: t))
                     = old y * bsum (occ_from u (Datatypes.S o) t) (fac_from old u new v (Datatypes.S o) t)).
      { rewrite <- bsum_mul_l. apply bsum_ext; intros k _.
        rewrite fac_from_cons. rewrite E. reflexivity. }
      rewrite Hsum. ring.
Qed.

Theorem seminaive_identity : forall (old : sym -> S) (u : sym) (v : S) (body : list sym),
  let new := agenda_new S (old u) v in
  sprod (map (upd old u new) body)
  = sprod (map old body) + bsum (occ u body) (fun k => factor (agenda_sel S) old u new v body k).
Proof.
  intros old u v body new. unfold new.
  rewrite (seminaive_from old u v body O). rewrite occ_from_0.
  f_equal.
Qed.

(* ---------- 2. the Kleene iterate is the height-bounded tree sum ---------- *)

Lemma fweight_cons (t : tree S) (fo : forest S) : fweight (Fcons t fo) = tweight t * fweight fo.
Proof. reflexivity. Qed.
Lemma tweight_leaf a : tweight (@Leaf S a) = 1.
Proof. reflexivity. Qed.
Lemma tweight_node i (r : rule S) k : tweight (Node i r k) = rw r * fweight k.
Proof. reflexivity. Qed.
Lemma fweight_nil : fweight (@Fnil S) = 1.
Proof. reflexivity. Qed.

Lemma sprod_forests (tr : nat -> list (tree S)) (V : nat -> S) :
  (forall Y, V Y = bsum (tr Y) tweight) ->
  forall body, sprod (map (sval V) body) = bsum (forests_of tr body) fweight.
Proof.
  intros HV. induction body as [|s rest IH].
  - simpl. rewrite bsum_cons, bsum_nil, fweight_nil. ring.
  - simpl map. simpl sprod. rewrite IH. destruct s as [a|Y].
    + cbn [forests_of sval]. rewrite bsum_map. rewrite <- bsum_mul_l.
      apply bsum_ext; intros fo _. rewrite fweight_cons, tweight_leaf. reflexivity.
    + cbn [forests_of sval]. rewrite HV. rewrite bsum_flat_map.
      rewrite bsum_bsum_mul. apply bsum_ext; intros t _.
      rewrite bsum_map. apply bsum_ext; intros fo _. rewrite fweight_cons. reflexivity.
Qed.

Theorem bu_iter_trees : forall (G : grammar S) (h X : nat),
  bu_iter G h X = bsum (trees G h X) tweight.
Proof.
  intros G h; induction h as [|h IH]; intros X; [reflexivity|].
  cbn [bu_iter trees]. unfold bu_step. rewrite bsum_flat_map.
  rewrite <- bsum_indexed. apply bsum_ext; intros [i r] _. simpl fst; simpl snd.
  destruct (Nat.eqb (rhead r) X); [|reflexivity].
  rewrite bsum_map. rewrite (sprod_forests (trees G h) (bu_iter G h) IH).
  rewrite <- bsum_mul_l. apply bsum_ext; intros fo _.
  rewrite tweight_node. reflexivity.
Qed.

End AgendaProofs.

Print Assumptions seminaive_identity.
Print Assumptions bu_iter_trees.
