(* Folding preserves the solutions of the grammar's equation system.
   A solution of G is a valuation f with  f X xs = gstep G f X xs  for all X, xs.
   1. separate_terminals (GOAL 3): solutions of G and of separate_terminals pt G correspond.
   2. one fold step (GOAL 1): X -> y1 y2 rest  becomes  F -> y1 y2 (weight one), X -> F rest.
   3. binarize (GOAL 2): solutions of G and of binarize fresh G correspond.
   No axioms. *)
From Coq Require Import List Arith Bool Lia.
From GV.lib Require Import Semiring BigSum.
From GV.model Require Import Cfg Transform Cky Transform2.
From GV.proofs Require Import UnfoldProofs CkyProofs ShapeProofs.
Import ListNotations.
Local Open Scope sr_scope.

Section FoldProofs.
Variable S : SR.
Add Ring FoldRing : (sth S).

Local Notation Sn := Datatypes.S.

(* f is a solution of the equation system of G *)
Definition solves (G : grammar S) (f : nat -> list nat -> S) : Prop :=
  forall X xs, f X xs = gstep S G f X xs.

(* ====================================================================== *)
(* 0. generalities on gstep                                               *)
(* ====================================================================== *)

Lemma gstep_app (G1 G2 : grammar S) f X xs :
  gstep S (G1 ++ G2) f X xs = gstep S G1 f X xs + gstep S G2 f X xs.
Proof. unfold gstep. apply bsum_app. Qed.

Lemma gstep_cons (r : rule S) (G : grammar S) f X xs :
  gstep S (r :: G) f X xs = term S f X xs r + gstep S G f X xs.
Proof. reflexivity. Qed.

Lemma gstep_nil f X xs : gstep S [] f X xs = 0.
Proof. reflexivity. Qed.

Lemma gstep_nohead (G : grammar S) f X xs :
  (forall r, In r G -> rhead r <> X) -> gstep S G f X xs = 0.
Proof.
  intros Hh. unfold gstep. apply bsum_zero. intros r Hr.
  destruct (Nat.eqb_spec (rhead r) X) as [E|E]; [exfalso; exact (Hh r Hr E)|reflexivity].
Qed.

Lemma gstep_ext_in (G : grammar S) f g X xs :
  (forall r Y ys, In r G -> In (N Y) (rbody r) -> f Y ys = g Y ys) ->
  gstep S G f X xs = gstep S G g X xs.
Proof.
  intros Hfg. unfold gstep. apply bsum_ext. intros r Hr.
  destruct (Nat.eqb (rhead r) X); [|reflexivity].
  f_equal. apply Wb_ext_in. intros Y ys HY. exact (Hfg r Y ys Hr HY).
Qed.

(* a valuation that satisfies F = y1 y2 folds the first two symbols of a body *)
Lemma Wb_fold (g : nat -> list nat -> S) F y1 y2 rest :
  (forall ys, g F ys = Wb g [y1; y2] ys) ->
  forall xs, Wb g (N F :: rest) xs = Wb g (y1 :: y2 :: rest) xs.
Proof.
  intros HF xs. change (y1 :: y2 :: rest) with ([y1; y2] ++ rest). rewrite Wb_app.
  change (Wb g (N F :: rest) xs) with (bsum (splits xs) (fun p => g F (fst p) * Wb g rest (snd p))).
  apply bsum_ext; intros p _. rewrite HF. reflexivity.
Qed.

(* ====================================================================== *)
(* 1. separate_terminals                                                  *)
(* ====================================================================== *)

(* the weight function of a preterminal: [xs = [a]] *)
Definition delta (a : nat) (xs : list nat) : S :=
  match xs with [b] => if Nat.eqb a b then 1 else 0 | _ => 0 end.

Lemma splits_nilw_l (g : list nat -> S) t :
  bsum (splits t) (fun p => nilw S (fst p) * g (snd p)) = g t.
Proof.
  destruct t as [|c t].
  - cbn [splits]. rewrite bsum_cons, bsum_nil. cbn [fst snd nilw]. ring.
  - cbn [splits]. rewrite bsum_cons, bsum_map. cbn [fst snd nilw].
    rewrite bsum_zero; [ring|]. intros p _. ring.
Qed.

Lemma splits_delta a (g : list nat -> S) xs :
  bsum (splits xs) (fun p => delta a (fst p) * g (snd p))
  = match xs with b :: xs' => if Nat.eqb a b then g xs' else 0 | [] => 0 end.
Proof.
  destruct xs as [|b t].
  - cbn [splits]. rewrite bsum_cons, bsum_nil. cbn [fst snd delta]. ring.
  - cbn [splits]. rewrite bsum_cons, bsum_map. cbn [fst snd].
    destruct (Nat.eqb a b) eqn:E.
    + rewrite (bsum_ext S (splits t) _ (fun p => nilw S (fst p) * g (snd p))).
      * rewrite splits_nilw_l. cbn [delta]. ring.
      * intros p _. unfold delta. rewrite E. destruct (fst p); reflexivity.
    + rewrite bsum_zero; [cbn [delta]; ring|].
      intros p _. unfold delta. rewrite E. destruct (fst p); ring.
Qed.

(* key lemma: once the preterminals have their intended weights, replacing the
   terminals of a body by their preterminals does not change the body weight *)
Lemma Wb_sep (pt : nat -> nat) (f : nat -> list nat -> S) body :
  (forall a, In (T a) body -> forall ys, f (pt a) ys = delta a ys) ->
  forall xs, Wb f (map (sep_sym pt) body) xs = Wb f body xs.
Proof.
  induction body as [|[a|Y] rest IH]; intros Hpt xs.
  - reflexivity.
  - cbn [map sep_sym].
    change (Wb f (N (pt a) :: map (sep_sym pt) rest) xs)
      with (bsum (splits xs) (fun p => f (pt a) (fst p) * Wb f (map (sep_sym pt) rest) (snd p))).
    rewrite (bsum_ext S (splits xs) _ (fun p => delta a (fst p) * Wb f rest (snd p))).
    + rewrite splits_delta. reflexivity.
    + intros p _. rewrite (Hpt a (or_introl eq_refl)). rewrite IH; [reflexivity|].
      intros a' Ha'. apply Hpt. right; exact Ha'.
  - cbn [map sep_sym Wb]. apply bsum_ext; intros p _. rewrite IH; [reflexivity|].
    intros a' Ha'. apply Hpt. right; exact Ha'.
Qed.

Definition pt_rule (pt : nat -> nat) (a : nat) : rule S := (1, pt a, [T a]).

Definition sep_rule (pt : nat -> nat) (r : rule S) : rule S :=
  match rbody r with
  | [T _] => r
  | b => (rw r, rhead r, map (sep_sym pt) b)
  end.

Lemma separate_terminals_eq pt (G : grammar S) :
  separate_terminals pt G = map (pt_rule pt) (terminals_of G) ++ map (sep_rule pt) G.
Proof. reflexivity. Qed.

Lemma sep_rule_cases pt (r : rule S) :
  (exists a, rbody r = [T a] /\ sep_rule pt r = r)
  \/ ((forall a, rbody r <> [T a]) /\ sep_rule pt r = (rw r, rhead r, map (sep_sym pt) (rbody r))).
Proof.
  destruct r as [[w h] b]. unfold sep_rule. cbn [rbody rw rhead fst snd].
  destruct b as [|[a|x] [|s t]]; try (right; split; [intros a'; discriminate|reflexivity]).
  left. exists a. split; reflexivity.
Qed.

Lemma sep_rule_head pt (r : rule S) : rhead (sep_rule pt r) = rhead r.
Proof. destruct (sep_rule_cases pt r) as [[a [_ E]]|[_ E]]; rewrite E; reflexivity. Qed.

Lemma sep_rule_rw pt (r : rule S) : rw (sep_rule pt r) = rw r.
Proof. destruct (sep_rule_cases pt r) as [[a [_ E]]|[_ E]]; rewrite E; reflexivity. Qed.

Lemma in_terminals_of (G : grammar S) r a :
  In r G -> (forall c, rbody r <> [T c]) -> In (T a) (rbody r) -> In a (terminals_of G).
Proof.
  intros Hr Hn Ha. unfold terminals_of. apply nodup_In. apply in_flat_map.
  exists r. split; [exact Hr|].
  assert (Hin : In a (flat_map (fun y => match y with T a => [a] | N _ => [] end) (rbody r))).
  { apply in_flat_map. exists (T a). split; [exact Ha|left; reflexivity]. }
  destruct (rbody r) as [|[c|x] [|s t]]; try exact Hin.
  exfalso. apply (Hn c). reflexivity.
Qed.

Lemma terminals_of_NoDup (G : grammar S) : NoDup (terminals_of G).
Proof. unfold terminals_of. apply NoDup_nodup. Qed.

(* the body weights of the separated rules *)
Lemma sep_rule_Wb pt (G : grammar S) (g : nat -> list nat -> S) r xs :
  (forall a ys, In a (terminals_of G) -> g (pt a) ys = delta a ys) ->
  In r G -> Wb g (rbody (sep_rule pt r)) xs = Wb g (rbody r) xs.
Proof.
  intros Hd Hr. destruct (sep_rule_cases pt r) as [[a [_ E]]|[Hn E]]; rewrite E; [reflexivity|].
  cbn [rbody snd]. apply Wb_sep. intros a Ha ys. apply Hd.
  exact (in_terminals_of G r a Hr Hn Ha).
Qed.

Lemma gstep_sep_rules pt (G : grammar S) (g : nat -> list nat -> S) Z xs :
  (forall a ys, In a (terminals_of G) -> g (pt a) ys = delta a ys) ->
  gstep S (map (sep_rule pt) G) g Z xs = gstep S G g Z xs.
Proof.
  intros Hd. unfold gstep. rewrite bsum_map. apply bsum_ext. intros r Hr.
  rewrite sep_rule_head, sep_rule_rw, (sep_rule_Wb pt G g r xs Hd Hr). reflexivity.
Qed.

Lemma gstep_sep_rules_nohead pt (G : grammar S) (g : nat -> list nat -> S) Z xs :
  (forall r, In r G -> rhead r <> Z) -> gstep S (map (sep_rule pt) G) g Z xs = 0.
Proof.
  intros Hh. apply gstep_nohead. intros r Hr. apply in_map_iff in Hr.
  destruct Hr as [r0 [E H0]]. subst r. rewrite sep_rule_head. apply Hh; exact H0.
Qed.

Lemma gstep_pt_rules pt (l : list nat) (g : nat -> list nat -> S) Z xs :
  gstep S (map (pt_rule pt) l) g Z xs = bsum l (fun a => if Nat.eqb (pt a) Z then delta a xs else 0).
Proof.
  unfold gstep. rewrite bsum_map. apply bsum_ext. intros a _.
  unfold pt_rule. cbn [rhead rw rbody fst snd]. rewrite Wb_T1.
  destruct (Nat.eqb (pt a) Z); [|reflexivity]. unfold delta. ring.
Qed.

Lemma gstep_pt_rules_at pt (l : list nat) (g : nat -> list nat -> S) a xs :
  (forall p q, pt p = pt q -> p = q) -> NoDup l -> In a l ->
  gstep S (map (pt_rule pt) l) g (pt a) xs = delta a xs.
Proof.
  intros Hinj Hnd Ha. rewrite gstep_pt_rules.
  rewrite (bsum_ext S l _ (fun a' => if Nat.eqb a' a then delta a' xs else 0)).
  - rewrite (bsum_delta S Nat.eqb Nat.eqb_eq l a (fun a' => delta a' xs) Hnd).
    assert (E : existsb (fun a' => Nat.eqb a' a) l = true).
    { apply existsb_exists. exists a. split; [exact Ha|apply Nat.eqb_refl]. }
    rewrite E. reflexivity.
  - intros a' _. rewrite (eqb_inj_f pt Hinj). reflexivity.
Qed.

Lemma gstep_pt_rules_other pt (l : list nat) (g : nat -> list nat -> S) Z xs :
  (forall a, In a l -> Z <> pt a) -> gstep S (map (pt_rule pt) l) g Z xs = 0.
Proof.
  intros HZ. apply gstep_nohead. intros r Hr. apply in_map_iff in Hr.
  destruct Hr as [a [E Ha]]. subst r. unfold pt_rule; cbn [rhead fst snd].
  intros E. exact (HZ a Ha (eq_sym E)).
Qed.

(* every solution of the separated grammar gives the preterminals their intended weight *)
Lemma sep_solution_pt pt (G : grammar S) f' :
  (forall p q, pt p = pt q -> p = q) ->
  (forall r a, In r G -> In a (terminals_of G) -> rhead r <> pt a) ->
  solves (separate_terminals pt G) f' ->
  forall a ys, In a (terminals_of G) -> f' (pt a) ys = delta a ys.
Proof.
  intros Hinj Hheads Hsol a ys Ha.
  rewrite (Hsol (pt a) ys), separate_terminals_eq, gstep_app.
  rewrite (gstep_pt_rules_at pt _ f' a ys Hinj (terminals_of_NoDup G) Ha).
  rewrite gstep_sep_rules_nohead; [ring|].
  intros r Hr. exact (Hheads r a Hr Ha).
Qed.

(* GOAL 3 (b) *)
Theorem separate_terminals_restrict :
  forall (pt : nat -> nat) (G : grammar S) (f' : nat -> list nat -> S),
    (forall p q, pt p = pt q -> p = q) ->
    (forall r a, In r G -> In a (terminals_of G) -> rhead r <> pt a) ->
    solves (separate_terminals pt G) f' ->
    (forall a ys, In a (terminals_of G) -> f' (pt a) ys = delta a ys) /\
    (forall Z xs, (forall a, In a (terminals_of G) -> Z <> pt a) -> f' Z xs = gstep S G f' Z xs).
Proof.
  intros pt G f' Hinj Hheads Hsol.
  pose proof (sep_solution_pt pt G f' Hinj Hheads Hsol) as Hd.
  split; [exact Hd|]. intros Z xs HZ.
  rewrite (Hsol Z xs) at 1. rewrite separate_terminals_eq, gstep_app.
  rewrite (gstep_pt_rules_other pt _ f' Z xs HZ).
  rewrite (gstep_sep_rules pt G f' Z xs Hd). ring.
Qed.

(* the extension of a valuation to the preterminals *)
Definition sep_ext (pt : nat -> nat) (G : grammar S) (f : nat -> list nat -> S) : nat -> list nat -> S :=
  fun Z xs => match find (fun a => Nat.eqb (pt a) Z) (terminals_of G) with
              | Some a => delta a xs
              | None => f Z xs
              end.

Lemma sep_ext_pt pt (G : grammar S) f a ys :
  (forall p q, pt p = pt q -> p = q) -> In a (terminals_of G) -> sep_ext pt G f (pt a) ys = delta a ys.
Proof.
  intros Hinj Ha. unfold sep_ext.
  destruct (find (fun a0 => Nat.eqb (pt a0) (pt a)) (terminals_of G)) as [a'|] eqn:E.
  - apply find_some in E. destruct E as [_ E]. apply Nat.eqb_eq in E. apply Hinj in E. subst a'. reflexivity.
  - exfalso. pose proof (find_none _ _ E a Ha) as H. cbv beta in H. rewrite Nat.eqb_refl in H. discriminate H.
Qed.

Lemma sep_ext_other pt (G : grammar S) f Z ys :
  (forall a, In a (terminals_of G) -> Z <> pt a) -> sep_ext pt G f Z ys = f Z ys.
Proof.
  intros HZ. unfold sep_ext.
  destruct (find (fun a0 => Nat.eqb (pt a0) Z) (terminals_of G)) as [a'|] eqn:E; [|reflexivity].
  exfalso. apply find_some in E. destruct E as [Ha E]. apply Nat.eqb_eq in E.
  exact (HZ a' Ha (eq_sym E)).
Qed.

(* GOAL 3 (a) *)
Theorem separate_terminals_extend :
  forall (pt : nat -> nat) (G : grammar S) (f : nat -> list nat -> S),
    (forall p q, pt p = pt q -> p = q) ->
    (forall r a, In r G -> In a (terminals_of G) -> rhead r <> pt a) ->
    (forall r a, In r G -> In a (terminals_of G) -> ~ In (N (pt a)) (rbody r)) ->
    solves G f ->
    solves (separate_terminals pt G) (sep_ext pt G f) /\
    (forall a ys, In a (terminals_of G) -> sep_ext pt G f (pt a) ys = delta a ys) /\
    (forall Z ys, (forall a, In a (terminals_of G) -> Z <> pt a) -> sep_ext pt G f Z ys = f Z ys).
Proof.
  intros pt G f Hinj Hheads Hbodies Hsol.
  assert (Hd : forall a ys, In a (terminals_of G) -> sep_ext pt G f (pt a) ys = delta a ys).
  { intros a ys Ha. apply sep_ext_pt; assumption. }
  split; [|split; [exact Hd|intros Z ys HZ; apply sep_ext_other; exact HZ]].
  intros Z xs. rewrite separate_terminals_eq, gstep_app.
  rewrite (gstep_sep_rules pt G _ Z xs Hd).
  destruct (find (fun a => Nat.eqb (pt a) Z) (terminals_of G)) as [a|] eqn:E.
  - apply find_some in E. destruct E as [Ha E]. apply Nat.eqb_eq in E. subst Z.
    rewrite (Hd a xs Ha).
    rewrite (gstep_pt_rules_at pt _ _ a xs Hinj (terminals_of_NoDup G) Ha).
    rewrite gstep_nohead; [ring|]. intros r Hr. exact (Hheads r a Hr Ha).
  - assert (HZ : forall a, In a (terminals_of G) -> Z <> pt a).
    { intros a Ha EZ. pose proof (find_none _ _ E a Ha) as H. cbv beta in H.
      rewrite <- EZ, Nat.eqb_refl in H. discriminate H. }
    rewrite (sep_ext_other pt G f Z xs HZ).
    rewrite (gstep_pt_rules_other pt _ _ Z xs HZ).
    rewrite (Hsol Z xs) at 1.
    rewrite (gstep_ext_in G f (sep_ext pt G f) Z xs); [ring|].
    intros r Y ys Hr HY. symmetry. apply sep_ext_other.
    intros a Ha EY. subst Y. exact (Hbodies r a Hr Ha HY).
Qed.

(* ====================================================================== *)
(* 2. one fold step                                                       *)
(* ====================================================================== *)

(* rule number i, X -> y1 y2 rest with weight w, is replaced in place by
   F -> y1 y2 (weight one) followed by X -> F rest (weight w), as bin_body does *)
Definition fold_at (i F : nat) (w : S) (X : nat) (y1 y2 : sym) (rest : list sym) (G : grammar S) : grammar S :=
  firstn i G ++ (1, F, [y1; y2]) :: (w, X, N F :: rest) :: skipn (Sn i) G.

(* the equation of the new nonterminal *)
Lemma fold_at_F i F w X y1 y2 rest (G : grammar S) (g : nat -> list nat -> S) xs :
  nth_error G i = Some (w, X, y1 :: y2 :: rest) ->
  (forall r, In r G -> rhead r <> F) ->
  gstep S (fold_at i F w X y1 y2 rest G) g F xs = Wb g [y1; y2] xs.
Proof.
  intros Hi Hheads. destruct (nth_error_split_eq G i _ Hi) as [E _].
  unfold fold_at. set (pre := firstn i G) in *. set (post := skipn (Sn i) G) in *.
  clearbody pre post. subst G.
  assert (HX : X <> F).
  { apply (Hheads (w, X, y1 :: y2 :: rest)). apply in_or_app. right; left; reflexivity. }
  rewrite gstep_app, !gstep_cons, !term_mk.
  rewrite Nat.eqb_refl. replace (Nat.eqb X F) with false by (symmetry; apply Nat.eqb_neq; exact HX).
  rewrite (gstep_nohead pre), (gstep_nohead post).
  - ring.
  - intros r Hr. apply Hheads. apply in_or_app. right; right; exact Hr.
  - intros r Hr. apply Hheads. apply in_or_app. left; exact Hr.
Qed.

(* one-step identity: for a valuation that satisfies the equation of F, the folded
   grammar and the original one have the same one-step operator away from F *)
Lemma fold_one_step i F w X y1 y2 rest (G : grammar S) (g : nat -> list nat -> S) :
  nth_error G i = Some (w, X, y1 :: y2 :: rest) ->
  (forall ys, g F ys = Wb g [y1; y2] ys) ->
  forall Z xs, Z <> F -> gstep S (fold_at i F w X y1 y2 rest G) g Z xs = gstep S G g Z xs.
Proof.
  intros Hi HF Z xs HZ. destruct (nth_error_split_eq G i _ Hi) as [E _].
  unfold fold_at. set (pre := firstn i G) in *. set (post := skipn (Sn i) G) in *.
  clearbody pre post. subst G.
  rewrite !gstep_app, !gstep_cons, !term_mk.
  replace (Nat.eqb F Z) with false by (symmetry; apply Nat.eqb_neq; intros E; apply HZ; symmetry; exact E).
  rewrite (Wb_fold g F y1 y2 rest HF xs). ring.
Qed.

(* GOAL 1 (b) *)
Theorem fold_restrict :
  forall (G : grammar S) (i F : nat) (w : S) (X : nat) (y1 y2 : sym) (rest : list sym)
         (f' : nat -> list nat -> S),
    nth_error G i = Some (w, X, y1 :: y2 :: rest) ->
    (forall r, In r G -> rhead r <> F) ->
    solves (fold_at i F w X y1 y2 rest G) f' ->
    (forall ys, f' F ys = Wb f' [y1; y2] ys) /\
    (forall Z xs, Z <> F -> f' Z xs = gstep S G f' Z xs).
Proof.
  intros G i F w X y1 y2 rest f' Hi Hheads Hsol.
  assert (HF : forall ys, f' F ys = Wb f' [y1; y2] ys).
  { intros ys. rewrite (Hsol F ys) at 1. apply fold_at_F; assumption. }
  split; [exact HF|]. intros Z xs HZ.
  rewrite (Hsol Z xs) at 1. apply fold_one_step; assumption.
Qed.

Definition fold_ext (F : nat) (y1 y2 : sym) (f : nat -> list nat -> S) : nat -> list nat -> S :=
  fun Z xs => if Nat.eqb Z F then Wb f [y1; y2] xs else f Z xs.

(* GOAL 1 (a) *)
Theorem fold_extend :
  forall (G : grammar S) (i F : nat) (w : S) (X : nat) (y1 y2 : sym) (rest : list sym)
         (f : nat -> list nat -> S),
    nth_error G i = Some (w, X, y1 :: y2 :: rest) ->
    (forall r, In r G -> rhead r <> F) ->
    (forall r, In r G -> ~ In (N F) (rbody r)) ->
    solves G f ->
    solves (fold_at i F w X y1 y2 rest G) (fold_ext F y1 y2 f) /\
    (forall Z xs, Z <> F -> fold_ext F y1 y2 f Z xs = f Z xs).
Proof.
  intros G i F w X y1 y2 rest f Hi Hheads Hbodies Hsol.
  set (f' := fold_ext F y1 y2 f).
  assert (Hag : forall Z xs, Z <> F -> f' Z xs = f Z xs).
  { intros Z xs HZ. unfold f', fold_ext.
    replace (Nat.eqb Z F) with false by (symmetry; apply Nat.eqb_neq; exact HZ). reflexivity. }
  split; [|exact Hag].
  assert (Hr : In (w, X, y1 :: y2 :: rest) G) by (apply (nth_error_In G i); exact Hi).
  assert (H12 : forall ys, Wb f' [y1; y2] ys = Wb f [y1; y2] ys).
  { apply Wb_ext_in. intros Y ys HY. apply Hag. intros EY. subst Y.
    apply (Hbodies _ Hr). cbn [rbody snd]. destruct HY as [HY|[HY|[]]]; [left|right; left]; exact HY. }
  assert (HF : forall ys, f' F ys = Wb f' [y1; y2] ys).
  { intros ys. rewrite H12. unfold f', fold_ext. rewrite Nat.eqb_refl. reflexivity. }
  intros Z xs. destruct (Nat.eq_dec Z F) as [EZ|NZ].
  - subst Z. rewrite (fold_at_F i F w X y1 y2 rest G f' xs Hi Hheads). apply HF.
  - rewrite (fold_one_step i F w X y1 y2 rest G f' Hi HF Z xs NZ).
    rewrite (Hag Z xs NZ), (Hsol Z xs) at 1.
    apply gstep_ext_in. intros r Y ys Hr' HY. symmetry. apply Hag.
    intros EY. subst Y. exact (Hbodies r Hr' HY).
Qed.

(* ====================================================================== *)
(* 3. binarize                                                            *)
(* ====================================================================== *)

(* ---------- bin_body: unfolding and induction principle ---------- *)

Lemma bin_body_base fuel fr (w : S) X body :
  fuel = O \/ length body <= 2 -> bin_body fuel fr w X body = ([(w, X, body)], fr).
Proof.
  intros [->|Hl]; [reflexivity|]. destruct fuel; [reflexivity|].
  destruct body as [|y1 [|y2 [|y3 rest]]]; try reflexivity. cbn [length] in Hl. lia.
Qed.

Lemma bin_body_step f fr (w : S) X y1 y2 y3 rest :
  bin_body (Sn f) fr w X (y1 :: y2 :: y3 :: rest)
  = ((1, fr, [y1; y2]) :: fst (bin_body f (Sn fr) w X (N fr :: y3 :: rest)),
     snd (bin_body f (Sn fr) w X (N fr :: y3 :: rest))).
Proof. cbn [bin_body]. destruct (bin_body f (Sn fr) w X (N fr :: y3 :: rest)). reflexivity. Qed.

Lemma bin_body_ind' (P : nat -> nat -> list sym -> Prop) :
  (forall fuel fr body, fuel = O \/ length body <= 2 -> P fuel fr body) ->
  (forall f fr y1 y2 y3 rest, P f (Sn fr) (N fr :: y3 :: rest) -> P (Sn f) fr (y1 :: y2 :: y3 :: rest)) ->
  forall fuel fr body, P fuel fr body.
Proof.
  intros Hb Hs. induction fuel as [|f IH]; intros fr body.
  - apply Hb. left; reflexivity.
  - destruct body as [|y1 [|y2 [|y3 rest]]]; try (apply Hb; right; cbn [length]; lia).
    apply Hs. apply IH.
Qed.

Lemma bin_body_mono (w : S) X : forall fuel fr body, fr <= snd (bin_body fuel fr w X body).
Proof.
  intros fuel0 fr0 body0; pattern fuel0, fr0, body0; apply bin_body_ind'; clear fuel0 fr0 body0.
  - intros fuel fr body Hb. rewrite (bin_body_base _ _ _ _ _ Hb). cbn [snd]. lia.
  - intros f fr y1 y2 y3 rest IH. rewrite bin_body_step. cbn [snd]. lia.
Qed.

(* the heads of the emitted rules: the original head and the invented names *)
Lemma bin_body_heads (w : S) X : forall fuel fr body r,
  In r (fst (bin_body fuel fr w X body)) ->
  rhead r = X \/ (fr <= rhead r /\ rhead r < snd (bin_body fuel fr w X body)).
Proof.
  intros fuel0 fr0 body0; pattern fuel0, fr0, body0; apply bin_body_ind'; clear fuel0 fr0 body0.
  - intros fuel fr body Hb r. rewrite (bin_body_base _ _ _ _ _ Hb). cbn [fst snd].
    intros [<-|[]]. left; reflexivity.
  - intros f fr y1 y2 y3 rest IH r. rewrite bin_body_step. cbn [fst snd]. intros [<-|Hr].
    + right. cbn [rhead fst snd].
      pose proof (bin_body_mono w X f (Sn fr) (N fr :: y3 :: rest)) as Hm. lia.
    + destruct (IH r Hr) as [E|[H1 H2]]; [left; exact E|right; lia].
Qed.

(* the nonterminals in the emitted bodies are below the final counter *)
Lemma bin_body_bodies (w : S) X : forall fuel fr body,
  (forall Y, In (N Y) body -> Y < fr) ->
  forall r, In r (fst (bin_body fuel fr w X body)) ->
  forall Y, In (N Y) (rbody r) -> Y < snd (bin_body fuel fr w X body).
Proof.
  intros fuel0 fr0 body0; pattern fuel0, fr0, body0; apply bin_body_ind'; clear fuel0 fr0 body0.
  - intros fuel fr body Hb Hlt r. rewrite (bin_body_base _ _ _ _ _ Hb). cbn [fst snd].
    intros [<-|[]] Y HY. apply Hlt. exact HY.
  - intros f fr y1 y2 y3 rest IH Hlt r. rewrite bin_body_step. cbn [fst snd]. intros [<-|Hr] Y HY.
    + pose proof (bin_body_mono w X f (Sn fr) (N fr :: y3 :: rest)) as Hm.
      assert (HYfr : Y < fr).
      { apply Hlt. cbn [rbody snd] in HY. destruct HY as [HY|[HY|[]]]; [left|right; left]; exact HY. }
      lia.
    + apply (IH) with (r := r); [|exact Hr|exact HY].
      intros Y' [HY'|HY'].
      * injection HY' as <-. lia.
      * assert (Y' < fr) by (apply Hlt; right; right; exact HY'). lia.
Qed.

(* for a valuation that satisfies the equations of the invented nonterminals, the
   emitted rules contribute to Z < lo exactly what the original rule does *)
Lemma bin_body_sum (w : S) X lo (g : nat -> list nat -> S) Z :
  X < lo -> Z < lo ->
  forall fuel fr body, lo <= fr ->
  (forall r, In r (fst (bin_body fuel fr w X body)) -> lo <= rhead r ->
             forall ys, g (rhead r) ys = Wb g (rbody r) ys) ->
  forall xs, gstep S (fst (bin_body fuel fr w X body)) g Z xs
             = if Nat.eqb X Z then w * Wb g body xs else 0.
Proof.
  intros HX HZ fuel0 fr0 body0; pattern fuel0, fr0, body0; apply bin_body_ind'; clear fuel0 fr0 body0.
  - intros fuel fr body Hb Hlo _ xs. rewrite (bin_body_base _ _ _ _ _ Hb). cbn [fst].
    rewrite gstep_cons, gstep_nil, term_mk. destruct (Nat.eqb X Z); ring.
  - intros f fr y1 y2 y3 rest IH Hlo Hinv xs. rewrite bin_body_step in Hinv |- *. cbn [fst] in Hinv |- *.
    rewrite gstep_cons, term_mk.
    replace (Nat.eqb fr Z) with false by (symmetry; apply Nat.eqb_neq; lia).
    rewrite IH; [|lia|intros r Hr; apply Hinv; right; exact Hr].
    assert (HF : forall ys, g fr ys = Wb g [y1; y2] ys).
    { intros ys. apply (Hinv (1, fr, [y1; y2]) (or_introl eq_refl)). exact Hlo. }
    rewrite (Wb_fold g fr y1 y2 (y3 :: rest) HF xs). destruct (Nat.eqb X Z); ring.
Qed.

(* each invented nonterminal has exactly one rule among the emitted ones, of weight one *)
Lemma bin_body_inv (w : S) X lo (g : nat -> list nat -> S) :
  X < lo ->
  forall fuel fr body, lo <= fr ->
  forall r, In r (fst (bin_body fuel fr w X body)) -> lo <= rhead r ->
  forall ys, gstep S (fst (bin_body fuel fr w X body)) g (rhead r) ys = Wb g (rbody r) ys.
Proof.
  intros HX fuel0 fr0 body0; pattern fuel0, fr0, body0; apply bin_body_ind'; clear fuel0 fr0 body0.
  - intros fuel fr body Hb Hlo r. rewrite (bin_body_base _ _ _ _ _ Hb). cbn [fst].
    intros [<-|[]] Hh. cbn [rhead fst snd] in Hh. lia.
  - intros f fr y1 y2 y3 rest IH Hlo r. rewrite bin_body_step. cbn [fst]. intros [<-|Hr] Hh ys.
    + rewrite gstep_cons, term_mk. cbn [rhead rbody fst snd]. rewrite Nat.eqb_refl.
      rewrite gstep_nohead; [ring|].
      intros r' Hr'. destruct (bin_body_heads w X _ _ _ r' Hr') as [E|[H1 _]]; lia.
    + assert (Hh' : Sn fr <= rhead r).
      { destruct (bin_body_heads w X _ _ _ r Hr) as [E|[H1 _]]; lia. }
      rewrite gstep_cons, term_mk.
      replace (Nat.eqb fr (rhead r)) with false by (symmetry; apply Nat.eqb_neq; lia).
      rewrite (IH (le_S _ _ Hlo) r Hr Hh ys). ring.
Qed.

(* ---------- binarize as a structural recursion ---------- *)

Definition bb (fr : nat) (r : rule S) : list (rule S) * nat :=
  bin_body (length (rbody r)) fr (rw r) (rhead r) (rbody r).

Fixpoint binz (fr : nat) (G : grammar S) : grammar S * nat :=
  match G with
  | [] => ([], fr)
  | r :: t => (fst (bb fr r) ++ fst (binz (snd (bb fr r)) t), snd (binz (snd (bb fr r)) t))
  end.

Lemma fold_bstep_binz : forall (G : grammar S) out fr,
  fold_left (bstep S) G (out, fr) = (out ++ fst (binz fr G), snd (binz fr G)).
Proof.
  induction G as [|r t IH]; intros out fr.
  - cbn [fold_left binz fst snd]. rewrite app_nil_r. reflexivity.
  - cbn [fold_left]. rewrite bstep_eq. fold (bb fr r). rewrite IH. cbn [binz fst snd].
    rewrite app_assoc. reflexivity.
Qed.

Lemma binarize_binz fresh (G : grammar S) : binarize fresh G = fst (binz fresh G).
Proof. unfold binarize. rewrite binarize_from_fold, fold_bstep_binz. reflexivity. Qed.

Lemma bb_mono fr (r : rule S) : fr <= snd (bb fr r).
Proof. apply bin_body_mono. Qed.

Lemma binz_mono : forall (G : grammar S) fr, fr <= snd (binz fr G).
Proof.
  induction G as [|r t IH]; intros fr; cbn [binz snd]; [lia|].
  pose proof (bb_mono fr r). pose proof (IH (snd (bb fr r))). lia.
Qed.

Lemma binz_heads : forall (G : grammar S) fr r, In r (fst (binz fr G)) ->
  (exists r0, In r0 G /\ rhead r = rhead r0) \/ (fr <= rhead r /\ rhead r < snd (binz fr G)).
Proof.
  induction G as [|r0 t IH]; intros fr r Hr; cbn [binz fst snd] in Hr |- *; [destruct Hr|].
  pose proof (bb_mono fr r0) as Hm1. pose proof (binz_mono t (snd (bb fr r0))) as Hm2.
  apply in_app_or in Hr. destruct Hr as [Hr|Hr].
  - destruct (bin_body_heads _ _ _ _ _ r Hr) as [E|[H1 H2]].
    + left. exists r0. split; [left; reflexivity|exact E].
    + right. fold (bb fr r0) in H2. lia.
  - destruct (IH _ r Hr) as [[r1 [H1 E]]|[H1 H2]].
    + left. exists r1. split; [right; exact H1|exact E].
    + right. lia.
Qed.

Definition inv_ok (lo : nat) (g : nat -> list nat -> S) (G' : grammar S) : Prop :=
  forall r, In r G' -> lo <= rhead r -> forall ys, g (rhead r) ys = Wb g (rbody r) ys.

(* A: one-step identity below lo *)
Lemma binz_sum lo (g : nat -> list nat -> S) Z : Z < lo ->
  forall (G : grammar S) fr,
  (forall r0, In r0 G -> rhead r0 < lo) -> lo <= fr ->
  inv_ok lo g (fst (binz fr G)) ->
  forall xs, gstep S (fst (binz fr G)) g Z xs = gstep S G g Z xs.
Proof.
  intros HZ. induction G as [|r0 t IH]; intros fr Hh Hlo Hinv xs; [reflexivity|].
  cbn [binz fst] in Hinv |- *. rewrite gstep_app, gstep_cons.
  unfold bb at 1. rewrite (bin_body_sum (rw r0) (rhead r0) lo g Z).
  - rewrite IH.
    + reflexivity.
    + intros r1 H1. apply Hh. right; exact H1.
    + pose proof (bb_mono fr r0). lia.
    + intros r Hr. apply Hinv. apply in_or_app. right; exact Hr.
  - apply Hh. left; reflexivity.
  - exact HZ.
  - exact Hlo.
  - intros r Hr. apply Hinv. apply in_or_app. left; exact Hr.
Qed.

(* B: the equation of an invented nonterminal in the binarized grammar *)
Lemma binz_inv lo (g : nat -> list nat -> S) :
  forall (G : grammar S) fr,
  (forall r0, In r0 G -> rhead r0 < lo) -> lo <= fr ->
  forall r, In r (fst (binz fr G)) -> lo <= rhead r ->
  forall ys, gstep S (fst (binz fr G)) g (rhead r) ys = Wb g (rbody r) ys.
Proof.
  induction G as [|r0 t IH]; intros fr Hh Hlo r Hr Hr_lo ys; cbn [binz fst] in Hr |- *; [destruct Hr|].
  pose proof (bb_mono fr r0) as Hm1.
  assert (H0 : rhead r0 < lo) by (apply Hh; left; reflexivity).
  assert (Ht : forall r1, In r1 t -> rhead r1 < lo) by (intros r1 H1; apply Hh; right; exact H1).
  rewrite gstep_app. apply in_app_or in Hr. destruct Hr as [Hr|Hr].
  - assert (Hrange : fr <= rhead r /\ rhead r < snd (bb fr r0)).
    { destruct (bin_body_heads _ _ _ _ _ r Hr) as [E|H]; [lia|exact H]. }
    unfold bb at 1. rewrite (bin_body_inv (rw r0) (rhead r0) lo g H0 _ _ _ Hlo r Hr Hr_lo ys).
    rewrite gstep_nohead; [ring|].
    intros r' Hr'. destruct (binz_heads _ _ r' Hr') as [[r1 [H1 E]]|[H1 _]].
    + specialize (Ht r1 H1). lia.
    + lia.
  - assert (Hge : snd (bb fr r0) <= rhead r).
    { destruct (binz_heads _ _ r Hr) as [[r1 [H1 E]]|[H1 _]]; [specialize (Ht r1 H1); lia|exact H1]. }
    rewrite (gstep_nohead (fst (bb fr r0))).
    + rewrite (IH (snd (bb fr r0)) Ht (Nat.le_trans _ _ _ Hlo Hm1) r Hr Hr_lo ys). ring.
    + intros r' Hr'. destruct (bin_body_heads _ _ _ _ _ r' Hr') as [E|[_ H2]].
      * lia.
      * fold (bb fr r0) in H2. lia.
Qed.

(* GOAL 2 (b) *)
Theorem binarize_restrict :
  forall (fresh : nat) (G : grammar S) (f' : nat -> list nat -> S),
    (forall r, In r G -> rhead r < fresh) ->
    solves (binarize fresh G) f' ->
    forall Z xs, Z < fresh -> f' Z xs = gstep S G f' Z xs.
Proof.
  intros fresh G f' Hh Hsol Z xs HZ.
  rewrite (Hsol Z xs) at 1. rewrite binarize_binz.
  apply (binz_sum fresh f' Z HZ G fresh Hh (le_n _)).
  intros r Hr Hlo ys. rewrite (Hsol (rhead r) ys) at 1. rewrite binarize_binz.
  exact (binz_inv fresh f' G fresh Hh (le_n _) r Hr Hlo ys).
Qed.

(* ---------- extension of a valuation to the invented nonterminals ---------- *)

Definition upd (f : nat -> list nat -> S) (k : nat) (v : list nat -> S) : nat -> list nat -> S :=
  fun Z xs => if Nat.eqb Z k then v xs else f Z xs.

Fixpoint bin_ext (fuel fr : nat) (body : list sym) (f : nat -> list nat -> S) : nat -> list nat -> S :=
  match fuel with
  | O => f
  | Sn fu =>
      match body with
      | y1 :: y2 :: y3 :: rest => bin_ext fu (Sn fr) (N fr :: y3 :: rest) (upd f fr (Wb f [y1; y2]))
      | _ => f
      end
  end.

Fixpoint binz_ext (fr : nat) (G : grammar S) (f : nat -> list nat -> S) : nat -> list nat -> S :=
  match G with
  | [] => f
  | r :: t => binz_ext (snd (bb fr r)) t (bin_ext (length (rbody r)) fr (rbody r) f)
  end.

Lemma bin_ext_base fuel fr body f :
  fuel = O \/ length body <= 2 -> bin_ext fuel fr body f = f.
Proof.
  intros [->|Hl]; [reflexivity|]. destruct fuel; [reflexivity|].
  destruct body as [|y1 [|y2 [|y3 rest]]]; try reflexivity. cbn [length] in Hl. lia.
Qed.

Lemma bin_ext_step fu fr y1 y2 y3 rest f :
  bin_ext (Sn fu) fr (y1 :: y2 :: y3 :: rest) f
  = bin_ext fu (Sn fr) (N fr :: y3 :: rest) (upd f fr (Wb f [y1; y2])).
Proof. reflexivity. Qed.

Lemma upd_other f k v Z ys : Z <> k -> upd f k v Z ys = f Z ys.
Proof. intros H. unfold upd. replace (Nat.eqb Z k) with false by (symmetry; apply Nat.eqb_neq; exact H). reflexivity. Qed.

Lemma upd_same f k v ys : upd f k v k ys = v ys.
Proof. unfold upd. rewrite Nat.eqb_refl. reflexivity. Qed.

Lemma bin_ext_lo : forall fuel fr body f Z, Z < fr -> forall ys, bin_ext fuel fr body f Z ys = f Z ys.
Proof.
  apply (bin_body_ind' (fun fuel fr body => forall f Z, Z < fr -> forall ys, bin_ext fuel fr body f Z ys = f Z ys)).
  - intros fuel fr body Hb f Z _ ys. rewrite (bin_ext_base _ _ _ _ Hb). reflexivity.
  - intros fu fr y1 y2 y3 rest IH f Z HZ ys. rewrite bin_ext_step, IH by lia.
    apply upd_other. lia.
Qed.

Lemma bin_ext_notin (w : S) X : forall fuel fr body f Z,
  (forall r, In r (fst (bin_body fuel fr w X body)) -> rhead r <> Z) ->
  forall ys, bin_ext fuel fr body f Z ys = f Z ys.
Proof.
  apply (bin_body_ind' (fun fuel fr body => forall f Z,
           (forall r, In r (fst (bin_body fuel fr w X body)) -> rhead r <> Z) ->
           forall ys, bin_ext fuel fr body f Z ys = f Z ys)).
  - intros fuel fr body Hb f Z _ ys. rewrite (bin_ext_base _ _ _ _ Hb). reflexivity.
  - intros fu fr y1 y2 y3 rest IH f Z Hn ys. rewrite bin_body_step in Hn. cbn [fst] in Hn.
    rewrite bin_ext_step, IH by (intros r Hr; apply Hn; right; exact Hr).
    apply upd_other. intros E. apply (Hn (1, fr, [y1; y2]) (or_introl eq_refl)). symmetry; exact E.
Qed.

Lemma bin_ext_inv (w : S) X lo : X < lo ->
  forall fuel fr body, lo <= fr -> (forall Y, In (N Y) body -> Y < fr) ->
  forall f r, In r (fst (bin_body fuel fr w X body)) -> lo <= rhead r ->
  forall ys, bin_ext fuel fr body f (rhead r) ys = Wb (bin_ext fuel fr body f) (rbody r) ys.
Proof.
  intros HX.
  apply (bin_body_ind' (fun fuel fr body => lo <= fr -> (forall Y, In (N Y) body -> Y < fr) ->
           forall f r, In r (fst (bin_body fuel fr w X body)) -> lo <= rhead r ->
           forall ys, bin_ext fuel fr body f (rhead r) ys = Wb (bin_ext fuel fr body f) (rbody r) ys)).
  - intros fuel fr body Hb Hlo _ f r. rewrite (bin_body_base _ _ _ _ _ Hb). cbn [fst].
    intros [<-|[]] Hh. cbn [rhead fst snd] in Hh. lia.
  - intros fu fr y1 y2 y3 rest IH Hlo Hlt f r. rewrite bin_body_step. cbn [fst].
    rewrite bin_ext_step. set (f1 := upd f fr (Wb f [y1; y2])).
    intros [<-|Hr] Hh ys.
    + cbn [rhead rbody fst snd].
      rewrite (bin_ext_lo fu (Sn fr) _ f1 fr (Nat.lt_succ_diag_r fr) ys).
      unfold f1 at 1. rewrite upd_same.
      apply Wb_ext_in. intros Y zs HY.
      assert (HYfr : Y < fr).
      { apply Hlt. destruct HY as [HY|[HY|[]]]; [left|right; left]; exact HY. }
      rewrite (bin_ext_lo fu (Sn fr) _ f1 Y (Nat.lt_lt_succ_r _ _ HYfr) zs).
      unfold f1. rewrite upd_other by lia. reflexivity.
    + apply IH; [lia| |exact Hr|exact Hh].
      intros Y' [HY'|HY'].
      * injection HY' as <-. lia.
      * assert (Y' < fr) by (apply Hlt; right; right; exact HY'). lia.
Qed.

Lemma binz_ext_lo : forall (G : grammar S) fr f Z, Z < fr -> forall ys, binz_ext fr G f Z ys = f Z ys.
Proof.
  induction G as [|r0 t IH]; intros fr f Z HZ ys; cbn [binz_ext]; [reflexivity|].
  pose proof (bb_mono fr r0). rewrite IH by lia. apply bin_ext_lo. exact HZ.
Qed.

Lemma binz_ext_notin : forall (G : grammar S) fr f Z,
  (forall r, In r (fst (binz fr G)) -> rhead r <> Z) ->
  forall ys, binz_ext fr G f Z ys = f Z ys.
Proof.
  induction G as [|r0 t IH]; intros fr f Z Hn ys; cbn [binz_ext]; [reflexivity|].
  cbn [binz fst] in Hn. rewrite IH by (intros r Hr; apply Hn; apply in_or_app; right; exact Hr).
  apply (bin_ext_notin (rw r0) (rhead r0)). intros r Hr. apply Hn. apply in_or_app. left; exact Hr.
Qed.

Lemma binz_ext_inv lo : forall (G : grammar S) fr f,
  (forall r0, In r0 G -> rhead r0 < lo) ->
  (forall r0 Y, In r0 G -> In (N Y) (rbody r0) -> Y < lo) ->
  lo <= fr ->
  inv_ok lo (binz_ext fr G f) (fst (binz fr G)).
Proof.
  induction G as [|r0 t IH]; intros fr f Hh Hb Hlo r Hr Hr_lo ys; cbn [binz fst] in Hr; [destruct Hr|].
  cbn [binz_ext]. set (f1 := bin_ext (length (rbody r0)) fr (rbody r0) f).
  pose proof (bb_mono fr r0) as Hm1.
  assert (H0 : rhead r0 < lo) by (apply Hh; left; reflexivity).
  assert (Hb0 : forall Y, In (N Y) (rbody r0) -> Y < fr).
  { intros Y HY. assert (Y < lo) by (apply (Hb r0 Y); [left; reflexivity|exact HY]). lia. }
  apply in_app_or in Hr. destruct Hr as [Hr|Hr].
  - assert (Hrange : fr <= rhead r /\ rhead r < snd (bb fr r0)).
    { destruct (bin_body_heads _ _ _ _ _ r Hr) as [E|H]; [lia|exact H]. }
    rewrite (binz_ext_lo t (snd (bb fr r0)) f1 (rhead r) (proj2 Hrange) ys).
    unfold f1 at 1.
    rewrite (bin_ext_inv (rw r0) (rhead r0) lo H0 _ _ _ Hlo Hb0 f r Hr Hr_lo ys). fold f1.
    apply Wb_ext_in. intros Y zs HY. symmetry. apply binz_ext_lo.
    exact (bin_body_bodies (rw r0) (rhead r0) _ _ _ Hb0 r Hr Y HY).
  - apply (IH (snd (bb fr r0)) f1).
    + intros r1 H1. apply Hh. right; exact H1.
    + intros r1 Y H1 HY. apply (Hb r1 Y); [right; exact H1|exact HY].
    + lia.
    + exact Hr.
    + exact Hr_lo.
Qed.

Definition binarize_ext (fresh : nat) (G : grammar S) (f : nat -> list nat -> S) : nat -> list nat -> S :=
  binz_ext fresh G f.

(* GOAL 2 (a) *)
Theorem binarize_extend :
  forall (fresh : nat) (G : grammar S) (f : nat -> list nat -> S),
    (forall r, In r G -> rhead r < fresh) ->
    (forall r Y, In r G -> In (N Y) (rbody r) -> Y < fresh) ->
    solves G f ->
    solves (binarize fresh G) (binarize_ext fresh G f) /\
    (forall Z xs, Z < fresh -> binarize_ext fresh G f Z xs = f Z xs).
Proof.
  intros fresh G f Hh Hb Hsol. unfold binarize_ext. set (f' := binz_ext fresh G f).
  assert (Hlow : forall Z xs, Z < fresh -> f' Z xs = f Z xs).
  { intros Z xs HZ. apply binz_ext_lo. exact HZ. }
  assert (Hinv : inv_ok fresh f' (fst (binz fresh G))).
  { apply binz_ext_inv; [exact Hh|exact Hb|apply le_n]. }
  split; [|exact Hlow]. intros Z xs. rewrite binarize_binz.
  destruct (lt_dec Z fresh) as [HZ|HZ].
  - rewrite (binz_sum fresh f' Z HZ G fresh Hh (le_n _) Hinv xs).
    rewrite (Hlow Z xs HZ). rewrite (Hsol Z xs) at 1.
    apply gstep_ext_in. intros r Y ys Hr HY. symmetry. apply Hlow. exact (Hb r Y Hr HY).
  - destruct (existsb (fun r : rule S => Nat.eqb (rhead r) Z) (fst (binz fresh G))) eqn:E.
    + apply existsb_exists in E. destruct E as [r [Hr E]]. apply Nat.eqb_eq in E. subst Z.
      rewrite (binz_inv fresh f' G fresh Hh (le_n _) r Hr (proj1 (Nat.nlt_ge _ _) HZ) xs).
      apply Hinv; [exact Hr|lia].
    + assert (Hn : forall r, In r (fst (binz fresh G)) -> rhead r <> Z).
      { intros r Hr EZ.
        assert (Et : existsb (fun r : rule S => Nat.eqb (rhead r) Z) (fst (binz fresh G)) = true).
        { apply existsb_exists. exists r. split; [exact Hr|apply Nat.eqb_eq; exact EZ]. }
        rewrite E in Et. discriminate Et. }
      rewrite (gstep_nohead _ f' Z xs Hn).
      unfold f'. rewrite (binz_ext_notin G fresh f Z Hn xs).
      rewrite (Hsol Z xs). apply gstep_nohead.
      intros r Hr. specialize (Hh r Hr). lia.
Qed.

(* existential form *)
Corollary binarize_extend_ex :
  forall (fresh : nat) (G : grammar S) (f : nat -> list nat -> S),
    (forall r, In r G -> rhead r < fresh) ->
    (forall r Y, In r G -> In (N Y) (rbody r) -> Y < fresh) ->
    solves G f ->
    exists f', solves (binarize fresh G) f' /\ forall Z xs, Z < fresh -> f' Z xs = f Z xs.
Proof.
  intros fresh G f Hh Hb Hsol. exists (binarize_ext fresh G f).
  exact (binarize_extend fresh G f Hh Hb Hsol).
Qed.

End FoldProofs.

Print Assumptions separate_terminals_restrict.
Print Assumptions separate_terminals_extend.
Print Assumptions fold_restrict.
Print Assumptions fold_extend.
Print Assumptions binarize_restrict.
Print Assumptions binarize_extend.
Print Assumptions binarize_extend_ex.
