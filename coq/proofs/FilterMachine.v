(* Mohri's 3-state epsilon filter (Gen_Machines.epsilon_filter) accepts, among
   all interleavings of m left epsilon-moves and n right epsilon-moves, exactly
   the canonical one.  No axioms. *)
From Coq Require Import List Arith Bool Lia.
From GV.lib Require Import Semiring BigSum.
From GV.model Require Import Fst MachSpec.
From GV.gen Require Import Gen_Machines.
Import ListNotations.
Local Open Scope sr_scope.

(* ---------- pure list facts about moves (no semiring) ---------- *)

Fixpoint list_eqb_move (u v : list move) : bool :=
  match u, v with
  | [], [] => true
  | a :: u', b :: v' => move_eqb a b && list_eqb_move u' v'
  | _, _ => false
  end.

Lemma move_eqb_spec : forall a b, move_eqb a b = true <-> a = b.
Proof. intros [] []; simpl; split; intros H; try reflexivity; try discriminate. Qed.

Lemma list_eqb_move_spec : forall u v, list_eqb_move u v = true <-> u = v.
Proof.
  induction u as [|a u IH]; intros [|b v]; simpl; split; intros H;
    try reflexivity; try discriminate.
  - apply andb_true_iff in H. destruct H as [H1 H2].
    apply move_eqb_spec in H1. apply IH in H2. congruence.
  - inversion H; subst. apply andb_true_iff; split.
    + apply move_eqb_spec; reflexivity.
    + apply IH; reflexivity.
Qed.

(* the deterministic view of the filter on joint moves *)
Definition fstep (q : nat) (m : move) : option nat :=
  match q, m with
  | O, MD => Some O
  | O, MA => Some 1%nat
  | O, MB => Some 2%nat
  | Datatypes.S O, MA => Some 1%nat
  | Datatypes.S (Datatypes.S O), MB => Some 2%nat
  | _, _ => None
  end.

Fixpoint frun (q : nat) (w : list move) : option nat :=
  match w with
  | [] => Some q
  | m :: t => match fstep q m with Some q' => frun q' t | None => None end
  end.

Lemma fstep_le2 : forall q m q', q <= 2 -> fstep q m = Some q' -> q' <= 2.
Proof.
  intros q m q' Hq H. destruct q as [|[|[|q]]]; destruct m; simpl in H;
    try discriminate; inversion H; lia.
Qed.

Lemma frun_app : forall u v q,
  frun q (u ++ v) = match frun q u with Some q' => frun q' v | None => None end.
Proof.
  induction u as [|m u IH]; intros v q; simpl; [reflexivity|].
  destruct (fstep q m); [apply IH|reflexivity].
Qed.

Lemma left_moves_app : forall u v, left_moves (u ++ v) = (left_moves u + left_moves v)%nat.
Proof. induction u as [|[] u IH]; intros v; simpl; rewrite ?IH; reflexivity. Qed.
Lemma right_moves_app : forall u v, right_moves (u ++ v) = (right_moves u + right_moves v)%nat.
Proof. induction u as [|[] u IH]; intros v; simpl; rewrite ?IH; reflexivity. Qed.

Lemma left_repeat_MD k : left_moves (repeat MD k) = k.
Proof. induction k; simpl; congruence. Qed.
Lemma left_repeat_MB k : left_moves (repeat MB k) = k.
Proof. induction k; simpl; congruence. Qed.
Lemma left_repeat_MA k : left_moves (repeat MA k) = O.
Proof. induction k; simpl; congruence. Qed.
Lemma right_repeat_MD k : right_moves (repeat MD k) = k.
Proof. induction k; simpl; congruence. Qed.
Lemma right_repeat_MA k : right_moves (repeat MA k) = k.
Proof. induction k; simpl; congruence. Qed.
Lemma right_repeat_MB k : right_moves (repeat MB k) = O.
Proof. induction k; simpl; congruence. Qed.

Lemma left_moves_canonical m n : left_moves (canonical m n) = m.
Proof.
  unfold canonical. rewrite !left_moves_app, left_repeat_MD, left_repeat_MB, left_repeat_MA. lia.
Qed.
Lemma right_moves_canonical m n : right_moves (canonical m n) = n.
Proof.
  unfold canonical. rewrite !right_moves_app, right_repeat_MD, right_repeat_MB, right_repeat_MA. lia.
Qed.

Lemma length_le_moves : forall w, length w <= left_moves w + right_moves w.
Proof. induction w as [|[] w IH]; simpl; lia. Qed.

Lemma canonical_SS m n : canonical (Datatypes.S m) (Datatypes.S n) = MD :: canonical m n.
Proof. unfold canonical. reflexivity. Qed.
Lemma canonical_0_n n : canonical O n = repeat MA n.
Proof. unfold canonical. simpl. rewrite Nat.sub_0_r. reflexivity. Qed.
Lemma canonical_n_0 n : canonical n O = repeat MB n.
Proof. unfold canonical. rewrite Nat.min_0_r, Nat.sub_0_r. simpl. apply app_nil_r. Qed.

Lemma frun1_sound : forall w q', frun 1%nat w = Some q' ->
  w = repeat MA (length w) /\ left_moves w = O /\ right_moves w = length w.
Proof.
  induction w as [|m w IH]; intros q' H; simpl in *; [auto|].
  destruct m; simpl in H; try discriminate.
  destruct (IH _ H) as [H1 [H2 H3]]. repeat split; congruence.
Qed.

Lemma frun2_sound : forall w q', frun 2%nat w = Some q' ->
  w = repeat MB (length w) /\ left_moves w = length w /\ right_moves w = O.
Proof.
  induction w as [|m w IH]; intros q' H; simpl in *; [auto|].
  destruct m; simpl in H; try discriminate.
  destruct (IH _ H) as [H1 [H2 H3]]. repeat split; congruence.
Qed.

Lemma frun0_sound : forall w q', frun O w = Some q' ->
  w = canonical (left_moves w) (right_moves w).
Proof.
  induction w as [|m w IH]; intros q' H; [reflexivity|].
  destruct m; simpl in H.
  - simpl. rewrite canonical_SS. f_equal. eapply IH; eassumption.
  - destruct (frun1_sound _ _ H) as [H1 [H2 H3]]. simpl.
    rewrite H2, H3, canonical_0_n. simpl. congruence.
  - destruct (frun2_sound _ _ H) as [H1 [H2 H3]]. simpl.
    rewrite H2, H3, canonical_n_0. simpl. congruence.
Qed.

Lemma frun0_MD k : frun O (repeat MD k) = Some O.
Proof. induction k; simpl; auto. Qed.
Lemma frun1_MA k : frun 1%nat (repeat MA k) = Some 1%nat.
Proof. induction k; simpl; auto. Qed.
Lemma frun2_MB k : frun 2%nat (repeat MB k) = Some 2%nat.
Proof. induction k; simpl; auto. Qed.
Lemma frun0_MA k : exists q, frun O (repeat MA k) = Some q.
Proof. destruct k; simpl; [eauto|]. rewrite frun1_MA. eauto. Qed.
Lemma frun0_MB k : exists q, frun O (repeat MB k) = Some q.
Proof. destruct k; simpl; [eauto|]. rewrite frun2_MB. eauto. Qed.

Lemma frun0_canonical m n : exists q, frun O (canonical m n) = Some q.
Proof.
  unfold canonical. rewrite frun_app, frun0_MD.
  destruct (le_lt_dec m n) as [Hle|Hlt].
  - replace (m - n)%nat with O by lia. simpl. apply frun0_MA.
  - replace (n - m)%nat with O by lia. simpl. rewrite app_nil_r. apply frun0_MB.
Qed.

Lemma frun0_iff w :
  (exists q, frun O w = Some q) <-> w = canonical (left_moves w) (right_moves w).
Proof.
  split.
  - intros [q H]. eapply frun0_sound; eassumption.
  - intros H. rewrite H. apply frun0_canonical.
Qed.

(* ---------- the weighted machine ---------- *)

Section Filter.
Variable S : SR.
Variables e1 e2 : nat.
Add Ring SRingF : (sth S).

Definition enc_in (w : list move) := map (move_in e1 e2) w.
Definition enc_out (w : list move) := map (move_out e1 e2) w.

(* the arc sum of one unfolding of [trelf] *)
Definition asum (F : fst_t S) (G : nat -> list nat -> list nat -> S) (q : nat) (xs ys : list nat) : S :=
  bsum (tarcs F) (fun a =>
    if Nat.eqb (tsrc a) q then
      match eat (tin a) xs, eat (tout a) ys with
      | Some xs', Some ys' => twt a * G (tdst a) xs' ys'
      | _, _ => 0
      end
    else 0).

Lemma trelf_S (F : fst_t S) f q xs ys :
  trelf F (Datatypes.S f) q xs ys =
  (match xs, ys with [], [] => fget (tfinal F) q | _, _ => 0 end) + asum F (trelf F f) q xs ys.
Proof. reflexivity. Qed.

Lemma trelf_O (F : fst_t S) q xs ys :
  trelf F O q xs ys = (match xs, ys with [], [] => fget (tfinal F) q | _, _ => 0 end) + 0.
Proof. reflexivity. Qed.

Lemma flat_map_nil {A B} (l : list A) : flat_map (fun _ : A => @nil B) l = [].
Proof. induction l; simpl; auto. Qed.

(* ----- characterising lemmas about the generated machine ----- *)

Lemma filter_init V fuel xs ys :
  trel (@epsilon_filter S e1 e2 V) fuel xs ys = trelf (@epsilon_filter S e1 e2 V) fuel O xs ys.
Proof.
  unfold trel. cbn [tinit epsilon_filter]. rewrite flat_map_nil.
  rewrite ?bsum_app, ?bsum_cons, ?bsum_nil. cbn [fst snd]. ring.
Qed.

Lemma filter_final V q : q <= 2 -> fget (tfinal (@epsilon_filter S e1 e2 V)) q = 1.
Proof.
  intros Hq. unfold fget. cbn [tfinal epsilon_filter]. rewrite flat_map_nil.
  rewrite ?bsum_app, ?bsum_cons, ?bsum_nil. cbn [fst snd].
  destruct q as [|[|[|q]]]; [| | |lia]; cbn; ring.
Qed.

Lemma filter_step_nil_l V G q ys : asum (@epsilon_filter S e1 e2 V) G q [] ys = 0.
Proof.
  unfold asum. cbn [tarcs epsilon_filter].
  rewrite ?bsum_app, ?bsum_cons, ?bsum_nil, bsum_flat_map.
  rewrite (bsum_zero S V).
  - cbn [tsrc tin tout tdst twt fst snd eat].
    repeat match goal with |- context [Nat.eqb ?a q] => destruct (Nat.eqb a q) end; ring.
  - intros a _. rewrite ?bsum_app, ?bsum_cons, ?bsum_nil.
    cbn [tsrc tin tout tdst twt fst snd eat].
    repeat match goal with |- context [Nat.eqb ?a q] => destruct (Nat.eqb a q) end; ring.
Qed.

Lemma filter_step_move V G q m xs ys :
  e1 <> e2 -> ~ In e1 V -> ~ In e2 V -> q <= 2 ->
  asum (@epsilon_filter S e1 e2 V) G q (move_in e1 e2 m :: xs) (move_out e1 e2 m :: ys)
  = match fstep q m with Some q' => G q' xs ys | None => 0 end.
Proof.
  intros Hne H1 H2 Hq.
  assert (E12 : Nat.eqb e1 e2 = false) by (apply Nat.eqb_neq; assumption).
  assert (E21 : Nat.eqb e2 e1 = false) by (apply Nat.eqb_neq; congruence).
  assert (HV : forall a, In a V -> Nat.eqb a (move_in e1 e2 m) = false).
  { intros a Ha. apply Nat.eqb_neq. intros E. destruct m; simpl in E; congruence. }
  unfold asum. cbn [tarcs epsilon_filter].
  rewrite ?bsum_app, ?bsum_cons, ?bsum_nil, bsum_flat_map.
  rewrite (bsum_zero S V).
  - cbn [tsrc tin tout tdst twt fst snd eat].
    destruct q as [|[|[|q]]]; [| | |lia]; destruct m; cbn [move_in move_out fstep Nat.eqb];
      rewrite ?Nat.eqb_refl, ?E12, ?E21; ring.
  - intros a Ha. rewrite ?bsum_app, ?bsum_cons, ?bsum_nil.
    cbn [tsrc tin tout tdst twt fst snd eat]. rewrite (HV a Ha).
    repeat match goal with |- context [Nat.eqb ?a q] => destruct (Nat.eqb a q) end; ring.
Qed.

Lemma filter_step_real V G q a xs ys :
  NoDup V -> In a V -> ~ In e1 V -> ~ In e2 V -> q <= 2 ->
  asum (@epsilon_filter S e1 e2 V) G q (a :: xs) (a :: ys) = G O xs ys.
Proof.
  intros Hnd Ha H1 H2 Hq.
  assert (E1 : Nat.eqb e1 a = false) by (apply Nat.eqb_neq; congruence).
  assert (E2 : Nat.eqb e2 a = false) by (apply Nat.eqb_neq; congruence).
  unfold asum. cbn [tarcs epsilon_filter].
  rewrite ?bsum_app, ?bsum_cons, ?bsum_nil, bsum_flat_map.
  rewrite (bsum_ext S V _ (fun b => if Nat.eqb b a then G O xs ys else 0)).
  - rewrite (bsum_delta S Nat.eqb Nat.eqb_eq V a (fun _ => G O xs ys) Hnd).
    replace (existsb (fun b => Nat.eqb b a) V) with true.
    + cbn [tsrc tin tout tdst twt fst snd eat]. rewrite ?E1, ?E2.
      repeat match goal with |- context [Nat.eqb ?a q] => destruct (Nat.eqb a q) end; ring.
    + symmetry. apply existsb_exists. exists a. split; [assumption|apply Nat.eqb_refl].
  - intros b Hb. rewrite ?bsum_app, ?bsum_cons, ?bsum_nil.
    cbn [tsrc tin tout tdst twt fst snd eat].
    destruct (Nat.eqb b a).
    + destruct q as [|[|[|q]]]; [| | |lia]; cbn [Nat.eqb]; ring.
    + repeat match goal with |- context [Nat.eqb ?a q] => destruct (Nat.eqb a q) end; ring.
Qed.

(* ----- everything below uses only the five lemmas above ----- *)

Section WithV.
Variable V : list nat.
Variable a : nat.
Hypothesis HndV : NoDup V.
Hypothesis HaV : In a V.
Hypothesis Hne : e1 <> e2.
Hypothesis He1 : ~ In e1 V.
Hypothesis He2 : ~ In e2 V.

Let F := @epsilon_filter S e1 e2 V.

Lemma trelf_nil_nil fuel q : q <= 2 -> trelf F fuel q [] [] = 1.
Proof.
  intros Hq. destruct fuel as [|f].
  - rewrite trelf_O. unfold F. rewrite filter_final by assumption. ring.
  - rewrite trelf_S. unfold F. rewrite filter_step_nil_l, filter_final by assumption. ring.
Qed.

Lemma filter_real_symbol_aux fuel q : 1 <= fuel -> q <= 2 -> trelf F fuel q [a] [a] = 1.
Proof.
  intros Hf Hq. destruct fuel as [|f]; [lia|].
  rewrite trelf_S. unfold F at 1. rewrite filter_step_real by assumption.
  rewrite trelf_nil_nil by lia. ring.
Qed.

Lemma trelf_frun : forall w fuel q, q <= 2 -> length w < fuel ->
  trelf F fuel q (enc_in w ++ [a]) (enc_out w ++ [a])
  = match frun q w with Some _ => 1 | None => 0 end.
Proof.
  induction w as [|m w IH]; intros fuel q Hq Hlen.
  - simpl. apply filter_real_symbol_aux; simpl in Hlen; [lia|assumption].
  - simpl in Hlen. destruct fuel as [|f]; [lia|].
    rewrite trelf_S. cbn [enc_in enc_out map app].
    unfold F at 1. rewrite filter_step_move by assumption.
    cbn [frun]. destruct (fstep q m) as [q'|] eqn:Es.
    + fold (enc_in w) (enc_out w). rewrite IH; [ring| |lia].
      eapply fstep_le2; eassumption.
    + ring.
Qed.

End WithV.

Theorem filter_block_weight : forall (V : list nat) (a : nat) (w : list move) (fuel : nat),
  NoDup V -> In a V -> e1 <> e2 -> ~ In e1 V -> ~ In e2 V -> length w < fuel ->
  trel (@epsilon_filter S e1 e2 V) fuel (enc_in w ++ [a]) (enc_out w ++ [a])
    = if list_eqb_move w (canonical (left_moves w) (right_moves w)) then 1 else 0.
Proof.
  intros V a w fuel Hnd Ha Hne H1 H2 Hlen.
  rewrite filter_init, trelf_frun by (assumption || lia).
  destruct (list_eqb_move w (canonical (left_moves w) (right_moves w))) eqn:E.
  - apply list_eqb_move_spec in E. apply frun0_iff in E. destruct E as [q' E].
    rewrite E. reflexivity.
  - destruct (frun O w) as [q'|] eqn:Er; [|reflexivity].
    assert (Hc : w = canonical (left_moves w) (right_moves w))
      by (apply frun0_iff; eauto).
    apply list_eqb_move_spec in Hc. congruence.
Qed.

Theorem filter_unique : forall (V : list nat) (a : nat) (m n : nat) (fuel : nat),
  NoDup V -> In a V -> e1 <> e2 -> ~ In e1 V -> ~ In e2 V -> m + n < fuel ->
  (trel (@epsilon_filter S e1 e2 V) fuel (enc_in (canonical m n) ++ [a]) (enc_out (canonical m n) ++ [a]) = 1) /\
  (forall w, left_moves w = m -> right_moves w = n -> w <> canonical m n ->
     trel (@epsilon_filter S e1 e2 V) fuel (enc_in w ++ [a]) (enc_out w ++ [a]) = 0).
Proof.
  intros V a m n fuel Hnd Ha Hne H1 H2 Hlen. split.
  - rewrite filter_block_weight; try assumption.
    + rewrite left_moves_canonical, right_moves_canonical.
      replace (list_eqb_move (canonical m n) (canonical m n)) with true; [reflexivity|].
      symmetry. apply list_eqb_move_spec. reflexivity.
    + pose proof (length_le_moves (canonical m n)) as Hl.
      rewrite left_moves_canonical, right_moves_canonical in Hl. lia.
  - intros w Hl Hr Hw.
    rewrite filter_block_weight; try assumption.
    + rewrite Hl, Hr.
      destruct (list_eqb_move w (canonical m n)) eqn:E; [|reflexivity].
      apply list_eqb_move_spec in E. contradiction.
    + pose proof (length_le_moves w) as Hlw. lia.
Qed.

Theorem filter_real_symbol : forall V a q fuel,
  NoDup V -> In a V -> e1 <> e2 -> ~ In e1 V -> ~ In e2 V -> 1 <= fuel -> q <= 2 ->
  trelf (@epsilon_filter S e1 e2 V) fuel q [a] [a] = 1.
Proof.
  intros V a q fuel Hnd Ha Hne H1 H2 Hf Hq.
  apply filter_real_symbol_aux; assumption.
Qed.

End Filter.

Print Assumptions filter_block_weight.
Print Assumptions filter_unique.
Print Assumptions filter_real_symbol.
