(* interegular_to_wfsa post-processing: the result is locally normalised and every arc is a
   single-character DFA move into a live state with weight 1/K. *)
From Coq Require Import List Arith Bool ZArith QArith Qcanon Lia.
From GV.lib Require Import Semiring BigSum.
From GV.model Require Import Regex.
Import ListNotations.

(* ---------- rational arithmetic ---------- *)

Definition qofnat (n : nat) : Qc := Q2Qc (Z.of_nat n # 1).

Lemma Zpos_of_nat (k : nat) : k <> O -> Zpos (Pos.of_nat k) = Z.of_nat k.
Proof. intros Hk. rewrite <- positive_nat_Z. rewrite Nat2Pos.id by exact Hk. reflexivity. Qed.

Lemma invK_mul : forall k, k <> O -> (Q2Qc (Z.of_nat k # 1) * invK k = 1)%Qc.
Proof.
  intros k Hk. unfold invK. apply Qc_is_canon.
  unfold Qcmult, Q2Qc; cbn [this].
  rewrite !Qred_correct.
  unfold Qeq, Qmult; cbn [Qnum Qden].
  rewrite Pos.mul_1_l, (Zpos_of_nat k Hk). lia.
Qed.

Lemma qofnat_S (n : nat) : qofnat (S n) = (1 + qofnat n)%Qc.
Proof.
  unfold qofnat. apply Qc_is_canon.
  unfold Qcplus, Q2Qc; cbn [this].
  rewrite !Qred_correct.
  unfold Qeq, Qplus; cbn [Qnum Qden].
  rewrite Nat2Z.inj_succ. change (1 * 1)%positive with 1%positive. lia.
Qed.

Lemma qofnat_0 : qofnat 0 = 0%Qc.
Proof. unfold qofnat. apply Qc_is_canon. reflexivity. Qed.

Lemma bsum_const_Qc : forall {A} (l : list A) (c : Qc),
  bsum (S:=QcSR) l (fun _ => c) = (Q2Qc (Z.of_nat (length l) # 1) * c)%Qc.
Proof.
  intros A l c. induction l as [|a t IH].
  - rewrite bsum_nil. cbn [length]. change (Q2Qc (Z.of_nat 0 # 1)) with (qofnat 0).
    rewrite qofnat_0. simpl. ring.
  - rewrite bsum_cons, IH. cbn [length].
    change (Q2Qc (Z.of_nat (S (length t)) # 1)) with (qofnat (S (length t))).
    change (Q2Qc (Z.of_nat (length t) # 1)) with (qofnat (length t)).
    rewrite qofnat_S. simpl. ring.
Qed.

Theorem regex_weights_positive : forall k, k <> O -> (0 < invK k)%Qc.
Proof.
  intros k _. unfold invK, Qclt, Q2Qc; cbn [this].
  rewrite Qred_correct. unfold Qlt; simpl. lia.
Qed.

(* ---------- local normalisation ---------- *)

Theorem regex_locally_normalised : forall (charset : list nat) (D : dfa) (e : nat * list (nat * nat)),
  fanout charset D (fst e) (snd e) <> O -> re_mass charset D e = 1%Qc.
Proof.
  intros charset D e HK. unfold re_mass. cbv zeta.
  destruct (Nat.eqb_spec (fanout charset D (fst e) (snd e)) 0) as [E|_]; [contradiction|].
  rewrite bsum_const_Qc.
  pose proof (invK_mul _ HK) as Hmul.
  unfold fanout in *.
  destruct (memn (fst e) (d_finals D)).
  - rewrite Nat.add_1_r in *.
    set (n := length (moves charset D (snd e))) in *.
    change (Q2Qc (Z.of_nat (S n) # 1)) with (qofnat (S n)) in Hmul.
    change (Q2Qc (Z.of_nat n # 1)) with (qofnat n).
    rewrite qofnat_S in Hmul. rewrite <- Hmul. ring.
  - rewrite Nat.add_0_r in *. rewrite Hmul. ring.
Qed.

(* ---------- shape of the arcs ---------- *)

Theorem regex_arcs_single_char : forall charset D i x j w,
  In (i, x, j, w) (re_arcs charset D) ->
  exists outs, In (i, outs) (d_map D) /\ In (x, j) (moves charset D outs) /\
               w = invK (fanout charset D i outs) /\ fanout charset D i outs <> O.
Proof.
  intros charset D i x j w Hin. unfold re_arcs in Hin.
  apply in_flat_map in Hin. destruct Hin as [[i' outs] [He Hin]].
  cbv zeta in Hin. cbn [fst snd] in Hin.
  destruct (Nat.eqb_spec (fanout charset D i' outs) 0) as [E|E]; [destruct Hin|].
  apply in_map_iff in Hin. destruct Hin as [[x' j'] [Heq Hm]].
  cbn [fst snd] in Heq. injection Heq as -> -> -> <-.
  exists outs. repeat split; assumption.
Qed.

Theorem regex_moves_live : forall charset D outs x j,
  In (x, j) (moves charset D outs) ->
  memn j (d_live D) = true /\ exists c, In (c, j) outs /\ In [x] (expand charset D c).
Proof.
  intros charset D outs x j Hin. unfold moves in Hin.
  apply in_flat_map in Hin. destruct Hin as [[c j'] [Hcj Hin]].
  cbn [fst snd] in Hin.
  destruct (memn j' (d_live D)) eqn:Elive; [|destruct Hin].
  apply in_flat_map in Hin. destruct Hin as [s [Hs Hin]].
  destruct s as [|y [|z s']]; try (destruct Hin; fail).
  destruct Hin as [Heq|[]]. injection Heq as -> ->.
  split; [exact Elive|]. exists c. split; assumption.
Qed.

(* final weights have the same shape *)
Theorem regex_finals_weight : forall charset D i w,
  In (i, w) (re_finals charset D) ->
  exists outs, In (i, outs) (d_map D) /\ memn i (d_finals D) = true /\
               w = invK (fanout charset D i outs) /\ fanout charset D i outs <> O.
Proof.
  intros charset D i w Hin. unfold re_finals in Hin.
  apply in_flat_map in Hin. destruct Hin as [[i' outs] [He Hin]].
  cbv zeta in Hin. cbn [fst snd] in Hin.
  destruct (Nat.eqb_spec (fanout charset D i' outs) 0) as [E|E]; [destruct Hin|].
  destruct (memn i' (d_finals D)) eqn:Ef; [|destruct Hin].
  destruct Hin as [Heq|[]]. injection Heq as -> <-.
  exists outs. repeat split; assumption.
Qed.

Print Assumptions invK_mul.
Print Assumptions bsum_const_Qc.
Print Assumptions regex_locally_normalised.
Print Assumptions regex_arcs_single_char.
Print Assumptions regex_moves_live.
Print Assumptions regex_weights_positive.
Print Assumptions regex_finals_weight.
