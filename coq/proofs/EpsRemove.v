(* Epsilon removal (WFSA.epsremove):
   (1) the result has no epsilon arcs;
   (2) for ANY table K the result computes the matrix form alpha K A_x1 K ... A_xn K omega;
   (3) with K = identity the matrix form is the plain path sum;
   (4) for an epsilon-acyclic automaton and a table K with K = I + E K, epsilon
       removal preserves the weight of every string (sum over all paths, epsilon
       arcs included).
   No axioms. *)
From Coq Require Import List Arith Bool Lia.
From GV.lib Require Import Semiring BigSum.
From GV.model Require Import Linear Wfsa WfsaEps EpsSpec.
From GV.proofs Require Import WfsaProofs LehmannProof ClosureExtra.
Import ListNotations.
Local Open Scope sr_scope.

Section EpsRemove.
Variable S : StarSR.
Add Ring SRingER : (sth S).

(* ------------------------------------------------------------------ *)
(* components of the new machine                                        *)

Lemma winit_epsremove (K : mat S) (m : wfsa S) :
  winit (epsremove_with K m)
  = flat_map (fun e => map (fun k => (k, snd e * mget K (fst e) k)) (states_of m)) (winit m).
Proof. reflexivity. Qed.

Lemma wfinal_epsremove (K : mat S) (m : wfsa S) : wfinal (epsremove_with K m) = wfinal m.
Proof. reflexivity. Qed.

Lemma warcs_epsremove (K : mat S) (m : wfsa S) :
  warcs (epsremove_with K m)
  = flat_map (fun ar => if is_eps (albl ar) then []
                        else map (fun k => (asrc ar, albl ar, k, awt ar * mget K (adst ar) k)) (states_of m))
             (warcs m).
Proof. reflexivity. Qed.

(* ------------------------------------------------------------------ *)
(* 1. no epsilon arcs remain                                            *)

Theorem epsremove_eps_free : forall (K : mat S) (m : wfsa S) ar,
  In ar (warcs (epsremove_with K m)) -> albl ar <> None.
Proof.
  intros K m ar Hin. rewrite warcs_epsremove in Hin.
  apply in_flat_map in Hin. destruct Hin as [ar0 [Har0 Hin]].
  destruct (albl ar0) as [b|] eqn:E; cbn [is_eps] in Hin.
  - apply in_map_iff in Hin. destruct Hin as [k [Ek _]]. subst ar.
    unfold albl; cbn [fst snd]. discriminate.
  - destruct Hin.
Qed.

(* ------------------------------------------------------------------ *)
(* 2. the new machine computes the matrix form                          *)

Lemma pw_epsremove_cons (K : mat S) (m : wfsa S) (k a : nat) (t : list nat) :
  pw (epsremove_with K m) k (a :: t)
  = bsum (warcs m) (fun ar =>
      if Nat.eqb (asrc ar) k && lbl_eqb (albl ar) a
      then awt ar * bsum (states_of m) (fun k' => mget K (adst ar) k' * pw (epsremove_with K m) k' t)
      else 0).
Proof.
  cbn [pw]. rewrite warcs_epsremove, bsum_flat_map.
  apply bsum_ext; intros ar _.
  destruct (albl ar) as [b|] eqn:E; cbn [is_eps lbl_eqb].
  - rewrite bsum_map.
    transitivity (bsum (states_of m) (fun k' =>
        if Nat.eqb (asrc ar) k && Nat.eqb a b
        then awt ar * (mget K (adst ar) k' * pw (epsremove_with K m) k' t) else 0)).
    + apply bsum_ext; intros k' _.
      unfold asrc, albl, adst, awt; cbn [fst snd lbl_eqb].
      destruct (Nat.eqb (fst (fst (fst ar))) k && Nat.eqb a b); [ring|reflexivity].
    + destruct (Nat.eqb (asrc ar) k && Nat.eqb a b).
      * apply bsum_mul_l.
      * apply bsum_zero; reflexivity.
  - rewrite bsum_nil, andb_false_r. reflexivity.
Qed.

Lemma pwK_epsremove (K : mat S) (m : wfsa S) (xs : list nat) : forall q,
  bsum (states_of m) (fun k => mget K q k * pw (epsremove_with K m) k xs)
  = pwK K (states_of m) m q xs.
Proof.
  induction xs as [|a t IH]; intros q.
  - cbn [pw pwK]. rewrite wfinal_epsremove. reflexivity.
  - cbn [pwK]. apply bsum_ext; intros k _. rewrite pw_epsremove_cons. f_equal.
    apply bsum_ext; intros ar _.
    destruct (Nat.eqb (asrc ar) k && lbl_eqb (albl ar) a); [|reflexivity].
    rewrite IH. reflexivity.
Qed.

Theorem epsremove_matrix_form : forall (K : mat S) (m : wfsa S) (xs : list nat),
  weight (epsremove_with K m) xs = matrix_form K (states_of m) m xs.
Proof.
  intros K m xs. rewrite forward_pathsum. unfold pathsum, matrix_form.
  rewrite winit_epsremove, bsum_flat_map.
  apply bsum_ext; intros e _. rewrite bsum_map. cbn [fst snd].
  rewrite <- pwK_epsremove, <- bsum_mul_l.
  apply bsum_ext; intros k _. ring.
Qed.

(* ------------------------------------------------------------------ *)
(* states                                                               *)

Lemma states_nodup (m : wfsa S) : NoDup (states_of m).
Proof. apply NoDup_nodup. Qed.

Lemma init_in_states (m : wfsa S) e : In e (winit m) -> In (fst e) (states_of m).
Proof.
  intros He. unfold states_of. apply nodup_In. apply in_or_app; left.
  apply in_map; exact He.
Qed.

Lemma final_in_states (m : wfsa S) e : In e (wfinal m) -> In (fst e) (states_of m).
Proof.
  intros He. unfold states_of. apply nodup_In. apply in_or_app; right.
  apply in_or_app; left. apply in_map; exact He.
Qed.

Lemma src_in_states (m : wfsa S) ar : In ar (warcs m) -> In (asrc ar) (states_of m).
Proof.
  intros Har. unfold states_of. apply nodup_In. apply in_or_app; right.
  apply in_or_app; right. apply in_flat_map. exists ar. split; [exact Har|].
  left; reflexivity.
Qed.

Lemma dst_in_states (m : wfsa S) ar : In ar (warcs m) -> In (adst ar) (states_of m).
Proof.
  intros Har. unfold states_of. apply nodup_In. apply in_or_app; right.
  apply in_or_app; right. apply in_flat_map. exists ar. split; [exact Har|].
  right; left; reflexivity.
Qed.

(* ------------------------------------------------------------------ *)
(* 3. identity table: matrix form = path sum                            *)

Definition idtab (st : list nat) : mat S := tabulate st (fun i k => if Nat.eqb i k then 1 else 0).

Lemma mget_idtab st i k : In i st -> In k st -> mget (idtab st) i k = fid i k.
Proof. intros Hi Hk. unfold idtab. rewrite mget_tabulate by assumption. reflexivity. Qed.

Lemma pwK_id (m : wfsa S) (xs : list nat) : forall q, In q (states_of m) ->
  pwK (idtab (states_of m)) (states_of m) m q xs = pw m q xs.
Proof.
  induction xs as [|a t IH]; intros q Hq.
  - cbn [pwK pw].
    transitivity (bsum (states_of m) (fun k => fid q k * wget (wfinal m) k)).
    + apply bsum_ext; intros k Hk. rewrite mget_idtab by assumption. reflexivity.
    + apply (bsum_fid_l S (states_of m) (fun k => wget (wfinal m) k) q (states_nodup m) Hq).
  - cbn [pwK pw].
    transitivity (bsum (states_of m) (fun k => fid q k *
        bsum (warcs m) (fun ar => if Nat.eqb (asrc ar) k && lbl_eqb (albl ar) a
                                  then awt ar * pw m (adst ar) t else 0))).
    + apply bsum_ext; intros k Hk. rewrite mget_idtab by assumption. f_equal.
      apply bsum_ext; intros ar Har.
      destruct (Nat.eqb (asrc ar) k && lbl_eqb (albl ar) a); [|reflexivity].
      rewrite (IH (adst ar) (dst_in_states m ar Har)). reflexivity.
    + apply (bsum_fid_l S (states_of m)
               (fun k => bsum (warcs m) (fun ar => if Nat.eqb (asrc ar) k && lbl_eqb (albl ar) a
                                                   then awt ar * pw m (adst ar) t else 0))
               q (states_nodup m) Hq).
Qed.

Theorem epsfree_matrix_form_id : forall (m : wfsa S) xs,
  (forall ar, In ar (warcs m) -> albl ar <> None) -> NoDup (states_of m) ->
  matrix_form (tabulate (states_of m) (fun i k => if Nat.eqb i k then 1 else 0)) (states_of m) m xs
  = pathsum m xs.
Proof.
  intros m xs _ _. unfold matrix_form, pathsum.
  apply bsum_ext; intros e He.
  change (tabulate (states_of m) (fun i k => if Nat.eqb i k then 1 else 0)) with (idtab (states_of m)).
  rewrite (pwK_id m xs (fst e) (init_in_states m e He)). reflexivity.
Qed.

(* ------------------------------------------------------------------ *)
(* 4. epsilon-acyclic machines: epsilon removal preserves all weights    *)

(* one step by a labelled arc (or acceptance on the empty string), then [cont] *)
Definition stepG (m : wfsa S) (cont : nat -> list nat -> S) (q : nat) (xs : list nat) : S :=
  match xs with
  | [] => wget (wfinal m) q
  | a :: t => bsum (warcs m) (fun ar =>
                if Nat.eqb (asrc ar) q && lbl_eqb (albl ar) a then awt ar * cont (adst ar) t else 0)
  end.

Lemma pwK_stepG (K : mat S) (st : list nat) (m : wfsa S) q xs :
  pwK K st m q xs = bsum st (fun k => mget K q k * stepG m (pwK K st m) k xs).
Proof. destruct xs; reflexivity. Qed.

(* the epsilon arcs out of q, regrouped by target state *)
Lemma eps_part (m : wfsa S) (q : nat) (h : nat -> S) :
  bsum (states_of m) (fun j => epsf m q j * h j)
  = bsum (warcs m) (fun ar => if is_eps (albl ar) && Nat.eqb (asrc ar) q then awt ar * h (adst ar) else 0).
Proof.
  unfold epsf.
  transitivity (bsum (states_of m) (fun j => bsum (warcs m) (fun ar =>
      (if is_eps (albl ar) && Nat.eqb (asrc ar) q && Nat.eqb (adst ar) j then awt ar else 0) * h j))).
  - apply bsum_ext; intros j _. rewrite bsum_mul_r. reflexivity.
  - rewrite bsum_swap. apply bsum_ext; intros ar Har.
    destruct (is_eps (albl ar) && Nat.eqb (asrc ar) q); cbn [andb].
    + transitivity (bsum (states_of m) (fun j => fid (adst ar) j * (awt ar * h j))).
      * apply bsum_ext; intros j _. unfold fid. destruct (Nat.eqb (adst ar) j); ring.
      * apply (bsum_fid_l S (states_of m) (fun j => awt ar * h j) (adst ar)
                 (states_nodup m) (dst_in_states m ar Har)).
    + apply bsum_zero; intros j _. ring.
Qed.

(* one-step unfolding of the fuel-bounded path sum: a labelled step, or an epsilon arc *)
Lemma pwe_unfold (m : wfsa S) (f q : nat) (xs : list nat) :
  pwe m (Datatypes.S f) q xs
  = stepG m (pwe m f) q xs + bsum (states_of m) (fun j => epsf m q j * pwe m f j xs).
Proof.
  rewrite eps_part. destruct xs as [|b t]; cbn [pwe stepG].
  - f_equal. apply bsum_ext; intros ar _.
    destruct (albl ar), (Nat.eqb (asrc ar) q); cbn [is_eps andb]; reflexivity.
  - rewrite <- bsum_add.
    match goal with |- 0 + ?l = ?r => transitivity l; [ring|] end.
    apply bsum_ext; intros ar _.
    destruct (albl ar) as [a'|], (Nat.eqb (asrc ar) q); cbn [is_eps lbl_eqb andb]; try ring.
    rewrite (Nat.eqb_sym b a'). ring.
Qed.

(* one-step unfolding of the matrix form, from K = I + E K *)
Lemma pwK_unfold (K : mat S) (m : wfsa S) (q : nat) (xs : list nat) :
  (forall i k, In i (states_of m) -> In k (states_of m) ->
     mget K i k = fid i k + bsum (states_of m) (fun j => epsf m i j * mget K j k)) ->
  In q (states_of m) ->
  pwK K (states_of m) m q xs
  = stepG m (pwK K (states_of m) m) q xs
    + bsum (states_of m) (fun j => epsf m q j * pwK K (states_of m) m j xs).
Proof.
  intros HK Hq. rewrite pwK_stepG.
  transitivity (bsum (states_of m) (fun k =>
      fid q k * stepG m (pwK K (states_of m) m) k xs
      + bsum (states_of m) (fun j => epsf m q j * (mget K j k * stepG m (pwK K (states_of m) m) k xs)))).
  - apply bsum_ext; intros k Hk. rewrite (HK q k Hq Hk).
    match goal with |- (?a + ?b) * ?c = _ => transitivity (a * c + b * c); [ring|] end.
    f_equal. rewrite <- bsum_mul_r. apply bsum_ext; intros j _. ring.
  - rewrite bsum_add, bsum_swap. f_equal.
    + apply (bsum_fid_l S (states_of m) (fun k => stepG m (pwK K (states_of m) m) k xs) q
               (states_nodup m) Hq).
    + apply bsum_ext; intros j _. rewrite (pwK_stepG K (states_of m) m j xs).
      rewrite bsum_mul_l. reflexivity.
Qed.

(* ---- generic unrolling of a fuel-indexed family along a nilpotent matrix ---- *)
Section Unroll.
Variables (st : list nat) (E : nat -> nat -> S).
Hypothesis Hnd : NoDup st.

Definition mapp (M : nat -> nat -> S) (v : nat -> S) (q : nat) : S := bsum st (fun k => M q k * v k).

Lemma mapp_fpow_0 v q : In q st -> mapp (fpow S st E O) v q = v q.
Proof. intros Hq. unfold mapp. cbn [fpow]. apply bsum_fid_l; assumption. Qed.

Lemma mapp_fpow_S t v q :
  mapp (fpow S st E (Datatypes.S t)) v q = bsum st (fun j => E q j * mapp (fpow S st E t) v j).
Proof.
  unfold mapp. cbn [fpow]. unfold fmul.
  transitivity (bsum st (fun k => bsum st (fun j => E q j * (fpow S st E t j k * v k)))).
  - apply bsum_ext; intros k _. rewrite <- bsum_mul_r. apply bsum_ext; intros j _. ring.
  - rewrite bsum_swap. apply bsum_ext; intros j _. rewrite bsum_mul_l. reflexivity.
Qed.

Variables (g : nat -> S) (P : nat -> nat -> S) (B : nat).
Hypothesis HP : forall f q, (B <= f)%nat -> In q st ->
  P (Datatypes.S f) q = g q + bsum st (fun j => E q j * P f j).

Lemma unrollP (r : nat) : forall f q, (B <= f)%nat -> In q st ->
  P (r + f)%nat q = bsum (seq O r) (fun t => mapp (fpow S st E t) g q) + mapp (fpow S st E r) (P f) q.
Proof.
  induction r as [|r IH]; intros f q Hf Hq.
  - cbn [seq Nat.add]. rewrite bsum_nil, mapp_fpow_0 by assumption. ring.
  - change (Datatypes.S r + f)%nat with (Datatypes.S (r + f)).
    rewrite HP by (try lia; assumption).
    rewrite (bsum_ext S st _
               (fun j => bsum (seq O r) (fun t => E q j * mapp (fpow S st E t) g j)
                         + E q j * mapp (fpow S st E r) (P f) j)).
    2:{ intros j Hj. rewrite (IH f j Hf Hj). rewrite bsum_mul_l. ring. }
    rewrite bsum_add, bsum_swap.
    change (seq O (Datatypes.S r)) with (O :: seq 1 r).
    rewrite <- seq_shift, bsum_cons, bsum_map.
    rewrite (bsum_ext S (seq O r) (fun t => mapp (fpow S st E (Datatypes.S t)) g q)
               (fun t => bsum st (fun j => E q j * mapp (fpow S st E t) g j)))
      by (intros; apply mapp_fpow_S).
    rewrite (mapp_fpow_S r (P f) q), mapp_fpow_0 by assumption. ring.
Qed.

Variables (X : nat -> nat -> S) (d : nat).
Hypothesis HX : forall i k, In i st -> In k st -> X i k = fid i k + bsum st (fun j => E i j * X j k).
Hypothesis Hnil : forall i k, In i st -> In k st -> fpow S st E d i k = 0.

Lemma mapp_series v q : In q st ->
  mapp X v q = bsum (seq O d) (fun t => mapp (fpow S st E t) v q).
Proof.
  intros Hq. unfold mapp.
  transitivity (bsum st (fun k => bsum (seq O d) (fun t => fpow S st E t q k * v k))).
  - apply bsum_ext; intros k Hk.
    rewrite (nilpotent_unique S st E X d HX Hnil q k Hq Hk). rewrite bsum_mul_r. reflexivity.
  - apply bsum_swap.
Qed.

Lemma unroll_closed f q : (B <= f)%nat -> In q st -> P (d + f)%nat q = mapp X g q.
Proof.
  intros Hf Hq. rewrite (unrollP d f q Hf Hq), (mapp_series g q Hq).
  unfold mapp at 2. rewrite (bsum_zero S st).
  - ring.
  - intros k Hk. rewrite (Hnil q k Hq Hk). ring.
Qed.

End Unroll.

Lemma pwe_pwK (m : wfsa S) (K : mat S) (d : nat) :
  (forall i k, In i (states_of m) -> In k (states_of m) ->
     mget K i k = fid i k + bsum (states_of m) (fun j => epsf m i j * mget K j k)) ->
  (forall i k, In i (states_of m) -> In k (states_of m) -> fpow S (states_of m) (epsf m) d i k = 0) ->
  forall xs fuel q, In q (states_of m) ->
    ((length xs + 1) * d + length xs <= fuel)%nat ->
    pwe m fuel q xs = pwK K (states_of m) m q xs.
Proof.
  intros HK Hnil. induction xs as [|a t IH]; intros fuel q Hq Hfuel.
  - cbn [length] in Hfuel.
    replace fuel with (d + (fuel - d))%nat by lia.
    rewrite pwK_stepG.
    apply (unroll_closed (states_of m) (epsf m) (states_nodup m)
             (fun k => stepG m (pwK K (states_of m) m) k [])
             (fun f q => pwe m f q []) O).
    + intros f q' _ Hq'. rewrite pwe_unfold. reflexivity.
    + exact HK.
    + exact Hnil.
    + lia.
    + exact Hq.
  - cbn [length] in Hfuel.
    replace fuel with (d + (fuel - d))%nat by lia.
    rewrite pwK_stepG.
    apply (unroll_closed (states_of m) (epsf m) (states_nodup m)
             (fun k => stepG m (pwK K (states_of m) m) k (a :: t))
             (fun f q => pwe m f q (a :: t)) ((length t + 1) * d + length t)%nat).
    + intros f q' Hf Hq'. rewrite pwe_unfold. f_equal.
      cbn [stepG]. apply bsum_ext; intros ar Har.
      destruct (Nat.eqb (asrc ar) q' && lbl_eqb (albl ar) a); [|reflexivity].
      rewrite (IH f (adst ar) (dst_in_states m ar Har) Hf). reflexivity.
    + exact HK.
    + exact Hnil.
    + lia.
    + exact Hq.
Qed.

Theorem epsremove_acyclic_paths : forall (m : wfsa S) (K : mat S) (d : nat) (xs : list nat) (fuel : nat),
  let st := states_of m in
  (forall i k, In i st -> In k st -> mget K i k = fid i k + bsum st (fun j => epsf m i j * mget K j k)) ->
  (forall i k, In i st -> In k st -> fpow S st (epsf m) d i k = 0) ->
  ((length xs + 1) * d + length xs <= fuel)%nat ->
  weight (epsremove_with K m) xs = pathsum_e m fuel xs.
Proof.
  intros m K d xs fuel st HK Hnil Hfuel. subst st.
  rewrite epsremove_matrix_form. unfold matrix_form, pathsum_e.
  apply bsum_ext; intros e He.
  rewrite (pwe_pwK m K d HK Hnil xs fuel (fst e) (init_in_states m e He) Hfuel). reflexivity.
Qed.

End EpsRemove.

Print Assumptions epsremove_eps_free.
Print Assumptions epsremove_matrix_form.
Print Assumptions epsfree_matrix_form_id.
Print Assumptions pwe_unfold.
Print Assumptions pwK_unfold.
Print Assumptions epsremove_acyclic_paths.
