(* Sub-probability: a weighted automaton over the rationals with non-negative weights whose
   every state has outgoing-plus-final mass at most one, and whose initial mass is at most one,
   gives total weight at most one to the set of all strings of bounded length (for every bound).
   Instance: the automaton built from a regex DFA (interegular_to_wfsa post-processing). *)
From Coq Require Import List Arith Bool ZArith QArith Qcanon Lia.
From GV.lib Require Import Semiring BigSum.
From GV.model Require Import Regex Wfsa.
From GV.proofs Require Import RegexProofs RegexLangProofs ProductProofs.
Import ListNotations.
Local Open Scope Qc_scope.

Notation qsum := (bsum (S:=QcSR)) (only parsing).

(* ---------- order facts over Qc ---------- *)

Lemma qsum_cons {A} (a : A) (l : list A) (f : A -> Qc) : qsum (a :: l) f = f a + qsum l f.
Proof. reflexivity. Qed.

Lemma Qc_le_add_nonneg : forall a b : Qc, 0 <= b -> a <= a + b.
Proof.
  intros a b Hb. pose proof (Qcplus_le_compat a a 0 b (Qcle_refl a) Hb) as H.
  rewrite Qcplus_0_r in H. exact H.
Qed.

Lemma Qc_mul_le_self : forall x t : Qc, 0 <= x -> t <= 1 -> x * t <= x.
Proof.
  intros x t Hx Ht. pose proof (Qcmult_le_compat_r t 1 x Ht Hx) as H.
  rewrite Qcmult_1_l in H. rewrite Qcmult_comm. exact H.
Qed.

Lemma Qc_eq_le : forall a b : Qc, a = b -> a <= b.
Proof. intros a b ->. apply Qcle_refl. Qed.

Lemma bsum_Qc_le : forall {A} (l : list A) (f g : A -> Qc),
  (forall a, In a l -> f a <= g a) -> qsum l f <= qsum l g.
Proof.
  intros A l f g. induction l as [|a t IH]; intros H.
  - apply Qcle_refl.
  - rewrite !qsum_cons. apply Qcplus_le_compat.
    + apply H. left. reflexivity.
    + apply IH. intros b Hb. apply H. right. exact Hb.
Qed.

(* a sum over a duplicate-free list in which at most one index matches the label *)
Lemma bsum_at_most_one : forall (V : list nat) (l : option nat) (T : Qc),
  NoDup V -> 0 <= T -> qsum V (fun c => if lbl_eqb l c then T else 0) <= T.
Proof.
  intros V l T Hnd HT. destruct l as [b|]; cbn [lbl_eqb].
  - apply Qcle_trans with (if existsb (fun a => Nat.eqb a b) V then T else 0).
    + apply Qc_eq_le. exact (bsum_delta QcSR Nat.eqb Nat.eqb_eq V b (fun _ => T) Hnd).
    + destruct (existsb _ V); [apply Qcle_refl|exact HT].
  - apply Qcle_trans with 0; [|exact HT].
    apply Qc_eq_le. apply (bsum_zero QcSR). reflexivity.
Qed.

(* ---------- locally sub-normalised automata ---------- *)

(* outgoing arc weights plus final weight of state q *)
Definition state_mass (m : wfsa QcSR) (q : nat) : Qc :=
  wget (wfinal m) q + qsum (warcs m) (fun ar => if Nat.eqb (asrc ar) q then awt ar else 0).

Definition nonneg_wfsa (m : wfsa QcSR) : Prop :=
  (forall e, In e (winit m) -> 0 <= snd e) /\
  (forall e, In e (wfinal m) -> 0 <= snd e) /\
  (forall ar, In ar (warcs m) -> 0 <= awt ar).

Lemma wget_nonneg : forall (v : list (nat * Qc)) (q : nat),
  (forall e, In e v -> 0 <= snd e) -> 0 <= wget (S:=QcSR) v q.
Proof.
  intros v q H. unfold wget. apply (bsum_Qc_nonneg v). intros e He. cbv beta.
  destruct (Nat.eqb q _); [apply H, He|apply Qcle_refl].
Qed.

Lemma pw_nonneg : forall (m : wfsa QcSR), nonneg_wfsa m -> forall xs q, 0 <= pw m q xs.
Proof.
  intros m [_ [Hf Ha]] xs. induction xs as [|a xs IH]; intros q.
  - cbn [pw]. apply wget_nonneg. exact Hf.
  - cbn [pw]. apply (bsum_Qc_nonneg (warcs m)). intros ar Har. cbv beta.
    destruct (Nat.eqb (asrc ar) q && lbl_eqb (albl ar) a); [|apply Qcle_refl].
    apply Qc_mul_nonneg; [apply Ha, Har|apply IH].
Qed.

(* the contribution of one arc, summed over all first symbols and all continuations *)
Lemma arc_term_bound : forall (V : list nat) (W : list (list nat)) (b : bool) (l : option nat)
    (a : Qc) (p : list nat -> Qc),
  NoDup V -> 0 <= a -> (forall w, 0 <= p w) -> qsum W p <= 1 ->
  qsum V (fun c => qsum W (fun w => if b && lbl_eqb l c then a * p w else 0)) <= (if b then a else 0).
Proof.
  intros V W b l a p Hnd Ha Hp Hle. destruct b; cbn [andb].
  - assert (E : qsum V (fun c => qsum W (fun w => if lbl_eqb l c then a * p w else 0))
              = qsum V (fun c => if lbl_eqb l c then a * qsum W p else 0)).
    { apply (bsum_ext QcSR). intros c _. destruct (lbl_eqb l c).
      - exact (bsum_mul_l QcSR W p a).
      - apply (bsum_zero QcSR). reflexivity. }
    rewrite E. clear E.
    assert (HT : 0 <= qsum W p) by (apply (bsum_Qc_nonneg W); intros w _; apply Hp).
    apply Qcle_trans with (a * qsum W p).
    + apply bsum_at_most_one; [exact Hnd|apply Qc_mul_nonneg; assumption].
    + apply Qc_mul_le_self; assumption.
  - apply Qc_eq_le. apply (bsum_zero QcSR). intros c _. apply (bsum_zero QcSR). reflexivity.
Qed.

Lemma step_bound : forall (V : list nat) (m : wfsa QcSR) (n q : nat),
  NoDup V -> nonneg_wfsa m ->
  (forall q', qsum (words_le V n) (fun w => pw m q' w) <= 1) ->
  qsum V (fun c => qsum (words_le V n) (fun w => pw m q (c :: w)))
  <= qsum (warcs m) (fun ar => if Nat.eqb (asrc ar) q then awt ar else 0).
Proof.
  intros V m n q Hnd Hnn IH.
  set (W := words_le V n) in *.
  set (term := fun (ar : arc QcSR) (c : nat) (w : list nat) =>
                 if Nat.eqb (asrc ar) q && lbl_eqb (albl ar) c then awt ar * pw m (adst ar) w else 0).
  assert (E : qsum V (fun c => qsum W (fun w => pw m q (c :: w)))
            = qsum (warcs m) (fun ar => qsum V (fun c => qsum W (fun w => term ar c w)))).
  { etransitivity.
    - apply (bsum_ext QcSR). intros c _. cbn [pw].
      exact (bsum_swap QcSR W (warcs m) (fun w ar => term ar c w)).
    - exact (bsum_swap QcSR V (warcs m) (fun c ar => qsum W (fun w => term ar c w))). }
  rewrite E. clear E.
  apply bsum_Qc_le. intros ar Har. unfold term.
  apply (arc_term_bound V W (Nat.eqb (asrc ar) q) (albl ar) (awt ar) (fun w => pw m (adst ar) w)).
  - exact Hnd.
  - destruct Hnn as [_ [_ Ha]]. apply Ha, Har.
  - intros w. apply pw_nonneg. exact Hnn.
  - apply IH.
Qed.

Theorem substochastic_total : forall (V : list nat) (m : wfsa QcSR), NoDup V -> nonneg_wfsa m ->
  (forall q, state_mass m q <= 1) ->
  forall n q, qsum (words_le V n) (fun xs => pw m q xs) <= 1.
Proof.
  intros V m Hnd Hnn Hsm. induction n as [|n IH]; intros q.
  - change (wget (wfinal m) q + 0 <= 1). rewrite Qcplus_0_r.
    apply Qcle_trans with (state_mass m q); [|apply Hsm].
    unfold state_mass. apply Qc_le_add_nonneg.
    apply (bsum_Qc_nonneg (warcs m)). intros ar Har. cbv beta.
    destruct (Nat.eqb (asrc ar) q); [|apply Qcle_refl].
    destruct Hnn as [_ [_ Ha]]. apply Ha, Har.
  - apply Qcle_trans with (state_mass m q); [|apply Hsm].
    apply Qcle_trans with
      (pw m q [] + qsum V (fun c => qsum (words_le V n) (fun w => pw m q (c :: w)))).
    + apply Qc_eq_le. exact (bsum_words_le_S QcSR V n (fun xs => pw m q xs)).
    + unfold state_mass. apply Qcplus_le_compat; [apply Qcle_refl|].
      apply step_bound; assumption.
Qed.

Theorem substochastic_language : forall (V : list nat) (m : wfsa QcSR), NoDup V -> nonneg_wfsa m ->
  (forall q, state_mass m q <= 1) -> qsum (winit m) (fun e => snd e) <= 1 ->
  forall n, qsum (words_le V n) (fun xs => pathsum m xs) <= 1.
Proof.
  intros V m Hnd Hnn Hsm Hinit n.
  set (W := words_le V n).
  assert (E : qsum W (fun xs => pathsum m xs)
            = qsum (winit m) (fun e => snd e * qsum W (fun xs => pw m (fst e) xs))).
  { unfold pathsum. etransitivity.
    - exact (bsum_swap QcSR W (winit m) (fun xs e => snd e * pw m (fst e) xs)).
    - apply (bsum_ext QcSR). intros e _.
      exact (bsum_mul_l QcSR W (fun xs => pw m (fst e) xs) (snd e)). }
  rewrite E. clear E.
  apply Qcle_trans with (qsum (winit m) (fun e => snd e)); [|exact Hinit].
  apply bsum_Qc_le. intros e He.
  apply Qc_mul_le_self.
  - destruct Hnn as [Hi _]. apply Hi, He.
  - apply substochastic_total; assumption.
Qed.

(* ---------- the automaton built from a regex DFA ---------- *)

Ltac qc_norm :=
  change (@s0 QcSR) with 0%Qc; change (@s1 QcSR) with 1%Qc;
  change (@sadd QcSR) with Qcplus; change (@smul QcSR) with Qcmult.

Lemma Qc_0_le_1 : 0 <= 1.
Proof. apply Qclt_le_weak. reflexivity. Qed.

Lemma re_nonneg : forall charset D, nonneg_wfsa (re_wfsa charset D).
Proof.
  intros charset D. split; [|split].
  - intros e [<-|[]]. cbn [snd]. exact Qc_0_le_1.
  - intros [i w] Hin. cbn [re_wfsa wfinal] in Hin.
    destruct (regex_finals_weight _ _ _ _ Hin) as [outs [_ [_ [-> HK]]]].
    cbn [snd]. apply Qclt_le_weak, regex_weights_positive, HK.
  - intros ar Har.
    destruct (re_warcs_inv _ _ _ Har) as [i [x [j [w [-> Hin]]]]].
    destruct (regex_arcs_single_char _ _ _ _ _ _ Hin) as [outs [_ [_ [-> HK]]]].
    unfold awt. cbn [snd]. apply Qclt_le_weak, regex_weights_positive, HK.
Qed.

(* a sum over an association list with distinct keys in which only key q contributes *)
Lemma bsum_fst_at_most_one : forall {B} (l : list (nat * B)) (q : nat) (h : nat * B -> Qc),
  NoDup (map fst l) -> (forall e, In e l -> 0 <= h e /\ h e <= 1) ->
  qsum l (fun e => if Nat.eqb (fst e) q then h e else 0) <= 1.
Proof.
  intros B l q h. induction l as [|a t IH]; intros Hnd Hh.
  - exact Qc_0_le_1.
  - rewrite qsum_cons. cbn [map] in Hnd. inversion Hnd as [|x xs Hnin Hnd']; subst.
    destruct (Nat.eqb_spec (fst a) q) as [Eq|Ne].
    + assert (Z : qsum t (fun e => if Nat.eqb (fst e) q then h e else 0) = 0).
      { apply (bsum_zero QcSR). intros e He. cbv beta.
        destruct (Nat.eqb_spec (fst e) q) as [E2|]; [|reflexivity].
        exfalso. apply Hnin. rewrite Eq, <- E2. apply in_map. exact He. }
      rewrite Z, Qcplus_0_r. apply Hh. left. reflexivity.
    + rewrite Qcplus_0_l. apply IH; [exact Hnd'|]. intros e He. apply Hh. right. exact He.
Qed.

Lemma re_mass_range : forall charset D e, 0 <= re_mass charset D e /\ re_mass charset D e <= 1.
Proof.
  intros charset D e.
  destruct (Nat.eq_dec (fanout charset D (fst e) (snd e)) 0) as [E|E].
  - unfold re_mass. cbv zeta. rewrite E. cbn [Nat.eqb].
    split; [apply Qcle_refl|exact Qc_0_le_1].
  - rewrite (regex_locally_normalised _ _ _ E). split; [exact Qc_0_le_1|apply Qcle_refl].
Qed.

Definition fin_piece (charset : list nat) (D : dfa) (e : nat * list (nat * nat)) : list (nat * Qc) :=
  let i := fst e in let K := fanout charset D i (snd e) in
  if Nat.eqb K 0 then [] else if memn i (d_finals D) then [(i, invK K)] else [].
Definition arc_piece (charset : list nat) (D : dfa) (e : nat * list (nat * nat)) : list (nat * nat * nat * Qc) :=
  let i := fst e in let K := fanout charset D i (snd e) in
  if Nat.eqb K 0 then [] else map (fun xj => (i, fst xj, snd xj, invK K)) (moves charset D (snd e)).
Definition arc_conv (a : nat * nat * nat * Qc) : arc QcSR :=
  match a with (i, x, j, w) => (i, Some x, j, w) end.

(* the final weight and the arcs that one entry of the DFA's map contributes to state q *)
Lemma re_entry_mass : forall charset D q e,
  qsum (fin_piece charset D e) (fun f => if Nat.eqb q (fst f) then snd f else 0)
  + qsum (arc_piece charset D e) (fun a => if Nat.eqb (asrc (arc_conv a)) q then awt (arc_conv a) else 0)
  = (if Nat.eqb (fst e) q then re_mass charset D e else 0).
Proof.
  intros charset D q [i outs]. unfold fin_piece, arc_piece, re_mass. cbv zeta. cbn [fst snd].
  destruct (Nat.eqb (fanout charset D i outs) 0).
  - change (0 + 0 = (if Nat.eqb i q then 0 else 0)). destruct (Nat.eqb i q); apply Qcplus_0_l.
  - rewrite (bsum_map QcSR). unfold arc_conv, asrc, awt. cbn [fst snd].
    destruct (memn i (d_finals D)).
    + rewrite qsum_cons, bsum_nil. cbn [fst snd]. rewrite (Nat.eqb_sym q i).
      destruct (Nat.eqb i q).
      * qc_norm. ring.
      * rewrite (bsum_const_zero QcSR). qc_norm. ring.
    + rewrite bsum_nil. destruct (Nat.eqb i q).
      * qc_norm. ring.
      * rewrite (bsum_const_zero QcSR). qc_norm. ring.
Qed.

Lemma re_state_mass : forall charset D, NoDup (map fst (d_map D)) ->
  forall q, state_mass (re_wfsa charset D) q <= 1.
Proof.
  intros charset D Hnd q. unfold state_mass. cbn [re_wfsa wfinal warcs]. unfold wget.
  apply Qcle_trans with (qsum (d_map D) (fun e => if Nat.eqb (fst e) q then re_mass charset D e else 0)).
  - apply Qc_eq_le.
    transitivity
      (qsum (d_map D) (fun e => qsum (fin_piece charset D e) (fun f => if Nat.eqb q (fst f) then snd f else 0))
       + qsum (d_map D) (fun e => qsum (arc_piece charset D e)
                                   (fun a => if Nat.eqb (asrc (arc_conv a)) q then awt (arc_conv a) else 0))).
    + f_equal.
      * exact (bsum_flat_map QcSR (d_map D) (fin_piece charset D) _).
      * rewrite (bsum_map QcSR).
        exact (bsum_flat_map QcSR (d_map D) (arc_piece charset D) _).
    + etransitivity.
      * symmetry. exact (bsum_add QcSR (d_map D) _ _).
      * apply (bsum_ext QcSR). intros e _. apply re_entry_mass.
  - apply bsum_fst_at_most_one; [exact Hnd|]. intros e _. apply re_mass_range.
Qed.

(* the DFA's transition map has one entry per state, as a Python dict does *)
Theorem re_subprobability : forall (V charset : list nat) (D : dfa), NoDup V ->
  NoDup (map fst (d_map D)) ->
  forall n, qsum (words_le V n) (fun xs => pathsum (re_wfsa charset D) xs) <= 1.
Proof.
  intros V charset D HV Hnd n.
  apply substochastic_language.
  - exact HV.
  - apply re_nonneg.
  - apply re_state_mass. exact Hnd.
  - cbn [re_wfsa winit]. change (1 + 0 <= 1). rewrite Qcplus_0_r. apply Qcle_refl.
Qed.

(* ---------- a concrete DFA ---------- *)

Example exD_total_3 :
  qsum (words_le [7; 8]%nat 3) (fun xs => pathsum (re_wfsa [7; 8]%nat exD) xs) = Q2Qc (7 # 8).
Proof. vm_compute. reflexivity. Qed.

(* the hypotheses of re_subprobability hold for it *)
Example exD_subprobability : forall n,
  qsum (words_le [7; 8]%nat n) (fun xs => pathsum (re_wfsa [7; 8]%nat exD) xs) <= 1.
Proof.
  apply re_subprobability.
  - repeat constructor; cbn; intuition discriminate.
  - repeat constructor; cbn; intuition discriminate.
Qed.

Print Assumptions substochastic_total.
Print Assumptions substochastic_language.
Print Assumptions re_subprobability.
Print Assumptions exD_total_3.
Print Assumptions exD_subprobability.
