(* CFG.derivative(a) (model/Deriv.v): the derivative grammar computes the left quotient.
   If f is a solution of the equation system of G (f X xs = gstep G f X xs), U X = f X []
   are the null weights, and the slash names sl X are new, then
       deriv_val sl a G f     (sl X |-> (xs |-> f X (a :: xs)), other symbols unchanged)
   is a solution of the equation system of  derivative U sl a G.  In particular the new
   start symbol sl s gives xs the weight that s gives a :: xs in G.
   No axioms. *)
From Coq Require Import List Arith Bool Lia.
From GV.lib Require Import Semiring BigSum.
From GV.model Require Import Cfg Deriv.
From GV.proofs Require Import UnfoldProofs CkyProofs FoldProofs.
Import ListNotations.
Local Open Scope sr_scope.

Section DerivProofs.
Variable S : SR.
Add Ring DerivRing : (sth S).

(* ====================================================================== *)
(* 0. splits of a non-empty string; nonterminals of a grammar             *)
(* ====================================================================== *)

Lemma splits_cons {A} (a : A) (xs : list A) :
  splits (a :: xs) = ([], a :: xs) :: map (fun p => (a :: fst p, snd p)) (splits xs).
Proof. reflexivity. Qed.

(* the weight of N Y :: rest on a :: xs: either Y derives the empty string, or Y takes
   the first letter *)
Lemma Wb_N_cons (f : nat -> list nat -> S) Y rest a xs :
  Wb f (N Y :: rest) (a :: xs)
  = f Y [] * Wb f rest (a :: xs)
    + bsum (splits xs) (fun p => f Y (a :: fst p) * Wb f rest (snd p)).
Proof. cbn [Wb]. rewrite splits_cons, bsum_cons, bsum_map. reflexivity. Qed.

Lemma Wb_T_cons (f : nat -> list nat -> S) b rest a xs :
  Wb f (T b :: rest) (a :: xs) = if Nat.eqb b a then Wb f rest xs else 0.
Proof. reflexivity. Qed.

Lemma in_body_nts Y body : In Y (body_nts body) <-> In (N Y) body.
Proof.
  unfold body_nts. rewrite in_flat_map. split.
  - intros [s [Hs HY]]. destruct s as [b|Z]; [destruct HY|].
    destruct HY as [E|[]]. subst Z. exact Hs.
  - intros HY. exists (N Y). split; [exact HY|left; reflexivity].
Qed.

Lemma head_in_nts (G : grammar S) r : In r G -> In (rhead r) (nts G).
Proof. intros Hr. unfold nts. apply in_flat_map. exists r. split; [exact Hr|left; reflexivity]. Qed.

Lemma body_in_nts (G : grammar S) r Y : In r G -> In (N Y) (rbody r) -> In Y (nts G).
Proof.
  intros Hr HY. unfold nts. apply in_flat_map. exists r. split; [exact Hr|].
  right. apply in_body_nts. exact HY.
Qed.

Lemma in_nts_inv (G : grammar S) Y :
  In Y (nts G) -> exists r, In r G /\ (rhead r = Y \/ In (N Y) (rbody r)).
Proof.
  unfold nts. rewrite in_flat_map. intros [r [Hr [E|HY]]]; exists r; (split; [exact Hr|]).
  - left; exact E.
  - right. apply in_body_nts. exact HY.
Qed.

(* ====================================================================== *)
(* 1. the valuation of the derivative grammar                             *)
(* ====================================================================== *)

Section Val.
Variable sl : nat -> nat.
Variable a : nat.
Variable G : grammar S.
Variable f : nat -> list nat -> S.

Hypothesis sl_inj : forall X Y, sl X = sl Y -> X = Y.
(* the slash names are new *)
Hypothesis fresh_head : forall r X, In r G -> rhead r <> sl X.
Hypothesis fresh_body : forall r X, In r G -> ~ In (N (sl X)) (rbody r).

Local Notation f' := (deriv_val sl a G f).

Lemma find_slash X :
  In X (nts G) -> find (fun X' => Nat.eqb (sl X') (sl X)) (nts G) = Some X.
Proof.
  intros HX. destruct (find (fun X' => Nat.eqb (sl X') (sl X)) (nts G)) as [X'|] eqn:E.
  - apply find_some in E. destruct E as [_ E]. apply Nat.eqb_eq in E.
    f_equal. apply sl_inj. exact E.
  - pose proof (find_none _ _ E X HX) as Hn. cbv beta in Hn.
    rewrite Nat.eqb_refl in Hn. discriminate Hn.
Qed.

Lemma find_slash_out X :
  ~ In X (nts G) -> find (fun X' => Nat.eqb (sl X') (sl X)) (nts G) = None.
Proof.
  intros HX. destruct (find (fun X' => Nat.eqb (sl X') (sl X)) (nts G)) as [X'|] eqn:E; [|reflexivity].
  apply find_some in E. destruct E as [Hin E]. apply Nat.eqb_eq in E.
  apply sl_inj in E. subst X'. exfalso. exact (HX Hin).
Qed.

(* a symbol that is not the slash name of a nonterminal of G keeps its value *)
Lemma deriv_val_other Z ys :
  (forall X, In X (nts G) -> sl X <> Z) -> f' Z ys = f Z ys.
Proof.
  intros HZ. unfold deriv_val.
  destruct (find (fun X => Nat.eqb (sl X) Z) (nts G)) as [X|] eqn:E; [|reflexivity].
  apply find_some in E. destruct E as [Hin E]. apply Nat.eqb_eq in E.
  exfalso. exact (HZ X Hin E).
Qed.

(* the nonterminals of G are not slash names *)
Lemma nts_not_slash Y X : In Y (nts G) -> sl X <> Y.
Proof.
  intros HY E. destruct (in_nts_inv G Y HY) as [r [Hr [Hh|Hb]]].
  - apply (fresh_head r X Hr). rewrite Hh, E. reflexivity.
  - apply (fresh_body r X Hr). rewrite E. exact Hb.
Qed.

Lemma deriv_val_nts Y ys : In Y (nts G) -> f' Y ys = f Y ys.
Proof. intros HY. apply deriv_val_other. intros X _. apply nts_not_slash. exact HY. Qed.

(* the bodies of G have the same weight under f' and under f *)
Lemma Wb_deriv_val r : In r G -> forall xs, Wb f' (rbody r) xs = Wb f (rbody r) xs.
Proof.
  intros Hr. apply Wb_ext_in. intros Y ys HY. apply deriv_val_nts.
  exact (body_in_nts G r Y Hr HY).
Qed.

Hypothesis Hsol : solves S G f.

(* a symbol that is the head of no rule has value zero *)
Lemma solves_nohead Z ys : (forall r, In r G -> rhead r <> Z) -> f Z ys = 0.
Proof. intros HZ. rewrite (Hsol Z ys). apply gstep_nohead. exact HZ. Qed.

(* the value of a slash name: for every X, in G or not *)
Lemma deriv_val_slash X xs : f' (sl X) xs = f X (a :: xs).
Proof.
  unfold deriv_val. destruct (in_dec Nat.eq_dec X (nts G)) as [HX|HX].
  - rewrite (find_slash X HX). reflexivity.
  - rewrite (find_slash_out X HX).
    rewrite (solves_nohead (sl X) xs) by (intros r Hr; apply fresh_head; exact Hr).
    symmetry. apply solves_nohead. intros r Hr E. apply HX. rewrite <- E.
    apply head_in_nts. exact Hr.
Qed.

(* ====================================================================== *)
(* 2. key lemma: the left derivative of a body                            *)
(* ====================================================================== *)

Variable U : nat -> S.
Hypothesis HU : forall X, U X = f X [].

Lemma deriv_body_sum (w : S) (head : nat) (body : list sym) :
  (forall Y, In (N Y) body -> In Y (nts G)) ->
  forall (delta : S) (xs : list nat),
    bsum (deriv_body U sl a w head delta body) (fun r' => rw r' * Wb f' (rbody r') xs)
    = delta * w * Wb f body (a :: xs).
Proof.
  induction body as [|[b|Y] rest IH]; intros Hb delta xs.
  - cbn [deriv_body]. rewrite bsum_nil. cbn [Wb]. ring.
  - cbn [deriv_body]. rewrite Wb_T_cons. destruct (Nat.eqb b a).
    + rewrite bsum_cons, bsum_nil. unfold rw, rbody. cbn [fst snd].
      rewrite (Wb_ext_in S f' f rest).
      * ring.
      * intros Y ys HY. apply deriv_val_nts. apply Hb. right; exact HY.
    + rewrite bsum_nil. ring.
  - assert (Hrest : forall Z, In (N Z) rest -> In Z (nts G)).
    { intros Z HZ. apply Hb. right; exact HZ. }
    cbn [deriv_body]. rewrite bsum_cons. rewrite (IH Hrest). rewrite Wb_N_cons.
    unfold rw at 1. unfold rbody at 1. cbn [fst snd].
    change (Wb f' (N (sl Y) :: rest) xs)
      with (bsum (splits xs) (fun p => f' (sl Y) (fst p) * Wb f' rest (snd p))).
    rewrite (bsum_ext S (splits xs)
               (fun p => f' (sl Y) (fst p) * Wb f' rest (snd p))
               (fun p => f Y (a :: fst p) * Wb f rest (snd p))).
    + rewrite (HU Y). ring.
    + intros p _. rewrite deriv_val_slash. f_equal.
      apply Wb_ext_in. intros Z ys HZ. apply deriv_val_nts. apply Hrest. exact HZ.
Qed.

(* the statement of the key lemma with w = 1 and delta = 1 *)
Corollary deriv_body_left (head : nat) (body : list sym) (xs : list nat) :
  (forall Y, In (N Y) body -> In Y (nts G)) ->
  Wb f body (a :: xs)
  = bsum (deriv_body U sl a 1 head 1 body) (fun r' => rw r' * Wb f' (rbody r') xs).
Proof. intros Hb. rewrite (deriv_body_sum 1 head body Hb 1 xs). ring. Qed.

(* ====================================================================== *)
(* 3. structure of the derivative grammar                                 *)
(* ====================================================================== *)

Lemma deriv_body_head (w : S) head body : forall delta r',
  In r' (deriv_body U sl a w head delta body) -> rhead r' = sl head.
Proof.
  induction body as [|[b|Y] rest IH]; intros delta r' Hr'.
  - destruct Hr'.
  - cbn [deriv_body] in Hr'. destruct (Nat.eqb b a); [|destruct Hr'].
    destruct Hr' as [E|[]]. subst r'. reflexivity.
  - cbn [deriv_body] in Hr'. destruct Hr' as [E|Hr'].
    + subst r'. reflexivity.
    + exact (IH _ r' Hr').
Qed.

(* a body symbol of an added rule is a symbol of the original body or the slash name of
   a nonterminal of the original body *)
Lemma deriv_body_syms (w : S) head body : forall delta r' s,
  In r' (deriv_body U sl a w head delta body) -> In s (rbody r') ->
  In s body \/ exists Y, In (N Y) body /\ s = N (sl Y).
Proof.
  induction body as [|[b|Y] rest IH]; intros delta r' s Hr' Hs.
  - destruct Hr'.
  - cbn [deriv_body] in Hr'. destruct (Nat.eqb b a); [|destruct Hr'].
    destruct Hr' as [E|[]]. subst r'. left. right. exact Hs.
  - cbn [deriv_body] in Hr'. destruct Hr' as [E|Hr'].
    + subst r'. unfold rbody in Hs. cbn [snd] in Hs. destruct Hs as [E|Hs].
      * right. exists Y. split; [left; reflexivity|symmetry; exact E].
      * left. right. exact Hs.
    + destruct (IH _ r' s Hr' Hs) as [H|[Z [HZ E]]].
      * left. right. exact H.
      * right. exists Z. split; [right; exact HZ|exact E].
Qed.

(* every rule of the derivative is an original rule or has a slash head *)
Lemma derivative_rules r' :
  In r' (derivative U sl a G) ->
  In r' G \/
  exists r, In r G /\ rhead r' = sl (rhead r) /\
            forall s, In s (rbody r') ->
                      In s (rbody r) \/ exists Y, In (N Y) (rbody r) /\ s = N (sl Y).
Proof.
  unfold derivative. rewrite in_app_iff, in_flat_map. intros [H|[r [Hr Hr']]]; [left; exact H|].
  right. exists r. split; [exact Hr|]. split.
  - exact (deriv_body_head _ _ _ _ _ Hr').
  - intros s Hs. exact (deriv_body_syms _ _ _ _ _ s Hr' Hs).
Qed.

Lemma derivative_incl r : In r G -> In r (derivative U sl a G).
Proof. intros Hr. unfold derivative. apply in_or_app. left; exact Hr. Qed.

(* ====================================================================== *)
(* 4. the main theorem                                                    *)
(* ====================================================================== *)

(* the added rules, seen from a slash name *)
Lemma gstep_added_slash X xs :
  gstep S (flat_map (fun r => deriv_body U sl a (rw r) (rhead r) 1 (rbody r)) G) f' (sl X) xs
  = gstep S G f X (a :: xs).
Proof.
  unfold gstep. rewrite bsum_flat_map. apply bsum_ext. intros r Hr.
  rewrite (bsum_ext S (deriv_body U sl a (rw r) (rhead r) 1 (rbody r))
             (fun r' => if Nat.eqb (rhead r') (sl X) then rw r' * Wb f' (rbody r') xs else 0)
             (fun r' => if Nat.eqb (rhead r) X then rw r' * Wb f' (rbody r') xs else 0)).
  - destruct (Nat.eqb (rhead r) X).
    + rewrite deriv_body_sum.
      * ring.
      * intros Y HY. exact (body_in_nts G r Y Hr HY).
    + apply bsum_zero. intros r' _. reflexivity.
  - intros r' Hr'. rewrite (deriv_body_head _ _ _ _ _ Hr').
    destruct (Nat.eqb_spec (rhead r) X) as [E|E].
    + subst X. rewrite Nat.eqb_refl. reflexivity.
    + destruct (Nat.eqb_spec (sl (rhead r)) (sl X)) as [E'|E']; [|reflexivity].
      exfalso. apply E. apply sl_inj. exact E'.
Qed.

(* the kept rules, seen from a symbol that is not a slash name of G *)
Lemma gstep_kept Z xs : gstep S G f' Z xs = gstep S G f Z xs.
Proof.
  apply gstep_ext_in. intros r Y ys Hr HY. apply deriv_val_nts.
  exact (body_in_nts G r Y Hr HY).
Qed.

Theorem derivative_solves : solves S (derivative U sl a G) f'.
Proof.
  intros Z xs. unfold derivative. rewrite gstep_app.
  destruct (find (fun X => Nat.eqb (sl X) Z) (nts G)) as [X|] eqn:E.
  - (* Z = sl X *)
    pose proof (find_some _ _ E) as [HX EZ]. apply Nat.eqb_eq in EZ. subst Z.
    rewrite gstep_added_slash.
    rewrite (gstep_nohead S G f' (sl X) xs) by (intros r Hr; apply fresh_head; exact Hr).
    rewrite deriv_val_slash, (Hsol X (a :: xs)). ring.
  - (* Z is not a slash name of G *)
    assert (HZ : forall X, In X (nts G) -> sl X <> Z).
    { intros X HX EZ. pose proof (find_none _ _ E X HX) as Hn. cbv beta in Hn.
      rewrite EZ, Nat.eqb_refl in Hn. discriminate Hn. }
    rewrite (deriv_val_other Z xs HZ), gstep_kept, <- (Hsol Z xs).
    rewrite (gstep_nohead S (flat_map _ G) f' Z xs); [ring|].
    intros r' Hr'. apply in_flat_map in Hr'. destruct Hr' as [r [Hr Hr']].
    rewrite (deriv_body_head _ _ _ _ _ Hr'). apply HZ. apply head_in_nts. exact Hr.
Qed.

(* the new start symbol gives xs the weight the old one gives a :: xs *)
Corollary derivative_start (s : nat) (xs : list nat) : f' (sl s) xs = f s (a :: xs).
Proof. apply deriv_val_slash. Qed.

(* the original symbols keep their values *)
Corollary derivative_old (X : nat) (xs : list nat) : In X (nts G) -> f' X xs = f X xs.
Proof. apply deriv_val_nts. Qed.

(* null weights of the derivative grammar, needed for the next derivative *)
Corollary derivative_null (X : nat) : f' (sl X) [] = f X [a].
Proof. apply deriv_val_slash. Qed.

End Val.

(* ====================================================================== *)
(* 5. instance: a stationary height of the derivation sum                 *)
(* ====================================================================== *)

Corollary derivative_W_stationary (sl : nat -> nat) (a : nat) (G : grammar S) (h : nat) :
  (forall X Y, sl X = sl Y -> X = Y) ->
  (forall r X, In r G -> rhead r <> sl X) ->
  (forall r X, In r G -> ~ In (N (sl X)) (rbody r)) ->
  (forall X xs, W G (Datatypes.S h) X xs = W G h X xs) ->
  solves S (derivative (fun X => W G h X []) sl a G) (deriv_val sl a G (W G h))
  /\ forall s xs, deriv_val sl a G (W G h) (sl s) xs = W G h s (a :: xs).
Proof.
  intros Hinj Hh Hb Hst.
  assert (Hsol : solves S G (W G h)).
  { intros X xs. rewrite <- W_succ_gstep. symmetry. apply Hst. }
  split.
  - apply derivative_solves; try assumption. intros X; reflexivity.
  - intros s xs. apply derivative_start; assumption.
Qed.

(* ====================================================================== *)
(* 6. two successive derivatives                                          *)
(* ====================================================================== *)

(* the slash names of a second derivative are new for the first derivative as soon as
   they are new for G and differ from the first slash names *)
Lemma derivative_fresh (U : nat -> S) (sl sl2 : nat -> nat) (a : nat) (G : grammar S) :
  (forall r X, In r G -> rhead r <> sl2 X) ->
  (forall r X, In r G -> ~ In (N (sl2 X)) (rbody r)) ->
  (forall X Y, sl2 X <> sl Y) ->
  (forall r X, In r (derivative U sl a G) -> rhead r <> sl2 X)
  /\ (forall r X, In r (derivative U sl a G) -> ~ In (N (sl2 X)) (rbody r)).
Proof.
  intros Hh Hb Hd. split.
  - intros r' X Hr'. destruct (derivative_rules sl a G U r' Hr') as [Hr|[r [Hr [E _]]]].
    + apply Hh. exact Hr.
    + rewrite E. intros E'. exact (Hd X (rhead r) (eq_sym E')).
  - intros r' X Hr' Hin. destruct (derivative_rules sl a G U r' Hr') as [Hr|[r [Hr [_ Hs]]]].
    + exact (Hb r' X Hr Hin).
    + destruct (Hs _ Hin) as [H|[Y [_ E]]].
      * exact (Hb r X Hr H).
      * injection E as E. exact (Hd X Y E).
Qed.

Theorem derivative2_solves (sl sl2 : nat -> nat) (a b : nat) (G : grammar S)
        (f : nat -> list nat -> S) (U U2 : nat -> S) :
  (forall X Y, sl X = sl Y -> X = Y) ->
  (forall X Y, sl2 X = sl2 Y -> X = Y) ->
  (forall r X, In r G -> rhead r <> sl X) ->
  (forall r X, In r G -> ~ In (N (sl X)) (rbody r)) ->
  (forall r X, In r G -> rhead r <> sl2 X) ->
  (forall r X, In r G -> ~ In (N (sl2 X)) (rbody r)) ->
  (forall X Y, sl2 X <> sl Y) ->
  solves S G f ->
  (forall X, U X = f X []) ->
  (forall X, U2 X = deriv_val sl a G f X []) ->
  let D := derivative U sl a G in
  let f2 := deriv_val sl2 b D (deriv_val sl a G f) in
  solves S (derivative U2 sl2 b D) f2
  /\ forall s xs, f2 (sl2 (sl s)) xs = f s (a :: b :: xs).
Proof.
  intros Hinj Hinj2 Hh Hb Hh2 Hb2 Hd Hsol HU HU2 D f2.
  destruct (derivative_fresh U sl sl2 a G Hh2 Hb2 Hd) as [Hh2' Hb2'].
  assert (Hsol' : solves S D (deriv_val sl a G f)).
  { apply derivative_solves; assumption. }
  split.
  - apply derivative_solves; assumption.
  - intros s xs. unfold f2.
    rewrite (derivative_start sl2 b D (deriv_val sl a G f) Hinj2 Hh2' Hsol' (sl s) xs).
    apply derivative_start; assumption.
Qed.

End DerivProofs.

Print Assumptions deriv_body_sum.
Print Assumptions derivative_solves.
Print Assumptions derivative_start.
Print Assumptions derivative_rules.
Print Assumptions derivative_W_stationary.
Print Assumptions derivative2_solves.
