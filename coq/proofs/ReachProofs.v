(* The top-down half of CFG.trim as modelled in model/TopDown.v:
   1. [reachable_closed]      the computed set [reachable G s] is closed under the rules with generating bodies;
   2. [reachable_td_closed]   hence it satisfies the hypothesis of [topdown_trim_W];
   3. [reachable_start], [reachable_generating];
   4. [trim_model_W]          the modelled trim preserves every derivation sum from the start symbol;
   5. [trim_model_W_reached]  and from every reached nonterminal;
   6. [reachable_sound], [reachable_complete]  the computed set is exactly the set of nonterminals reachable
      from the start symbol by a chain of rules of G with generating bodies (when the start is generating). *)
From Coq Require Import List Arith ZArith Bool Lia.
From GV.lib Require Import Semiring BigSum.
From GV.model Require Import Cfg Transform TopDown.
From GV.gen Require Import Gen_Cfg.
From GV.proofs Require Import TrimProofs TopDownTrimProofs.
Import ListNotations.
Local Open Scope sr_scope.

(* ---------- add_new: one element at a time ---------- *)

Definition astep (R : list nat) (x : nat) : list nat := if existsb (Nat.eqb x) R then R else x :: R.

Lemma add_new_fold (R xs : list nat) : add_new R xs = fold_left astep xs R.
Proof. reflexivity. Qed.

Lemma body_nts_In (b : list sym) (Y : nat) : In Y (body_nts b) <-> In (N Y) b.
Proof.
  unfold body_nts. rewrite in_flat_map. split.
  - intros [y [Hy HY]]. destruct y as [a|x]; simpl in HY; [destruct HY|].
    destruct HY as [HY|[]]. subst x. assumption.
  - intros H. exists (N Y). split; [assumption|left; reflexivity].
Qed.

Lemma astep_length (R : list nat) (x : nat) : length R <= length (astep R x).
Proof. unfold astep. destruct (existsb (Nat.eqb x) R); simpl; lia. Qed.

Lemma afold_length (xs : list nat) : forall R, length R <= length (fold_left astep xs R).
Proof.
  induction xs as [|x t IH]; intros R; simpl; [lia|].
  specialize (IH (astep R x)). pose proof (astep_length R x). lia.
Qed.

Lemma astep_same (R : list nat) (x : nat) : length (astep R x) = length R -> astep R x = R /\ In x R.
Proof.
  unfold astep. destruct (existsb (Nat.eqb x) R) eqn:E; simpl; intros H.
  - split; [reflexivity|apply mem_spec; assumption].
  - lia.
Qed.

Lemma afold_same (xs : list nat) : forall R,
  length (fold_left astep xs R) = length R ->
  fold_left astep xs R = R /\ forall x, In x xs -> In x R.
Proof.
  induction xs as [|x t IH]; intros R H.
  - split; [reflexivity|intros y []].
  - simpl in H. simpl fold_left.
    pose proof (astep_length R x) as H1. pose proof (afold_length t (astep R x)) as H2.
    assert (Hs : length (astep R x) = length R) by lia.
    destruct (astep_same R x Hs) as [Heq Hin]. rewrite Heq in H. rewrite Heq.
    destruct (IH R H) as [E1 E2].
    split; [assumption|]. intros y [Hy|Hy]; [subst y; assumption|apply E2; assumption].
Qed.

Lemma astep_NoDup (R : list nat) (x : nat) : NoDup R -> NoDup (astep R x).
Proof.
  intros H. unfold astep. destruct (existsb (Nat.eqb x) R) eqn:E; [assumption|].
  constructor; [apply mem_false; assumption|assumption].
Qed.

Lemma afold_NoDup (xs : list nat) : forall R, NoDup R -> NoDup (fold_left astep xs R).
Proof.
  induction xs as [|x t IH]; intros R H; simpl; [assumption|]. apply IH, astep_NoDup, H.
Qed.

Lemma astep_incl (R : list nat) (x : nat) : incl R (astep R x).
Proof. unfold astep. destruct (existsb (Nat.eqb x) R); [apply incl_refl|apply incl_tl, incl_refl]. Qed.

Lemma afold_incl (xs : list nat) : forall R, incl R (fold_left astep xs R).
Proof.
  induction xs as [|x t IH]; intros R; simpl; [apply incl_refl|].
  eapply incl_tran; [apply astep_incl|apply IH].
Qed.

Lemma afold_elems (xs : list nat) : forall R y, In y (fold_left astep xs R) -> In y R \/ In y xs.
Proof.
  induction xs as [|x t IH]; intros R y H; simpl in H; [left; assumption|].
  destruct (IH _ _ H) as [H1|H1].
  - unfold astep in H1. destruct (existsb (Nat.eqb x) R).
    + left; assumption.
    + destruct H1 as [H1|H1]; [right; left; assumption|left; assumption].
  - right; right; assumption.
Qed.

Section ReachProofs.
Variable S : SR.

(* R is closed (relative to the candidate set C): a reached head's rule with a body inside C has its body
   nonterminals reached *)
Definition rclosed (G : grammar S) (C R : list nat) : Prop :=
  forall r, In r G -> In (rhead r) R -> forallb (gen_sym C) (rbody r) = true ->
  forall Y, In (N Y) (rbody r) -> In Y R.

(* ---------- one step ---------- *)

Lemma rstep_length (C R : list nat) (r : rule S) : length R <= length (reach_step C R r).
Proof.
  unfold reach_step. destruct (_ && _); [|lia]. rewrite add_new_fold. apply afold_length.
Qed.

Lemma rstep_same (C R : list nat) (r : rule S) :
  length (reach_step C R r) = length R ->
  reach_step C R r = R /\
  (In (rhead r) R -> forallb (gen_sym C) (rbody r) = true -> forall Y, In (N Y) (rbody r) -> In Y R).
Proof.
  unfold reach_step.
  destruct (existsb (Nat.eqb (rhead r)) R) eqn:Eh; destruct (forallb (gen_sym C) (rbody r)) eqn:Eb; simpl.
  - rewrite add_new_fold. intros H. destruct (afold_same _ _ H) as [E1 E2].
    split; [exact E1|]. intros _ _ Y HY. apply E2, body_nts_In. assumption.
  - intros _. split; [reflexivity|]. intros _ H. discriminate H.
  - intros _. split; [reflexivity|]. intros H. apply mem_spec in H. congruence.
  - intros _. split; [reflexivity|]. intros _ H. discriminate H.
Qed.

Lemma rstep_NoDup (C R : list nat) (r : rule S) : NoDup R -> NoDup (reach_step C R r).
Proof.
  intros H. unfold reach_step. destruct (_ && _); [|assumption]. rewrite add_new_fold. apply afold_NoDup, H.
Qed.

Lemma rstep_incl (C R : list nat) (r : rule S) : incl R (reach_step C R r).
Proof.
  unfold reach_step. destruct (_ && _); [|apply incl_refl]. rewrite add_new_fold. apply afold_incl.
Qed.

(* what a step can add: body nonterminals of a rule with reached head and body inside C *)
Lemma rstep_elems (C R : list nat) (r : rule S) y :
  In y (reach_step C R r) ->
  In y R \/ (In (rhead r) R /\ forallb (gen_sym C) (rbody r) = true /\ In (N y) (rbody r)).
Proof.
  unfold reach_step.
  destruct (existsb (Nat.eqb (rhead r)) R) eqn:Eh; destruct (forallb (gen_sym C) (rbody r)) eqn:Eb; simpl;
    try (intros H; left; exact H).
  rewrite add_new_fold. intros H. destruct (afold_elems _ _ _ H) as [H1|H1]; [left; assumption|].
  right. split; [apply mem_spec; assumption|]. split; [reflexivity|]. apply body_nts_In; assumption.
Qed.

Lemma rstep_bound (C R : list nat) (r : rule S) : incl R C -> incl (reach_step C R r) C.
Proof.
  intros H y Hy. destruct (rstep_elems C R r y Hy) as [H1|[_ [Hb HY]]]; [apply H; assumption|].
  apply (proj1 (gen_sym_all C (rbody r)) Hb y HY).
Qed.

(* ---------- a pass / the iteration ---------- *)

Lemma rfold_inv (P : list nat -> Prop) (G : grammar S) (C : list nat) :
  (forall R r, In r G -> P R -> P (reach_step C R r)) ->
  forall l, incl l G -> forall R, P R -> P (fold_left (reach_step C) l R).
Proof.
  intros Hstep l. induction l as [|r t IH]; intros Hl R HR; simpl; [assumption|].
  apply IH.
  - intros x Hx. apply Hl. right; assumption.
  - apply Hstep; [apply Hl; left; reflexivity|assumption].
Qed.

Lemma reach_pass_inv (P : list nat -> Prop) (G : grammar S) (C : list nat) :
  (forall R r, In r G -> P R -> P (reach_step C R r)) -> forall R, P R -> P (reach_pass G C R).
Proof. intros Hstep R HR. unfold reach_pass. apply (rfold_inv P G C Hstep G (incl_refl G) R HR). Qed.

Lemma reach_iter_inv (P : list nat -> Prop) (G : grammar S) (C : list nat) :
  (forall R r, In r G -> P R -> P (reach_step C R r)) -> forall fuel R, P R -> P (reach_iter G C fuel R).
Proof.
  intros Hstep fuel. induction fuel as [|f IH]; intros R HR; simpl; [assumption|].
  apply IH. apply reach_pass_inv; assumption.
Qed.

Lemma rfold_length (C : list nat) (l : list (rule S)) : forall R, length R <= length (fold_left (reach_step C) l R).
Proof.
  induction l as [|r t IH]; intros R; simpl; [lia|].
  specialize (IH (reach_step C R r)). pose proof (rstep_length C R r). lia.
Qed.

Lemma reach_pass_length (G : grammar S) C R : length R <= length (reach_pass G C R).
Proof. unfold reach_pass. apply rfold_length. Qed.

(* a pass that adds nothing: R is closed w.r.t. the rules scanned *)
Lemma rfold_same_length (C : list nat) (l : list (rule S)) : forall R,
  length (fold_left (reach_step C) l R) = length R ->
  forall r, In r l -> In (rhead r) R -> forallb (gen_sym C) (rbody r) = true ->
  forall Y, In (N Y) (rbody r) -> In Y R.
Proof.
  induction l as [|r0 t IH]; intros R Hlen r Hr; [destruct Hr|].
  simpl in Hlen.
  pose proof (rstep_length C R r0) as H1.
  pose proof (rfold_length C t (reach_step C R r0)) as H2.
  assert (Hs : length (reach_step C R r0) = length R) by lia.
  destruct (rstep_same C R r0 Hs) as [Heq Hcl].
  rewrite Heq in Hlen.
  destruct Hr as [Hr|Hr].
  - subst r0. exact Hcl.
  - apply (IH R Hlen r Hr).
Qed.

Lemma reach_pass_same_length_closed (G : grammar S) C R :
  length (reach_pass G C R) = length R -> rclosed G C R.
Proof. intros H r Hr. unfold reach_pass in H. apply (rfold_same_length C G R H r Hr). Qed.

Lemma rstep_closed_id (G : grammar S) C R r : rclosed G C R -> In r G -> reach_step C R r = R.
Proof.
  intros Hcl Hr. apply rstep_same.
  pose proof (rstep_length C R r) as H1.
  assert (H2 : length (reach_step C R r) <= length R); [|lia].
  unfold reach_step.
  destruct (existsb (Nat.eqb (rhead r)) R) eqn:Eh; destruct (forallb (gen_sym C) (rbody r)) eqn:Eb; simpl; try lia.
  apply mem_spec in Eh. rewrite add_new_fold.
  assert (Hall : forall x, In x (body_nts (rbody r)) -> In x R).
  { intros x Hx. apply (Hcl r Hr Eh Eb x). apply body_nts_In; assumption. }
  revert Hall. generalize (body_nts (rbody r)). intros xs.
  induction xs as [|x t IH]; intros Hall; simpl; [lia|].
  assert (E : astep R x = R).
  { unfold astep. assert (Hx : In x R) by (apply Hall; left; reflexivity).
    apply mem_spec in Hx. rewrite Hx. reflexivity. }
  rewrite E. apply IH. intros y Hy. apply Hall. right; assumption.
Qed.

Lemma reach_pass_closed_id (G : grammar S) C R : rclosed G C R -> reach_pass G C R = R.
Proof.
  intros Hcl. unfold reach_pass.
  assert (H : forall l, incl l G -> fold_left (reach_step C) l R = R).
  { induction l as [|r t IH]; intros Hl; simpl; [reflexivity|].
    rewrite (rstep_closed_id G C R r Hcl) by (apply Hl; left; reflexivity).
    apply IH. intros x Hx; apply Hl; right; assumption. }
  apply H, incl_refl.
Qed.

Lemma reach_iter_closed_id (G : grammar S) C fuel R : rclosed G C R -> reach_iter G C fuel R = R.
Proof.
  intros Hcl. induction fuel as [|f IH]; simpl; [reflexivity|].
  rewrite reach_pass_closed_id by assumption. exact IH.
Qed.

Lemma reach_pass_NoDup (G : grammar S) C R : NoDup R -> NoDup (reach_pass G C R).
Proof. apply (reach_pass_inv (@NoDup nat) G C). intros; apply rstep_NoDup; assumption. Qed.

Lemma reach_pass_bound (G : grammar S) C R : incl R C -> incl (reach_pass G C R) C.
Proof. apply (reach_pass_inv (fun R => incl R C) G C). intros; apply rstep_bound; assumption. Qed.

(* pigeonhole: the reached list is duplicate-free and stays inside C, so with enough fuel a pass is stationary *)
Lemma reach_iter_closed (G : grammar S) (C : list nat) : forall fuel R,
  NoDup R -> incl R C -> length C < fuel + length R ->
  rclosed G C (reach_iter G C fuel R).
Proof.
  induction fuel as [|f IH]; intros R Hnd Hincl Hlen.
  - exfalso. pose proof (NoDup_incl_length Hnd Hincl). simpl in Hlen. lia.
  - simpl. destruct (Nat.eq_dec (length (reach_pass G C R)) (length R)) as [E|E].
    + pose proof (reach_pass_same_length_closed G C R E) as Hcl.
      rewrite reach_pass_closed_id by assumption.
      rewrite reach_iter_closed_id by assumption. assumption.
    + apply IH.
      * apply reach_pass_NoDup; assumption.
      * apply reach_pass_bound; assumption.
      * pose proof (reach_pass_length G C R). lia.
Qed.

(* the generating set is duplicate-free and made of heads, so it is no longer than the rule list *)
Lemma generating_length (G : grammar S) : length (generating G) <= length G.
Proof.
  assert (Hnd : NoDup (generating G)).
  { unfold generating. apply (gen_iter_inv S (@NoDup nat) G).
    - intros C r _ HC. apply gstep_NoDup; assumption.
    - constructor. }
  assert (Hin : incl (generating G) (map rhead G)).
  { unfold generating. apply (gen_iter_inv S (fun C => incl C (map rhead G)) G).
    - intros C r Hr HC. apply gstep_heads; assumption.
    - intros x []. }
  pose proof (NoDup_incl_length Hnd Hin) as H. rewrite map_length in H. exact H.
Qed.

(* ---------- 1. the computed set is closed ---------- *)

Lemma reachable_rclosed (G : grammar S) (s : nat) : rclosed G (generating G) (reachable G s).
Proof.
  unfold reachable. cbv zeta.
  destruct (existsb (Nat.eqb s) (generating G)) eqn:Es.
  - apply mem_spec in Es. apply reach_iter_closed.
    + constructor; [intros []|constructor].
    + intros x [Hx|[]]. subst x. assumption.
    + pose proof (generating_length G). simpl. lia.
  - intros r _ [].
Qed.

Theorem reachable_closed : forall (G : grammar S) (s : nat) (r : rule S),
  In r G -> In (rhead r) (reachable G s) -> forallb (gen_sym (generating G)) (rbody r) = true ->
  forall Y, In (N Y) (rbody r) -> In Y (reachable G s).
Proof. intros G s r Hr Hh Hb Y HY. exact (reachable_rclosed G s r Hr Hh Hb Y HY). Qed.

(* ---------- 3. the start symbol; everything reached is generating ---------- *)

Theorem reachable_start : forall (G : grammar S) (s : nat), In s (generating G) -> In s (reachable G s).
Proof.
  intros G s Hs. unfold reachable. cbv zeta.
  apply mem_spec in Hs. rewrite Hs.
  apply (reach_iter_inv (fun R => In s R) G (generating G)).
  - intros R r _ HR. apply (rstep_incl (generating G) R r). assumption.
  - left; reflexivity.
Qed.

Theorem reachable_generating : forall (G : grammar S) (s X : nat), In X (reachable G s) -> In X (generating G).
Proof.
  intros G s X. unfold reachable. cbv zeta.
  destruct (existsb (Nat.eqb s) (generating G)) eqn:Es; [|intros []].
  apply mem_spec in Es. revert X.
  apply (reach_iter_inv (fun R => incl R (generating G)) G (generating G)).
  - intros R r _ HR. apply rstep_bound; assumption.
  - intros x [Hx|[]]. subst x. assumption.
Qed.

Lemma reachable_dead_start (G : grammar S) (s : nat) : ~ In s (generating G) -> reachable G s = [].
Proof. intros Hs. unfold reachable. cbv zeta. apply mem_false in Hs. rewrite Hs. reflexivity. Qed.

(* ---------- 2. the hypothesis of topdown_trim_W ---------- *)

Theorem reachable_td_closed : forall (G : grammar S) (s : nat), td_closed G (keep_nts (reachable G s)).
Proof.
  intros G s r Hr Hk. simpl in Hk. apply mem_spec in Hk.
  destruct (forallb (gen_sym (generating G)) (rbody r)) eqn:Eb.
  - left. apply forallb_forall. intros [a|Y] Hy; simpl; [reflexivity|].
    apply mem_spec. apply (reachable_closed G s r Hr Hk Eb Y Hy).
  - right. apply forallb_false_ex in Eb. destruct Eb as [y [Hy Fy]].
    destruct y as [a|Y]; simpl in Fy; [discriminate|].
    exists Y. split; [assumption|apply mem_false; assumption].
Qed.

(* ---------- 4, 5. the modelled trim preserves the derivation sums ---------- *)

Theorem trim_model_W_reached : forall (G : grammar S) (s X : nat) h xs,
  In X (reachable G s) -> W (trim_model s G) h X xs = W G h X xs.
Proof.
  intros G s X h xs HX. unfold trim_model.
  apply topdown_trim_W; [apply reachable_td_closed|]. simpl. apply mem_spec; assumption.
Qed.

Lemma trim_model_dead_start (G : grammar S) (s : nat) : ~ In s (generating G) -> trim_model s G = [].
Proof.
  intros Hs. unfold trim_model. rewrite (reachable_dead_start G s Hs).
  destruct (gen_trim S (keep_nts []) G) as [|r t] eqn:E; [reflexivity|].
  assert (Hr : In r (gen_trim S (keep_nts []) G)) by (rewrite E; left; reflexivity).
  apply topdown_trim_rules in Hr. destruct Hr as [_ [Hk _]]. simpl in Hk. discriminate Hk.
Qed.

Theorem trim_model_W : forall (G : grammar S) (s : nat) h xs, W (trim_model s G) h s xs = W G h s xs.
Proof.
  intros G s h xs.
  destruct (existsb (Nat.eqb s) (generating G)) eqn:Es.
  - apply mem_spec in Es. apply trim_model_W_reached. apply reachable_start; assumption.
  - apply mem_false in Es. rewrite (trim_model_dead_start G s Es).
    rewrite (nongenerating_W_zero S G s Es h xs).
    destruct h; reflexivity.
Qed.

(* ---------- 6. the reached set, declaratively ---------- *)

Inductive reach_rel (G : grammar S) (s : nat) : nat -> Prop :=
| rr_start : reach_rel G s s
| rr_step : forall r Y, In r G -> reach_rel G s (rhead r) ->
    forallb (gen_sym (generating G)) (rbody r) = true -> In (N Y) (rbody r) -> reach_rel G s Y.

Theorem reachable_sound : forall (G : grammar S) (s X : nat), In X (reachable G s) -> reach_rel G s X.
Proof.
  intros G s X. unfold reachable. cbv zeta.
  destruct (existsb (Nat.eqb s) (generating G)) eqn:Es; [|intros []].
  revert X.
  apply (reach_iter_inv (fun R => forall X, In X R -> reach_rel G s X) G (generating G)).
  - intros R r Hr HR X HX.
    destruct (rstep_elems (generating G) R r X HX) as [H1|[Hh [Hb HY]]]; [apply HR; assumption|].
    apply (rr_step G s r X Hr (HR _ Hh) Hb HY).
  - intros X [HX|[]]. subst X. apply rr_start.
Qed.

Theorem reachable_complete : forall (G : grammar S) (s X : nat),
  In s (generating G) -> reach_rel G s X -> In X (reachable G s).
Proof.
  intros G s X Hs H. induction H as [|r Y Hr _ IH Hb HY].
  - apply reachable_start; assumption.
  - apply (reachable_closed G s r Hr IH Hb Y HY).
Qed.

End ReachProofs.
Arguments rclosed {S} G C R. Arguments reach_rel {S} G s _.

Print Assumptions reachable_closed.
Print Assumptions reachable_td_closed.
Print Assumptions reachable_start.
Print Assumptions reachable_generating.
Print Assumptions trim_model_W.
Print Assumptions trim_model_W_reached.
Print Assumptions reachable_sound.
Print Assumptions reachable_complete.

(* ---------- non-vacuity: the grammar of TopDownTrimProofs.v ---------- *)
(* start 0;  0 -> a | 1 b | 3;  1 -> a;  2 -> b [unreachable];  3 -> 3 [non-generating] *)
Example reach_ex_reachable : reachable td_ex_G 0 = [1%nat; O].
Proof. vm_compute. reflexivity. Qed.

Example reach_ex_trimmed :
  trim_model 0 td_ex_G =
  [ ((mkq 1%Z 2%positive : QcSR), O, [T O]);
    (mkq 1%Z 3%positive, O, [N 1%nat; T 1%nat]);
    (mkq 1%Z 5%positive, 1%nat, [T O]) ].
Proof. vm_compute. reflexivity. Qed.

(* a non-generating start symbol: nothing is reached and the trimmed grammar is empty *)
Example reach_ex_dead : reachable td_ex_G 3 = [] /\ trim_model 3 td_ex_G = [].
Proof. vm_compute. split; reflexivity. Qed.

Example reach_ex_instance : forall h xs, W (trim_model 0 td_ex_G) h O xs = W td_ex_G h O xs.
Proof. intros h xs. apply trim_model_W. Qed.

Print Assumptions reach_ex_reachable.
Print Assumptions reach_ex_trimmed.
Print Assumptions reach_ex_dead.
Print Assumptions reach_ex_instance.
