(* FST.from_string (model fst_of_string in model/FstCompose.v) is the diagonal of the string automaton: it relates
   x to x with weight one and nothing else. *)
From Coq Require Import List Arith Bool.
From GV.lib Require Import Semiring BigSum.
From GV.model Require Import Cfg Wfsa Fst FstCompose.
From GV.proofs Require Import FstOpsProofs StarStringProofs IntersectStringProofs.
Import ListNotations.

Lemma fst_of_string_is_diag (S : SR) (x : list nat) : @fst_of_string S x = diag (from_string x s1).
Proof.
  unfold fst_of_string, diag, from_string. cbn [winit wfinal warcs]. rewrite map_map. reflexivity.
Qed.

Theorem fst_of_string_relation : forall (S : SR) (x : list nat) (fuel : nat) (xs ys : list nat), length xs <= fuel ->
  trel (@fst_of_string S x) fuel xs ys = if list_eqb Nat.eqb xs ys && list_eqb Nat.eqb xs x then s1 else s0.
Proof.
  intros S x fuel xs ys Hl. rewrite fst_of_string_is_diag.
  rewrite (diag_relation S (from_string x s1) (from_string_eps_free S x s1) fuel xs ys Hl).
  rewrite (from_string_weight S x s1 xs).
  destruct (list_eqb Nat.eqb xs ys); destruct (list_eqb Nat.eqb xs x); reflexivity.
Qed.
Print Assumptions fst_of_string_relation.
