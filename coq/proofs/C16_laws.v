(* Semiring laws for the definitions regenerated from semiring.py (module RR of
   Gen_Semiring.v, scores in R).  Each lemma is stated on the value domain of
   the class; star laws on the convergence domain named in DESIGN.md §4 C16. *)
From Coq Require Import Reals Lra Psatz Bool.
From GV.lib Require Import NumDialect.
From GV.gen Require Import Gen_Semiring.
Import RD.
Local Open Scope R_scope.

Ltac rdec := unfold kgtb, keqb, kposb, kmax, Rmax, K in *;
  repeat match goal with
  | |- context [Rlt_dec ?a ?b] => destruct (Rlt_dec a b)
  | |- context [Rle_dec ?a ?b] => destruct (Rle_dec a b)
  | |- context [Req_EM_T ?a ?b] => destruct (Req_EM_T a b)
  | H : context [Rlt_dec ?a ?b] |- _ => destruct (Rlt_dec a b)
  | H : context [Rle_dec ?a ?b] |- _ => destruct (Rle_dec a b)
  | H : context [Req_EM_T ?a ?b] |- _ => destruct (Req_EM_T a b)
  end.

(* ------------------------------------------------------------------ Boolean *)
Module BooleanLaws.
Import RR.Boolean.
Lemma add_assoc a b c : add a (add b c) = add (add a b) c. Proof. destruct a, b, c; reflexivity. Qed.
Lemma add_comm a b : add a b = add b a. Proof. destruct a, b; reflexivity. Qed.
Lemma add_0_l a : add zero a = a. Proof. destruct a; reflexivity. Qed.
Lemma mul_assoc a b c : mul a (mul b c) = mul (mul a b) c. Proof. destruct a, b, c; reflexivity. Qed.
Lemma mul_comm a b : mul a b = mul b a. Proof. destruct a, b; reflexivity. Qed.
Lemma mul_1_l a : mul one a = a. Proof. destruct a; reflexivity. Qed.
Lemma mul_0_l a : mul zero a = zero. Proof. destruct a; reflexivity. Qed.
Lemma distr_l a b c : mul a (add b c) = add (mul a b) (mul a c). Proof. destruct a, b, c; reflexivity. Qed.
Lemma distr_r a b c : mul (add b c) a = add (mul b a) (mul c a). Proof. destruct a, b, c; reflexivity. Qed.
Lemma star_l a : star a = add one (mul a (star a)). Proof. destruct a; reflexivity. Qed.
Lemma star_r a : star a = add one (mul (star a) a). Proof. destruct a; reflexivity. Qed.
End BooleanLaws.

(* ------------------------------------------------------------------ Real, Float *)
Module RealLaws.
Import RR.Real.
Lemma add_assoc a b c : add a (add b c) = add (add a b) c. Proof. unfold add, T, K; ring. Qed.
Lemma add_comm a b : add a b = add b a. Proof. unfold add, T, K; ring. Qed.
Lemma add_0_l a : add zero a = a. Proof. unfold add, zero, T, K; ring. Qed.
Lemma mul_assoc a b c : mul a (mul b c) = mul (mul a b) c. Proof. unfold mul, T, K; ring. Qed.
Lemma mul_comm a b : mul a b = mul b a. Proof. unfold mul, T, K; ring. Qed.
Lemma mul_1_l a : mul one a = a. Proof. unfold mul, one, T, K; ring. Qed.
Lemma mul_0_l a : mul zero a = zero. Proof. unfold mul, zero, T, K; ring. Qed.
Lemma distr_l a b c : mul a (add b c) = add (mul a b) (mul a c). Proof. unfold mul, add, T, K; ring. Qed.
Lemma distr_r a b c : mul (add b c) a = add (mul b a) (mul c a). Proof. unfold mul, add, T, K; ring. Qed.
Lemma star_l a : a <> 1 -> star a = add one (mul a (star a)). Proof. intros; unfold star, add, mul, one, T, K; field; lra. Qed.
Lemma star_r a : a <> 1 -> star a = add one (mul (star a) a). Proof. intros; unfold star, add, mul, one, T, K; field; lra. Qed.
End RealLaws.

Module FloatLaws.
Import RR.Float.
Lemma add_assoc a b c : add a (add b c) = add (add a b) c. Proof. unfold add, T, K; ring. Qed.
Lemma add_comm a b : add a b = add b a. Proof. unfold add, T, K; ring. Qed.
Lemma add_0_l a : add zero a = a. Proof. unfold add, zero, T, K; ring. Qed.
Lemma mul_assoc a b c : mul a (mul b c) = mul (mul a b) c. Proof. unfold mul, T, K; ring. Qed.
Lemma mul_comm a b : mul a b = mul b a. Proof. unfold mul, T, K; ring. Qed.
Lemma mul_1_l a : mul one a = a. Proof. unfold mul, one, T, K; ring. Qed.
Lemma mul_0_l a : mul zero a = zero. Proof. unfold mul, zero, T, K; ring. Qed.
Lemma distr_l a b c : mul a (add b c) = add (mul a b) (mul a c). Proof. unfold mul, add, T, K; ring. Qed.
Lemma distr_r a b c : mul (add b c) a = add (mul b a) (mul c a). Proof. unfold mul, add, T, K; ring. Qed.
Lemma star_l a : a <> 1 -> star a = add one (mul a (star a)). Proof. intros; unfold star, add, mul, one, T, K; field; lra. Qed.
Lemma star_r a : a <> 1 -> star a = add one (mul (star a) a). Proof. intros; unfold star, add, mul, one, T, K; field; lra. Qed.
End FloatLaws.

(* ------------------------------------------------------------------ MaxTimes (domain: x >= 0) *)
Module MaxTimesLaws.
Import RR.MaxTimes.
Lemma add_assoc a b c : add a (add b c) = add (add a b) c. Proof. unfold add, T; rdec; lra. Qed.
Lemma add_comm a b : add a b = add b a. Proof. unfold add, T; rdec; lra. Qed.
Lemma add_0_l a : 0 <= a -> add zero a = a. Proof. unfold add, zero, T; rdec; lra. Qed.
Lemma mul_assoc a b c : mul a (mul b c) = mul (mul a b) c. Proof. unfold mul, T, K; ring. Qed.
Lemma mul_comm a b : mul a b = mul b a. Proof. unfold mul, T, K; ring. Qed.
Lemma mul_1_l a : mul one a = a. Proof. unfold mul, one, T, K; ring. Qed.
Lemma mul_0_l a : mul zero a = zero. Proof. unfold mul, zero, T, K; ring. Qed.
Lemma distr_l a b c : 0 <= a -> mul a (add b c) = add (mul a b) (mul a c).
Proof. intros; unfold mul, add, T; rdec; nra. Qed.
Lemma distr_r a b c : 0 <= a -> mul (add b c) a = add (mul b a) (mul c a).
Proof. intros; unfold mul, add, T; rdec; nra. Qed.
Lemma closed_add a b : 0 <= a -> 0 <= b -> 0 <= add a b. Proof. intros; unfold add, T; rdec; lra. Qed.
Lemma closed_mul a b : 0 <= a -> 0 <= b -> 0 <= mul a b. Proof. intros; unfold mul, T, K; nra. Qed.
Lemma star_l a : 0 <= a <= 1 -> star a = add one (mul a (star a)). Proof. intros; unfold star, add, mul, one, T; rdec; lra. Qed.
Lemma star_r a : 0 <= a <= 1 -> star a = add one (mul (star a) a). Proof. intros; unfold star, add, mul, one, T; rdec; lra. Qed.
End MaxTimesLaws.

(* ------------------------------------------------------------------ MaxPlus (domain: ext R) *)
Module MaxPlusLaws.
Import RR.MaxPlus.
Ltac ex := unfold add, mul, zero, one, star, emax, eadd, elit;
  repeat match goal with a : T |- _ => destruct a | a : ext R |- _ => destruct a end; try reflexivity; try (f_equal; rdec; lra).
Lemma add_assoc a b c : add a (add b c) = add (add a b) c. Proof. ex. Qed.
Lemma add_comm a b : add a b = add b a. Proof. ex. Qed.
Lemma add_0_l a : add zero a = a. Proof. ex. Qed.
Lemma mul_assoc a b c : mul a (mul b c) = mul (mul a b) c. Proof. ex. Qed.
Lemma mul_comm a b : mul a b = mul b a. Proof. ex. Qed.
Lemma mul_1_l a : mul one a = a. Proof. ex. Qed.
Lemma mul_0_l a : mul zero a = zero. Proof. ex. Qed.
Lemma distr_l a b c : mul a (add b c) = add (mul a b) (mul a c). Proof. ex. Qed.
Lemma distr_r a b c : mul (add b c) a = add (mul b a) (mul c a). Proof. ex. Qed.
Definition nonpos (a : T) := match a with NegInf => True | Fin x => x <= 0 end.
Lemma star_l a : nonpos a -> star a = add one (mul a (star a)).
Proof. destruct a; simpl; intros; unfold star, add, mul, one, emax, eadd, elit; try reflexivity. f_equal; rdec; lra. Qed.
Lemma star_r a : nonpos a -> star a = add one (mul (star a) a).
Proof. destruct a; simpl; intros; unfold star, add, mul, one, emax, eadd, elit; try reflexivity. f_equal; rdec; lra. Qed.
End MaxPlusLaws.

(* ------------------------------------------------------------------ Expectation *)
Module ExpectationLaws.
Import RR.Expectation.
Ltac ex := unfold add, mul, zero, one, star;
  repeat match goal with a : T |- _ => destruct a end; simpl; f_equal; try ring.
Lemma add_assoc a b c : add a (add b c) = add (add a b) c. Proof. ex. Qed.
Lemma add_comm a b : add a b = add b a. Proof. ex. Qed.
Lemma add_0_l a : add zero a = a. Proof. ex. Qed.
Lemma mul_assoc a b c : mul a (mul b c) = mul (mul a b) c. Proof. ex. Qed.
Lemma mul_comm a b : mul a b = mul b a. Proof. ex. Qed.
Lemma mul_1_l a : mul one a = a. Proof. ex. Qed.
Lemma mul_0_l a : mul zero a = zero. Proof. ex. Qed.
Lemma distr_l a b c : mul a (add b c) = add (mul a b) (mul a c). Proof. ex. Qed.
Lemma distr_r a b c : mul (add b c) a = add (mul b a) (mul c a). Proof. ex. Qed.
Lemma star_l a : fst a <> 1 -> star a = add one (mul a (star a)).
Proof. destruct a as [p r]; simpl; intros; unfold star, add, mul, one; simpl; f_equal; field; lra. Qed.
Lemma star_r a : fst a <> 1 -> star a = add one (mul (star a) a).
Proof. destruct a as [p r]; simpl; intros; unfold star, add, mul, one; simpl; f_equal; field; lra. Qed.
End ExpectationLaws.

(* ------------------------------------------------------------------ Entropy
   Values carry an identity tag; [wf] says the two constant objects have their
   constant scores.  Laws are equalities of scores (Semiring.__eq__ compares
   scores), so they cover the identity short-cuts and "freshly constructed
   equal values" (tag TagFresh with the same score) at once. *)
Module EntropyLaws.
Import RR.Entropy.
Definition sc (a : T) : R * R := fst a.
Definition wf (a : T) : Prop :=
  match snd a with TagZero => fst a = (0, 0) | TagOne => fst a = (1, 0) | TagFresh => True end.
Ltac ex := unfold sc, wf, add, mul, zero, one, star, is_zero_tag, is_one_tag in *;
  repeat match goal with a : T |- _ => destruct a as [[? ?] []] end; simpl in *;
  repeat match goal with H : (_, _) = (_, _) |- _ => apply pair_equal_spec in H; destruct H end;
  unfold K in *; subst; try reflexivity; try (f_equal; ring); try (f_equal; nra).
Lemma add_assoc a b c : wf a -> wf b -> wf c -> sc (add a (add b c)) = sc (add (add a b) c). Proof. intros; ex. Qed.
Lemma add_comm a b : wf a -> wf b -> sc (add a b) = sc (add b a). Proof. intros; ex. Qed.
Lemma add_0_l a : wf a -> sc (add zero a) = sc a. Proof. intros; ex. Qed.
Lemma add_0_fresh a : wf a -> sc (add (0, 0, TagFresh) a) = sc a. Proof. intros; ex. Qed.
Lemma mul_assoc a b c : wf a -> wf b -> wf c -> sc (mul a (mul b c)) = sc (mul (mul a b) c). Proof. intros; ex. Qed.
Lemma mul_comm a b : wf a -> wf b -> sc (mul a b) = sc (mul b a). Proof. intros; ex. Qed.
Lemma mul_1_l a : wf a -> sc (mul one a) = sc a. Proof. intros; ex. Qed.
Lemma mul_1_fresh a : wf a -> sc (mul (1, 0, TagFresh) a) = sc a. Proof. intros; ex. Qed.
Lemma mul_0_l a : wf a -> sc (mul zero a) = sc zero. Proof. intros; ex. Qed.
Lemma mul_0_fresh a : wf a -> sc (mul (0, 0, TagFresh) a) = sc zero. Proof. intros; ex. Qed.
Lemma distr_l a b c : wf a -> wf b -> wf c -> sc (mul a (add b c)) = sc (add (mul a b) (mul a c)). Proof. intros; ex. Qed.
Lemma distr_r a b c : wf a -> wf b -> wf c -> sc (mul (add b c) a) = sc (add (mul b a) (mul c a)). Proof. intros; ex. Qed.
Lemma wf_add a b : wf a -> wf b -> wf (add a b). Proof. intros; ex. Qed.
Lemma wf_mul a b : wf a -> wf b -> wf (mul a b). Proof. intros; ex. Qed.
(* results do not depend on the tags of the arguments *)
Lemma add_tag_indep a b a' b' : wf a -> wf b -> wf a' -> wf b' -> sc a = sc a' -> sc b = sc b' -> sc (add a b) = sc (add a' b').
Proof. intros; ex. Qed.
Lemma mul_tag_indep a b a' b' : wf a -> wf b -> wf a' -> wf b' -> sc a = sc a' -> sc b = sc b' -> sc (mul a b) = sc (mul a' b').
Proof. intros; ex. Qed.
Lemma star_l a : wf a -> fst (sc a) <> 1 -> sc (star a) = sc (add one (mul a (star a))).
Proof. intros Hw Hp. unfold sc, wf, add, mul, zero, one, star, is_zero_tag, is_one_tag in *.
  destruct a as [[p r] []]; simpl in *; try (inversion Hw; subst); try lra; f_equal; field; lra. Qed.
Lemma star_r a : wf a -> fst (sc a) <> 1 -> sc (star a) = sc (add one (mul (star a) a)).
Proof. intros Hw Hp. unfold sc, wf, add, mul, zero, one, star, is_zero_tag, is_one_tag in *.
  destruct a as [[p r] []]; simpl in *; try (inversion Hw; subst); try lra; f_equal; field; lra. Qed.
End EntropyLaws.
