(* The prefix weight Wpre of a string p (model/Prefix.v) is the sum, over all terminal
   STRINGS that begin with p -- each string counted once --, of the height-h derivation
   sum W of that string: "the prefix weight of p is the total weight of the part of the
   language that extends p", at every height, over any commutative semiring.
   Same pattern as TotalStringsProofs.total_is_sum_of_strings, with the prefix filter. *)
From Coq Require Import List Arith Bool Lia NArith.
From GV.lib Require Import Semiring BigSum.
From GV.model Require Import Cfg Agenda MachSpec Prefix.
From GV.proofs Require Import CfgTrees AgendaProofs ProductProofs PrefixTrees TotalStringsProofs.
Import ListNotations.
Local Open Scope sr_scope.

Section PrefixStrings.
Variable S : SR.
Add Ring SRing : (sth S).

Theorem prefix_weight_is_sum_of_strings :
  forall (G : grammar S) (V : list nat) (h X L : nat) (p : list nat), NoDup V ->
  yields_within S G h X V L ->
  Wpre G h X p = bsum (filter (is_prefix p) (words_le V L)) (fun xs => W G h X xs).
Proof.
  intros G V h X L p HV Hy.
  rewrite Wpre_trees, !bsum_filter.
  transitivity (bsum (words_le V L) (fun xs =>
                  bsum (trees G h X) (fun t =>
                    if yields xs t then (if is_prefix p xs then tweight t else 0) else 0))).
  2:{ apply bsum_ext; intros xs _. rewrite W_trees, bsum_filter.
      destruct (is_prefix p xs); [reflexivity|].
      apply bsum_zero; intros t _. destruct (yields xs t); reflexivity. }
  rewrite bsum_swap. apply bsum_ext; intros t Ht. unfold yields.
  rewrite (bsum_delta S (fun a b : list nat => list_eqb Nat.eqb b a)
             (fun a b => conj (fun H => eq_sym (proj1 (list_eqb_nat_spec b a) H))
                              (fun H => proj2 (list_eqb_nat_spec b a) (eq_sym H)))
             (words_le V L) (tyield t)
             (fun xs => if is_prefix p xs then tweight t else 0) (words_le_NoDup V HV L)).
  assert (E : existsb (fun a => list_eqb Nat.eqb (tyield t) a) (words_le V L) = true).
  { apply existsb_exists. exists (tyield t). split; [apply Hy; exact Ht|].
    apply list_eqb_nat_spec; reflexivity. }
  rewrite E. reflexivity.
Qed.

(* terminals of the grammar are in V; bodies have at most K symbols: the words over V
   of length <= K^h cover every yield at height h *)
Corollary prefix_weight_is_sum_of_all_strings : forall (G : grammar S) (V : list nat) (K : nat),
  NoDup V ->
  (forall r a, In r G -> In (T a) (rbody r) -> In a V) ->
  (forall r, In r G -> length (rbody r) <= K) ->
  forall h X p,
    Wpre G h X p = bsum (filter (is_prefix p) (words_le V (Nat.pow K h))) (fun xs => W G h X xs).
Proof.
  intros G V K HV HT HK h X p.
  apply prefix_weight_is_sum_of_strings; [exact HV|]. apply yields_within_bound; assumption.
Qed.

End PrefixStrings.

Print Assumptions prefix_weight_is_sum_of_strings.
Print Assumptions prefix_weight_is_sum_of_all_strings.

(* ---------- a computed instance over the naturals ---------- *)
Local Close Scope sr_scope.

Example prefix_strings_instance :
  Wpre ex_G 3 0 [1] = 16%N /\
  Wpre ex_G 3 0 [1; 0] = 6%N /\
  Wpre ex_G 3 0 [0] = 0%N /\
  bsum (filter (is_prefix [1]) (words_le [0; 1] 2)) (fun xs => W ex_G 3 0 xs) = 16%N /\
  bsum (filter (is_prefix [1; 0]) (words_le [0; 1] 2)) (fun xs => W ex_G 3 0 xs) = 6%N /\
  filter (is_prefix [1]) (words_le [0; 1] 2) = [[1]; [1; 0]; [1; 1]].
Proof. vm_compute. repeat split; reflexivity. Qed.

(* the instance through the general corollary: bodies have at most 2 symbols, so the
   words of length <= 2^3 cover the language at height 3 *)
Example prefix_strings_instance_thm :
  Wpre ex_G 3 0 [1]
  = bsum (filter (is_prefix [1]) (words_le [0; 1] (Nat.pow 2 3))) (fun xs => W ex_G 3 0 xs).
Proof.
  apply (prefix_weight_is_sum_of_all_strings NSR ex_G [0; 1] 2).
  - repeat constructor; simpl; intuition discriminate.
  - intros r a Hr Ha. simpl in Hr.
    destruct Hr as [<-|[<-|[<-|[]]]]; simpl in Ha; intuition (try discriminate);
      match goal with H : T _ = T _ |- _ => injection H as <- end; simpl; auto.
  - intros r Hr. simpl in Hr. destruct Hr as [<-|[<-|[<-|[]]]]; simpl; lia.
Qed.

Print Assumptions prefix_strings_instance.
Print Assumptions prefix_strings_instance_thm.
