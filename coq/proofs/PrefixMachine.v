(* The prefix transducer (Gen_Machines.prefix_transducer, regenerated from
   genlm/grammar/fst.py) relates every string over V to each of its prefixes
   with weight exactly one, and to nothing else. *)
From Coq Require Import List Arith Bool Lia.
From GV.lib Require Import Semiring BigSum.
From GV.model Require Import Fst MachSpec.
From GV.gen Require Import Gen_Machines.
Import ListNotations.
Local Open Scope sr_scope.

Section PrefixMachine.
Variable S : SR.
Add Ring SRingPM : (sth S).

Variable V : list nat.
Hypothesis V_nodup : NoDup V.

Let P : fst_t S := prefix_transducer V.

(* ---------- generic helpers ---------- *)

Lemma flat_map_nil_const {A B} (l : list A) : flat_map (fun _ : A => @nil B) l = [].
Proof. induction l as [|x t IH]; simpl; [reflexivity|exact IH]. Qed.

Lemma bsum_pick (a : nat) (f : nat -> S) :
  In a V -> bsum V (fun x => if Nat.eqb x a then f x else 0) = f a.
Proof.
  intros Ha. rewrite (bsum_delta S Nat.eqb Nat.eqb_eq V a f V_nodup).
  destruct (existsb (fun x => Nat.eqb x a) V) eqn:E; [reflexivity|].
  exfalso. assert (E' : existsb (fun x => Nat.eqb x a) V = true).
  { apply existsb_exists. exists a. split; [exact Ha|apply Nat.eqb_refl]. }
  congruence.
Qed.

Lemma trelf_S (m : fst_t S) f q xs ys :
  trelf m (Datatypes.S f) q xs ys =
  (match xs, ys with [], [] => fget (tfinal m) q | _, _ => 0 end) +
  bsum (tarcs m) (fun a =>
    if Nat.eqb (tsrc a) q then
      match eat (tin a) xs, eat (tout a) ys with
      | Some xs', Some ys' => twt a * trelf m f (tdst a) xs' ys'
      | _, _ => 0
      end
    else 0).
Proof. reflexivity. Qed.

Lemma trelf_O (m : fst_t S) q xs ys :
  trelf m O q xs ys = (match xs, ys with [], [] => fget (tfinal m) q | _, _ => 0 end) + 0.
Proof. reflexivity. Qed.

(* ---------- characterisation of the generated machine ---------- *)

Lemma P_init : tinit P = [(0%nat, 1); (1%nat, 1)].
Proof. unfold P, prefix_transducer. simpl. rewrite flat_map_nil_const. reflexivity. Qed.

Lemma P_final : tfinal P = [(1%nat, 1)].
Proof. unfold P, prefix_transducer. simpl. rewrite flat_map_nil_const. reflexivity. Qed.

Lemma P_arcs : tarcs P =
  flat_map (fun x => [(0%nat, Some x, Some x, 0%nat, 1); (0%nat, Some x, Some x, 1%nat, 1);
                      (1%nat, Some x, None, 1%nat, 1)]) V.
Proof. reflexivity. Qed.

Lemma P_fget_final_0 : fget (tfinal P) 0%nat = 0.
Proof. rewrite P_final. unfold fget, bsum. simpl. ring. Qed.

Lemma P_fget_final_1 : fget (tfinal P) 1%nat = 1.
Proof. rewrite P_final. unfold fget, bsum. simpl. ring. Qed.

Lemma P_step0 f xs ys :
  trelf P (Datatypes.S f) 0%nat xs ys =
  bsum V (fun x => match eat (Some x) xs, eat (Some x) ys with
                   | Some xs', Some ys' => trelf P f 0%nat xs' ys' + trelf P f 1%nat xs' ys'
                   | _, _ => 0
                   end).
Proof.
  rewrite trelf_S, P_arcs, bsum_flat_map, P_fget_final_0.
  assert (B : (match xs, ys with [], [] => (0:S) | _, _ => 0 end) = 0)
    by (destruct xs; destruct ys; reflexivity).
  rewrite B. clear B.
  match goal with |- 0 + ?a = ?b => assert (E : a = b); [|rewrite E; ring] end.
  apply bsum_ext. intros x _. unfold bsum.
  cbn [map ssum tsrc tin tout tdst twt fst snd Nat.eqb].
  destruct (eat (Some x) xs) as [xs'|]; [|ring].
  destruct (eat (Some x) ys) as [ys'|]; [|ring].
  ring.
Qed.

Lemma P_step1 f xs ys :
  trelf P (Datatypes.S f) 1%nat xs ys =
  (match xs, ys with [], [] => 1 | _, _ => 0 end) +
  bsum V (fun x => match eat (Some x) xs with
                   | Some xs' => trelf P f 1%nat xs' ys
                   | None => 0
                   end).
Proof.
  rewrite trelf_S, P_arcs, bsum_flat_map, P_fget_final_1.
  f_equal.
  apply bsum_ext. intros x _. unfold bsum.
  cbn [map ssum tsrc tin tout tdst twt fst snd Nat.eqb].
  replace (eat None ys) with (Some ys) by reflexivity.
  destruct (eat (Some x) xs) as [xs'|]; ring.
Qed.

Lemma eat_nil x : eat (Some x) [] = None.
Proof. reflexivity. Qed.

Lemma eat_cons x a t : eat (Some x) (a :: t) = if Nat.eqb x a then Some t else None.
Proof. reflexivity. Qed.

(* ---------- state 1: delete the rest ---------- *)

Lemma P_state1 : forall (s : list nat) (fuel : nat) (p : list nat),
  (forall a, In a s -> In a V) -> length s <= fuel ->
  trelf P fuel 1%nat s p = match p with [] => 1 | _ :: _ => 0 end.
Proof.
  induction s as [|a s' IH]; intros fuel p Hin Hlen.
  - destruct fuel as [|f].
    + rewrite trelf_O, P_fget_final_1. destruct p; ring.
    + rewrite P_step1. rewrite bsum_zero by (intros x _; reflexivity).
      destruct p; ring.
  - destruct fuel as [|f]; [simpl in Hlen; lia|].
    rewrite P_step1.
    assert (Ha : In a V) by (apply Hin; left; reflexivity).
    assert (E : bsum V (fun x => match eat (Some x) (a :: s') with
                                 | Some xs' => trelf P f 1%nat xs' p
                                 | None => 0 end)
                = trelf P f 1%nat s' p).
    { rewrite <- (bsum_pick a (fun _ => trelf P f 1%nat s' p) Ha).
      apply bsum_ext. intros x _. rewrite eat_cons. destruct (Nat.eqb x a); reflexivity. }
    rewrite E. rewrite IH.
    + destruct p; ring.
    + intros b Hb. apply Hin. right. exact Hb.
    + simpl in Hlen. lia.
Qed.

(* ---------- state 0: copy at least one symbol, then switch ---------- *)

Lemma P_state0 : forall (s : list nat) (fuel : nat) (p : list nat),
  (forall a, In a s -> In a V) -> length s <= fuel ->
  trelf P fuel 0%nat s p =
  match p with [] => 0 | _ :: _ => if is_prefix p s then 1 else 0 end.
Proof.
  induction s as [|a s' IH]; intros fuel p Hin Hlen.
  - destruct fuel as [|f].
    + rewrite trelf_O, P_fget_final_0. destruct p; simpl; ring.
    + rewrite P_step0. rewrite bsum_zero by (intros x _; reflexivity).
      destruct p; reflexivity.
  - destruct fuel as [|f]; [simpl in Hlen; lia|].
    rewrite P_step0.
    assert (Ha : In a V) by (apply Hin; left; reflexivity).
    assert (Hin' : forall b, In b s' -> In b V) by (intros b Hb; apply Hin; right; exact Hb).
    assert (Hlen' : length s' <= f) by (simpl in Hlen; lia).
    set (g := fun x : nat => match eat (Some x) p with
                             | Some ys' => trelf P f 0%nat s' ys' + trelf P f 1%nat s' ys'
                             | None => 0 end).
    assert (E : bsum V (fun x => match eat (Some x) (a :: s'), eat (Some x) p with
                                 | Some xs', Some ys' =>
                                     trelf P f 0%nat xs' ys' + trelf P f 1%nat xs' ys'
                                 | _, _ => 0 end)
                = g a).
    { rewrite <- (bsum_pick a g Ha).
      apply bsum_ext. intros x _. rewrite eat_cons. unfold g.
      destruct (Nat.eqb x a); reflexivity. }
    rewrite E. unfold g. clear E g.
    destruct p as [|b p']; [reflexivity|].
    rewrite eat_cons. cbn [is_prefix]. rewrite (Nat.eqb_sym b a).
    destruct (Nat.eqb a b); cbn [andb]; [|reflexivity].
    rewrite (IH f p' Hin' Hlen'), (P_state1 s' f p' Hin' Hlen').
    destruct p' as [|c p'']; [cbn [is_prefix]; ring|].
    destruct (is_prefix (c :: p'') s'); ring.
Qed.

Lemma P_trel : forall (s p : list nat) (fuel : nat),
  (forall a, In a s -> In a V) -> length s <= fuel ->
  trel P fuel s p = if is_prefix p s then 1 else 0.
Proof.
  intros s p fuel Hin Hlen. unfold trel. rewrite P_init.
  rewrite !bsum_cons, bsum_nil. cbn [fst snd].
  rewrite (P_state0 s fuel p Hin Hlen), (P_state1 s fuel p Hin Hlen).
  destruct p as [|b p']; [cbn [is_prefix]; ring|].
  destruct (is_prefix (b :: p') s); ring.
Qed.

End PrefixMachine.

Section Export.
Variable S : SR.

Theorem prefix_transducer_spec : forall (V : list nat) (s p : list nat) (fuel : nat),
  NoDup V -> (forall a, In a s -> In a V) -> length s <= fuel ->
  trel (@prefix_transducer S V) fuel s p = if is_prefix p s then 1 else 0.
Proof.
  intros V s p fuel Hnd Hin Hlen. exact (P_trel S V Hnd s p fuel Hin Hlen).
Qed.

Corollary prefix_transducer_empty_prefix : forall (V : list nat) (s : list nat) (fuel : nat),
  NoDup V -> (forall a, In a s -> In a V) -> length s <= fuel ->
  trel (@prefix_transducer S V) fuel s [] = 1.
Proof.
  intros V s fuel Hnd Hin Hlen.
  rewrite (prefix_transducer_spec V s [] fuel Hnd Hin Hlen). reflexivity.
Qed.

End Export.

Print Assumptions prefix_transducer_spec.
