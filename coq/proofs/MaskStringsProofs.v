(* String-level reading of the next-token mask for Boolean grammars: a context is viable
   (its prefix weight is true at some height) exactly when it can be completed to a string
   of the grammar; viability is closed under taking prefixes, so a non-viable context has
   an empty mask; and the strings of the grammar are exactly the yields of derivation trees
   built from rules of weight true.  No axioms. *)
From Coq Require Import List Arith Bool Lia.
From GV.lib Require Import Semiring BigSum.
From GV.model Require Import Cfg Agenda MachSpec Prefix.
From GV.proofs Require Import CfgTrees PrefixTrees.
Import ListNotations.

(* a string of the grammar: some height at which its derivation sum is true *)
Definition in_language (G : grammar BoolSR) (X : nat) (xs : list nat) : Prop :=
  exists h, W G h X xs = true.

(* ---- prefix facts ---------------------------------------------------------- *)

Lemma is_prefix_refl : forall xs : list nat, is_prefix xs xs = true.
Proof.
  induction xs as [|a xs IH]; simpl; [reflexivity|].
  rewrite Nat.eqb_refl, IH. reflexivity.
Qed.

Lemma is_prefix_app_l : forall (p q xs : list nat),
  is_prefix (p ++ q) xs = true -> is_prefix p xs = true.
Proof.
  induction p as [|a p IH]; intros q xs H; [reflexivity|].
  destruct xs as [|b xs]; simpl in H |- *; [discriminate H|].
  apply andb_true_iff in H. destruct H as [H1 H2].
  rewrite H1. simpl. exact (IH q xs H2).
Qed.

(* ---- strings of the grammar = yields of true-weight derivation trees -------- *)

Theorem language_iff_tree : forall (G : grammar BoolSR) (X : nat) (xs : list nat),
  in_language G X xs <-> exists t, twf BoolSR G (N X) t /\ tyield t = xs /\ tweight t = true.
Proof.
  intros G X xs. unfold in_language. split.
  - intros [h Hh]. rewrite W_trees in Hh. apply bool_bsum_true in Hh.
    destruct Hh as [t [Hin Hw]]. apply filter_In in Hin. destruct Hin as [Hin Hy].
    unfold yields in Hy. apply list_eqb_nat_spec in Hy.
    exists t. split; [exact (proj1 (trees_sound BoolSR G h X t Hin))|split; assumption].
  - intros [t [Hwf [Hy Hw]]]. exists (theight t). rewrite W_trees.
    apply bool_bsum_true. exists t. split; [|exact Hw].
    apply filter_In. split.
    + apply trees_complete; [exact Hwf|apply le_n].
    + unfold yields. apply list_eqb_nat_spec. exact Hy.
Qed.

(* ---- viable = completable --------------------------------------------------- *)

Theorem viable_iff_completable : forall (G : grammar BoolSR) (X : nat) (p : list nat),
  (exists h, Wpre G h X p = true) <-> (exists xs, is_prefix p xs = true /\ in_language G X xs).
Proof.
  intros G X p. rewrite Wpre_bool_viable. split.
  - intros [t [Hwf [Hp Hw]]]. exists (tyield t). split; [exact Hp|].
    apply language_iff_tree. exists t. split; [exact Hwf|split; [reflexivity|exact Hw]].
  - intros [xs [Hp Hl]]. apply language_iff_tree in Hl.
    destruct Hl as [t [Hwf [Hy Hw]]]. subst xs.
    exists t. split; [exact Hwf|split; assumption].
Qed.

Theorem viable_prefix_closed : forall (G : grammar BoolSR) (X : nat) (p q : list nat),
  (exists h, Wpre G h X (p ++ q) = true) -> (exists h, Wpre G h X p = true).
Proof.
  intros G X p q H. apply viable_iff_completable in H. apply viable_iff_completable.
  destruct H as [xs [Hp Hl]]. exists xs. split; [|exact Hl].
  exact (is_prefix_app_l p q xs Hp).
Qed.

Corollary nonviable_mask_empty : forall (G : grammar BoolSR) (X : nat) (p : list nat),
  (forall h, Wpre G h X p = false) -> forall t h, Wpre G h X (p ++ [t]) = false.
Proof.
  intros G X p Hno t h. destruct (Wpre G h X (p ++ [t])) eqn:E; [exfalso|reflexivity].
  destruct (viable_prefix_closed G X p [t] (ex_intro _ h E)) as [h' Hh'].
  rewrite (Hno h') in Hh'. discriminate Hh'.
Qed.

Print Assumptions language_iff_tree.
Print Assumptions viable_iff_completable.
Print Assumptions viable_prefix_closed.
Print Assumptions nonviable_mask_empty.

(* ---- a small instance -------------------------------------------------------- *)
(* X0 -> 1 X1 ; X1 -> 0 ; X1 -> eps : the strings are [1;0] and [1] *)

Definition mask_ex_G : grammar BoolSR :=
  [ (true, 0, [T 1; N 1]); (true, 1, [T 0]); (true, 1, []) ].

Example mask_ex_viable : Wpre mask_ex_G 3 0 [1] = true.
Proof. vm_compute. reflexivity. Qed.

Example mask_ex_nonviable : Wpre mask_ex_G 3 0 [0] = false.
Proof. vm_compute. reflexivity. Qed.

Example mask_ex_string : W mask_ex_G 3 0 [1;0] = true.
Proof. vm_compute. reflexivity. Qed.

Example mask_ex_completable :
  exists xs, is_prefix [1] xs = true /\ in_language mask_ex_G 0 xs.
Proof.
  apply (proj1 (viable_iff_completable mask_ex_G 0 [1])).
  exact (ex_intro _ 3 eq_refl).
Qed.

Print Assumptions mask_ex_completable.
