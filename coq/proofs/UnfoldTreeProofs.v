(* CFG.unfold(i, k) (gen_unfold, generated from cfg.py) preserves the weighted language in
   the strongest form available over an arbitrary commutative semiring: in the main case
   (rule number i of G is s and position k of the body of s is the nonterminal Y) there is
   a weight- and yield-preserving one-to-one correspondence [phi]/[psi] between the
   derivation trees of G and those of G' := gen_unfold S i k G, for every nonterminal.
   No axioms. *)
From Coq Require Import List Arith Bool Lia.
From GV.lib Require Import Semiring BigSum.
From GV.model Require Import Cfg.
From GV.gen Require Import Gen_Cfg.
From GV.proofs Require Import CfgTrees SepTermProofs UnfoldProofs.
Import ListNotations.
Local Open Scope sr_scope.

(* ---------- generic list lemmas ---------- *)

Lemma nth_error_remove {A} : forall (l : list A) i n,
  nth_error (firstn i l ++ skipn (S i) l) n = nth_error l (if Nat.ltb n i then n else S n).
Proof.
  induction l as [|x l IH]; intros i n.
  - destruct i; destruct n; simpl; try reflexivity; destruct (Nat.ltb _ _); reflexivity.
  - destruct i as [|i].
    + reflexivity.
    + destruct n as [|n]; [reflexivity|].
      cbn [firstn skipn app nth_error]. rewrite IH.
      change (Nat.ltb (S n) (S i)) with (Nat.ltb n i).
      destruct (Nat.ltb n i); reflexivity.
Qed.

Lemma length_remove {A} : forall (l : list A) i,
  i < length l -> length (firstn i l ++ skipn (S i) l) = length l - 1.
Proof.
  intros l i Hi. rewrite app_length, firstn_length, skipn_length. lia.
Qed.

Section UnfoldTrees.
Variable S : SR.
Add Ring UTRing : (sth S).

(* ====================================================================== *)
(* forests as lists                                                       *)
(* ====================================================================== *)

Fixpoint fapp (f g : forest S) : forest S :=
  match f with Fnil => g | Fcons t f' => Fcons t (fapp f' g) end.

Fixpoint flength (f : forest S) : nat :=
  match f with Fnil => O | Fcons _ f' => Datatypes.S (flength f') end.

Fixpoint ffirstn (n : nat) (f : forest S) : forest S :=
  match n, f with
  | Datatypes.S n', Fcons t f' => Fcons t (ffirstn n' f')
  | _, _ => Fnil
  end.

Fixpoint fskipn (n : nat) (f : forest S) : forest S :=
  match n, f with
  | Datatypes.S n', Fcons _ f' => fskipn n' f'
  | _, _ => f
  end.

(* put a node (j, r) above the [len] trees that follow the first n trees of f *)
Definition unsplice (n len j : nat) (r : rule S) (f : forest S) : forest S :=
  fapp (ffirstn n f)
       (Fcons (Node j r (ffirstn len (fskipn n f))) (fskipn len (fskipn n f))).

Lemma fyield_app (f g : forest S) : fyield (fapp f g) = fyield f ++ fyield g.
Proof.
  induction f as [|t f IH]; [reflexivity|].
  cbn [fapp]. rewrite !fyield_cons, IH, app_assoc. reflexivity.
Qed.

Lemma fweight_app (f g : forest S) : fweight (fapp f g) = fweight f * fweight g.
Proof.
  induction f as [|t f IH]; cbn [fapp].
  - cbn [fweight]. ring.
  - rewrite !fweight_cons, IH. ring.
Qed.

Lemma fheight_app (f g : forest S) : fheight (fapp f g) = Nat.max (fheight f) (fheight g).
Proof.
  induction f as [|t f IH]; cbn [fapp]; [reflexivity|].
  rewrite !fheight_cons, IH. lia.
Qed.

Lemma flength_app (f g : forest S) : flength (fapp f g) = (flength f + flength g)%nat.
Proof. induction f as [|t f IH]; cbn [fapp flength]; [reflexivity|rewrite IH; reflexivity]. Qed.

Lemma ffirstn_fskipn : forall n (f : forest S), fapp (ffirstn n f) (fskipn n f) = f.
Proof.
  induction n as [|n IH]; intros [|t f]; cbn [ffirstn fskipn fapp]; try reflexivity.
  rewrite IH. reflexivity.
Qed.

Lemma ffirstn_app_exact : forall (f g : forest S), ffirstn (flength f) (fapp f g) = f.
Proof.
  induction f as [|t f IH]; intros g; cbn [flength fapp ffirstn].
  - destruct g; reflexivity.
  - rewrite IH. reflexivity.
Qed.

Lemma fskipn_app_exact : forall (f g : forest S), fskipn (flength f) (fapp f g) = g.
Proof.
  induction f as [|t f IH]; intros g; cbn [flength fapp fskipn].
  - destruct g; reflexivity.
  - apply IH.
Qed.

Lemma flength_ffirstn : forall n (f : forest S), n <= flength f -> flength (ffirstn n f) = n.
Proof.
  induction n as [|n IH]; intros [|t f] Hn; cbn [ffirstn flength] in *; try reflexivity; try lia.
  rewrite IH by lia. reflexivity.
Qed.

Lemma fwf_length (G0 : grammar S) : forall body f, fwf S G0 body f -> flength f = length body.
Proof.
  induction body as [|x body IH]; intros f H; inversion H; subst; cbn [flength length].
  - reflexivity.
  - rewrite (IH _ H4). reflexivity.
Qed.

Lemma fwf_app (G0 : grammar S) : forall b1 b2 f1 f2,
  fwf S G0 b1 f1 -> fwf S G0 b2 f2 -> fwf S G0 (b1 ++ b2) (fapp f1 f2).
Proof.
  induction b1 as [|x b1 IH]; intros b2 f1 f2 H1 H2; inversion H1; subst; cbn [app fapp].
  - exact H2.
  - constructor; [assumption|]. apply IH; assumption.
Qed.

Lemma fwf_app_inv (G0 : grammar S) : forall b1 b2 f,
  fwf S G0 (b1 ++ b2) f ->
  fwf S G0 b1 (ffirstn (length b1) f) /\ fwf S G0 b2 (fskipn (length b1) f).
Proof.
  induction b1 as [|x b1 IH]; intros b2 f H; cbn [app length] in *.
  - split; [|destruct f; exact H]. destruct f; constructor.
  - inversion H; subst. cbn [ffirstn fskipn].
    destruct (IH b2 _ H4) as [Ha Hb]. split; [constructor; assumption|exact Hb].
Qed.

Lemma unsplice_succ n len j (r : rule S) t f :
  unsplice (Datatypes.S n) len j r (Fcons t f) = Fcons t (unsplice n len j r f).
Proof. reflexivity. Qed.

Lemma unsplice_zero len j (r : rule S) f :
  unsplice O len j r f = Fcons (Node j r (ffirstn len f)) (fskipn len f).
Proof. unfold unsplice. destruct f; reflexivity. Qed.

Lemma unsplice_yield n len j (r : rule S) f : fyield (unsplice n len j r f) = fyield f.
Proof.
  unfold unsplice. rewrite fyield_app, fyield_cons, tyield_node.
  rewrite <- fyield_app, ffirstn_fskipn, <- fyield_app, ffirstn_fskipn. reflexivity.
Qed.

Lemma unsplice_weight n len j (r : rule S) f : fweight (unsplice n len j r f) = rw r * fweight f.
Proof.
  unfold unsplice. rewrite fweight_app, fweight_cons, tweight_node.
  rewrite <- (ffirstn_fskipn n f) at 4.
  rewrite <- (ffirstn_fskipn len (fskipn n f)) at 3.
  rewrite !fweight_app. ring.
Qed.

Lemma unsplice_height n len j (r : rule S) f :
  fheight (unsplice n len j r f) <= Datatypes.S (fheight f).
Proof.
  unfold unsplice. rewrite fheight_app, fheight_cons, theight_node.
  pose proof (fheight_app (ffirstn n f) (fskipn n f)) as H1. rewrite ffirstn_fskipn in H1.
  pose proof (fheight_app (ffirstn len (fskipn n f)) (fskipn len (fskipn n f))) as H2.
  rewrite ffirstn_fskipn in H2. lia.
Qed.

Lemma unsplice_wf (G0 : grammar S) b1 b2 b3 j (r : rule S) f :
  fwf S G0 (b1 ++ b2 ++ b3) f -> nth_error G0 j = Some r -> rbody r = b2 ->
  fwf S G0 (b1 ++ N (rhead r) :: b3) (unsplice (length b1) (length b2) j r f).
Proof.
  intros H Hj Hb. apply fwf_app_inv in H. destruct H as [H1 H23].
  apply fwf_app_inv in H23. destruct H23 as [H2 H3].
  unfold unsplice. apply fwf_app; [exact H1|].
  constructor; [|exact H3]. constructor; [exact Hj|]. rewrite Hb. exact H2.
Qed.

(* ====================================================================== *)
(* the grammar                                                            *)
(* ====================================================================== *)

Variable G : grammar S.
Variables i k : nat.
Variable s : rule S.
Variable Y : nat.
Hypothesis Hs : nth_error G i = Some s.
Hypothesis Hk : nth_error (rbody s) k = Some (N Y).

Local Notation G' := (gen_unfold S i k G).

Definition L1 : nat := length G - 1.
Definition hY (r : rule S) : bool := Nat.eqb (rhead r) Y.
Definition expand (r : rule S) : rule S :=
  (rw s * rw r, rhead s, firstn k (rbody s) ++ rbody r ++ skipn (Datatypes.S k) (rbody s)).

(* index of a kept rule in G', and back *)
Definition shift (j : nat) : nat := if Nat.ltb j i then j else j - 1.
Definition unshift (n : nat) : nat := if Nat.ltb n i then n else Datatypes.S n.

(* number of rules with head Y among the first j rules *)
Fixpoint rank (G0 : grammar S) (j : nat) : nat :=
  match G0, j with
  | r :: G1, Datatypes.S j' => ((if hY r then 1 else 0) + rank G1 j')%nat
  | _, _ => O
  end.

(* the m-th rule with head Y, with its index (counted from o) *)
Fixpoint sel_from (o : nat) (G0 : grammar S) (m : nat) : option (nat * rule S) :=
  match G0 with
  | [] => None
  | r :: G1 =>
      if hY r then
        match m with
        | O => Some (o, r)
        | Datatypes.S m' => sel_from (Datatypes.S o) G1 m'
        end
      else sel_from (Datatypes.S o) G1 m
  end.

Lemma i_lt : i < length G.
Proof. apply nth_error_Some. rewrite Hs. discriminate. Qed.

Lemma kept_eq : kept S i G = firstn i G ++ skipn (Datatypes.S i) G.
Proof.
  unfold kept.
  assert (H : forall (G0 : grammar S) o i0,
             kept_from S o (o + i0) G0 = firstn i0 G0 ++ skipn (Datatypes.S i0) G0).
  { induction G0 as [|r G0 IH]; intros o i0.
    - destruct i0; reflexivity.
    - rewrite kept_from_cons. destruct i0 as [|i0].
      + rewrite Nat.add_0_r, Nat.eqb_refl. cbn [negb app firstn skipn].
        apply kept_from_below. lia.
      + replace (Nat.eqb o (o + Datatypes.S i0)) with false by (symmetry; apply Nat.eqb_neq; lia).
        cbn [negb app firstn skipn]. f_equal.
        replace (o + Datatypes.S i0)%nat with (Datatypes.S o + i0)%nat by lia. apply IH. }
  apply (H G O i).
Qed.

Lemma G'_eq : G' = kept S i G ++ map expand (filter hY G).
Proof. unfold gen_unfold. rewrite Hs, Hk, kept_gen. reflexivity. Qed.

Lemma kept_length : length (kept S i G) = L1.
Proof. rewrite kept_eq. apply length_remove. exact i_lt. Qed.

Lemma nth_kept n : nth_error (kept S i G) n = nth_error G (unshift n).
Proof. rewrite kept_eq. apply nth_error_remove. Qed.

Lemma shift_lt j : j < length G -> j <> i -> shift j < L1.
Proof. pose proof i_lt as Hi. unfold shift, L1. intros Hj Hne. destruct (Nat.ltb j i) eqn:E;
  [apply Nat.ltb_lt in E|apply Nat.ltb_ge in E]; lia. Qed.

Lemma unshift_shift j : j <> i -> unshift (shift j) = j.
Proof.
  intros Hne. unfold shift, unshift. destruct (Nat.ltb j i) eqn:E.
  - rewrite E. reflexivity.
  - apply Nat.ltb_ge in E.
    assert (E2 : Nat.ltb (j - 1) i = false) by (apply Nat.ltb_ge; lia).
    rewrite E2. lia.
Qed.

Lemma shift_unshift n : shift (unshift n) = n.
Proof.
  unfold shift, unshift. destruct (Nat.ltb n i) eqn:E.
  - rewrite E. reflexivity.
  - apply Nat.ltb_ge in E.
    assert (E2 : Nat.ltb (Datatypes.S n) i = false) by (apply Nat.ltb_ge; lia).
    rewrite E2. lia.
Qed.

Lemma unshift_ne n : unshift n <> i.
Proof.
  unfold unshift. destruct (Nat.ltb n i) eqn:E;
    [apply Nat.ltb_lt in E|apply Nat.ltb_ge in E]; lia.
Qed.

Lemma nth_G'_kept j r : nth_error G j = Some r -> j <> i -> nth_error G' (shift j) = Some r.
Proof.
  intros Hj Hne. rewrite G'_eq.
  assert (Hlt : j < length G) by (apply nth_error_Some; rewrite Hj; discriminate).
  rewrite nth_error_app1 by (rewrite kept_length; apply shift_lt; assumption).
  rewrite nth_kept, unshift_shift by exact Hne. exact Hj.
Qed.

(* rank / sel_from *)
Lemma sel_rank : forall (G0 : grammar S) o j r,
  nth_error G0 j = Some r -> hY r = true ->
  nth_error (filter hY G0) (rank G0 j) = Some r /\
  sel_from o G0 (rank G0 j) = Some ((o + j)%nat, r).
Proof.
  induction G0 as [|r0 G0 IH]; intros o j r Hj Hr.
  - destruct j; discriminate.
  - destruct j as [|j].
    + cbn in Hj. injection Hj as ->. cbn [rank filter sel_from]. rewrite Hr.
      rewrite Nat.add_0_r. split; reflexivity.
    + cbn [nth_error] in Hj. destruct (IH (Datatypes.S o) j r Hj Hr) as [H1 H2].
      cbn [rank filter sel_from]. destruct (hY r0).
      * cbn [Nat.add nth_error]. split; [exact H1|].
        rewrite H2. f_equal. f_equal. lia.
      * cbn [Nat.add]. split; [exact H1|]. rewrite H2. f_equal. f_equal. lia.
Qed.

Lemma sel_spec : forall (G0 : grammar S) o m r,
  nth_error (filter hY G0) m = Some r ->
  exists j, sel_from o G0 m = Some ((o + j)%nat, r) /\ nth_error G0 j = Some r /\
            hY r = true /\ rank G0 j = m.
Proof.
  induction G0 as [|r0 G0 IH]; intros o m r Hm.
  - destruct m; discriminate.
  - cbn [filter sel_from] in *. destruct (hY r0) eqn:E0.
    + destruct m as [|m].
      * cbn in Hm. injection Hm as ->. exists O. rewrite Nat.add_0_r.
        repeat split; try reflexivity. exact E0.
      * cbn [nth_error] in Hm. destruct (IH (Datatypes.S o) m r Hm) as [j [H1 [H2 [H3 H4]]]].
        exists (Datatypes.S j). cbn [nth_error rank]. rewrite E0, H4.
        repeat split; try assumption; try reflexivity.
        rewrite H1. f_equal. f_equal. lia.
    + destruct (IH (Datatypes.S o) m r Hm) as [j [H1 [H2 [H3 H4]]]].
      exists (Datatypes.S j). cbn [nth_error rank]. rewrite E0, H4.
      repeat split; try assumption; try reflexivity.
      rewrite H1. f_equal. f_equal. lia.
Qed.

Lemma nth_G'_exp j r :
  nth_error G j = Some r -> rhead r = Y -> nth_error G' (L1 + rank G j) = Some (expand r).
Proof.
  intros Hj Hh. rewrite G'_eq.
  rewrite nth_error_app2 by (rewrite kept_length; lia).
  rewrite kept_length. replace (L1 + rank G j - L1)%nat with (rank G j) by lia.
  assert (Hr : hY r = true) by (unfold hY; apply Nat.eqb_eq; exact Hh).
  rewrite nth_error_map, (proj1 (sel_rank G O j r Hj Hr)). reflexivity.
Qed.

Lemma nth_G'_cases n r'' :
  nth_error G' n = Some r'' ->
  (n < L1 /\ nth_error G (unshift n) = Some r'') \/
  (L1 <= n /\ exists j r, sel_from O G (n - L1) = Some (j, r) /\ nth_error G j = Some r /\
                          rhead r = Y /\ rank G j = (n - L1)%nat /\ r'' = expand r).
Proof.
  intros Hn. rewrite G'_eq in Hn. destruct (Nat.lt_ge_cases n L1) as [Hlt|Hge].
  - left. split; [exact Hlt|].
    rewrite nth_error_app1 in Hn by (rewrite kept_length; exact Hlt).
    rewrite nth_kept in Hn. exact Hn.
  - right. split; [exact Hge|].
    rewrite nth_error_app2 in Hn by (rewrite kept_length; exact Hge).
    rewrite kept_length, nth_error_map in Hn.
    destruct (nth_error (filter hY G) (n - L1)) as [r|] eqn:E; [|discriminate].
    cbn in Hn. injection Hn as Hn.
    destruct (sel_spec G O (n - L1) r E) as [j [H1 [H2 [H3 H4]]]].
    exists j, r. cbn [Nat.add] in H1.
    repeat split; try assumption; [|symmetry; exact Hn].
    unfold hY in H3. apply Nat.eqb_eq in H3. exact H3.
Qed.


(* ====================================================================== *)
(* the two tree maps                                                      *)
(* ====================================================================== *)

(* phi: a node that uses rule number i absorbs its k-th child (a node (j', r') with head Y)
   and becomes a node of the expansion of s by r'; every other node keeps its rule, at
   the shifted index.  [splice n f] maps the forest f, replacing the n-th tree by the
   images of its children, and returns the index and rule found there. *)
Fixpoint phi (t : tree S) : tree S :=
  match t with
  | Leaf a => Leaf a
  | Node j r kids =>
      if Nat.eqb j i then
        match splice k kids with
        | Some (j', r', g) => Node (L1 + rank G j') (expand r') g
        | None => Leaf O
        end
      else Node (shift j) r (phis kids)
  end
with phis (f : forest S) : forest S :=
  match f with
  | Fnil => Fnil
  | Fcons t f' => Fcons (phi t) (phis f')
  end
with splice (n : nat) (f : forest S) {struct f} : option (nat * rule S * forest S) :=
  match f with
  | Fnil => None
  | Fcons t f' =>
      match n with
      | O => match t with
             | Leaf _ => None
             | Node j' r' kids' => Some (j', r', fapp (phis kids') (phis f'))
             end
      | Datatypes.S n' =>
          match splice n' f' with
          | Some (j', r', g) => Some (j', r', Fcons (phi t) g)
          | None => None
          end
      end
  end.

(* psi: a node with index below length G - 1 is a kept rule; a node with index
   length G - 1 + m is the expansion by the m-th rule (j', r') with head Y: the children
   k .. k + |body r'| - 1 are put back under a node (j', r') *)
Fixpoint psi (t : tree S) : tree S :=
  match t with
  | Leaf a => Leaf a
  | Node n r kids =>
      if Nat.ltb n L1 then Node (unshift n) (nth (unshift n) G r) (psis kids)
      else match sel_from O G (n - L1) with
           | Some (j', r') => Node i s (unsplice k (length (rbody r')) j' r' (psis kids))
           | None => Leaf O
           end
  end
with psis (f : forest S) : forest S :=
  match f with
  | Fnil => Fnil
  | Fcons t f' => Fcons (psi t) (psis f')
  end.

(* ---------- unfolding lemmas ---------- *)

Lemma phis_cons t f : phis (Fcons t f) = Fcons (phi t) (phis f).
Proof. reflexivity. Qed.
Lemma psis_cons t f : psis (Fcons t f) = Fcons (psi t) (psis f).
Proof. reflexivity. Qed.

Lemma phis_app f g : phis (fapp f g) = fapp (phis f) (phis g).
Proof. induction f as [|t f IH]; cbn [fapp phis]; [reflexivity|rewrite IH; reflexivity]. Qed.
Lemma psis_app f g : psis (fapp f g) = fapp (psis f) (psis g).
Proof. induction f as [|t f IH]; cbn [fapp psis]; [reflexivity|rewrite IH; reflexivity]. Qed.

Lemma splice_zero j r kids f :
  splice O (Fcons (Node j r kids) f) = Some (j, r, fapp (phis kids) (phis f)).
Proof. reflexivity. Qed.

Lemma splice_succ n t f :
  splice (Datatypes.S n) (Fcons t f)
  = match splice n f with
    | Some (j', r', g) => Some (j', r', Fcons (phi t) g)
    | None => None
    end.
Proof. reflexivity. Qed.

Lemma phi_node_i r kids :
  phi (Node i r kids)
  = match splice k kids with
    | Some (j', r', g) => Node (L1 + rank G j') (expand r') g
    | None => Leaf O
    end.
Proof. cbn [phi]. rewrite Nat.eqb_refl. reflexivity. Qed.

Lemma phi_node_ne j r kids : j <> i -> phi (Node j r kids) = Node (shift j) r (phis kids).
Proof. intros Hne. cbn [phi]. apply Nat.eqb_neq in Hne. rewrite Hne. reflexivity. Qed.

Lemma psi_kept n r kids r0 :
  n < L1 -> nth_error G (unshift n) = Some r0 ->
  psi (Node n r kids) = Node (unshift n) r0 (psis kids).
Proof.
  intros Hlt Hn. cbn [psi]. apply Nat.ltb_lt in Hlt. rewrite Hlt.
  rewrite (nth_error_nth_eq G (unshift n) r0 r Hn). reflexivity.
Qed.

Lemma psi_exp n r kids j' r' :
  L1 <= n -> sel_from O G (n - L1) = Some (j', r') ->
  psi (Node n r kids) = Node i s (unsplice k (length (rbody r')) j' r' (psis kids)).
Proof.
  intros Hge Hsel. cbn [psi]. apply Nat.ltb_ge in Hge. rewrite Hge, Hsel. reflexivity.
Qed.

Lemma psi_exp_rank j' r' rr g :
  nth_error G j' = Some r' -> rhead r' = Y ->
  psi (Node (L1 + rank G j') rr g) = Node i s (unsplice k (length (rbody r')) j' r' (psis g)).
Proof.
  intros Hj Hh. apply psi_exp; [lia|].
  replace (L1 + rank G j' - L1)%nat with (rank G j') by lia.
  assert (Hr : hY r' = true) by (unfold hY; apply Nat.eqb_eq; exact Hh).
  exact (proj2 (sel_rank G O j' r' Hj Hr)).
Qed.

Lemma splice_unsplice len j r : forall n f,
  n <= flength f -> splice n (unsplice n len j r f) = Some (j, r, phis f).
Proof.
  induction n as [|n IH]; intros f Hn.
  - rewrite unsplice_zero, splice_zero, <- phis_app, ffirstn_fskipn. reflexivity.
  - destruct f as [|t f]; [cbn in Hn; lia|]. cbn [flength] in Hn.
    rewrite unsplice_succ, splice_succ, IH by lia. reflexivity.
Qed.

(* ====================================================================== *)
(* G to G'                                                                *)
(* ====================================================================== *)

Definition Fphi (body : list sym) (f : forest S) : Prop :=
  fwf S G' body (phis f) /\ fyield (phis f) = fyield f /\ fweight (phis f) = fweight f /\
  (fheight (phis f) <= fheight f /\ fheight f <= 2 * fheight (phis f)) /\ psis (phis f) = f.

Definition Tphi (sy : sym) (t : tree S) : Prop :=
  twf S G' sy (phi t) /\ tyield (phi t) = tyield t /\ tweight (phi t) = tweight t /\
  (theight (phi t) <= theight t /\ theight t <= 2 * theight (phi t)) /\ psi (phi t) = t.

Definition Pphi (sy : sym) (t : tree S) : Prop :=
  match sy with
  | T a => t = Leaf a
  | N X =>
      Tphi (N X) t /\
      exists j r kids, t = Node j r kids /\ nth_error G j = Some r /\ rhead r = X /\
                       fwf S G (rbody r) kids /\ Fphi (rbody r) kids
  end.

(* the forest f with its n-th tree (a node (j', r')) replaced by the images of its children *)
Definition Sphi (body : list sym) (f : forest S) : Prop :=
  forall n Y0, nth_error body n = Some (N Y0) ->
    exists j' r' g,
      splice n f = Some (j', r', g) /\ nth_error G j' = Some r' /\ rhead r' = Y0 /\
      fwf S G' (firstn n body ++ rbody r' ++ skipn (Datatypes.S n) body) g /\
      fyield g = fyield f /\ rw r' * fweight g = fweight f /\
      (fheight g <= fheight f /\ fheight f <= Datatypes.S (2 * fheight g)) /\
      unsplice n (length (rbody r')) j' r' (psis g) = f.

Definition Qphi (body : list sym) (f : forest S) : Prop := Fphi body f /\ Sphi body f.

Lemma phi_mut :
  (forall sy t, twf S G sy t -> Pphi sy t) /\ (forall body f, fwf S G body f -> Qphi body f).
Proof.
  apply twf_fwf_ind.
  - (* leaf *) intros a. reflexivity.
  - (* node *)
    intros j r kids Hn Hkids [HF HS]. unfold Pphi. split.
    2:{ exists j, r, kids. split; [reflexivity|]. split; [exact Hn|]. split; [reflexivity|].
        split; [exact Hkids|exact HF]. }
    unfold Tphi. destruct (Nat.eq_dec j i) as [Eji|Nji].
    + (* rule number i: absorb the k-th child *)
      subst j. assert (Er : r = s) by congruence. subst r.
      destruct (HS k Y Hk) as [j' [r' [g [Hsp [Hj' [Hh' [Hwf [Hy [Hw [[Hh1 Hh2] Hps]]]]]]]]]].
      rewrite phi_node_i, Hsp.
      split; [|split; [|split; [|split]]].
      * change (N (rhead s)) with (N (rhead (expand r'))). constructor.
        -- apply nth_G'_exp; assumption.
        -- exact Hwf.
      * rewrite !tyield_node. exact Hy.
      * rewrite !tweight_node. rewrite <- Hw.
        change (rw (expand r')) with (rw s * rw r'). ring.
      * rewrite !theight_node. lia.
      * rewrite (psi_exp_rank j' r' (expand r') g Hj' Hh'), Hps. reflexivity.
    + (* a kept rule *)
      destruct HF as [Hw [Hy [Hwt [[Hh1 Hh2] Hps]]]].
      rewrite phi_node_ne by exact Nji.
      assert (Hlt : j < length G) by (apply nth_error_Some; rewrite Hn; discriminate).
      split; [|split; [|split; [|split]]].
      * constructor; [apply nth_G'_kept; assumption|exact Hw].
      * rewrite !tyield_node. exact Hy.
      * rewrite !tweight_node, Hwt. reflexivity.
      * rewrite !theight_node. lia.
      * rewrite (psi_kept (shift j) r (phis kids) r).
        -- rewrite unshift_shift by exact Nji. rewrite Hps. reflexivity.
        -- apply shift_lt; assumption.
        -- rewrite unshift_shift by exact Nji. exact Hn.
  - (* nil *)
    split.
    + unfold Fphi. cbn. repeat split; try constructor; lia.
    + intros n Y0 Hn. destruct n; discriminate.
  - (* cons *)
    intros sy body t f Ht IHt Hf [HF HS].
    assert (Ht' : Tphi sy t).
    { destruct sy as [a|X]; unfold Pphi in IHt.
      - subst t. unfold Tphi. cbn. repeat split; try constructor; lia.
      - exact (proj1 IHt). }
    destruct Ht' as [Htw [Hty [Htwt [[Hth1 Hth2] Htps]]]].
    split.
    + destruct HF as [Hw [Hy [Hwt [[Hh1 Hh2] Hps]]]]. unfold Fphi. rewrite phis_cons.
      split; [constructor; assumption|].
      split; [rewrite !fyield_cons, Hty, Hy; reflexivity|].
      split; [rewrite !fweight_cons, Htwt, Hwt; reflexivity|].
      split; [rewrite !fheight_cons; lia|].
      rewrite psis_cons, Htps, Hps. reflexivity.
    + intros n Y0 Hn. destruct n as [|n].
      * (* the tree to absorb is the head *)
        cbn in Hn. injection Hn as Hn. subst sy. unfold Pphi in IHt.
        destruct IHt as [_ [j' [r' [kids' [Et [Hj' [Hh' [Hwk HFk]]]]]]]]. subst t.
        destruct HFk as [Hkw [Hky [Hkwt [[Hkh1 Hkh2] Hkps]]]].
        destruct HF as [Hw [Hy [Hwt [[Hh1 Hh2] Hps]]]].
        exists j', r', (fapp (phis kids') (phis f)).
        split; [reflexivity|]. split; [exact Hj'|]. split; [exact Hh'|].
        cbn [firstn skipn app].
        split; [apply fwf_app; assumption|].
        split; [rewrite fyield_app, fyield_cons, tyield_node, Hky, Hy; reflexivity|].
        split; [rewrite fweight_app, fweight_cons, tweight_node, Hkwt, Hwt; ring|].
        split; [rewrite fheight_app, fheight_cons, theight_node; lia|].
        rewrite unsplice_zero, psis_app, Hkps, Hps.
        rewrite <- (fwf_length G _ _ Hwk).
        rewrite ffirstn_app_exact, fskipn_app_exact. reflexivity.
      * cbn [nth_error] in Hn.
        destruct (HS n Y0 Hn) as [j' [r' [g [Hsp [Hj' [Hh' [Hwf [Hy [Hw [[Hh1 Hh2] Hps]]]]]]]]]].
        exists j', r', (Fcons (phi t) g).
        split; [rewrite splice_succ, Hsp; reflexivity|].
        split; [exact Hj'|]. split; [exact Hh'|].
        cbn [firstn skipn app].
        split; [constructor; assumption|].
        split; [rewrite !fyield_cons, Hty, Hy; reflexivity|].
        split; [rewrite !fweight_cons, <- Hw, Htwt; ring|].
        split; [rewrite !fheight_cons; lia|].
        rewrite psis_cons, unsplice_succ, Htps, Hps. reflexivity.
Qed.

(* ====================================================================== *)
(* G' to G                                                                *)
(* ====================================================================== *)

Definition Ppsi (sy : sym) (t' : tree S) : Prop :=
  match sy with
  | T a => t' = Leaf a
  | N X =>
      twf S G (N X) (psi t') /\ tyield (psi t') = tyield t' /\ tweight (psi t') = tweight t' /\
      theight (psi t') <= 2 * theight t' /\ phi (psi t') = t'
  end.

Definition Qpsi (body : list sym) (f' : forest S) : Prop :=
  fwf S G body (psis f') /\ fyield (psis f') = fyield f' /\ fweight (psis f') = fweight f' /\
  fheight (psis f') <= 2 * fheight f' /\ phis (psis f') = f'.

Lemma psi_mut :
  (forall sy t', twf S G' sy t' -> Ppsi sy t') /\ (forall body f', fwf S G' body f' -> Qpsi body f').
Proof.
  apply twf_fwf_ind.
  - (* leaf *) intros a. reflexivity.
  - (* node *)
    intros n r'' kids Hn Hkids IH. unfold Ppsi.
    destruct (nth_G'_cases n r'' Hn) as [[Hlt Hu]|[Hge [j [r [Hsel [Hj [Hh [Hrk Er]]]]]]]].
    + (* a kept rule *)
      destruct IH as [Hw [Hy [Hwt [Hht Hph]]]].
      rewrite (psi_kept n r'' kids r'' Hlt Hu).
      split; [constructor; assumption|].
      split; [rewrite !tyield_node; exact Hy|].
      split; [rewrite !tweight_node, Hwt; reflexivity|].
      split; [rewrite !theight_node; lia|].
      rewrite phi_node_ne by apply unshift_ne. rewrite shift_unshift, Hph. reflexivity.
    + (* an expansion *)
      subst r''.
      change (rbody (expand r))
        with (firstn k (rbody s) ++ rbody r ++ skipn (Datatypes.S k) (rbody s)) in IH.
      destruct IH as [Hw [Hy [Hwt [Hht Hph]]]].
      rewrite (psi_exp n (expand r) kids j r Hge Hsel).
      destruct (nth_error_split_eq (rbody s) k (N Y) Hk) as [E Lk].
      assert (Hu : fwf S G (rbody s) (unsplice k (length (rbody r)) j r (psis kids))).
      { pose proof (unsplice_wf G _ _ _ j r (psis kids) Hw Hj eq_refl) as Hu.
        rewrite Lk, Hh, <- E in Hu. exact Hu. }
      change (N (rhead (expand r))) with (N (rhead s)).
      split; [constructor; assumption|].
      split; [rewrite !tyield_node, unsplice_yield; exact Hy|].
      split.
      { rewrite !tweight_node, unsplice_weight, Hwt.
        change (rw (expand r)) with (rw s * rw r). ring. }
      split.
      { rewrite !theight_node.
        pose proof (unsplice_height k (length (rbody r)) j r (psis kids)) as Hus. lia. }
      rewrite phi_node_i, splice_unsplice.
      * rewrite Hrk, Hph. f_equal. lia.
      * rewrite (fwf_length G _ _ Hw), app_length, Lk. lia.
  - (* nil *)
    unfold Qpsi. cbn. repeat split; try constructor; lia.
  - (* cons *)
    intros sy body t' f' Ht' IHt' Hf' IHf'.
    destruct IHf' as [Hw [Hy [Hwt [Hht Hph]]]].
    assert (Ht : twf S G sy (psi t') /\ tyield (psi t') = tyield t' /\
                 tweight (psi t') = tweight t' /\ theight (psi t') <= 2 * theight t' /\
                 phi (psi t') = t').
    { destruct sy as [a|X]; unfold Ppsi in IHt'.
      - subst t'. cbn. repeat split; try constructor; lia.
      - exact IHt'. }
    destruct Ht as [Htw [Hty [Htwt [Hth Htph]]]].
    unfold Qpsi. rewrite psis_cons.
    split; [constructor; assumption|].
    split; [rewrite !fyield_cons, Hty, Hy; reflexivity|].
    split; [rewrite !fweight_cons, Htwt, Hwt; reflexivity|].
    split; [rewrite !fheight_cons; lia|].
    rewrite phis_cons, Htph, Hph. reflexivity.
Qed.


(* ====================================================================== *)
(* main theorems                                                          *)
(* ====================================================================== *)

(* from G to G' *)
Theorem phi_wf X t : twf S G (N X) t -> twf S G' (N X) (phi t).
Proof. intros H. exact (proj1 (proj1 (proj1 phi_mut (N X) t H))). Qed.

Theorem phi_yield X t : twf S G (N X) t -> tyield (phi t) = tyield t.
Proof. intros H. exact (proj1 (proj2 (proj1 (proj1 phi_mut (N X) t H)))). Qed.

Theorem phi_weight X t : twf S G (N X) t -> tweight (phi t) = tweight t.
Proof. intros H. exact (proj1 (proj2 (proj2 (proj1 (proj1 phi_mut (N X) t H))))). Qed.

Theorem phi_height X t :
  twf S G (N X) t -> theight (phi t) <= theight t /\ theight t <= 2 * theight (phi t).
Proof. intros H. exact (proj1 (proj2 (proj2 (proj2 (proj1 (proj1 phi_mut (N X) t H)))))). Qed.

Theorem psi_phi X t : twf S G (N X) t -> psi (phi t) = t.
Proof. intros H. exact (proj2 (proj2 (proj2 (proj2 (proj1 (proj1 phi_mut (N X) t H)))))). Qed.

(* from G' to G *)
Theorem psi_wf X t' : twf S G' (N X) t' -> twf S G (N X) (psi t').
Proof. intros H. exact (proj1 (proj1 psi_mut (N X) t' H)). Qed.

Theorem psi_yield X t' : twf S G' (N X) t' -> tyield (psi t') = tyield t'.
Proof. intros H. exact (proj1 (proj2 (proj1 psi_mut (N X) t' H))). Qed.

Theorem psi_weight X t' : twf S G' (N X) t' -> tweight (psi t') = tweight t'.
Proof. intros H. exact (proj1 (proj2 (proj2 (proj1 psi_mut (N X) t' H)))). Qed.

Theorem phi_psi X t' : twf S G' (N X) t' -> phi (psi t') = t'.
Proof. intros H. exact (proj2 (proj2 (proj2 (proj2 (proj1 psi_mut (N X) t' H))))). Qed.

Theorem psi_height X t' :
  twf S G' (N X) t' -> theight t' <= theight (psi t') /\ theight (psi t') <= 2 * theight t'.
Proof.
  intros H. split; [|exact (proj1 (proj2 (proj2 (proj2 (proj1 psi_mut (N X) t' H)))))].
  pose proof (proj1 (phi_height X (psi t') (psi_wf X t' H))) as Hh.
  rewrite (phi_psi X t' H) in Hh. exact Hh.
Qed.

(* injectivity *)
Theorem phi_inj X Z t1 t2 :
  twf S G (N X) t1 -> twf S G (N Z) t2 -> phi t1 = phi t2 -> t1 = t2.
Proof.
  intros H1 H2 E. rewrite <- (psi_phi X t1 H1), <- (psi_phi Z t2 H2), E. reflexivity.
Qed.

Theorem psi_inj X Z t1 t2 :
  twf S G' (N X) t1 -> twf S G' (N Z) t2 -> psi t1 = psi t2 -> t1 = t2.
Proof.
  intros H1 H2 E. rewrite <- (phi_psi X t1 H1), <- (phi_psi Z t2 H2), E. reflexivity.
Qed.

(* the enumerations *)
Theorem trees_phi h X t : In t (trees G h X) -> In (phi t) (trees G' h X).
Proof.
  intros Hin. destruct (trees_sound S G h X t Hin) as [Hw Hh].
  apply trees_complete; [apply phi_wf; exact Hw|].
  destruct (phi_height X t Hw) as [H1 _]. lia.
Qed.

Theorem trees_psi h X t' : In t' (trees G' h X) -> In (psi t') (trees G (2 * h) X).
Proof.
  intros Hin. destruct (trees_sound S G' h X t' Hin) as [Hw Hh].
  apply trees_complete; [apply psi_wf; exact Hw|].
  destruct (psi_height X t' Hw) as [_ H2]. lia.
Qed.

(* every tree of G' of height <= h is the image of a tree of G of height <= 2h, and every
   tree of G of height <= h is the image of a tree of G' of height <= h *)
Theorem trees_phi_onto h X t' :
  In t' (trees G' h X) -> exists t, In t (trees G (2 * h) X) /\ phi t = t'.
Proof.
  intros Hin. exists (psi t'). split; [apply trees_psi; exact Hin|].
  destruct (trees_sound S G' h X t' Hin) as [Hw _]. apply (phi_psi X t' Hw).
Qed.

Theorem trees_psi_onto h X t :
  In t (trees G h X) -> exists t', In t' (trees G' h X) /\ psi t' = t.
Proof.
  intros Hin. exists (phi t). split; [apply trees_phi; exact Hin|].
  destruct (trees_sound S G h X t Hin) as [Hw _]. apply (psi_phi X t Hw).
Qed.

(* the weighted form: W G h X xs is the sum over a duplicate-free sub-list of the trees of
   G' of height <= h, with the same weights and yields; W G' h X xs is the sum over a
   duplicate-free sub-list of the trees of G of height <= 2h *)
Theorem W_sub_sum h X xs :
  NoDup (map phi (trees G h X)) /\
  incl (map phi (trees G h X)) (trees G' h X) /\
  W G h X xs = bsum (filter (yields xs) (map phi (trees G h X))) tweight.
Proof.
  split; [|split].
  - apply NoDup_map_inj_in; [|apply trees_NoDup].
    intros t1 t2 H1 H2. apply (phi_inj X X).
    + exact (proj1 (trees_sound S G h X t1 H1)).
    + exact (proj1 (trees_sound S G h X t2 H2)).
  - intros t' Hin. apply in_map_iff in Hin. destruct Hin as [t [Et Hin]]. subst t'.
    apply trees_phi. exact Hin.
  - rewrite W_trees. rewrite !bsum_filter, bsum_map. apply bsum_ext. intros t Hin.
    destruct (trees_sound S G h X t Hin) as [Hw _].
    unfold yields. rewrite (phi_yield X t Hw), (phi_weight X t Hw). reflexivity.
Qed.

Theorem W'_sub_sum h X xs :
  NoDup (map psi (trees G' h X)) /\
  incl (map psi (trees G' h X)) (trees G (2 * h) X) /\
  W G' h X xs = bsum (filter (yields xs) (map psi (trees G' h X))) tweight.
Proof.
  split; [|split].
  - apply NoDup_map_inj_in; [|apply trees_NoDup].
    intros t1 t2 H1 H2. apply (psi_inj X X).
    + exact (proj1 (trees_sound S G' h X t1 H1)).
    + exact (proj1 (trees_sound S G' h X t2 H2)).
  - intros t Hin. apply in_map_iff in Hin. destruct Hin as [t' [Et Hin]]. subst t.
    apply trees_psi. exact Hin.
  - rewrite W_trees. rewrite !bsum_filter, bsum_map. apply bsum_ext. intros t' Hin.
    destruct (trees_sound S G' h X t' Hin) as [Hw _].
    unfold yields. rewrite (psi_yield X t' Hw), (psi_weight X t' Hw). reflexivity.
Qed.

End UnfoldTrees.

Print Assumptions phi_wf.
Print Assumptions phi_yield.
Print Assumptions phi_weight.
Print Assumptions phi_height.
Print Assumptions psi_phi.
Print Assumptions psi_wf.
Print Assumptions psi_yield.
Print Assumptions psi_weight.
Print Assumptions psi_height.
Print Assumptions phi_psi.
Print Assumptions phi_inj.
Print Assumptions psi_inj.
Print Assumptions trees_phi.
Print Assumptions trees_psi.
Print Assumptions trees_phi_onto.
Print Assumptions trees_psi_onto.
Print Assumptions W_sub_sum.
Print Assumptions W'_sub_sum.
