(* WFSA._trim: restricting a machine to a set of states does not change its weights when
   the removed states are unreachable (the kept set contains the initial states and is closed
   under successors) or dead (nothing is accepted from them). *)
From Coq Require Import List Arith Bool Lia.
From GV.lib Require Import Semiring BigSum.
From GV.model Require Import Wfsa TrimW.
From GV.proofs Require Import WfsaProofs.
Import ListNotations.
Local Open Scope sr_scope.

Section TrimWProofs.
Variable S : SR.
Add Ring SRing : (sth S).

(* K is closed under successors *)
Definition closed_succ (m : wfsa S) (K : list nat) : Prop :=
  forall ar, In ar (warcs m) -> inb (asrc ar) K = true -> inb (adst ar) K = true.
(* nothing is accepted from q *)
Definition dead (m : wfsa S) (q : nat) : Prop := forall xs, pw m q xs = 0.

Lemma winit_wtrim (K : list nat) (m : wfsa S) :
  winit (wtrim K m) = filter (fun e => inb (fst e) K) (winit m).
Proof. reflexivity. Qed.
Lemma wfinal_wtrim (K : list nat) (m : wfsa S) :
  wfinal (wtrim K m) = filter (fun e => inb (fst e) K) (wfinal m).
Proof. reflexivity. Qed.
Lemma warcs_wtrim (K : list nat) (m : wfsa S) :
  warcs (wtrim K m) = filter (fun ar => inb (asrc ar) K && inb (adst ar) K) (warcs m).
Proof. reflexivity. Qed.

Lemma wget_filter (K : list nat) (v : list (nat * S)) (q : nat) :
  inb q K = true -> wget (filter (fun e => inb (fst e) K) v) q = wget v q.
Proof.
  intros Hq. unfold wget. rewrite bsum_filter. apply bsum_ext. intros e _.
  destruct (Nat.eqb q (fst e)) eqn:E.
  - apply Nat.eqb_eq in E. rewrite <- E, Hq. reflexivity.
  - destruct (inb (fst e) K); reflexivity.
Qed.

Lemma pw_nil (m : wfsa S) q : pw m q [] = wget (wfinal m) q.
Proof. reflexivity. Qed.
Lemma pw_cons (m : wfsa S) q a xs :
  pw m q (a :: xs) =
  bsum (warcs m) (fun ar => if Nat.eqb (asrc ar) q && lbl_eqb (albl ar) a
                            then awt ar * pw m (adst ar) xs else 0).
Proof. reflexivity. Qed.

(* ---------- removing inaccessible states ---------- *)

Theorem trim_accessible_pw : forall (m : wfsa S) (K : list nat), closed_succ m K ->
  forall xs q, inb q K = true -> pw (wtrim K m) q xs = pw m q xs.
Proof.
  intros m K Hc. induction xs as [|a xs IH]; intros q Hq.
  - rewrite !pw_nil, wfinal_wtrim. apply wget_filter; exact Hq.
  - rewrite !pw_cons, warcs_wtrim, bsum_filter. apply bsum_ext. intros ar Har.
    destruct (Nat.eqb (asrc ar) q) eqn:E.
    + apply Nat.eqb_eq in E.
      assert (Hs : inb (asrc ar) K = true) by (rewrite E; exact Hq).
      assert (Hd : inb (adst ar) K = true) by (apply Hc; assumption).
      rewrite Hs, Hd. cbn [andb]. rewrite (IH (adst ar) Hd). reflexivity.
    + cbn [andb]. destruct (inb (asrc ar) K && inb (adst ar) K); reflexivity.
Qed.

Theorem trim_accessible_weight : forall (m : wfsa S) (K : list nat), closed_succ m K ->
  (forall e, In e (winit m) -> inb (fst e) K = true) ->
  forall xs, weight (wtrim K m) xs = weight m xs.
Proof.
  intros m K Hc Hi xs. rewrite !forward_pathsum. unfold pathsum.
  rewrite winit_wtrim, bsum_filter. apply bsum_ext. intros e He.
  rewrite (Hi e He). rewrite (trim_accessible_pw m K Hc xs (fst e) (Hi e He)). reflexivity.
Qed.

(* ---------- removing dead states ---------- *)

Theorem trim_dead_pw : forall (m : wfsa S) (K : list nat), (forall q, inb q K = false -> dead m q) ->
  forall xs q, inb q K = true -> pw (wtrim K m) q xs = pw m q xs.
Proof.
  intros m K Hdead. induction xs as [|a xs IH]; intros q Hq.
  - rewrite !pw_nil, wfinal_wtrim. apply wget_filter; exact Hq.
  - rewrite !pw_cons, warcs_wtrim, bsum_filter. apply bsum_ext. intros ar Har.
    destruct (Nat.eqb (asrc ar) q) eqn:E.
    + apply Nat.eqb_eq in E.
      assert (Hs : inb (asrc ar) K = true) by (rewrite E; exact Hq).
      rewrite Hs. cbn [andb].
      destruct (inb (adst ar) K) eqn:Hd.
      * rewrite (IH (adst ar) Hd). reflexivity.
      * rewrite (Hdead (adst ar) Hd xs).
        destruct (lbl_eqb (albl ar) a); ring.
    + cbn [andb]. destruct (inb (asrc ar) K && inb (adst ar) K); reflexivity.
Qed.

Theorem trim_dead_weight : forall (m : wfsa S) (K : list nat), (forall q, inb q K = false -> dead m q) ->
  forall xs, weight (wtrim K m) xs = weight m xs.
Proof.
  intros m K Hdead xs. rewrite !forward_pathsum. unfold pathsum.
  rewrite winit_wtrim, bsum_filter. apply bsum_ext. intros e He.
  destruct (inb (fst e) K) eqn:Hk.
  - rewrite (trim_dead_pw m K Hdead xs (fst e) Hk). reflexivity.
  - rewrite (Hdead (fst e) Hk xs). ring.
Qed.

(* ---------- WFSA.trim: accessible, then co-accessible ---------- *)

Theorem trim_both_weight : forall (m : wfsa S) (K1 K2 : list nat), closed_succ m K1 ->
  (forall e, In e (winit m) -> inb (fst e) K1 = true) ->
  (forall q, inb q K2 = false -> dead (wtrim K1 m) q) ->
  forall xs, weight (wtrim K2 (wtrim K1 m)) xs = weight m xs.
Proof.
  intros m K1 K2 Hc Hi Hdead xs.
  rewrite (trim_dead_weight (wtrim K1 m) K2 Hdead xs).
  apply trim_accessible_weight; assumption.
Qed.

End TrimWProofs.

Print Assumptions trim_accessible_weight.
Print Assumptions trim_dead_weight.
Print Assumptions trim_both_weight.
