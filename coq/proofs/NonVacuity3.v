(* Non-vacuity, part 3: examples for the property theorems C10_diag, C10_projections, C12_star, C17_cfg_to_bytes
   and C13_trim_search.  Same style as NonVacuity.v / NonVacuity2.v: every hypothesis is stated literally for a
   concrete, non-trivial instance over a concrete semiring and proved; the theorem is then applied and a computed
   value is given.  No axioms. *)
From Coq Require Import List Arith Bool NArith ZArith QArith Qcanon Lia Permutation Relations.
From GV.lib Require Import Semiring BigSum.
From GV.model Require Import Cfg Fst Wfsa WfsaEps Bytes.
From GV.model Require TrimSearch.
From GV.model Require Import TrimW.
From GV.proofs Require Import TrimWProofs.
From GV.gen Require Gen_CfgBytes.
From GV.proofs Require FstOpsProofs StarStringProofs CfgBytesProofs TrimSearchProofs ProductProofs RationalOps.
From GV.proofs Require Import NonVacuity.
From GV.props Require C10 C12 C13 C17.
Import ListNotations.
Local Open Scope nat_scope.

(* ================================================================================================
   C10 (diagonal, projections)
   ================================================================================================ *)

(* ex_A (proofs/FstOpsProofs.v): one state 0, initial and final with weight 1, a loop 0 -0-> 0 of weight 2 *)
Example C10_diag_nonvacuous :
  FstOpsProofs.ex_A = @mkW NSR [(0, 1%N)] [(0, 1%N)] [(0, Some 0, 0, 2%N)] /\
  Wfsa.eps_free FstOpsProofs.ex_A /\
  length [0; 0] <= 3 /\
  trel (FstOpsProofs.diag FstOpsProofs.ex_A) 3 [0; 0] [0; 0]
    = (if Cfg.list_eqb Nat.eqb [0; 0] [0; 0] then Wfsa.pathsum FstOpsProofs.ex_A [0; 0] else s0) /\
  trel (FstOpsProofs.diag FstOpsProofs.ex_A) 3 [0; 0] [0]
    = (if Cfg.list_eqb Nat.eqb [0; 0] [0] then Wfsa.pathsum FstOpsProofs.ex_A [0; 0] else s0) /\
  trel (FstOpsProofs.diag FstOpsProofs.ex_A) 3 [0; 0] [0; 0] = 4%N /\
  Wfsa.pathsum FstOpsProofs.ex_A [0; 0] = 4%N /\
  trel (FstOpsProofs.diag FstOpsProofs.ex_A) 3 [0; 0] [0] = 0%N.
Proof.
  assert (H1 : Wfsa.eps_free FstOpsProofs.ex_A).
  { intros ar [H|[]]; subst ar; cbn; discriminate. }
  assert (H2 : length [0; 0] <= 3) by (cbn; lia).
  split; [reflexivity|]. split; [exact H1|]. split; [exact H2|].
  split; [exact (C10.C10_diag NSR FstOpsProofs.ex_A H1 3 [0; 0] [0; 0] H2)|].
  split; [exact (C10.C10_diag NSR FstOpsProofs.ex_A H1 3 [0; 0] [0] H2)|].
  repeat split; vm_compute; reflexivity.
Qed.

(* ex_m (proofs/FstOpsProofs.v): 0 -0:2-> 1 (weight 2), 1 -1:eps-> 2 (weight 3); initial 0, final 2.
   Every arc reads a symbol; the written symbols (only 2) are in V = [0; 1; 2]. *)
Example C10_projections_nonvacuous :
  FstOpsProofs.ex_m = @mkT NSR [(0, 1%N)] [(2, 1%N)] [(0, Some 0, Some 2, 1, 2%N); (1, Some 1, None, 2, 3%N)] /\
  NoDup [0; 1; 2] /\
  (forall ar, In ar (tarcs FstOpsProofs.ex_m) -> exists x, tin ar = Some x) /\
  (forall ar y, In ar (tarcs FstOpsProofs.ex_m) -> tout ar = Some y -> In y [0; 1; 2]) /\
  Wfsa.pathsum (FstOpsProofs.project_in FstOpsProofs.ex_m) [0; 1]
    = bsum (ProductProofs.words_le [0; 1; 2] (length [0; 1])) (fun ys => trel FstOpsProofs.ex_m (length [0; 1]) [0; 1] ys) /\
  Wfsa.pathsum (FstOpsProofs.project_in FstOpsProofs.ex_m) [0; 1] = 6%N /\
  bsum (ProductProofs.words_le [0; 1; 2] 2) (fun ys => trel FstOpsProofs.ex_m 2 [0; 1] ys) = 6%N /\
  trel FstOpsProofs.ex_m 2 [0; 1] [2] = 6%N.
Proof.
  assert (HV : NoDup [0; 1; 2]).
  { repeat constructor; cbn; intuition discriminate. }
  assert (H1 : forall ar, In ar (tarcs FstOpsProofs.ex_m) -> exists x, tin ar = Some x).
  { intros ar [H|[H|[]]]; subst ar; cbn; eexists; reflexivity. }
  assert (H2 : forall ar y, In ar (tarcs FstOpsProofs.ex_m) -> tout ar = Some y -> In y [0; 1; 2]).
  { intros ar y [H|[H|[]]] E; subst ar; cbn in E; [injection E as <-; cbn; tauto|discriminate E]. }
  split; [reflexivity|]. split; [exact HV|]. split; [exact H1|]. split; [exact H2|].
  split; [exact (proj1 (C10.C10_projections NSR [0; 1; 2] FstOpsProofs.ex_m HV) H1 H2 [0; 1])|].
  repeat split; vm_compute; reflexivity.
Qed.

(* ================================================================================================
   C12 (Kleene star)
   ================================================================================================ *)

(* ex_acc (proofs/StarStringProofs.v): 0 -7-> 1 of weight 2, initial 0, final 1; the string 7 7 is two iterations *)
Example C12_star_nonvacuous :
  StarStringProofs.ex_acc = @mkW NSR [(0, 1%N)] [(1, 1%N)] [(0, Some 7, 1, 2%N)] /\
  (forall ar, In ar (warcs StarStringProofs.ex_acc) -> albl ar <> None) /\
  (forall i f, In i (winit StarStringProofs.ex_acc) -> In f (wfinal StarStringProofs.ex_acc) -> fst i <> fst f) /\
  2 * length [7; 7] < 9 /\
  pathsum_e (wstar StarStringProofs.ex_acc) 9 [7; 7]
    = sadd (match [7; 7] with [] => s1 | _ => s0 end) (RationalOps.kplus StarStringProofs.ex_acc (length [7; 7]) [7; 7]) /\
  pathsum_e (wstar StarStringProofs.ex_acc) 9 [7; 7] = 4%N /\
  RationalOps.kplus StarStringProofs.ex_acc 2 [7; 7] = 4%N /\
  Wfsa.pathsum StarStringProofs.ex_acc [7; 7] = 0%N.
Proof.
  assert (H1 : forall ar, In ar (warcs StarStringProofs.ex_acc) -> albl ar <> None).
  { intros ar [H|[]]; subst ar; cbn; discriminate. }
  assert (H2 : forall i f, In i (winit StarStringProofs.ex_acc) -> In f (wfinal StarStringProofs.ex_acc) -> fst i <> fst f).
  { intros i f [Hi|[]] [Hf|[]]; subst i f; cbn; discriminate. }
  assert (H3 : 2 * length [7; 7] < 9) by (cbn; lia).
  split; [reflexivity|]. split; [exact H1|]. split; [exact H2|]. split; [exact H3|].
  split; [exact (C12.C12_star NSR StarStringProofs.ex_acc [7; 7] H1 H2 9 H3)|].
  repeat split; vm_compute; reflexivity.
Qed.

(* ================================================================================================
   C17 (byte-level grammar)
   ================================================================================================ *)

(* ex_enc, ex_G (proofs/CfgBytesProofs.v): symbol 0 is the byte 10, symbol 1 the two bytes 11 12;
   0 -> T1 N1 (2);  1 -> T0 (3) | eps (5).  The bytes 11 12 10 decode to 1 0 only; the byte 11 alone is truncated. *)
Example C17_cfg_to_bytes_nonvacuous :
  CfgBytesProofs.ex_G = [ (2%N, 0, [T 1; N 1]); (3%N, 1, [T 0]); (5%N, 1, []) ] /\
  CfgBytesProofs.ex_enc 0 = [10] /\ CfgBytesProofs.ex_enc 1 = [11; 12] /\
  NoDup [0; 1] /\
  (forall a, In a [0; 1] -> CfgBytesProofs.ex_enc a <> []) /\
  (forall (r : rule NSR) a, In r CfgBytesProofs.ex_G -> In (T a) (rbody r) -> In a [0; 1]) /\
  length [11; 12; 10] <= 3 /\ length [11] <= 3 /\
  W (Gen_CfgBytes.gen_cfg_to_bytes NSR CfgBytesProofs.ex_enc CfgBytesProofs.ex_G) 3 0 [11; 12; 10]
    = bsum (decodings CfgBytesProofs.ex_enc [0; 1] 3 [11; 12; 10]) (fun xs => W CfgBytesProofs.ex_G 3 0 xs) /\
  decodings CfgBytesProofs.ex_enc [0; 1] 3 [11; 12; 10] = [[1; 0]] /\
  W (Gen_CfgBytes.gen_cfg_to_bytes NSR CfgBytesProofs.ex_enc CfgBytesProofs.ex_G) 3 0 [11; 12; 10] = 6%N /\
  W CfgBytesProofs.ex_G 3 0 [1; 0] = 6%N /\
  decodings CfgBytesProofs.ex_enc [0; 1] 3 [11] = [] /\
  W (Gen_CfgBytes.gen_cfg_to_bytes NSR CfgBytesProofs.ex_enc CfgBytesProofs.ex_G) 3 0 [11] = s0 /\
  W (Gen_CfgBytes.gen_cfg_to_bytes NSR CfgBytesProofs.ex_enc CfgBytesProofs.ex_G) 3 0 [11] = 0%N.
Proof.
  assert (HV : NoDup [0; 1]).
  { repeat constructor; cbn; intuition discriminate. }
  assert (He : forall a, In a [0; 1] -> CfgBytesProofs.ex_enc a <> []).
  { intros a [H|[H|[]]]; subst a; cbn; discriminate. }
  assert (HG : forall (r : rule NSR) a, In r CfgBytesProofs.ex_G -> In (T a) (rbody r) -> In a [0; 1]).
  { intros r a [H|[H|[H|[]]]] Ha; subst r; cbn in Ha.
    - destruct Ha as [E|[E|[]]]; [injection E as <-; cbn; tauto|discriminate E].
    - destruct Ha as [E|[]]. injection E as <-. cbn; tauto.
    - destruct Ha. }
  assert (Hf : length [11; 12; 10] <= 3) by (cbn; lia).
  assert (Hf' : length [11] <= 3) by (cbn; lia).
  assert (Hd : decodings CfgBytesProofs.ex_enc [0; 1] 3 [11] = []) by (vm_compute; reflexivity).
  destruct (C17.C17_cfg_to_bytes NSR CfgBytesProofs.ex_enc [0; 1] HV He CfgBytesProofs.ex_G HG 3 0 [11; 12; 10] 3 Hf) as [P1 _].
  destruct (C17.C17_cfg_to_bytes NSR CfgBytesProofs.ex_enc [0; 1] HV He CfgBytesProofs.ex_G HG 3 0 [11] 3 Hf') as [_ P2].
  split; [reflexivity|]. split; [reflexivity|]. split; [reflexivity|].
  split; [exact HV|]. split; [exact He|]. split; [exact HG|]. split; [exact Hf|]. split; [exact Hf'|].
  split; [exact P1|]. split; [vm_compute; reflexivity|]. split; [vm_compute; reflexivity|].
  split; [vm_compute; reflexivity|]. split; [exact Hd|]. split; [exact (P2 Hd)|].
  vm_compute; reflexivity.
Qed.

(* ================================================================================================
   C13 (trim as the code computes it)
   ================================================================================================ *)

(* ts_ex (proofs/TrimSearchProofs.v): init 0, final 2;  0 -5-> 1 (2), 1 -6-> 2 (3), 1 -7-> 3 (1) [3 is a dead end],
   4 -5-> 2 (1) [4 is unreachable].  The theorem has no hypotheses. *)
Example C13_trim_search_weight_nonvacuous :
  weight (TrimSearch.trim_model TrimSearchProofs.ts_ex) [5; 6] = weight TrimSearchProofs.ts_ex [5; 6] /\
  weight (TrimSearch.trim_model TrimSearchProofs.ts_ex) [5; 6] = 6%N /\
  weight TrimSearchProofs.ts_ex [5; 6] = 6%N /\
  (In 3 (TrimSearch.accessible TrimSearchProofs.ts_ex) <->
     exists e, In e (winit TrimSearchProofs.ts_ex) /\ TrimSearchProofs.path_to TrimSearchProofs.ts_ex (fst e) 3) /\
  In 3 (TrimSearch.accessible TrimSearchProofs.ts_ex) /\
  inb 3 (TrimSearch.coaccessible TrimSearchProofs.ts_ex) = false /\
  dead NSR TrimSearchProofs.ts_ex 3 /\
  TrimSearch.active TrimSearchProofs.ts_ex = [2; 1; 0] /\
  length (warcs TrimSearchProofs.ts_ex) = 4 /\ length (warcs (TrimSearch.trim_model TrimSearchProofs.ts_ex)) = 2.
Proof.
  destruct (C13.C13_trim_search NSR TrimSearchProofs.ts_ex) as [P1 [P2 [_ [_ P5]]]].
  assert (Hc : inb 3 (TrimSearch.coaccessible TrimSearchProofs.ts_ex) = false) by (vm_compute; reflexivity).
  split; [exact (P1 [5; 6])|]. split; [vm_compute; reflexivity|]. split; [vm_compute; reflexivity|].
  split; [exact (P2 3)|]. split; [vm_compute; tauto|]. split; [exact Hc|]. split; [exact (P5 3 Hc)|].
  repeat split; vm_compute; reflexivity.
Qed.

Print Assumptions C10_diag_nonvacuous.
Print Assumptions C10_projections_nonvacuous.
Print Assumptions C12_star_nonvacuous.
Print Assumptions C17_cfg_to_bytes_nonvacuous.
Print Assumptions C13_trim_search_weight_nonvacuous.
