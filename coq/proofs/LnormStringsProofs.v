(* Local normalisation (cfglm.locally_normalize) at the level of STRINGS: with the
   regenerated expression Gen_Exprs.norm_factor plugged in, the derivation sum of every
   string xs from every nonterminal X in the normalised grammar is the original one
   divided by Z X, at every height; and so is the Kleene iterate (the total weight).
   Over any field.  No axioms. *)
From Coq Require Import List Arith Bool Lia Field Ring ZArith QArith Qcanon.
From GV.lib Require Import Semiring BigSum.
From GV.model Require Import Cfg Agenda Norm.
From GV.gen Require Import Gen_Exprs.
From GV.proofs Require Import NormProofs.
Import ListNotations.
Local Open Scope nat_scope.
Local Open Scope sr_scope.

Section LnormStrings.
Variable F : FR.
Add Field LSField : (fth F).

Lemma ls_prodZ_nil (Z : sym -> F) : prodZ Z [] = 1. Proof. reflexivity. Qed.
Lemma ls_prodZ_cons (Z : sym -> F) s body : prodZ Z (s :: body) = Z s * prodZ Z body.
Proof. reflexivity. Qed.

Lemma ls_W_succ (G : grammar F) (h X : nat) (ys : list nat) :
  W G (Datatypes.S h) X ys =
  bsum G (fun r => if Nat.eqb (rhead r) X then rw r * Wb (W G h) (rbody r) ys else 0).
Proof. reflexivity. Qed.

Lemma ls_bu_succ (G : grammar F) (h X : nat) :
  bu_iter G (Datatypes.S h) X =
  bsum G (fun r => if Nat.eqb (rhead r) X
                   then rw r * sprod (map (sval (bu_iter G h)) (rbody r)) else 0).
Proof. reflexivity. Qed.

Lemma ls_seqb_false_neq (a b : F) : seqb a b = false -> a <> b.
Proof.
  intros E H. assert (E' : seqb a b = true) by (apply seqb_spec; exact H).
  rewrite E' in E. discriminate.
Qed.

(* ---- the body lemma for strings ---- *)
Lemma Wb_prodZ (Z : sym -> F) (f' f : nat -> list nat -> F) :
  (forall a, Z (T a) = 1) ->
  (forall Y u, f' Y u * Z (N Y) = f Y u) ->
  forall body xs, Wb f' body xs * prodZ Z body = Wb f body xs.
Proof.
  intros HT Hf. induction body as [|s rest IH]; intros xs.
  - cbn [Wb]. rewrite ls_prodZ_nil. ring.
  - destruct s as [a|Y].
    + cbn [Wb]. rewrite ls_prodZ_cons, HT.
      destruct xs as [|b xs']; [ring|].
      destruct (Nat.eqb a b); [rewrite <- IH; ring|ring].
    + cbn [Wb]. rewrite ls_prodZ_cons, <- bsum_mul_r.
      apply bsum_ext. intros p _.
      rewrite <- (IH (snd p)), <- (Hf Y (fst p)). ring.
Qed.

(* ---- the body lemma for total weights ---- *)
Lemma sprod_prodZ (Z : sym -> F) (V' V : nat -> F) :
  (forall a, Z (T a) = 1) ->
  (forall Y, V' Y * Z (N Y) = V Y) ->
  forall body, sprod (map (sval V') body) * prodZ Z body = sprod (map (sval V) body).
Proof.
  intros HT HV. induction body as [|s rest IH].
  - cbn [map sprod]. rewrite ls_prodZ_nil. ring.
  - cbn [map sprod]. rewrite ls_prodZ_cons, <- IH.
    destruct s as [a|Y]; cbn [sval].
    + rewrite HT. ring.
    + rewrite <- (HV Y). ring.
Qed.

(* one step: a sum over the rules of the normalised grammar, times Z X, against the same
   sum over the original rules; [b'] and [b] are the body values *)
Lemma lnorm_step (Z : sym -> F) (G : grammar F) (X : nat) (b' b : list sym -> F) :
  Z (N X) <> 0 ->
  (forall body, b' body * prodZ Z body = b body) ->
  bsum (lnorm (norm_factor F) Z G)
       (fun r => if Nat.eqb (rhead r) X then rw r * b' (rbody r) else 0) * Z (N X)
  = bsum G (fun r => if Nat.eqb (rhead r) X then rw r * b (rbody r) else 0).
Proof.
  intros HX Hb. unfold lnorm. rewrite bsum_flat_map, <- bsum_mul_r.
  apply bsum_ext. intros r _.
  destruct (Nat.eqb (rhead r) X) eqn:E2.
  - apply Nat.eqb_eq in E2. rewrite E2.
    rewrite (seqb_false_neq F _ _ HX).
    rewrite bsum_cons, bsum_nil.
    change (rhead (norm_factor F (rw r) (prodZ Z (rbody r)) (Z (N X)), X, rbody r)) with X.
    rewrite Nat.eqb_refl.
    change (rw (norm_factor F (rw r) (prodZ Z (rbody r)) (Z (N X)), X, rbody r))
      with (norm_factor F (rw r) (prodZ Z (rbody r)) (Z (N X))).
    change (rbody (norm_factor F (rw r) (prodZ Z (rbody r)) (Z (N X)), X, rbody r))
      with (rbody r).
    rewrite <- (Hb (rbody r)). unfold norm_factor. field. exact HX.
  - destruct (seqb (Z (N (rhead r))) 0).
    + rewrite bsum_nil. ring.
    + rewrite bsum_cons, bsum_nil.
      change (rhead (norm_factor F (rw r) (prodZ Z (rbody r)) (Z (N (rhead r))), rhead r, rbody r))
        with (rhead r).
      rewrite E2. ring.
Qed.

(* ---- strings ---- *)
Theorem lnorm_W_proportional_F : forall (Z : sym -> F) (G : grammar F),
  (forall a, Z (T a) = 1) ->
  (forall Y, Z (N Y) = 0 -> forall h u, W G h Y u = 0) ->
  forall h X xs, W (lnorm (norm_factor F) Z G) h X xs * Z (N X) = W G h X xs.
Proof.
  intros Z G HT Hzero. induction h as [|h IH]; intros X xs.
  - cbn [W]. ring.
  - destruct (seqb (Z (N X)) 0) eqn:E.
    + apply seqb_spec in E. rewrite (Hzero X E), E. ring.
    + apply ls_seqb_false_neq in E.
      rewrite !ls_W_succ.
      apply (lnorm_step Z G X
               (fun body => Wb (W (lnorm (norm_factor F) Z G) h) body xs)
               (fun body => Wb (W G h) body xs) E).
      intros body. apply Wb_prodZ; [exact HT|exact IH].
Qed.

Corollary lnorm_W_divided_F : forall (Z : sym -> F) (G : grammar F),
  (forall a, Z (T a) = 1) ->
  (forall Y, Z (N Y) = 0 -> forall h u, W G h Y u = 0) ->
  forall h X xs, Z (N X) <> 0 ->
  W (lnorm (norm_factor F) Z G) h X xs = fdiv F (W G h X xs) (Z (N X)).
Proof.
  intros Z G HT Hzero h X xs HX.
  rewrite <- (lnorm_W_proportional_F Z G HT Hzero h X xs). field. exact HX.
Qed.

(* ---- total weights ---- *)
Theorem lnorm_total_proportional_F : forall (Z : sym -> F) (G : grammar F),
  (forall a, Z (T a) = 1) ->
  (forall Y, Z (N Y) = 0 -> forall h, bu_iter G h Y = 0) ->
  forall h X, bu_iter (lnorm (norm_factor F) Z G) h X * Z (N X) = bu_iter G h X.
Proof.
  intros Z G HT Hzero. induction h as [|h IH]; intros X.
  - cbn [bu_iter]. ring.
  - destruct (seqb (Z (N X)) 0) eqn:E.
    + apply seqb_spec in E. rewrite (Hzero X E), E. ring.
    + apply ls_seqb_false_neq in E.
      rewrite !ls_bu_succ.
      apply (lnorm_step Z G X
               (fun body => sprod (map (sval (bu_iter (lnorm (norm_factor F) Z G) h)) body))
               (fun body => sprod (map (sval (bu_iter G h)) body)) E).
      intros body. apply sprod_prodZ; [exact HT|exact IH].
Qed.

Corollary lnorm_total_divided_F : forall (Z : sym -> F) (G : grammar F),
  (forall a, Z (T a) = 1) ->
  (forall Y, Z (N Y) = 0 -> forall h, bu_iter G h Y = 0) ->
  forall h X, Z (N X) <> 0 ->
  bu_iter (lnorm (norm_factor F) Z G) h X = fdiv F (bu_iter G h X) (Z (N X)).
Proof.
  intros Z G HT Hzero h X HX.
  rewrite <- (lnorm_total_proportional_F Z G HT Hzero h X). field. exact HX.
Qed.

End LnormStrings.

(* ---- the statements, closed ---- *)
Theorem lnorm_W_proportional : forall (F : FR) (Z : sym -> F) (G : grammar F),
  (forall a, Z (T a) = s1) ->
  (forall Y, Z (N Y) = s0 -> forall h u, W G h Y u = s0) ->
  forall h X xs, smul (W (lnorm (norm_factor F) Z G) h X xs) (Z (N X)) = W G h X xs.
Proof. exact lnorm_W_proportional_F. Qed.

Corollary lnorm_W_divided : forall (F : FR) (Z : sym -> F) (G : grammar F),
  (forall a, Z (T a) = s1) ->
  (forall Y, Z (N Y) = s0 -> forall h u, W G h Y u = s0) ->
  forall h X xs, Z (N X) <> s0 ->
  W (lnorm (norm_factor F) Z G) h X xs = fdiv F (W G h X xs) (Z (N X)).
Proof. exact lnorm_W_divided_F. Qed.

Theorem lnorm_total_proportional : forall (F : FR) (Z : sym -> F) (G : grammar F),
  (forall a, Z (T a) = s1) ->
  (forall Y, Z (N Y) = s0 -> forall h, bu_iter G h Y = s0) ->
  forall h X, smul (bu_iter (lnorm (norm_factor F) Z G) h X) (Z (N X)) = bu_iter G h X.
Proof. exact lnorm_total_proportional_F. Qed.

Corollary lnorm_total_divided : forall (F : FR) (Z : sym -> F) (G : grammar F),
  (forall a, Z (T a) = s1) ->
  (forall Y, Z (N Y) = s0 -> forall h, bu_iter G h Y = s0) ->
  forall h X, Z (N X) <> s0 ->
  bu_iter (lnorm (norm_factor F) Z G) h X = fdiv F (bu_iter G h X) (Z (N X)).
Proof. exact lnorm_total_divided_F. Qed.

Print Assumptions lnorm_W_proportional.
Print Assumptions lnorm_W_divided.
Print Assumptions lnorm_total_proportional.
Print Assumptions lnorm_total_divided.

(* ---------- a computed instance over the rationals ---------- *)
Local Close Scope sr_scope.

Definition ls_G : grammar QcFR :=
  [ (mkq 1 2, 0, [T 1; N 1]); (mkq 1 3, 1, [T 0]); (mkq 1 5, 1, []) ].

(* the true total weights: Z 1 = 1/3 + 1/5 = 8/15, Z 0 = 1/2 * 8/15 = 4/15 *)
Definition ls_Z (s : sym) : QcFR :=
  match s with
  | T _ => mkq 1 1
  | N 0 => mkq 4 15
  | N 1 => mkq 8 15
  | N _ => mkq 1 1
  end.

Ltac ls_qc := apply Qc_is_canon; vm_compute; reflexivity.

Example lnorm_strings_instance :
  W (lnorm (norm_factor QcFR) ls_Z ls_G) 3 0 [1; 0] = mkq 5 8 /\
  W ls_G 3 0 [1; 0] = mkq 1 6 /\
  fdiv QcFR (mkq 1 6) (mkq 4 15) = mkq 5 8 /\
  bu_iter ls_G 3 0 = mkq 4 15 /\
  bu_iter ls_G 3 1 = mkq 8 15 /\
  bu_iter (lnorm (norm_factor QcFR) ls_Z ls_G) 3 0 = mkq 1 1 /\
  bu_iter (lnorm (norm_factor QcFR) ls_Z ls_G) 3 1 = mkq 1 1.
Proof. repeat split; ls_qc. Qed.

(* the same instance through the general theorems: both zero-hypotheses hold vacuously,
   as ls_Z vanishes nowhere *)
Lemma ls_Z_nonzero : forall Y, ls_Z (N Y) <> (@s0 QcFR).
Proof.
  intros Y H. apply (f_equal (fun q : Qc => Qnum (this q))) in H.
  destruct Y as [|[|Y]]; vm_compute in H; discriminate.
Qed.

Example lnorm_strings_instance_thm :
  W (lnorm (norm_factor QcFR) ls_Z ls_G) 3 0 [1; 0] = fdiv QcFR (W ls_G 3 0 [1; 0]) (ls_Z (N 0)) /\
  smul (bu_iter (lnorm (norm_factor QcFR) ls_Z ls_G) 3 0) (ls_Z (N 0)) = bu_iter ls_G 3 0.
Proof.
  split.
  - apply (lnorm_W_divided QcFR ls_Z ls_G).
    + intros a. reflexivity.
    + intros Y HY. exfalso. exact (ls_Z_nonzero Y HY).
    + apply ls_Z_nonzero.
  - apply (lnorm_total_proportional QcFR ls_Z ls_G).
    + intros a. reflexivity.
    + intros Y HY. exfalso. exact (ls_Z_nonzero Y HY).
Qed.
