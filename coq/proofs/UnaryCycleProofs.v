(* Equation-system semantics of CFG.unarycycleremove.
   Model: every nonterminal X lying on a unary cycle gets a fresh copy bot X; X keeps only the
   rules X -> bot X2 (weight K X X2, K the closure table of the unary weights restricted to the
   SCC of X) and bot X receives the rules of X except the intra-SCC unary ones; the other
   nonterminals keep their rules.
     ucr_no_intra_cycle_rules   a cyclic nonterminal only has rules into bot copies;
     ucr_step_acyclic / ucr_step_cyclic / ucr_step_bot   one step of the transformed grammar;
     gstep_intra_split          one step of G = intra-SCC unary part + the rest;
     ucr_restrict               every solution of the transformed grammar solves G on nts.
   No axioms. *)
From Coq Require Import List Arith Bool Lia ZArith Qcanon.
From GV.lib Require Import Semiring BigSum.
From GV.model Require Import Cfg Transform Cky Transform2.
From GV.proofs Require Import UnfoldProofs CkyProofs ShapeProofs FoldProofs NullUnaryProofs.
Import ListNotations.
Local Open Scope sr_scope.

Section UnaryCycle.
Variable S : SR.
Add Ring UnaryCycleRing : (sth S).

Variable scc : nat -> nat.                (* bucket (SCC index in the unary graph) of a nonterminal *)
Variable cyc : nat -> bool.               (* does the nonterminal lie on a unary cycle? *)
Variable bot : nat -> nat.                (* fresh name for the copy of a cyclic nonterminal *)

Definition botn (X : nat) : nat := if cyc X then bot X else X.

(* intra-SCC unary rule: X -> Y with scc Y = scc X *)
Definition intra (r : rule S) : bool :=
  match rbody r with [N Y] => Nat.eqb (scc Y) (scc (rhead r)) | _ => false end.

Definition ucr (K : nat -> nat -> S) (nts : list nat) (G : grammar S) : grammar S :=
  flat_map (fun X1 => if cyc X1
                      then flat_map (fun X2 => if cyc X2 && Nat.eqb (scc X2) (scc X1)
                                               then [(K X1 X2, X1, [N (bot X2)])] else []) nts
                      else []) nts
  ++ flat_map (fun r => if intra r then [] else [(rw r, botn (rhead r), rbody r)]) G.

(* intra-SCC unary weight matrix *)
Definition Uin (G : grammar S) (X Y : nat) : S :=
  bsum G (fun r => if Nat.eqb (rhead r) X && intra r
                      && (match rbody r with [N Z] => Nat.eqb Z Y | _ => false end)
                   then rw r else 0).

(* X2 is a cyclic nonterminal of the SCC of X *)
Definition same (X X2 : nat) : bool := cyc X2 && Nat.eqb (scc X2) (scc X).

(* the part of one step of G that does not go through an intra-SCC unary rule *)
Definition NCpart (G : grammar S) (f : nat -> list nat -> S) (X : nat) (xs : list nat) : S :=
  bsum G (fun r => if intra r then 0 else term S f X xs r).

Lemma same_refl X : cyc X = true -> same X X = true.
Proof. intros H. unfold same. rewrite H, Nat.eqb_refl. reflexivity. Qed.

Lemma same_true X X2 : same X X2 = true -> cyc X2 = true /\ scc X2 = scc X.
Proof.
  unfold same. intros H. apply andb_true_iff in H. destruct H as [H1 H2].
  apply Nat.eqb_eq in H2. split; assumption.
Qed.

Lemma intra_body (r : rule S) :
  intra r = true -> exists Y, rbody r = [N Y] /\ scc Y = scc (rhead r).
Proof.
  unfold intra. destruct (rbody r) as [|[a|y] [|z t]]; intros H; try discriminate H.
  exists y. split; [reflexivity|apply Nat.eqb_eq; exact H].
Qed.

(* ====================================================================== *)
(* one step of the transformed grammar, for an arbitrary valuation        *)
(* ====================================================================== *)

Lemma gstep_ucr K nts G f Z xs :
  gstep S (ucr K nts G) f Z xs
  = bsum nts (fun X1 => if cyc X1
                        then bsum nts (fun X2 => if same X1 X2
                                                 then (if Nat.eqb X1 Z then K X1 X2 * f (bot X2) xs else 0)
                                                 else 0)
                        else 0)
    + bsum G (fun r => if intra r then 0
                       else if Nat.eqb (botn (rhead r)) Z then rw r * Wb f (rbody r) xs else 0).
Proof.
  unfold ucr. rewrite gstep_app, !gstep_flat_map. f_equal.
  - apply bsum_ext. intros X1 _. destruct (cyc X1); [|reflexivity].
    rewrite gstep_flat_map. apply bsum_ext. intros X2 _. unfold same.
    destruct (cyc X2 && Nat.eqb (scc X2) (scc X1)); [|reflexivity].
    rewrite gstep_cons, gstep_nil, term_mk, Wb_N1. destruct (Nat.eqb X1 Z); ring.
  - apply bsum_ext. intros r _. destruct (intra r); [reflexivity|].
    rewrite gstep_cons, gstep_nil, term_mk. destruct (Nat.eqb (botn (rhead r)) Z); ring.
Qed.

(* structural fact: a cyclic nonterminal only has rules into bot copies *)
Lemma ucr_no_intra_cycle_rules_sec K nts G :
  (forall X, ~ In (bot X) nts) ->
  forall r, In r (ucr K nts G) -> In (rhead r) nts -> cyc (rhead r) = true ->
  exists X2, rbody r = [N (bot X2)].
Proof.
  intros Hfresh r Hr Hin Hc. unfold ucr in Hr. apply in_app_or in Hr. destruct Hr as [Hr|Hr].
  - apply in_flat_map in Hr. destruct Hr as [X1 [_ Hr]].
    destruct (cyc X1); [|contradiction Hr].
    apply in_flat_map in Hr. destruct Hr as [X2 [_ Hr]].
    destruct (cyc X2 && Nat.eqb (scc X2) (scc X1)); [|contradiction Hr].
    destruct Hr as [Hr|[]]. subst r. exists X2. reflexivity.
  - exfalso. apply in_flat_map in Hr. destruct Hr as [r0 [_ Hr]].
    destruct (intra r0); [contradiction Hr|]. destruct Hr as [Hr|[]]. subst r.
    change (rhead (rw r0, botn (rhead r0), rbody r0)) with (botn (rhead r0)) in Hin, Hc.
    unfold botn in Hin, Hc. destruct (cyc (rhead r0)) eqn:E.
    + exact (Hfresh _ Hin).
    + rewrite E in Hc. discriminate Hc.
Qed.

Section Hyps.
Variable K : nat -> nat -> S.
Variable nts : list nat.
Variable G : grammar S.
Hypothesis Hnd : NoDup nts.
Hypothesis Hheads : forall r, In r G -> In (rhead r) nts.
Hypothesis Hbody : forall r Y, In r G -> In (N Y) (rbody r) -> In Y nts.
Hypothesis Hinj : forall X Y, bot X = bot Y -> X = Y.
Hypothesis Hfresh : forall X, ~ In (bot X) nts.
Hypothesis Hintra : forall r, In r G -> intra r = true ->
  cyc (rhead r) = true /\ (forall Y, rbody r = [N Y] -> cyc Y = true).

(* which rules of G feed a given head of the transformed grammar *)
Lemma botn_eqb_acyclic r X :
  In r G -> In X nts -> cyc X = false -> Nat.eqb (botn (rhead r)) X = Nat.eqb (rhead r) X.
Proof.
  intros Hr HX Hc. unfold botn. destruct (cyc (rhead r)) eqn:E; [|reflexivity].
  destruct (Nat.eqb_spec (rhead r) X) as [E1|E1].
  - rewrite E1, Hc in E. discriminate E.
  - apply Nat.eqb_neq. intros E2. apply (Hfresh (rhead r)). rewrite E2. exact HX.
Qed.

Lemma botn_eqb_cyclic r X :
  In r G -> In X nts -> cyc X = true -> Nat.eqb (botn (rhead r)) X = false.
Proof.
  intros Hr HX Hc. apply Nat.eqb_neq. unfold botn. destruct (cyc (rhead r)) eqn:E.
  - intros E2. apply (Hfresh (rhead r)). rewrite E2. exact HX.
  - intros E2. rewrite E2, Hc in E. discriminate E.
Qed.

Lemma botn_eqb_bot r X :
  In r G -> cyc X = true -> Nat.eqb (botn (rhead r)) (bot X) = Nat.eqb (rhead r) X.
Proof.
  intros Hr Hc. unfold botn. destruct (cyc (rhead r)) eqn:E.
  - destruct (Nat.eqb_spec (rhead r) X) as [E1|E1].
    + rewrite E1. apply Nat.eqb_refl.
    + apply Nat.eqb_neq. intros E2. apply E1. apply Hinj. exact E2.
  - destruct (Nat.eqb_spec (rhead r) X) as [E1|E1].
    + rewrite E1, Hc in E. discriminate E.
    + apply Nat.eqb_neq. intros E2. apply (Hfresh X). rewrite <- E2. apply Hheads. exact Hr.
Qed.

(* (a) an acyclic nonterminal keeps exactly its rules (none of them is intra-SCC) *)
Lemma ucr_step_acyclic_sec f X xs :
  In X nts -> cyc X = false -> gstep S (ucr K nts G) f X xs = NCpart G f X xs.
Proof.
  intros HX Hc. rewrite gstep_ucr.
  rewrite (bsum_zero S nts).
  - unfold NCpart. transitivity (bsum G (fun r => if intra r then 0 else term S f X xs r)).
    2: reflexivity.
    transitivity (bsum G (fun r => if intra r then 0
                          else if Nat.eqb (botn (rhead r)) X then rw r * Wb f (rbody r) xs else 0)).
    { ring. }
    apply bsum_ext. intros r Hr. destruct (intra r); [reflexivity|].
    unfold term. rewrite (botn_eqb_acyclic r X Hr HX Hc). reflexivity.
  - intros X1 _. destruct (cyc X1) eqn:E; [|reflexivity].
    apply bsum_zero. intros X2 _. destruct (same X1 X2); [|reflexivity].
    destruct (Nat.eqb_spec X1 X) as [E1|E1]; [|reflexivity].
    rewrite E1, Hc in E. discriminate E.
Qed.

(* (b1) a cyclic nonterminal only keeps the closure rules into the bot copies of its SCC *)
Lemma ucr_step_cyclic_sec f X xs :
  In X nts -> cyc X = true ->
  gstep S (ucr K nts G) f X xs
  = bsum nts (fun X2 => if same X X2 then K X X2 * f (bot X2) xs else 0).
Proof.
  intros HX Hc. rewrite gstep_ucr.
  rewrite (bsum_zero S G).
  - rewrite (bsum_ext S nts _
      (fun X1 => if Nat.eqb X1 X
                 then bsum nts (fun X2 => if same X1 X2 then K X1 X2 * f (bot X2) xs else 0)
                 else 0)).
    + rewrite (bsum_pick S nts X
         (fun X1 => bsum nts (fun X2 => if same X1 X2 then K X1 X2 * f (bot X2) xs else 0)) Hnd HX).
      ring.
    + intros X1 _. destruct (Nat.eqb_spec X1 X) as [E1|E1].
      * subst X1. rewrite Hc. apply bsum_ext. intros X2 _. destruct (same X X2); reflexivity.
      * destruct (cyc X1); [|reflexivity]. apply bsum_zero. intros X2 _.
        destruct (same X1 X2); reflexivity.
  - intros r Hr. destruct (intra r); [reflexivity|].
    rewrite (botn_eqb_cyclic r X Hr HX Hc). reflexivity.
Qed.

(* (b2) the bot copy of a cyclic nonterminal receives its non-intra rules *)
Lemma ucr_step_bot_sec f X xs :
  cyc X = true -> gstep S (ucr K nts G) f (bot X) xs = NCpart G f X xs.
Proof.
  intros Hc. rewrite gstep_ucr.
  rewrite (bsum_zero S nts).
  - transitivity (bsum G (fun r => if intra r then 0
                          else if Nat.eqb (botn (rhead r)) (bot X) then rw r * Wb f (rbody r) xs else 0)).
    { ring. }
    unfold NCpart. apply bsum_ext. intros r Hr. destruct (intra r); [reflexivity|].
    unfold term. rewrite (botn_eqb_bot r X Hr Hc). reflexivity.
  - intros X1 HX1. destruct (cyc X1); [|reflexivity].
    apply bsum_zero. intros X2 _. destruct (same X1 X2); [|reflexivity].
    destruct (Nat.eqb_spec X1 (bot X)) as [E1|E1]; [|reflexivity].
    exfalso. apply (Hfresh X). rewrite <- E1. exact HX1.
Qed.

(* one step of G = intra-SCC unary part + the rest *)
Lemma gstep_intra_split_sec f X xs :
  gstep S G f X xs = bsum nts (fun Y => Uin G X Y * f Y xs) + NCpart G f X xs.
Proof.
  transitivity (bsum G (fun r =>
      bsum nts (fun Y => (if Nat.eqb (rhead r) X && intra r
                             && (match rbody r with [N Z] => Nat.eqb Z Y | _ => false end)
                          then rw r else 0) * f Y xs)
      + (if intra r then 0 else term S f X xs r))).
  - unfold gstep. apply bsum_ext. intros r Hr. destruct (intra r) eqn:Ei.
    + destruct (intra_body r Ei) as [Y0 [Eb _]]. rewrite Eb, Wb_N1.
      destruct (Nat.eqb (rhead r) X); cbn [andb].
      * rewrite (bsum_ext S nts _ (fun Y => if Nat.eqb Y Y0 then rw r * f Y xs else 0)).
        -- rewrite bsum_pick; [ring|exact Hnd|].
           apply (Hbody r Y0 Hr). rewrite Eb. left. reflexivity.
        -- intros Y _. rewrite (Nat.eqb_sym Y0 Y). destruct (Nat.eqb Y Y0); ring.
      * rewrite bsum_zero; [ring|]. intros Y _. ring.
    + rewrite bsum_zero.
      * unfold term. ring.
      * intros Y _. rewrite andb_false_r. cbn [andb]. ring.
  - rewrite bsum_add. f_equal. rewrite bsum_swap. apply bsum_ext. intros Y _. unfold Uin.
    exact (bsum_mul_r S G
             (fun r => if Nat.eqb (rhead r) X && intra r
                          && (match rbody r with [N Z] => Nat.eqb Z Y | _ => false end)
                       then rw r else 0) (f Y xs)).
Qed.

(* Uin only relates cyclic nonterminals of one SCC *)
Lemma Uin_zero X Y : same X Y = false -> Uin G X Y = 0.
Proof.
  intros Hs. unfold Uin. apply bsum_zero. intros r Hr.
  destruct (Nat.eqb_spec (rhead r) X) as [E|E]; [|reflexivity].
  destruct (intra r) eqn:Ei; [|reflexivity]. cbn [andb].
  destruct (intra_body r Ei) as [Y0 [Eb Esc]]. rewrite Eb.
  destruct (Nat.eqb_spec Y0 Y) as [E2|E2]; [|reflexivity].
  exfalso. subst Y0. destruct (Hintra r Hr Ei) as [_ Hc]. specialize (Hc Y Eb).
  unfold same in Hs. rewrite Hc, Esc, E, Nat.eqb_refl in Hs. discriminate Hs.
Qed.

Lemma Uin_acyclic X Y : cyc X = false -> Uin G X Y = 0.
Proof.
  intros Hc. unfold Uin. apply bsum_zero. intros r Hr.
  destruct (Nat.eqb_spec (rhead r) X) as [E|E]; [|reflexivity].
  destruct (intra r) eqn:Ei; [|reflexivity].
  exfalso. destruct (Hintra r Hr Ei) as [Hc' _]. rewrite E, Hc in Hc'. discriminate Hc'.
Qed.

(* ====================================================================== *)
(* solutions restrict                                                     *)
(* ====================================================================== *)

Hypothesis HK : forall X X2, In X nts -> In X2 nts -> cyc X = true -> cyc X2 = true -> scc X2 = scc X ->
  K X X2 = (if Nat.eqb X X2 then 1 else 0)
           + bsum nts (fun Y => if same X Y then Uin G X Y * K Y X2 else 0).

Variable f' : nat -> list nat -> S.
Hypothesis Hsol : solves S (ucr K nts G) f'.

(* the value at an acyclic nonterminal *)
Lemma sol_acyclic X xs : In X nts -> cyc X = false -> f' X xs = NCpart G f' X xs.
Proof. intros HX Hc. rewrite (Hsol X xs). apply ucr_step_acyclic_sec; assumption. Qed.

(* the value at a bot copy *)
Lemma sol_bot X xs : cyc X = true -> f' (bot X) xs = NCpart G f' X xs.
Proof. intros Hc. rewrite (Hsol (bot X) xs). apply ucr_step_bot_sec; assumption. Qed.

(* the value at a cyclic nonterminal *)
Lemma sol_cyclic X xs : In X nts -> cyc X = true ->
  f' X xs = bsum nts (fun X2 => if same X X2 then K X X2 * NCpart G f' X2 xs else 0).
Proof.
  intros HX Hc. rewrite (Hsol X xs), (ucr_step_cyclic_sec f' X xs HX Hc).
  apply bsum_ext. intros X2 _. destruct (same X X2) eqn:Es; [|reflexivity].
  destruct (same_true X X2 Es) as [Hc2 _]. rewrite (sol_bot X2 xs Hc2). reflexivity.
Qed.

Lemma ucr_restrict_sec X xs : In X nts -> f' X xs = gstep S G f' X xs.
Proof.
  intros HX. rewrite gstep_intra_split_sec. destruct (cyc X) eqn:Hc.
  - rewrite (sol_cyclic X xs HX Hc).
    rewrite (bsum_ext S nts (fun X2 => if same X X2 then K X X2 * NCpart G f' X2 xs else 0)
               (fun X2 => (if Nat.eqb X2 X then NCpart G f' X2 xs else 0)
                          + bsum nts (fun Y => if same X Y
                                               then Uin G X Y * (if same X X2 then K Y X2 * NCpart G f' X2 xs else 0)
                                               else 0))).
    + rewrite bsum_add.
      rewrite (bsum_pick S nts X (fun X2 => NCpart G f' X2 xs) Hnd HX).
      rewrite bsum_swap.
      rewrite (bsum_ext S nts
                 (fun Y => bsum nts (fun X2 => if same X Y
                              then Uin G X Y * (if same X X2 then K Y X2 * NCpart G f' X2 xs else 0)
                              else 0))
                 (fun Y => Uin G X Y * f' Y xs)).
      * ring.
      * intros Y HY. destruct (same X Y) eqn:Es.
        -- destruct (same_true X Y Es) as [HcY Esc].
           rewrite bsum_mul_l. f_equal. rewrite (sol_cyclic Y xs HY HcY).
           apply bsum_ext. intros X2 _. unfold same. rewrite Esc. reflexivity.
        -- rewrite bsum_const_zero, (Uin_zero X Y Es). ring.
    + intros X2 HX2. destruct (same X X2) eqn:Es.
      * destruct (same_true X X2 Es) as [Hc2 Esc].
        rewrite (HK X X2 HX HX2 Hc Hc2 Esc), (Nat.eqb_sym X X2).
        transitivity ((if Nat.eqb X2 X then 1 else 0) * NCpart G f' X2 xs
                      + bsum nts (fun Y => if same X Y then Uin G X Y * K Y X2 else 0)
                        * NCpart G f' X2 xs); [ring|].
        f_equal.
        -- destruct (Nat.eqb X2 X); ring.
        -- rewrite <- bsum_mul_r. apply bsum_ext. intros Y _. destruct (same X Y); ring.
      * destruct (Nat.eqb_spec X2 X) as [E|E].
        -- subst X2. rewrite (same_refl X Hc) in Es. discriminate Es.
        -- rewrite bsum_zero; [ring|]. intros Y _. destruct (same X Y); ring.
  - rewrite (sol_acyclic X xs HX Hc). rewrite bsum_zero; [ring|].
    intros Y _. rewrite (Uin_acyclic X Y Hc). ring.
Qed.

End Hyps.
End UnaryCycle.

(* ====================================================================== *)
(* Main statements, with every hypothesis explicit                        *)
(* ====================================================================== *)

(* a cyclic nonterminal of the transformed grammar only has rules into bot copies, and bot
   copies are fresh: no unary cycle goes through it any more *)
Theorem ucr_no_intra_cycle_rules :
  forall (S : SR) (scc : nat -> nat) (cyc : nat -> bool) (bot : nat -> nat)
         (K : nat -> nat -> S) (nts : list nat) (G : grammar S),
    (forall X, ~ In (bot X) nts) ->
    forall r, In r (ucr S scc cyc bot K nts G) -> In (rhead r) nts -> cyc (rhead r) = true ->
    exists X2, rbody r = [N (bot X2)].
Proof. intros S scc cyc bot K nts G Hfresh. apply ucr_no_intra_cycle_rules_sec. exact Hfresh. Qed.

(* (a) one step of G' at an acyclic nonterminal, for every valuation *)
Theorem ucr_step_acyclic :
  forall (S : SR) (scc : nat -> nat) (cyc : nat -> bool) (bot : nat -> nat)
         (K : nat -> nat -> S) (nts : list nat) (G : grammar S)
         (f : nat -> list nat -> S) (X : nat) (xs : list nat),
    (forall X, ~ In (bot X) nts) ->
    In X nts -> cyc X = false ->
    gstep S (ucr S scc cyc bot K nts G) f X xs = NCpart S scc G f X xs.
Proof. intros S scc cyc bot K nts G f X xs Hfresh HX Hc. apply ucr_step_acyclic_sec; assumption. Qed.

(* (b1) one step of G' at a cyclic nonterminal, for every valuation *)
Theorem ucr_step_cyclic :
  forall (S : SR) (scc : nat -> nat) (cyc : nat -> bool) (bot : nat -> nat)
         (K : nat -> nat -> S) (nts : list nat) (G : grammar S)
         (f : nat -> list nat -> S) (X : nat) (xs : list nat),
    NoDup nts ->
    (forall X, ~ In (bot X) nts) ->
    In X nts -> cyc X = true ->
    gstep S (ucr S scc cyc bot K nts G) f X xs
    = bsum nts (fun X2 => if cyc X2 && Nat.eqb (scc X2) (scc X) then K X X2 * f (bot X2) xs else 0).
Proof. intros S scc cyc bot K nts G f X xs Hnd Hfresh HX Hc. apply ucr_step_cyclic_sec; assumption. Qed.

(* (b2) one step of G' at the bot copy of a cyclic nonterminal, for every valuation *)
Theorem ucr_step_bot :
  forall (S : SR) (scc : nat -> nat) (cyc : nat -> bool) (bot : nat -> nat)
         (K : nat -> nat -> S) (nts : list nat) (G : grammar S)
         (f : nat -> list nat -> S) (X : nat) (xs : list nat),
    (forall r, In r G -> In (rhead r) nts) ->
    (forall X Y, bot X = bot Y -> X = Y) ->
    (forall X, ~ In (bot X) nts) ->
    cyc X = true ->
    gstep S (ucr S scc cyc bot K nts G) f (bot X) xs = NCpart S scc G f X xs.
Proof. intros S scc cyc bot K nts G f X xs Hh Hinj Hfresh Hc. apply ucr_step_bot_sec; assumption. Qed.

(* one step of G splits into its intra-SCC unary part and the rest *)
Theorem gstep_intra_split :
  forall (S : SR) (scc : nat -> nat) (nts : list nat) (G : grammar S)
         (f : nat -> list nat -> S) (X : nat) (xs : list nat),
    NoDup nts ->
    (forall r Y, In r G -> In (N Y) (rbody r) -> In Y nts) ->
    gstep S G f X xs = bsum nts (fun Y => Uin S scc G X Y * f Y xs) + NCpart S scc G f X xs.
Proof. intros S scc nts G f X xs Hnd Hb. apply gstep_intra_split_sec; assumption. Qed.

(* solutions restrict: a solution of the transformed grammar solves G on the original
   nonterminals *)
Theorem ucr_restrict :
  forall (S : SR) (scc : nat -> nat) (cyc : nat -> bool) (bot : nat -> nat)
         (K : nat -> nat -> S) (nts : list nat) (G : grammar S),
    NoDup nts ->
    (forall r, In r G -> In (rhead r) nts) ->
    (forall r Y, In r G -> In (N Y) (rbody r) -> In Y nts) ->
    (forall X Y, bot X = bot Y -> X = Y) ->
    (forall X, ~ In (bot X) nts) ->
    (forall r, In r G -> intra S scc r = true ->
       cyc (rhead r) = true /\ (forall Y, rbody r = [N Y] -> cyc Y = true)) ->
    (forall X X2, In X nts -> In X2 nts -> cyc X = true -> cyc X2 = true -> scc X2 = scc X ->
       K X X2 = (if Nat.eqb X X2 then 1 else 0)
                + bsum nts (fun Y => if cyc Y && Nat.eqb (scc Y) (scc X)
                                     then Uin S scc G X Y * K Y X2 else 0)) ->
    forall f', solves S (ucr S scc cyc bot K nts G) f' ->
    forall X xs, In X nts -> f' X xs = gstep S G f' X xs.
Proof.
  intros S scc cyc bot K nts G Hnd Hh Hb Hinj Hfresh Hintra HK f' Hsol X xs HX.
  apply (ucr_restrict_sec S scc cyc bot K nts G Hnd Hh Hb Hinj Hfresh Hintra HK f' Hsol X xs HX).
Qed.

Print Assumptions ucr_no_intra_cycle_rules.
Print Assumptions ucr_step_acyclic.
Print Assumptions ucr_step_cyclic.
Print Assumptions ucr_step_bot.
Print Assumptions gstep_intra_split.
Print Assumptions ucr_restrict.

(* ====================================================================== *)
(* A concrete instance over Qc                                            *)
(* ====================================================================== *)
(* 0 -> 1 (1/2), 1 -> 0 (1/2), 1 -> t5 (1/3), 2 -> 0 t6 (1/5): {0, 1} is a unary cycle, 2 is acyclic.
   K is the closure of the unary weights on {0, 1}: star (1/2 * 1/2) = 4/3. *)
Definition ex_scc (X : nat) : nat := match X with O | 1%nat => O | _ => 1%nat end.
Definition ex_cyc (X : nat) : bool := Nat.ltb X 2.
Definition ex_bot (X : nat) : nat := (X + 10)%nat.
Definition ex_nts : list nat := [O; 1%nat; 2%nat].
Definition ex_G : grammar QcSR :=
  [ (mkq 1%Z 2%positive, O, [N 1%nat]); (mkq 1%Z 2%positive, 1%nat, [N O]);
    (mkq 1%Z 3%positive, 1%nat, [T 5%nat]); (mkq 1%Z 5%positive, 2%nat, [N O; T 6%nat]) ].
Definition ex_K (X Y : nat) : QcSR :=
  match X, Y with
  | O, O => mkq 4%Z 3%positive | O, 1%nat => mkq 2%Z 3%positive
  | 1%nat, O => mkq 2%Z 3%positive | 1%nat, 1%nat => mkq 4%Z 3%positive
  | _, _ => mkq 0%Z 1%positive
  end.

(* four closure rules into the bot copies, the non-intra rule of 1 moved to its bot copy 11,
   the rule of the acyclic nonterminal 2 kept, the two cycle rules 0 -> 1 and 1 -> 0 gone *)
Example ucr_example :
  ucr QcSR ex_scc ex_cyc ex_bot ex_K ex_nts ex_G
  = [ (mkq 4%Z 3%positive, O, [N 10%nat]); (mkq 2%Z 3%positive, O, [N 11%nat]);
      (mkq 2%Z 3%positive, 1%nat, [N 10%nat]); (mkq 4%Z 3%positive, 1%nat, [N 11%nat]);
      (mkq 1%Z 3%positive, 11%nat, [T 5%nat]); (mkq 1%Z 5%positive, 2%nat, [N O; T 6%nat]) ].
Proof. vm_compute. reflexivity. Qed.

(* no unary rule between the cyclic nonterminals 0 and 1 is left *)
Example ucr_example_no_cycle_rule :
  forallb (fun r : rule QcSR => match rbody r with
                                | [N Y] => negb (Nat.ltb (rhead r) 2 && Nat.ltb Y 2)
                                | _ => true
                                end)
          (ucr QcSR ex_scc ex_cyc ex_bot ex_K ex_nts ex_G) = true.
Proof. vm_compute. reflexivity. Qed.

(* the hypotheses of ucr_restrict hold for this instance, hence its conclusion *)
Example ucr_example_restrict :
  forall f', solves QcSR (ucr QcSR ex_scc ex_cyc ex_bot ex_K ex_nts ex_G) f' ->
  forall X xs, In X ex_nts -> f' X xs = gstep QcSR ex_G f' X xs.
Proof.
  apply ucr_restrict.
  - repeat constructor; cbn; intuition discriminate.
  - intros r Hr. cbn in Hr. destruct Hr as [<-|[<-|[<-|[<-|[]]]]]; cbn; auto.
  - intros r Y Hr HY. cbn in Hr.
    destruct Hr as [<-|[<-|[<-|[<-|[]]]]]; cbn in HY;
      repeat (destruct HY as [HY|HY]; [try discriminate HY; injection HY as <-; cbn; auto|]);
      contradiction.
  - unfold ex_bot. intros X Y E. lia.
  - unfold ex_bot, ex_nts. intros X H. cbn in H. lia.
  - intros r Hr Hi. cbn in Hr.
    destruct Hr as [<-|[<-|[<-|[<-|[]]]]]; try discriminate Hi;
      (split; [reflexivity|intros Y E; injection E as <-; reflexivity]).
  - intros X X2 HX HX2 Hc Hc2 _. cbn in HX, HX2.
    destruct HX as [<-|[<-|[<-|[]]]]; try discriminate Hc;
      destruct HX2 as [<-|[<-|[<-|[]]]]; try discriminate Hc2;
      apply Qc_is_canon; vm_compute; reflexivity.
Qed.

Print Assumptions ucr_example.
Print Assumptions ucr_example_no_cycle_rule.
Print Assumptions ucr_example_restrict.
