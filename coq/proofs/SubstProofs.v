(* Substitution of component grammars for the terminals ("tokens") of a top grammar.
   The assembled grammar  A = map (subst_rule st) Gtop ++ Gcomp  has the substitution
   semantics at the level of solutions of the grammar equations: if f solves Gtop (read
   over the token alphabet) and g solves Gcomp (over characters), then the substituted
   valuation F (component nonterminals keep g; a top nonterminal Z gets
   sum over token strings tau of  f Z tau * seg tau xs) solves A.
   Valid for every commutative semiring, cyclic grammars included.  No axioms.

   Formulation chosen for the key lemma: bounded enumeration with an ARBITRARY bound
   n >= length xs (lemma SG_bound shows the sum does not depend on the bound, because
   seg tau xs = 0 when tau is longer than xs -- this is where "no token matches the
   empty string" is used). *)
From Coq Require Import List Arith Bool Lia.
From GV.lib Require Import Semiring BigSum.
From GV.model Require Import Cfg.
From GV.proofs Require Import UnfoldProofs CkyProofs FoldProofs ProductProofs.
Import ListNotations.
Local Open Scope sr_scope.

Local Notation Sn := Datatypes.S.

(* T t  becomes  N (st t);  nonterminals are kept *)
Definition subst_sym (st : nat -> nat) (s : sym) : sym :=
  match s with T t => N (st t) | N Y => N Y end.

(* ====================================================================== *)
(* 0. words of bounded length                                             *)
(* ====================================================================== *)

Lemma words_eq_spec (V : list nat) : forall n tau,
  In tau (words_eq V n) -> length tau = n /\ Forall (fun t => In t V) tau.
Proof.
  induction n as [|n IH]; intros tau Hin.
  - cbn [words_eq] in Hin. destruct Hin as [<-|[]]. split; [reflexivity|constructor].
  - cbn [words_eq] in Hin. apply in_flat_map in Hin. destruct Hin as [a [Ha Hin]].
    apply in_map_iff in Hin. destruct Hin as [w [<- Hw]].
    destruct (IH w Hw) as [Hl HF]. split; [cbn [length]; f_equal; exact Hl|].
    constructor; assumption.
Qed.

Lemma words_le_spec (V : list nat) : forall n tau,
  In tau (words_le V n) -> length tau <= n /\ Forall (fun t => In t V) tau.
Proof.
  induction n as [|n IH]; intros tau Hin.
  - cbn [words_le] in Hin. destruct Hin as [<-|[]]. split; [cbn; lia|constructor].
  - cbn [words_le] in Hin. apply in_app_or in Hin. destruct Hin as [Hin|Hin].
    + destruct (IH tau Hin) as [Hl HF]. split; [lia|exact HF].
    + destruct (words_eq_spec V (Sn n) tau Hin) as [Hl HF]. split; [lia|exact HF].
Qed.

Section Subst.
Variable S : SR.
Add Ring SubstRing : (sth S).

Definition subst_rule (st : nat -> nat) (r : rule S) : rule S :=
  (rw r, rhead r, map (subst_sym st) (rbody r)).

Lemma rhead_subst st (r : rule S) : rhead (subst_rule st r) = rhead r.
Proof. reflexivity. Qed.
Lemma rw_subst st (r : rule S) : rw (subst_rule st r) = rw r.
Proof. reflexivity. Qed.
Lemma rbody_subst st (r : rule S) : rbody (subst_rule st r) = map (subst_sym st) (rbody r).
Proof. reflexivity. Qed.

Definition is_head (G : grammar S) (Z : nat) : bool :=
  existsb (fun r => Nat.eqb (rhead r) Z) G.

Lemma is_head_true (G : grammar S) Z :
  is_head G Z = true <-> exists r, In r G /\ rhead r = Z.
Proof.
  unfold is_head. rewrite existsb_exists. split; intros [r [Hr E]]; exists r; split; try exact Hr.
  - apply Nat.eqb_eq. exact E.
  - apply Nat.eqb_eq. exact E.
Qed.

Lemma is_head_false (G : grammar S) Z :
  is_head G Z = false <-> forall r, In r G -> rhead r <> Z.
Proof.
  split.
  - intros E r Hr Eh. assert (Ht : is_head G Z = true) by (apply is_head_true; exists r; split; assumption).
    rewrite E in Ht. discriminate Ht.
  - intros Hn. destruct (is_head G Z) eqn:E; [|reflexivity].
    apply is_head_true in E. destruct E as [r [Hr Eh]]. exfalso. exact (Hn r Hr Eh).
Qed.

(* a solution vanishes on the symbols that head no rule *)
Lemma solves_nohead (G : grammar S) h Z xs :
  solves S G h -> (forall r, In r G -> rhead r <> Z) -> h Z xs = 0.
Proof. intros Hs Hn. rewrite (Hs Z xs). apply gstep_nohead. exact Hn. Qed.

(* ====================================================================== *)
(* 1. segmentation weights                                                *)
(* ====================================================================== *)

Section Seg.
Variable toks : list nat.
Variable L : nat -> list nat -> S.            (* L t xs: weight of xs as token t *)
Hypothesis Hnd : NoDup toks.
Hypothesis Lnil : forall t, In t toks -> L t [] = 0.

Fixpoint seg (tau : list nat) (xs : list nat) : S :=
  match tau with
  | [] => match xs with [] => 1 | _ => 0 end
  | t :: tau' => bsum (splits xs) (fun p => L t (fst p) * seg tau' (snd p))
  end.

Lemma seg_nil xs : seg [] xs = nilw S xs.
Proof. reflexivity. Qed.

Lemma seg_cons t tau xs :
  seg (t :: tau) xs = bsum (splits xs) (fun p => L t (fst p) * seg tau (snd p)).
Proof. reflexivity. Qed.

Lemma seg_app : forall tau1 tau2 xs,
  seg (tau1 ++ tau2) xs = bsum (splits xs) (fun p => seg tau1 (fst p) * seg tau2 (snd p)).
Proof.
  induction tau1 as [|t tau1 IH]; intros tau2 xs.
  - cbn [app]. symmetry.
    rewrite (bsum_ext S (splits xs) _ (fun p => nilw S (fst p) * seg tau2 (snd p)))
      by (intros p _; reflexivity).
    apply splits_nilw_l.
  - cbn [app]. rewrite seg_cons.
    transitivity (bsum (splits xs) (fun p => bsum (splits (snd p))
                    (fun q => (fun a b c => L t a * seg tau1 b * seg tau2 c) (fst p) (fst q) (snd q)))).
    { apply bsum_ext; intros p _. rewrite IH, <- bsum_mul_l.
      apply bsum_ext; intros q _. ring. }
    rewrite (splits_assoc S xs (fun a b c => L t a * seg tau1 b * seg tau2 c)).
    apply bsum_ext; intros p _. cbv beta. rewrite seg_cons, <- bsum_mul_r.
    apply bsum_ext; intros q _. reflexivity.
Qed.

(* every token consumes at least one character *)
Lemma seg_too_long : forall tau xs,
  Forall (fun t => In t toks) tau -> length xs < length tau -> seg tau xs = 0.
Proof.
  induction tau as [|t tau IH]; intros xs HF Hlen.
  - cbn [length] in Hlen. lia.
  - rewrite seg_cons. apply bsum_zero; intros p Hp.
    pose proof (splits_length xs p Hp) as Hpl.
    inversion HF as [|t' tau' Ht HF']; subst t' tau'.
    destruct (fst p) as [|c u] eqn:Efst.
    + rewrite (Lnil t Ht). ring.
    + rewrite (IH (snd p) HF'); [ring|]. cbn [length] in Hpl, Hlen. lia.
Qed.

(* the sums over token strings, with a bound on the length *)
Definition SG (n : nat) (h : list nat -> S) (xs : list nat) : S :=
  bsum (words_le toks n) (fun tau => h tau * seg tau xs).

Lemma SG_S n h xs : length xs <= n -> SG (Sn n) h xs = SG n h xs.
Proof.
  intros Hn. unfold SG. cbn [words_le]. rewrite bsum_app.
  rewrite (bsum_zero S (words_eq toks (Sn n))); [ring|].
  intros tau Hin. destruct (words_eq_spec toks (Sn n) tau Hin) as [Hl HF].
  rewrite (seg_too_long tau xs HF) by lia. ring.
Qed.

(* the bound is irrelevant as soon as it is at least the length of xs *)
Lemma SG_bound h xs : forall n m, length xs <= n -> n <= m -> SG m h xs = SG n h xs.
Proof.
  intros n m Hn Hnm. induction Hnm as [|m Hnm IH]; [reflexivity|].
  rewrite SG_S by lia. exact IH.
Qed.

Lemma SG_ext n (h h' : list nat -> S) xs :
  (forall tau, h tau = h' tau) -> SG n h xs = SG n h' xs.
Proof. intros E. unfold SG. apply bsum_ext; intros tau _. rewrite E. reflexivity. Qed.

Lemma SG_zero n (h : list nat -> S) xs : (forall tau, h tau = 0) -> SG n h xs = 0.
Proof. intros E. unfold SG. apply bsum_zero; intros tau _. rewrite E. ring. Qed.

(* ---- re-indexing: pairs of words against cuts of a word ---------------- *)

Lemma words_conv : forall n (H : list nat -> list nat -> S),
  (forall t1 t2, Forall (fun t => In t toks) t1 -> Forall (fun t => In t toks) t2 ->
                 n < length t1 + length t2 -> H t1 t2 = 0) ->
  bsum (words_le toks n) (fun t1 => bsum (words_le toks n) (fun t2 => H t1 t2))
  = bsum (words_le toks n) (fun tau => bsum (splits tau) (fun q => H (fst q) (snd q))).
Proof.
  induction n as [|n IH]; intros H Hz.
  - change (words_le toks 0) with [@nil nat]. rewrite !bsum_cons, !bsum_nil.
    cbn [splits]. rewrite bsum_cons, bsum_nil. cbn [fst snd]. reflexivity.
  - rewrite (bsum_words_le_S S toks n (fun t1 => bsum (words_le toks (Sn n)) (fun t2 => H t1 t2))).
    rewrite (bsum_words_le_S S toks n (fun tau => bsum (splits tau) (fun q => H (fst q) (snd q)))).
    rewrite (bsum_words_le_S S toks n (fun t2 => H [] t2)).
    (* right-hand side *)
    rewrite (bsum_ext S toks
               (fun c => bsum (words_le toks n)
                           (fun w => bsum (splits (c :: w)) (fun q => H (fst q) (snd q))))
               (fun c => bsum (words_le toks n) (fun w => H [] (c :: w))
                         + bsum (words_le toks n)
                             (fun w => bsum (splits w) (fun q => H (c :: fst q) (snd q))))).
    2:{ intros c _. rewrite <- bsum_add. apply bsum_ext; intros w _.
        cbn [splits]. rewrite bsum_cons, bsum_map. cbn [fst snd]. reflexivity. }
    rewrite bsum_add.
    cbn [splits]. rewrite bsum_cons, bsum_nil. cbn [fst snd].
    (* left-hand side *)
    rewrite (bsum_ext S toks
               (fun c => bsum (words_le toks n)
                           (fun w => bsum (words_le toks (Sn n)) (fun t2 => H (c :: w) t2)))
               (fun c => bsum (words_le toks n)
                           (fun w => bsum (splits w) (fun q => H (c :: fst q) (snd q))))).
    { ring. }
    intros c Hc.
    rewrite <- (IH (fun a b => H (c :: a) b)).
    + apply bsum_ext; intros w Hw. cbn [words_le]. rewrite bsum_app.
      rewrite (bsum_zero S (words_eq toks (Sn n))); [ring|].
      intros t2 Ht2. destruct (words_eq_spec toks (Sn n) t2 Ht2) as [Hl2 HF2].
      destruct (words_le_spec toks n w Hw) as [_ HFw].
      apply Hz; [constructor; assumption|exact HF2|]. cbn [length]. lia.
    + intros t1 t2 HF1 HF2 Hlen. apply Hz; [constructor; assumption|exact HF2|].
      cbn [length]. lia.
Qed.

(* ====================================================================== *)
(* 2. the key lemma: bodies                                               *)
(* ====================================================================== *)

Section Key.
Variable st : nat -> nat.
Variable f : nat -> list nat -> S.      (* valuation of the token-level grammar *)
Variable F : nat -> list nat -> S.      (* valuation of the assembled grammar   *)
(* the start symbol of token t carries the language of t *)
Hypothesis Ftok : forall t xs, In t toks -> F (st t) xs = L t xs.

(* bodies without nonterminals *)
Lemma Wb_subst_terminals : forall b,
  (forall s, In s b -> exists t, s = T t /\ In t toks) ->
  forall xs n, length xs <= n ->
    Wb F (map (subst_sym st) b) xs = SG n (Wb f b) xs.
Proof.
  induction b as [|s rest IH]; intros Hb xs n Hn.
  - cbn [map]. unfold SG. destruct n as [|n].
    + change (words_le toks 0) with [@nil nat]. rewrite bsum_cons, bsum_nil.
      cbn [Wb seg]. ring.
    + rewrite bsum_words_le_S. cbn [Wb seg].
      rewrite (bsum_zero S toks); [ring|]. intros c _. apply bsum_zero; intros w _. ring.
  - destruct (Hb s (or_introl eq_refl)) as [t [-> Ht]].
    cbn [map subst_sym].
    change (Wb F (N (st t) :: map (subst_sym st) rest) xs)
      with (bsum (splits xs) (fun p => F (st t) (fst p) * Wb F (map (subst_sym st) rest) (snd p))).
    rewrite <- (SG_S n) by exact Hn. unfold SG. rewrite bsum_words_le_S.
    rewrite (bsum_single S toks t _ Hnd Ht).
    + cbn [Wb]. rewrite Nat.eqb_refl.
      transitivity (bsum (splits xs) (fun p => bsum (words_le toks n)
                      (fun w => Wb f rest w * (L t (fst p) * seg w (snd p))))).
      * apply bsum_ext; intros p Hp. rewrite (Ftok t (fst p) Ht).
        pose proof (splits_length xs p Hp) as Hpl.
        rewrite (IH (fun s' Hs' => Hb s' (or_intror Hs')) (snd p) n) by lia.
        unfold SG. rewrite <- bsum_mul_l. apply bsum_ext; intros w _. ring.
      * rewrite bsum_swap.
        transitivity (bsum (words_le toks n) (fun w => Wb f rest w * seg (t :: w) xs)); [|ring].
        apply bsum_ext; intros w _. rewrite seg_cons, bsum_mul_l. reflexivity.
    + intros c Hc. apply bsum_zero; intros w _. cbn [Wb].
      replace (Nat.eqb t c) with false by (symmetry; apply Nat.eqb_neq; congruence). ring.
Qed.

(* general bodies: the nonterminals of the body have the substituted weights *)
Lemma Wb_subst : forall b,
  (forall t, In (T t) b -> In t toks) ->
  (forall Y, In (N Y) b -> forall ys, F Y ys = SG (length ys) (f Y) ys) ->
  forall xs n, length xs <= n ->
    Wb F (map (subst_sym st) b) xs = SG n (Wb f b) xs.
Proof.
  induction b as [|[t|Y] rest IH]; intros HbT HbN xs n Hn.
  - apply Wb_subst_terminals; [intros s []|exact Hn].
  - (* a token *)
    assert (Ht : In t toks) by (apply HbT; left; reflexivity).
    cbn [map subst_sym].
    change (Wb F (N (st t) :: map (subst_sym st) rest) xs)
      with (bsum (splits xs) (fun p => F (st t) (fst p) * Wb F (map (subst_sym st) rest) (snd p))).
    rewrite <- (SG_S n) by exact Hn. unfold SG. rewrite bsum_words_le_S.
    rewrite (bsum_single S toks t _ Hnd Ht).
    + cbn [Wb]. rewrite Nat.eqb_refl.
      transitivity (bsum (splits xs) (fun p => bsum (words_le toks n)
                      (fun w => Wb f rest w * (L t (fst p) * seg w (snd p))))).
      * apply bsum_ext; intros p Hp. rewrite (Ftok t (fst p) Ht).
        pose proof (splits_length xs p Hp) as Hpl.
        rewrite (IH (fun t' Ht' => HbT t' (or_intror Ht'))
                    (fun Y' HY' => HbN Y' (or_intror HY')) (snd p) n) by lia.
        unfold SG. rewrite <- bsum_mul_l. apply bsum_ext; intros w _. ring.
      * rewrite bsum_swap.
        transitivity (bsum (words_le toks n) (fun w => Wb f rest w * seg (t :: w) xs)); [|ring].
        apply bsum_ext; intros w _. rewrite seg_cons, bsum_mul_l. reflexivity.
    + intros c Hc. apply bsum_zero; intros w _. cbn [Wb].
      replace (Nat.eqb t c) with false by (symmetry; apply Nat.eqb_neq; congruence). ring.
  - (* a nonterminal of the top grammar *)
    cbn [map subst_sym].
    change (Wb F (N Y :: map (subst_sym st) rest) xs)
      with (bsum (splits xs) (fun p => F Y (fst p) * Wb F (map (subst_sym st) rest) (snd p))).
    transitivity (bsum (splits xs) (fun p => SG n (f Y) (fst p) * SG n (Wb f rest) (snd p))).
    { apply bsum_ext; intros p Hp. pose proof (splits_length xs p Hp) as Hpl.
      rewrite (HbN Y (or_introl eq_refl) (fst p)).
      rewrite <- (SG_bound (f Y) (fst p) (length (fst p)) n) by lia.
      rewrite (IH (fun t' Ht' => HbT t' (or_intror Ht'))
                  (fun Y' HY' => HbN Y' (or_intror HY')) (snd p) n) by lia.
      reflexivity. }
    unfold SG.
    transitivity (bsum (words_le toks n) (fun t1 => bsum (words_le toks n)
                    (fun t2 => f Y t1 * Wb f rest t2 * seg (t1 ++ t2) xs))).
    { rewrite (bsum_ext S (splits xs) _
                 (fun p => bsum (words_le toks n) (fun t1 => bsum (words_le toks n)
                    (fun t2 => (f Y t1 * Wb f rest t2) * (seg t1 (fst p) * seg t2 (snd p)))))).
      2:{ intros p _. rewrite bsum_bsum_mul. apply bsum_ext; intros t1 _.
          apply bsum_ext; intros t2 _. ring. }
      rewrite <- (bsum_swap3 S (words_le toks n) (words_le toks n) (splits xs)
                    (fun t1 t2 p => (f Y t1 * Wb f rest t2) * (seg t1 (fst p) * seg t2 (snd p)))).
      apply bsum_ext; intros t1 _. apply bsum_ext; intros t2 _.
      rewrite bsum_mul_l, seg_app. reflexivity. }
    rewrite (words_conv n (fun t1 t2 => f Y t1 * Wb f rest t2 * seg (t1 ++ t2) xs)).
    + apply bsum_ext; intros tau _. cbn [Wb]. rewrite <- bsum_mul_r.
      apply bsum_ext; intros q Hq. rewrite (splits_app tau q Hq). reflexivity.
    + intros t1 t2 HF1 HF2 Hlen. rewrite (seg_too_long (t1 ++ t2) xs).
      * ring.
      * apply Forall_app. split; assumption.
      * rewrite app_length. lia.
Qed.

End Key.
End Seg.

(* ====================================================================== *)
(* 3. the assembled grammar                                               *)
(* ====================================================================== *)

Section Main.
Variables Gtop Gcomp : grammar S.
Variable st : nat -> nat.
Variable toks : list nat.
Variables g f : nat -> list nat -> S.

Hypothesis Hnd : NoDup toks.
(* H1: the components do not define nonterminals of the top grammar *)
Hypothesis H1a : forall r rc, In r Gtop -> In rc Gcomp -> rhead rc <> rhead r.
Hypothesis H1b : forall r rc Y, In r Gtop -> In (N Y) (rbody r) -> In rc Gcomp -> rhead rc <> Y.
(* H2: the start symbols of the components are not defined by the top grammar *)
Hypothesis H2 : forall r t, In r Gtop -> In t toks -> rhead r <> st t.
(* H3: the terminals of the top grammar are token names *)
Hypothesis H3 : forall r t, In r Gtop -> In (T t) (rbody r) -> In t toks.
(* H6: the components do not call nonterminals defined by the top grammar *)
Hypothesis H6 : forall r rc Y, In r Gtop -> In rc Gcomp -> In (N Y) (rbody rc) -> rhead r <> Y.
(* the component solution and the token-level solution *)
Hypothesis Hg : solves S Gcomp g.
Hypothesis Hf : solves S Gtop f.
(* H5: no token matches the empty string *)
Hypothesis H5 : forall t, In t toks -> g (st t) [] = 0.

Definition Ltok (t : nat) (xs : list nat) : S := g (st t) xs.

Definition assembled : grammar S := map (subst_rule st) Gtop ++ Gcomp.

(* the substituted valuation *)
Definition Fsub (Z : nat) (xs : list nat) : S :=
  if is_head Gcomp Z then g Z xs
  else bsum (words_le toks (length xs)) (fun tau => f Z tau * seg Ltok tau xs).

Lemma Fsub_comp Z xs : is_head Gcomp Z = true -> Fsub Z xs = g Z xs.
Proof. intros E. unfold Fsub. rewrite E. reflexivity. Qed.

Lemma Fsub_top Z xs : is_head Gcomp Z = false -> Fsub Z xs = SG toks Ltok (length xs) (f Z) xs.
Proof. intros E. unfold Fsub. rewrite E. reflexivity. Qed.

(* outside the heads of the top grammar Fsub is g *)
Lemma Fsub_not_top Z xs : (forall r, In r Gtop -> rhead r <> Z) -> Fsub Z xs = g Z xs.
Proof.
  intros Hn. destruct (is_head Gcomp Z) eqn:E.
  - apply Fsub_comp. exact E.
  - rewrite (Fsub_top Z xs E).
    rewrite SG_zero by (intros tau; apply (solves_nohead Gtop f Z tau Hf Hn)).
    symmetry. apply (solves_nohead Gcomp g Z xs Hg). apply is_head_false. exact E.
Qed.

Lemma Fsub_tok t xs : In t toks -> Fsub (st t) xs = Ltok t xs.
Proof. intros Ht. apply Fsub_not_top. intros r Hr. exact (H2 r t Hr Ht). Qed.

(* the key lemma instantiated at the rules of the top grammar *)
Lemma Wb_subst_rule r xs n :
  In r Gtop -> length xs <= n ->
  Wb Fsub (map (subst_sym st) (rbody r)) xs = SG toks Ltok n (Wb f (rbody r)) xs.
Proof.
  intros Hr Hn.
  apply (Wb_subst toks Ltok Hnd H5 st f Fsub Fsub_tok (rbody r)).
  - intros t Ht. exact (H3 r t Hr Ht).
  - intros Y HY ys. apply Fsub_top. apply is_head_false. intros rc Hrc.
    exact (H1b r rc Y Hr HY Hrc).
  - exact Hn.
Qed.

Theorem subst_solves : solves S assembled Fsub.
Proof.
  intros Z xs. unfold assembled. rewrite gstep_app.
  destruct (is_head Gcomp Z) eqn:E.
  - (* a component nonterminal *)
    rewrite (Fsub_comp Z xs E).
    assert (Hz : gstep S (map (subst_rule st) Gtop) Fsub Z xs = 0).
    { apply gstep_nohead. intros r' Hr'. apply in_map_iff in Hr'.
      destruct Hr' as [r [<- Hr]]. rewrite rhead_subst.
      apply is_head_true in E. destruct E as [rc [Hrc <-]].
      intros Eh. exact (H1a r rc Hr Hrc (eq_sym Eh)). }
    rewrite Hz, (Hg Z xs).
    rewrite (gstep_ext_in S Gcomp Fsub g Z xs); [ring|].
    intros rc Y ys Hrc HY. apply Fsub_not_top. intros r Hr. exact (H6 r rc Y Hr Hrc HY).
  - (* a nonterminal of the top grammar (or a symbol without rules) *)
    assert (Hz : gstep S Gcomp Fsub Z xs = 0).
    { apply gstep_nohead. apply is_head_false. exact E. }
    rewrite Hz, (Fsub_top Z xs E). unfold SG.
    transitivity (bsum (words_le toks (length xs)) (fun tau =>
                    bsum Gtop (fun r => (if Nat.eqb (rhead r) Z then rw r * Wb f (rbody r) tau else 0)
                                        * seg Ltok tau xs))).
    { apply bsum_ext; intros tau _. rewrite (Hf Z tau). unfold gstep.
      rewrite bsum_mul_r. reflexivity. }
    rewrite bsum_swap. unfold gstep. rewrite bsum_map.
    transitivity (bsum Gtop (fun r => if Nat.eqb (rhead r) Z
                                      then rw r * Wb Fsub (map (subst_sym st) (rbody r)) xs else 0)).
    2:{ match goal with |- _ = ?a + 0 => transitivity a; [reflexivity|ring] end. }
    apply bsum_ext; intros r Hr. destruct (Nat.eqb (rhead r) Z).
    + rewrite (Wb_subst_rule r xs (length xs) Hr (le_n _)). unfold SG.
      rewrite <- bsum_mul_l. apply bsum_ext; intros tau _. ring.
    + apply bsum_zero; intros tau _. ring.
Qed.

(* reading of the theorem at a top nonterminal: sum over the token strings *)
Corollary subst_top_value Z xs :
  (exists r, In r Gtop /\ rhead r = Z) ->
  Fsub Z xs = bsum (words_le toks (length xs)) (fun tau => f Z tau * seg Ltok tau xs).
Proof.
  intros [r [Hr <-]]. apply Fsub_top. apply is_head_false. intros rc Hrc.
  exact (H1a r rc Hr Hrc).
Qed.

End Main.

(* ====================================================================== *)
(* 4. the hypotheses are satisfiable: a one-token instance                *)
(* ====================================================================== *)

(* top grammar  0 -> <token 5>,  component  10 -> 'char 7',  st 5 = 10 *)
Definition single (X0 a : nat) : grammar S := [(1, X0, [T a])].
Definition single_sol (X0 a : nat) (Z : nat) (xs : list nat) : S :=
  if Nat.eqb X0 Z then Wb (fun _ _ => 0) [T a] xs else 0.

Lemma single_solves X0 a : solves S (single X0 a) (single_sol X0 a).
Proof.
  intros Z xs. unfold gstep, single. rewrite bsum_cons, bsum_nil.
  change (rhead (1, X0, [T a])) with X0. change (rw (1, X0, [T a])) with (@s1 S).
  change (rbody (1, X0, [T a])) with [T a]. unfold single_sol at 1.
  destruct (Nat.eqb X0 Z); [|ring].
  rewrite (Wb_ext_in S (single_sol X0 a) (fun _ _ => 0) [T a]); [ring|].
  intros Y ys [HY|[]]. discriminate HY.
Qed.

Example subst_instance :
  solves S (assembled (single 0 5) (single 10 7) (fun _ => 10))
           (Fsub (single 10 7) (fun _ => 10) [5] (single_sol 10 7) (single_sol 0 5)).
Proof.
  apply subst_solves.
  - constructor; [intros []|constructor].
  - intros r rc [<-|[]] [<-|[]]. discriminate.
  - intros r rc Y [<-|[]] [HY|[]]. discriminate HY.
  - intros r t [<-|[]] _. discriminate.
  - intros r t [<-|[]] [HT|[]]. injection HT as <-. left; reflexivity.
  - intros r rc Y [<-|[]] [<-|[]] [HY|[]]. discriminate HY.
  - apply single_solves.
  - apply single_solves.
  - intros t _. reflexivity.
Qed.

End Subst.

Print Assumptions seg_app.
Print Assumptions seg_too_long.
Print Assumptions SG_bound.
Print Assumptions Wb_subst_terminals.
Print Assumptions Wb_subst.
Print Assumptions subst_solves.
Print Assumptions subst_top_value.
Print Assumptions subst_instance.
