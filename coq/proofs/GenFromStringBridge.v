(* Bridge: the generated translation of WFSA.from_string (gen/Gen_FromString.v)
   is syntactically equal to the model StarStringProofs.from_string. No axioms. *)
From Coq Require Import List Arith Bool Lia.
From GV.lib Require Import Semiring BigSum.
From GV.model Require Import Wfsa.
From GV.gen Require Import Gen_FromString.
From GV.proofs Require Import StarStringProofs.
Import ListNotations.

Lemma gfs_combine_seq : forall (l : list nat) (o : nat),
  combine (seq o (length l)) l
  = map (fun i => (i, nth (i - o) l 0)) (seq o (length l)).
Proof.
  induction l as [|x t IH]; intros o.
  - reflexivity.
  - cbn [length seq combine map]. f_equal.
    + rewrite Nat.sub_diag. reflexivity.
    + rewrite IH. apply map_ext_in. intros i Hi. apply in_seq in Hi.
      replace (i - o) with (Datatypes.S (i - Datatypes.S o)) by lia. reflexivity.
Qed.

Lemma gfs_firstn_len : forall (xs : list nat) i, i <= length xs -> length (firstn i xs) = i.
Proof. intros xs i H. rewrite firstn_length. apply Nat.min_l. exact H. Qed.

Lemma gen_from_string_model : forall (S : SR) (xs : list nat) (w : S),
  gen_from_string S xs w = StarStringProofs.from_string xs w.
Proof.
  intros S xs w. unfold gen_from_string, from_string. f_equal.
  rewrite (gfs_combine_seq xs 0), map_map.
  apply map_ext_in. intros i Hi. apply in_seq in Hi. cbn [fst snd].
  rewrite Nat.sub_0_r.
  rewrite (gfs_firstn_len xs i) by lia.
  rewrite (gfs_firstn_len xs (i + 1)) by lia.
  rewrite Nat.add_1_r. reflexivity.
Qed.

Print Assumptions gen_from_string_model.
