(* Epsilon removal on machines WITH epsilon cycles: the values computed through a
   closure table K of the epsilon graph satisfy the PATH EQUATIONS of the automaton
   (the linear system whose least solution is the sum over all paths), given only
   the closure equation K = I + E K.  Valid in every star semiring.

     v q xs := pwK K (states_of m) m q xs      (value the epsilon-removed machine assigns from q)

     (E0)  v q []        = final q + sum_j E q j * v j []
     (E1)  v q (a :: xs) = sum_{arcs q -a-> r, weight w} w * v r xs  +  sum_j E q j * v j (a :: xs)
     (E2)  weight (epsremove_with K m) xs = sum_{(q,w) initial} w * v q xs

   and the same at the level of [call] for K := the Lehmann closure of the epsilon
   graph when its pivot stars are defined.  No axioms. *)
From Coq Require Import List Arith Bool Lia.
From GV.lib Require Import Semiring BigSum.
From GV.model Require Import Linear Wfsa WfsaEps EpsSpec.
From GV.proofs Require Import WfsaProofs LehmannProof ClosureExtra EpsRemove.
Import ListNotations.
Local Open Scope sr_scope.

Section EpsEquations.
Variable S : StarSR.
Add Ring SRingEE : (sth S).

(* ------------------------------------------------------------------ *)
(* vocabulary                                                           *)

(* K = I + E K on the states of m *)
Definition closure_eq_l (m : wfsa S) (K : mat S) : Prop :=
  forall i k, In i (states_of m) -> In k (states_of m) ->
    mget K i k = (if Nat.eqb i k then 1 else 0) + bsum (states_of m) (fun j => epsf m i j * mget K j k).

(* K = I + K E on the states of m *)
Definition closure_eq_r (m : wfsa S) (K : mat S) : Prop :=
  forall i k, In i (states_of m) -> In k (states_of m) ->
    mget K i k = (if Nat.eqb i k then 1 else 0) + bsum (states_of m) (fun j => mget K i j * epsf m j k).

(* the state valuation: value from state q of the word xs in the epsilon-removed machine *)
Definition val (K : mat S) (m : wfsa S) (q : nat) (xs : list nat) : S := pwK K (states_of m) m q xs.

(* a real (labelled) step from q reading a, continuing with [cont] *)
Definition real_step (m : wfsa S) (cont : nat -> list nat -> S) (q a : nat) (xs : list nat) : S :=
  bsum (warcs m) (fun ar => if Nat.eqb (asrc ar) q && lbl_eqb (albl ar) a then awt ar * cont (adst ar) xs else 0).

(* an epsilon step from q, written over the epsilon arcs of m leaving q *)
Definition eps_step (m : wfsa S) (cont : nat -> list nat -> S) (q : nat) (xs : list nat) : S :=
  bsum (warcs m) (fun ar => if is_eps (albl ar) && Nat.eqb (asrc ar) q then awt ar * cont (adst ar) xs else 0).

(* the two ways of writing an epsilon step agree (every arc's target is a state) *)
Lemma eps_step_epsf (m : wfsa S) (cont : nat -> list nat -> S) (q : nat) (xs : list nat) :
  bsum (states_of m) (fun j => epsf m q j * cont j xs) = eps_step m cont q xs.
Proof. unfold eps_step. apply (eps_part S m q (fun j => cont j xs)). Qed.

(* ------------------------------------------------------------------ *)
(* (E0), (E1): the path equations, epsilon moves written through epsf   *)

Theorem path_eq_nil : forall (m : wfsa S) (K : mat S) (q : nat),
  closure_eq_l m K -> In q (states_of m) ->
  val K m q [] = wget (wfinal m) q + bsum (states_of m) (fun j => epsf m q j * val K m j []).
Proof.
  intros m K q HK Hq. unfold val.
  exact (pwK_unfold S K m q [] HK Hq).
Qed.

Theorem path_eq_cons : forall (m : wfsa S) (K : mat S) (q a : nat) (xs : list nat),
  closure_eq_l m K -> In q (states_of m) ->
  val K m q (a :: xs)
  = bsum (warcs m) (fun ar => if Nat.eqb (asrc ar) q && lbl_eqb (albl ar) a
                              then awt ar * val K m (adst ar) xs else 0)
    + bsum (states_of m) (fun j => epsf m q j * val K m j (a :: xs)).
Proof.
  intros m K q a xs HK Hq. unfold val.
  exact (pwK_unfold S K m q (a :: xs) HK Hq).
Qed.

(* the same two equations with the epsilon moves written over the epsilon arcs leaving q *)
Theorem path_eq_nil_arcs : forall (m : wfsa S) (K : mat S) (q : nat),
  closure_eq_l m K -> In q (states_of m) ->
  val K m q []
  = wget (wfinal m) q
    + bsum (warcs m) (fun ar => if is_eps (albl ar) && Nat.eqb (asrc ar) q
                                then awt ar * val K m (adst ar) [] else 0).
Proof.
  intros m K q HK Hq. rewrite (path_eq_nil m K q HK Hq) at 1. f_equal.
  apply (eps_step_epsf m (val K m) q []).
Qed.

Theorem path_eq_cons_arcs : forall (m : wfsa S) (K : mat S) (q a : nat) (xs : list nat),
  closure_eq_l m K -> In q (states_of m) ->
  val K m q (a :: xs)
  = bsum (warcs m) (fun ar => if Nat.eqb (asrc ar) q && lbl_eqb (albl ar) a
                              then awt ar * val K m (adst ar) xs else 0)
    + bsum (warcs m) (fun ar => if is_eps (albl ar) && Nat.eqb (asrc ar) q
                                then awt ar * val K m (adst ar) (a :: xs) else 0).
Proof.
  intros m K q a xs HK Hq. rewrite (path_eq_cons m K q a xs HK Hq) at 1. f_equal.
  apply (eps_step_epsf m (val K m) q (a :: xs)).
Qed.

(* both equations as ONE sum over the arcs leaving q: an arc is either an epsilon arc
   (word unchanged) or reads the first letter *)
Theorem path_eq_cons_onesum : forall (m : wfsa S) (K : mat S) (q a : nat) (xs : list nat),
  closure_eq_l m K -> In q (states_of m) ->
  val K m q (a :: xs)
  = bsum (warcs m) (fun ar =>
      if Nat.eqb (asrc ar) q then
        match albl ar with
        | None => awt ar * val K m (adst ar) (a :: xs)
        | Some b => if Nat.eqb a b then awt ar * val K m (adst ar) xs else 0
        end
      else 0).
Proof.
  intros m K q a xs HK Hq. rewrite (path_eq_cons_arcs m K q a xs HK Hq), <- bsum_add.
  apply bsum_ext; intros ar _.
  destruct (albl ar) as [b|], (Nat.eqb (asrc ar) q); cbn [is_eps lbl_eqb andb]; ring.
Qed.

(* ------------------------------------------------------------------ *)
(* (E2): the value of the machine, for ANY table K                      *)

Corollary epsremove_weight_val : forall (K : mat S) (m : wfsa S) (xs : list nat),
  weight (epsremove_with K m) xs = bsum (winit m) (fun e => snd e * val K m (fst e) xs).
Proof. intros K m xs. rewrite epsremove_matrix_form. reflexivity. Qed.

(* the three facts together *)
Theorem epsremove_path_equations : forall (m : wfsa S) (K : mat S),
  closure_eq_l m K ->
  let st := states_of m in
  let v := val K m in
  (forall xs, weight (epsremove_with K m) xs = bsum (winit m) (fun e => snd e * v (fst e) xs)) /\
  (forall q, In q st ->
     v q [] = wget (wfinal m) q + bsum st (fun j => epsf m q j * v j [])) /\
  (forall q a xs, In q st ->
     v q (a :: xs)
     = bsum (warcs m) (fun ar => if Nat.eqb (asrc ar) q && lbl_eqb (albl ar) a
                                 then awt ar * v (adst ar) xs else 0)
       + bsum st (fun j => epsf m q j * v j (a :: xs))).
Proof.
  intros m K HK st v. subst st v. split; [|split].
  - intros xs. apply epsremove_weight_val.
  - intros q Hq. apply path_eq_nil; assumption.
  - intros q a xs Hq. apply path_eq_cons; assumption.
Qed.

(* ------------------------------------------------------------------ *)
(* the symmetric closure equation K = I + K E peels off a LAST epsilon   *)
(* move before the real step (not needed for (E0)/(E1))                  *)

(* the value from q BEFORE the closure table is applied: stop / real step only *)
Definition preval (K : mat S) (m : wfsa S) (q : nat) (xs : list nat) : S :=
  stepG S m (pwK K (states_of m) m) q xs.

Lemma val_preval (K : mat S) (m : wfsa S) (q : nat) (xs : list nat) :
  val K m q xs = bsum (states_of m) (fun k => mget K q k * preval K m k xs).
Proof. unfold val, preval. apply pwK_stepG. Qed.

Theorem path_eq_last : forall (m : wfsa S) (K : mat S) (q : nat) (xs : list nat),
  closure_eq_r m K -> In q (states_of m) ->
  val K m q xs
  = preval K m q xs
    + bsum (states_of m) (fun j => mget K q j * bsum (states_of m) (fun k => epsf m j k * preval K m k xs)).
Proof.
  intros m K q xs HK Hq. rewrite val_preval.
  transitivity (bsum (states_of m) (fun k =>
      fid q k * preval K m k xs
      + bsum (states_of m) (fun j => mget K q j * (epsf m j k * preval K m k xs)))).
  - apply bsum_ext; intros k Hk. rewrite (HK q k Hq Hk).
    match goal with |- (?a + ?b) * ?c = _ => transitivity (a * c + b * c); [ring|] end.
    f_equal. rewrite <- bsum_mul_r. apply bsum_ext; intros j _. ring.
  - rewrite bsum_add, bsum_swap. f_equal.
    + apply (bsum_fid_l S (states_of m) (fun k => preval K m k xs) q (states_nodup S m) Hq).
    + apply bsum_ext; intros j _. rewrite bsum_mul_l. reflexivity.
Qed.

(* ------------------------------------------------------------------ *)
(* the library's table: Lehmann closure of the epsilon graph             *)

Lemma mget_eps_mat (m : wfsa S) (i j : nat) :
  In i (states_of m) -> In j (states_of m) -> mget (eps_mat m) i j = epsf m i j.
Proof. intros Hi Hj. unfold eps_mat. rewrite mget_tabulate by assumption. reflexivity. Qed.

Lemma lehmann_closure_eq_l (m : wfsa S) :
  defined S (states_of m) (eps_mat m) -> closure_eq_l m (lehmann (states_of m) (eps_mat m)).
Proof.
  intros Hdef i k Hi Hk.
  rewrite (lehmann_fixpoint_l S (states_of m) (eps_mat m) (states_nodup S m) Hdef i k Hi Hk).
  unfold fid. f_equal. apply bsum_ext; intros j Hj. rewrite mget_eps_mat by assumption. reflexivity.
Qed.

Lemma lehmann_closure_eq_r (m : wfsa S) :
  defined S (states_of m) (eps_mat m) -> closure_eq_r m (lehmann (states_of m) (eps_mat m)).
Proof.
  intros Hdef i k Hi Hk.
  rewrite (lehmann_fixpoint_r S (states_of m) (eps_mat m) (states_nodup S m) Hdef i k Hi Hk).
  unfold fid. f_equal. apply bsum_ext; intros j Hj. rewrite mget_eps_mat by assumption. reflexivity.
Qed.

(* [call]-level statement, with the closure equation of the Lehmann table as a hypothesis *)
Theorem call_path_equations_HK : forall (m : wfsa S),
  let st := states_of m in
  let K := lehmann st (eps_mat m) in
  let v := val K m in
  closure_eq_l m K ->
  (forall xs, call m xs = bsum (winit m) (fun e => snd e * v (fst e) xs)) /\
  (forall q, In q st ->
     v q [] = wget (wfinal m) q + bsum st (fun j => epsf m q j * v j [])) /\
  (forall q a xs, In q st ->
     v q (a :: xs)
     = bsum (warcs m) (fun ar => if Nat.eqb (asrc ar) q && lbl_eqb (albl ar) a
                                 then awt ar * v (adst ar) xs else 0)
       + bsum st (fun j => epsf m q j * v j (a :: xs))).
Proof.
  intros m st K v HK. subst st K v. unfold call, epsremove.
  exact (epsremove_path_equations m (lehmann (states_of m) (eps_mat m)) HK).
Qed.

(* ... and discharged from definedness of the pivot stars met by the elimination *)
Theorem call_path_equations : forall (m : wfsa S),
  defined S (states_of m) (eps_mat m) ->
  let st := states_of m in
  let K := lehmann st (eps_mat m) in
  let v := val K m in
  (forall xs, call m xs = bsum (winit m) (fun e => snd e * v (fst e) xs)) /\
  (forall q, In q st ->
     v q [] = wget (wfinal m) q + bsum st (fun j => epsf m q j * v j [])) /\
  (forall q a xs, In q st ->
     v q (a :: xs)
     = bsum (warcs m) (fun ar => if Nat.eqb (asrc ar) q && lbl_eqb (albl ar) a
                                 then awt ar * v (adst ar) xs else 0)
       + bsum st (fun j => epsf m q j * v j (a :: xs))).
Proof.
  intros m Hdef. apply call_path_equations_HK. apply lehmann_closure_eq_l; exact Hdef.
Qed.

(* ------------------------------------------------------------------ *)
(* sanity: epsilon-free machines                                        *)

Lemma epsf_eps_free (m : wfsa S) (i j : nat) : eps_free m -> epsf m i j = 0.
Proof.
  intros Hef. unfold epsf. apply bsum_zero; intros ar Har.
  specialize (Hef ar Har). destruct (albl ar) as [b|]; [reflexivity|].
  exfalso; apply Hef; reflexivity.
Qed.

(* the identity table satisfies the closure equation of an epsilon-free machine *)
Lemma idtab_closure_eq_l (m : wfsa S) : eps_free m -> closure_eq_l m (idtab S (states_of m)).
Proof.
  intros Hef i k Hi Hk. rewrite mget_idtab by assumption. unfold fid.
  rewrite (bsum_zero S (states_of m)).
  - ring.
  - intros j _. rewrite (epsf_eps_free m i j Hef). ring.
Qed.

(* conversely the closure equation of an epsilon-free machine forces the identity on the states *)
Lemma closure_eq_l_eps_free (m : wfsa S) (K : mat S) : eps_free m -> closure_eq_l m K ->
  forall i k, In i (states_of m) -> In k (states_of m) -> mget K i k = fid i k.
Proof.
  intros Hef HK i k Hi Hk. rewrite (HK i k Hi Hk). unfold fid.
  rewrite (bsum_zero S (states_of m)).
  - ring.
  - intros j _. rewrite (epsf_eps_free m i j Hef). ring.
Qed.

(* a table that is the identity on the states gives the plain path weights *)
Lemma val_id_on_states (m : wfsa S) (K : mat S) :
  (forall i k, In i (states_of m) -> In k (states_of m) -> mget K i k = fid i k) ->
  forall xs q, In q (states_of m) -> val K m q xs = pw m q xs.
Proof.
  intros HKid. unfold val. induction xs as [|a t IH]; intros q Hq.
  - cbn [pwK pw].
    transitivity (bsum (states_of m) (fun k => fid q k * wget (wfinal m) k)).
    + apply bsum_ext; intros k Hk. rewrite HKid by assumption. reflexivity.
    + apply (bsum_fid_l S (states_of m) (fun k => wget (wfinal m) k) q (states_nodup S m) Hq).
  - cbn [pwK pw].
    transitivity (bsum (states_of m) (fun k => fid q k *
        bsum (warcs m) (fun ar => if Nat.eqb (asrc ar) k && lbl_eqb (albl ar) a
                                  then awt ar * pw m (adst ar) t else 0))).
    + apply bsum_ext; intros k Hk. rewrite HKid by assumption. f_equal.
      apply bsum_ext; intros ar Har.
      destruct (Nat.eqb (asrc ar) k && lbl_eqb (albl ar) a); [|reflexivity].
      rewrite (IH (adst ar) (dst_in_states S m ar Har)). reflexivity.
    + apply (bsum_fid_l S (states_of m)
               (fun k => bsum (warcs m) (fun ar => if Nat.eqb (asrc ar) k && lbl_eqb (albl ar) a
                                                   then awt ar * pw m (adst ar) t else 0))
               q (states_nodup S m) Hq).
Qed.

(* with the identity table the valuation is pw (no hypothesis on m needed) *)
Theorem val_idtab_pw : forall (m : wfsa S) (q : nat) (xs : list nat),
  In q (states_of m) -> val (idtab S (states_of m)) m q xs = pw m q xs.
Proof. intros m q xs Hq. unfold val. apply pwK_id; exact Hq. Qed.

(* for an epsilon-free machine EVERY table with K = I + E K gives v = pw,
   and the epsilon-removed machine has the weights of m *)
Theorem eps_free_val_pw : forall (m : wfsa S) (K : mat S) (q : nat) (xs : list nat),
  eps_free m -> closure_eq_l m K -> In q (states_of m) -> val K m q xs = pw m q xs.
Proof.
  intros m K q xs Hef HK Hq.
  apply (val_id_on_states m K (closure_eq_l_eps_free m K Hef HK) xs q Hq).
Qed.

Corollary eps_free_epsremove_weight : forall (m : wfsa S) (K : mat S) (xs : list nat),
  eps_free m -> closure_eq_l m K -> weight (epsremove_with K m) xs = weight m xs.
Proof.
  intros m K xs Hef HK. rewrite epsremove_weight_val, (forward_pathsum S m xs). unfold pathsum.
  apply bsum_ext; intros e He.
  rewrite (eps_free_val_pw m K (fst e) xs Hef HK (init_in_states S m e He)). reflexivity.
Qed.

(* consistency check: on an epsilon-free machine (E0)/(E1) are the defining equations of pw *)
Lemma eps_free_path_eq_is_pw (m : wfsa S) (q a : nat) (xs : list nat) :
  eps_free m ->
  pw m q [] = wget (wfinal m) q + bsum (states_of m) (fun j => epsf m q j * pw m j []) /\
  pw m q (a :: xs)
  = bsum (warcs m) (fun ar => if Nat.eqb (asrc ar) q && lbl_eqb (albl ar) a
                              then awt ar * pw m (adst ar) xs else 0)
    + bsum (states_of m) (fun j => epsf m q j * pw m j (a :: xs)).
Proof.
  intros Hef. split.
  - rewrite (bsum_zero S (states_of m)).
    + cbn [pw]. ring.
    + intros j _. rewrite (epsf_eps_free m q j Hef). ring.
  - rewrite (bsum_zero S (states_of m)).
    + cbn [pw]. ring.
    + intros j _. rewrite (epsf_eps_free m q j Hef). ring.
Qed.

End EpsEquations.

Arguments closure_eq_l {S} m K. Arguments closure_eq_r {S} m K. Arguments val {S} K m q xs.
Arguments preval {S} K m q xs.

Print Assumptions path_eq_nil.
Print Assumptions path_eq_cons.
Print Assumptions path_eq_nil_arcs.
Print Assumptions path_eq_cons_arcs.
Print Assumptions path_eq_cons_onesum.
Print Assumptions epsremove_weight_val.
Print Assumptions epsremove_path_equations.
Print Assumptions path_eq_last.
Print Assumptions call_path_equations_HK.
Print Assumptions call_path_equations.
Print Assumptions val_idtab_pw.
Print Assumptions eps_free_val_pw.
Print Assumptions eps_free_epsremove_weight.
