(* The expectation semiring (semiring.Expectation) is a commutative semiring, and over it the
   weight of a lifted derivation tree is <w, w * number of terminal leaves>
   (the basis of CFG.expected_length). *)
From Coq Require Import List Arith Bool Lia Ring Ring_theory.
From GV.lib Require Import Semiring BigSum.
From GV.model Require Import Cfg Expect.
Import ListNotations.
Local Open Scope sr_scope.

Scheme tree_mutind := Induction for tree Sort Prop with forest_mutind := Induction for forest Sort Prop.
Combined Scheme tree_forest_mutind from tree_mutind, forest_mutind.
Scheme twf_mutind := Minimality for twf Sort Prop with fwf_mutind := Minimality for fwf Sort Prop.
Combined Scheme twf_fwf_mutind from twf_mutind, fwf_mutind.

Section ExpectProofs.
Variable S : SR.
Add Ring SRing : (sth S).

(* ---------- 6. the pairs form a commutative semiring ---------- *)

Lemma exp_srt : semi_ring_theory (@e0 S) (@e1 S) (@eadd S) (@emul S) (@eq (S * S)).
Proof.
  constructor.
  - intros [a1 a2]. unfold eadd, e0; cbn [fst snd]. f_equal; ring.
  - intros [a1 a2] [b1 b2]. unfold eadd; cbn [fst snd]. f_equal; ring.
  - intros [a1 a2] [b1 b2] [c1 c2]. unfold eadd; cbn [fst snd]. f_equal; ring.
  - intros [a1 a2]. unfold emul, e1; cbn [fst snd]. f_equal; ring.
  - intros [a1 a2]. unfold emul, e0; cbn [fst snd]. f_equal; ring.
  - intros [a1 a2] [b1 b2]. unfold emul; cbn [fst snd]. f_equal; ring.
  - intros [a1 a2] [b1 b2] [c1 c2]. unfold emul; cbn [fst snd]. f_equal; ring.
  - intros [a1 a2] [b1 b2] [c1 c2]. unfold emul, eadd; cbn [fst snd]. f_equal; ring.
Qed.

Lemma eeqb_spec : forall a b : S * S, eeqb a b = true <-> a = b.
Proof.
  intros [a1 a2] [b1 b2]. unfold eeqb; cbn [fst snd].
  rewrite andb_true_iff, !seqb_spec. split.
  - intros [H1 H2]. subst; reflexivity.
  - intros H. injection H as H1 H2. split; assumption.
Qed.

Definition ExpSR : SR := mkSR (S * S) e0 e1 eadd emul exp_srt eeqb eeqb_spec.

(* ---------- 7. lifted derivation trees ---------- *)

Fixpoint tlift (t : tree S) : tree ExpSR :=
  match t with
  | Leaf a => Leaf a
  | Node i r k => Node i (lift_rule r : rule ExpSR) (flift k)
  end
with flift (f : forest S) : forest ExpSR :=
  match f with
  | Fnil => Fnil
  | Fcons t f' => Fcons (tlift t) (flift f')
  end.

Definition leaves (t : tree S) : nat := length (tyield t).

(* terminal leaves, counted through the rules that introduce them *)
Fixpoint deep (t : tree S) : nat :=
  match t with
  | Leaf _ => O
  | Node _ r k => (n_terminals (rbody r) + fdeep k)%nat
  end
with fdeep (f : forest S) : nat :=
  match f with
  | Fnil => O
  | Fcons t f' => (deep t + fdeep f')%nat
  end.

Lemma nat_s_add (a b : nat) : @nat_s S (a + b)%nat = nat_s a + nat_s b.
Proof.
  induction a as [|a IH].
  - change (@nat_s S b = 0 + nat_s b). ring.
  - change (1 + @nat_s S (a + b)%nat = (1 + nat_s a) + nat_s b). rewrite IH. ring.
Qed.

(* small unfolding lemmas (simpl/cbn on the mutual fixpoints leaves raw fix terms) *)
Lemma tweight_leaf (R : SR) a : tweight (@Leaf R a) = 1. Proof. reflexivity. Qed.
Lemma tweight_node (R : SR) i (r : rule R) k : tweight (Node i r k) = rw r * fweight k.
Proof. reflexivity. Qed.
Lemma fweight_nil (R : SR) : fweight (@Fnil R) = 1. Proof. reflexivity. Qed.
Lemma fweight_cons (R : SR) (t : tree R) f : fweight (Fcons t f) = tweight t * fweight f.
Proof. reflexivity. Qed.
Lemma tyield_leaf (R : SR) a : tyield (@Leaf R a) = [a]. Proof. reflexivity. Qed.
Lemma tyield_node (R : SR) i (r : rule R) k : tyield (Node i r k) = fyield k. Proof. reflexivity. Qed.
Lemma fyield_nil (R : SR) : fyield (@Fnil R) = []. Proof. reflexivity. Qed.
Lemma fyield_cons (R : SR) (t : tree R) f : fyield (Fcons t f) = tyield t ++ fyield f.
Proof. reflexivity. Qed.
Lemma tlift_leaf a : tlift (Leaf a) = Leaf a. Proof. reflexivity. Qed.
Lemma tlift_node i r k : tlift (Node i r k) = Node i (lift_rule r : rule ExpSR) (flift k).
Proof. reflexivity. Qed.
Lemma flift_nil : flift Fnil = Fnil. Proof. reflexivity. Qed.
Lemma flift_cons t f : flift (Fcons t f) = Fcons (tlift t) (flift f). Proof. reflexivity. Qed.
Lemma deep_leaf a : deep (Leaf a) = O. Proof. reflexivity. Qed.
Lemma deep_node i r k : deep (Node i r k) = (n_terminals (rbody r) + fdeep k)%nat.
Proof. reflexivity. Qed.
Lemma fdeep_nil : fdeep Fnil = O. Proof. reflexivity. Qed.
Lemma fdeep_cons t f : fdeep (Fcons t f) = (deep t + fdeep f)%nat. Proof. reflexivity. Qed.

Lemma exp_one : (@s1 ExpSR) = (1, 0). Proof. reflexivity. Qed.
Lemma exp_mul (a1 a2 b1 b2 : S) :
  @smul ExpSR (a1, a2) (b1, b2) = (a1 * b1, a1 * b2 + b1 * a2).
Proof. reflexivity. Qed.
Lemma rw_lift (r : rule S) :
  @rw ExpSR (lift_rule r) = (rw r, rw r * nat_s (n_terminals (rbody r))).
Proof. reflexivity. Qed.

Lemma lift_weight_deep :
  (forall t : tree S, tweight (tlift t) = (tweight t, tweight t * nat_s (deep t))) /\
  (forall f : forest S, fweight (flift f) = (fweight f, fweight f * nat_s (fdeep f))).
Proof.
  apply tree_forest_mutind.
  - intros a. rewrite tlift_leaf, !tweight_leaf, deep_leaf, exp_one.
    change (@nat_s S O) with (@s0 S). f_equal; ring.
  - intros i r k IHk. rewrite tlift_node, !tweight_node, deep_node, IHk, rw_lift, exp_mul, nat_s_add.
    f_equal; ring.
  - rewrite flift_nil, !fweight_nil, fdeep_nil, exp_one.
    change (@nat_s S O) with (@s0 S). f_equal; ring.
  - intros t IHt f IHf. rewrite flift_cons, !fweight_cons, fdeep_cons, IHt, IHf, exp_mul, nat_s_add.
    f_equal; ring.
Qed.

Lemma n_terminals_cons (s : sym) (body : list sym) :
  n_terminals (s :: body) = ((match s with T _ => 1%nat | N _ => O end) + n_terminals body)%nat.
Proof. unfold n_terminals. destruct s; reflexivity. Qed.

Lemma deep_yield (G : grammar S) :
  (forall s t, twf S G s t ->
     (deep t + (match s with T _ => 1%nat | N _ => O end))%nat = length (tyield t)) /\
  (forall body f, fwf S G body f ->
     (fdeep f + n_terminals body)%nat = length (fyield f)).
Proof.
  apply twf_fwf_mutind.
  - intros a. rewrite deep_leaf, tyield_leaf. reflexivity.
  - intros i r kids Hn Hk IHk. rewrite deep_node, tyield_node. lia.
  - rewrite fdeep_nil, fyield_nil. reflexivity.
  - intros s body t f Ht IHt Hf IHf.
    rewrite fdeep_cons, fyield_cons, n_terminals_cons, app_length. lia.
Qed.

Theorem expectation_tree_weight : forall (G : grammar S) (t : tree S) (X : nat), twf S G (N X) t ->
  tweight (tlift t) = (tweight t, tweight t * nat_s (length (tyield t))).
Proof.
  intros G t X Hw. rewrite (proj1 lift_weight_deep t).
  pose proof (proj1 (deep_yield G) (N X) t Hw) as Hd. cbn beta iota in Hd.
  rewrite Nat.add_0_r in Hd. rewrite Hd. reflexivity.
Qed.

Corollary expectation_tree_leaves : forall (G : grammar S) (t : tree S) (X : nat), twf S G (N X) t ->
  tweight (tlift t) = (tweight t, tweight t * nat_s (leaves t)).
Proof. exact expectation_tree_weight. Qed.

End ExpectProofs.

Print Assumptions exp_srt.
Print Assumptions expectation_tree_weight.
