(* The same two priority facts for parse/earley_rescaled.py (regenerated definitions). *)
From Coq Require Import ZArith Lia.
From GV.gen Require Import Gen_Exprs.
From GV.proofs Require Import PriorityProofs.
Local Open Scope Z_scope.
Lemma rescaled_span_first : span_first priority_rescaled order_max_rescaled.
Proof. unfold span_first, priority_rescaled, order_max_rescaled. intros m K I J oX oY HX HY HIJ HJK.
  assert (Hd : 0 <= (J - I - 1) * (1 + m)) by (apply Z.mul_nonneg_nonneg; lia).
  replace ((K - I) * (1 + m)) with ((K - J) * (1 + m) + (J - I - 1) * (1 + m) + (1 + m)) by ring. lia. Qed.
Lemma rescaled_order_first : order_first priority_rescaled order_max_rescaled.
Proof. unfold order_first, priority_rescaled, order_max_rescaled. intros. lia. Qed.
