(* Weight pushing (WFSA.push) and the weighted subset construction (determinize._powerarcs):
   pushing makes every kept state stochastic and preserves every string weight; the
   accumulated weight times the residual vector of the subset construction is the forward
   vector, hence the determinised machine assigns every string its original weight.
   No axioms. *)
From Coq Require Import List Arith Bool Lia Field Ring.
From GV.lib Require Import Semiring BigSum.
From GV.model Require Import Linear Wfsa Det.
From GV.proofs Require Import WfsaProofs.
Import ListNotations.
Local Open Scope sr_scope.

Section DetProofs.
Variable F : FR.
Add Field DField : (fth F).

(* ------------------------------------------------------------------ *)
(* generic helpers                                                      *)

Lemma finv_l (x : F) : x <> 0 -> finv F x * x = 1.
Proof. intros Hx. exact (Field_theory.Finv_l (fth F) x Hx). Qed.

Lemma finv_cancel (x y : F) : x <> 0 -> x * (finv F x * y) = y.
Proof.
  intros Hx. transitivity ((finv F x * x) * y); [ring|]. rewrite (finv_l x Hx). ring.
Qed.

Lemma seqb_false (x y : F) : x <> y -> seqb x y = false.
Proof.
  intros H. destruct (seqb x y) eqn:E; [|reflexivity].
  exfalso; apply H. apply (seqb_spec F); exact E.
Qed.

Lemma seqb_true (x y : F) : seqb x y = true -> x = y.
Proof. intros E. apply (seqb_spec F); exact E. Qed.

Lemma seqb_neq (x y : F) : seqb x y = false -> x <> y.
Proof.
  intros E H. apply (seqb_spec F) in H. rewrite H in E. discriminate E.
Qed.

Lemma asrc_mk (s : nat) (l : option nat) (d : nat) (w : F) : asrc ((s, l, d, w) : arc F) = s.
Proof. reflexivity. Qed.
Lemma albl_mk (s : nat) (l : option nat) (d : nat) (w : F) : albl ((s, l, d, w) : arc F) = l.
Proof. reflexivity. Qed.
Lemma adst_mk (s : nat) (l : option nat) (d : nat) (w : F) : adst ((s, l, d, w) : arc F) = d.
Proof. reflexivity. Qed.
Lemma awt_mk (s : nat) (l : option nat) (d : nat) (w : F) : awt ((s, l, d, w) : arc F) = w.
Proof. reflexivity. Qed.

(* ------------------------------------------------------------------ *)
(* PART A : weight pushing                                              *)

Lemma bsum_push_arcs (V : nat -> F) (m : wfsa F) (f : arc F -> F) :
  bsum (warcs (push_with V m)) f =
  bsum (warcs m) (fun ar => if seqb (V (asrc ar)) 0 then 0
     else f (asrc ar, albl ar, adst ar, finv F (V (asrc ar)) * awt ar * V (adst ar))).
Proof.
  unfold push_with; cbn [warcs]. rewrite bsum_flat_map.
  apply bsum_ext; intros ar _.
  destruct (seqb (V (asrc ar)) 0).
  - apply bsum_nil.
  - rewrite bsum_cons, bsum_nil. ring.
Qed.

Lemma bsum_push_final (V : nat -> F) (m : wfsa F) (f : nat * F -> F) :
  bsum (wfinal (push_with V m)) f =
  bsum (wfinal m) (fun e => if seqb (V (fst e)) 0 then 0
     else f (fst e, finv F (V (fst e)) * snd e)).
Proof.
  unfold push_with; cbn [wfinal]. rewrite bsum_flat_map.
  apply bsum_ext; intros e _.
  destruct (seqb (V (fst e)) 0).
  - apply bsum_nil.
  - rewrite bsum_cons, bsum_nil. ring.
Qed.

Lemma bsum_push_init (V : nat -> F) (m : wfsa F) (f : nat * F -> F) :
  bsum (winit (push_with V m)) f =
  bsum (winit m) (fun e => if seqb (V (fst e)) 0 then 0
     else f (fst e, snd e * V (fst e))).
Proof.
  unfold push_with; cbn [winit]. rewrite bsum_flat_map.
  apply bsum_ext; intros e _.
  destruct (seqb (V (fst e)) 0).
  - apply bsum_nil.
  - rewrite bsum_cons, bsum_nil. ring.
Qed.

Lemma wget_push_final (V : nat -> F) (m : wfsa F) (i : nat) :
  V i <> 0 -> wget (wfinal (push_with V m)) i = finv F (V i) * wget (wfinal m) i.
Proof.
  intros Hi. unfold wget. rewrite bsum_push_final, <- bsum_mul_l.
  apply bsum_ext; intros e _. cbn [fst snd].
  destruct (Nat.eqb i (fst e)) eqn:E.
  - apply Nat.eqb_eq in E. rewrite <- E. rewrite (seqb_false _ _ Hi). reflexivity.
  - destruct (seqb (V (fst e)) 0); ring.
Qed.

Theorem push_stochastic : forall (V : nat -> F) (m : wfsa F) (i : nat),
  backward_eq V m -> V i <> 0 -> out_mass (push_with V m) i = 1.
Proof.
  intros V m i HB Hi. unfold out_mass.
  rewrite (wget_push_final V m i Hi), bsum_push_arcs.
  transitivity (finv F (V i) * (wget (wfinal m) i +
     bsum (warcs m) (fun ar => if Nat.eqb (asrc ar) i then awt ar * V (adst ar) else 0))).
  - match goal with |- ?a + ?b = ?c * (?d + ?e) => transitivity (c * d + c * e); [|ring] end.
    rewrite <- bsum_mul_l.
    f_equal. apply bsum_ext; intros ar _.
    rewrite asrc_mk, awt_mk.
    destruct (Nat.eqb (asrc ar) i) eqn:E.
    + apply Nat.eqb_eq in E. rewrite E. rewrite (seqb_false _ _ Hi). ring.
    + destruct (seqb (V (asrc ar)) 0); ring.
  - rewrite <- (HB i). apply finv_l, Hi.
Qed.

Theorem push_pw : forall (V : nat -> F) (m : wfsa F), backward_eq V m ->
  (forall q, V q = 0 -> forall xs, pw m q xs = 0) ->
  forall xs q, V q <> 0 -> V q * pw (push_with V m) q xs = pw m q xs.
Proof.
  intros V m HB HZ xs. induction xs as [|a t IH]; intros q Hq.
  - cbn [pw]. rewrite (wget_push_final V m q Hq). apply finv_cancel, Hq.
  - cbn [pw]. rewrite bsum_push_arcs, <- bsum_mul_l.
    apply bsum_ext; intros ar _.
    rewrite asrc_mk, albl_mk, adst_mk, awt_mk.
    destruct (Nat.eqb (asrc ar) q) eqn:E; cbn [andb].
    + apply Nat.eqb_eq in E. rewrite E. rewrite (seqb_false _ _ Hq).
      destruct (lbl_eqb (albl ar) a); [|ring].
      destruct (seqb (V (adst ar)) 0) eqn:Ej.
      * apply seqb_true in Ej. rewrite (HZ _ Ej t), Ej. ring.
      * apply seqb_neq in Ej. rewrite <- (IH _ Ej).
        transitivity (V q * (finv F (V q) *
           (awt ar * (V (adst ar) * pw (push_with V m) (adst ar) t)))); [ring|].
        apply finv_cancel, Hq.
    + destruct (seqb (V (asrc ar)) 0); ring.
Qed.

Theorem push_weight : forall (V : nat -> F) (m : wfsa F), backward_eq V m ->
  (forall q, V q = 0 -> forall xs, pw m q xs = 0) ->
  forall xs, weight (push_with V m) xs = weight m xs.
Proof.
  intros V m HB HZ xs. rewrite !forward_pathsum. unfold pathsum.
  rewrite bsum_push_init. apply bsum_ext; intros e _. cbn [fst snd].
  destruct (seqb (V (fst e)) 0) eqn:E.
  - apply seqb_true in E. rewrite (HZ _ E xs). ring.
  - apply seqb_neq in E. rewrite <- (push_pw V m HB HZ xs (fst e) E). ring.
Qed.

(* ------------------------------------------------------------------ *)
(* PART B : the weighted subset construction                            *)

Lemma wget_fstep (m : wfsa F) (v : wvec F) (a q : nat) :
  wget (fstep m v a) q =
  bsum (warcs m) (fun ar => if lbl_eqb (albl ar) a && Nat.eqb q (adst ar)
                            then wget v (asrc ar) * awt ar else 0).
Proof.
  unfold fstep. unfold wget at 1. rewrite bsum_flat_map.
  apply bsum_ext; intros ar _.
  destruct (lbl_eqb (albl ar) a); cbn [andb].
  - rewrite bsum_cons, bsum_nil. cbn [fst snd].
    destruct (Nat.eqb q (adst ar)); ring.
  - apply bsum_nil.
Qed.

Lemma wget_vscale (c : F) (v : wvec F) (q : nat) : wget (vscale c v) q = c * wget v q.
Proof.
  unfold wget, vscale. rewrite bsum_map, <- bsum_mul_l.
  apply bsum_ext; intros e _. cbn [fst snd].
  destruct (Nat.eqb q (fst e)); ring.
Qed.

Lemma fstep_linear (m : wfsa F) (k : F) (v v' : wvec F) (a : nat) :
  (forall q, wget v q = k * wget v' q) ->
  forall q, wget (fstep m v a) q = k * wget (fstep m v' a) q.
Proof.
  intros H q. rewrite !wget_fstep, <- bsum_mul_l.
  apply bsum_ext; intros ar _.
  destruct (lbl_eqb (albl ar) a && Nat.eqb q (adst ar)); [|ring].
  rewrite H. ring.
Qed.

Lemma fold_fstep_linear (m : wfsa F) (k : F) (xs : list nat) : forall (v v' : wvec F),
  (forall q, wget v q = k * wget v' q) ->
  forall q, wget (fold_left (fstep m) xs v) q = k * wget (fold_left (fstep m) xs v') q.
Proof.
  induction xs as [|a t IH]; intros v v' H q.
  - cbn [fold_left]. apply H.
  - cbn [fold_left]. apply IH. apply fstep_linear, H.
Qed.

Theorem det_step_forward : forall (m : wfsa F) (Q : wvec F) (a : nat) (q : nat),
  fst (det_step m Q a) <> 0 ->
  wget (fstep m Q a) q = fst (det_step m Q a) * wget (snd (det_step m Q a)) q.
Proof.
  intros m Q a q HW. unfold det_step in *. cbn [fst snd] in *.
  rewrite wget_vscale. change (det_R m Q a) with (fstep m Q a) in *.
  symmetry. apply finv_cancel, HW.
Qed.

Theorem det_run_forward : forall (m : wfsa F) (xs : list nat) (c : F) (Q : wvec F) (q : nat),
  det_defined m Q xs ->
  c * wget (fold_left (fstep m) xs Q) q = fst (det_run m c Q xs) * wget (snd (det_run m c Q xs)) q.
Proof.
  intros m xs. induction xs as [|a t IH]; intros c Q q HD.
  - cbn [fold_left det_run fst snd]. reflexivity.
  - cbn [fold_left det_run det_defined] in *.
    pose proof (det_step_forward m Q a) as HS.
    destruct (det_step m Q a) as [W Q'] eqn:E. cbn [fst snd] in HS.
    destruct HD as [HW HD].
    rewrite <- (IH (c * W) Q' q HD).
    rewrite (fold_fstep_linear m W t (fstep m Q a) Q' (fun q' => HS q' HW) q). ring.
Qed.

Theorem det_value_weight : forall (m : wfsa F) (xs : list nat),
  det_defined m (winit m) xs -> det_value m xs = weight m xs.
Proof.
  intros m xs HD. unfold det_value, weight, fwd.
  pose proof (fun q => det_run_forward m xs 1 (winit m) q HD) as HR.
  destruct (det_run m 1 (winit m) xs) as [c Q]. cbn [fst snd] in HR.
  rewrite <- bsum_mul_l. apply bsum_ext; intros e _.
  transitivity ((c * wget Q (fst e)) * snd e); [ring|].
  rewrite <- HR. ring.
Qed.

End DetProofs.

Print Assumptions push_stochastic.
Print Assumptions push_pw.
Print Assumptions push_weight.
Print Assumptions det_step_forward.
Print Assumptions det_run_forward.
Print Assumptions det_value_weight.
