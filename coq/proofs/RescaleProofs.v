(* The rescaled Earley parser keeps every chart column multiplied by a running positive coefficient
   (earley_rescaled.py: next_col.rescale = num / den * prev_col.rescale).  Whatever non-zero coefficient
   c(ctx) the unnormalised next-token weights of a context carry, the normalised distribution and hence
   every chain-rule probability are those of the unscaled weights. *)
From Coq Require Import List Arith Field.
From GV.lib Require Import Semiring BigSum.
From GV.model Require Import Cfg Norm.
Import ListNotations.
Local Open Scope sr_scope.

Section Rescale.
Variable F : FR.
Add Field FField : (fth F).

Definition scaled (c : list nat -> F) (nw : list nat -> nat -> F) : list nat -> nat -> F :=
  fun ctx t => c ctx * nw ctx t.

Lemma zsum_scaled (V : list nat) (eos : nat) c nw ctx :
  zsum V eos (scaled c nw) ctx = c ctx * zsum V eos nw ctx.
Proof. unfold zsum, scaled. apply bsum_mul_l. Qed.

Theorem p_next_rescale_invariant : forall (V : list nat) (eos : nat) (c : list nat -> F)
    (nw : list nat -> nat -> F) (ctx : list nat) (t : nat),
  c ctx <> 0 -> zsum V eos nw ctx <> 0 ->
  p_next V eos (scaled c nw) ctx t = p_next V eos nw ctx t.
Proof.
  intros V eos c nw ctx t Hc Hz. unfold p_next. rewrite zsum_scaled. unfold scaled.
  generalize dependent (zsum V eos nw ctx). intros z Hz.
  generalize dependent (c ctx). intros a Ha. generalize (nw ctx t). intros b.
  field. split; assumption.
Qed.

Theorem chain_rescale_invariant : forall (V : list nat) (eos : nat) (c : list nat -> F)
    (nw : list nat -> nat -> F) (xs ctx : list nat),
  (forall k, k <= length xs -> c (ctx ++ firstn k xs) <> 0 /\ zsum V eos nw (ctx ++ firstn k xs) <> 0) ->
  chain V eos (scaled c nw) ctx xs = chain V eos nw ctx xs.
Proof.
  intros V eos c nw xs. induction xs as [|x xs IH]; intros ctx H.
  - cbn [chain]. destruct (H O (le_n O)) as [Hc Hz]. cbn [firstn] in Hc, Hz. rewrite app_nil_r in Hc, Hz.
    apply p_next_rescale_invariant; assumption.
  - cbn [chain]. destruct (H O (Nat.le_0_l _)) as [Hc Hz]. cbn [firstn] in Hc, Hz. rewrite app_nil_r in Hc, Hz.
    rewrite (p_next_rescale_invariant V eos c nw ctx x Hc Hz). f_equal.
    apply IH. intros k Hk. specialize (H (Datatypes.S k)). cbn [length firstn] in H.
    rewrite <- app_assoc. cbn [app]. apply H. apply le_n_S. exact Hk.
Qed.

End Rescale.

Print Assumptions p_next_rescale_invariant.
Print Assumptions chain_rescale_invariant.
