(* Union of grammars over disjoint nonterminal name spaces: each component keeps
   exactly its own weights (rules of the other components are invisible). *)
From Coq Require Import List Arith Bool Lia.
From GV.lib Require Import Semiring BigSum.
From GV.model Require Import Cfg.
Import ListNotations.
Local Open Scope sr_scope.

Section Union.
Variable S : SR.
Add Ring SRing : (sth S).

Definition nts_of_rules (G : grammar S) : nat -> Prop :=
  fun X => exists r, In r G /\ (rhead r = X \/ In (N X) (rbody r)).

Lemma W_succ (G : grammar S) h X xs :
  W G (Datatypes.S h) X xs
  = bsum G (fun r => if Nat.eqb (rhead r) X then rw r * Wb (W G h) (rbody r) xs else 0).
Proof. reflexivity. Qed.

(* extensionality of Wb restricted to the nonterminals of the body *)
Lemma Wb_ext_body (f g : nat -> list nat -> S) (body : list sym) :
  (forall Y ys, In (N Y) body -> f Y ys = g Y ys) ->
  forall xs, Wb f body xs = Wb g body xs.
Proof.
  induction body as [|s rest IH]; intros Hfg xs.
  - reflexivity.
  - destruct s as [a|Y].
    + cbn [Wb]. destruct xs as [|b xs']; [reflexivity|].
      destruct (Nat.eqb a b); [|reflexivity].
      apply IH. intros Y ys HY. apply Hfg. right; exact HY.
    + cbn [Wb]. apply bsum_ext. intros p _.
      rewrite (Hfg Y (fst p)) by (left; reflexivity).
      rewrite IH; [reflexivity|]. intros Y' ys HY. apply Hfg. right; exact HY.
Qed.

(* the part of the sum ranging over rules none of which has head X vanishes *)
Lemma bsum_no_head (G : grammar S) (X : nat) (F : rule S -> S) :
  (forall r, In r G -> rhead r <> X) ->
  bsum G (fun r => if Nat.eqb (rhead r) X then F r else 0) = 0.
Proof.
  intros Hheads. apply bsum_zero. intros r Hr.
  assert (E : Nat.eqb (rhead r) X = false) by (apply Nat.eqb_neq; apply Hheads; exact Hr).
  rewrite E. reflexivity.
Qed.

(* the own part of the sum: recursive calls stay inside the component *)
Lemma bsum_own (Gown Gall : grammar S) (h : nat) (X : nat) (xs : list nat) :
  (forall Y ys, nts_of_rules Gown Y -> W Gall h Y ys = W Gown h Y ys) ->
  bsum Gown (fun r => if Nat.eqb (rhead r) X then rw r * Wb (W Gall h) (rbody r) xs else 0)
  = bsum Gown (fun r => if Nat.eqb (rhead r) X then rw r * Wb (W Gown h) (rbody r) xs else 0).
Proof.
  intros IH. apply bsum_ext. intros r Hr.
  destruct (Nat.eqb (rhead r) X); [|reflexivity].
  f_equal. apply Wb_ext_body. intros Y ys HY. apply IH.
  exists r. split; [exact Hr|right; exact HY].
Qed.

Theorem union_component : forall (G1 G2 : grammar S),
  (forall r, In r G2 -> forall X,
     (exists r1, In r1 G1 /\ (rhead r1 = X \/ In (N X) (rbody r1))) -> rhead r <> X) ->
  forall h X xs,
    (exists r1, In r1 G1 /\ (rhead r1 = X \/ In (N X) (rbody r1))) ->
    W (G1 ++ G2) h X xs = W G1 h X xs.
Proof.
  intros G1 G2 Hdisj h. induction h as [|h IH]; intros X xs HX; [reflexivity|].
  rewrite !W_succ, bsum_app.
  rewrite (bsum_no_head G2 X) by (intros r Hr; exact (Hdisj r Hr X HX)).
  rewrite (bsum_own G1 (G1 ++ G2) h X xs) by (intros Y ys HY; exact (IH Y ys HY)).
  ring.
Qed.

Theorem union_component_r : forall (G1 G2 : grammar S),
  (forall r, In r G1 -> forall X,
     (exists r2, In r2 G2 /\ (rhead r2 = X \/ In (N X) (rbody r2))) -> rhead r <> X) ->
  forall h X xs,
    (exists r2, In r2 G2 /\ (rhead r2 = X \/ In (N X) (rbody r2))) ->
    W (G1 ++ G2) h X xs = W G2 h X xs.
Proof.
  intros G1 G2 Hdisj h. induction h as [|h IH]; intros X xs HX; [reflexivity|].
  rewrite !W_succ, bsum_app.
  rewrite (bsum_no_head G1 X) by (intros r Hr; exact (Hdisj r Hr X HX)).
  rewrite (bsum_own G2 (G1 ++ G2) h X xs) by (intros Y ys HY; exact (IH Y ys HY)).
  ring.
Qed.

(* the same two statements phrased with [nts_of_rules] *)
Corollary union_component_nts : forall (G1 G2 : grammar S),
  (forall r, In r G2 -> forall X, nts_of_rules G1 X -> rhead r <> X) ->
  forall h X xs, nts_of_rules G1 X -> W (G1 ++ G2) h X xs = W G1 h X xs.
Proof. exact union_component. Qed.

Corollary union_component_r_nts : forall (G1 G2 : grammar S),
  (forall r, In r G1 -> forall X, nts_of_rules G2 X -> rhead r <> X) ->
  forall h X xs, nts_of_rules G2 X -> W (G1 ++ G2) h X xs = W G2 h X xs.
Proof. exact union_component_r. Qed.

End Union.

Print Assumptions union_component.
Print Assumptions union_component_r.
