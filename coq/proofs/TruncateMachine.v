(* The truncation automaton (Gen_Machines.truncate_machine, regenerated from the
   Python source) accepts exactly the strings over V of length <= max_length, each
   with weight one (exactly one accepting path), and has no epsilon arcs. *)
From Coq Require Import List Arith Bool Lia.
From GV.lib Require Import Semiring BigSum.
From GV.model Require Import Wfsa.
From GV.gen Require Import Gen_Machines.
From GV.proofs Require Import WfsaProofs.
Import ListNotations.
Local Open Scope sr_scope.

Section TruncateMachine.
Variable S : SR.
Add Ring SRingTM : (sth S).

(* ---------- generic helpers ---------- *)

Lemma tm_flat_map_nil {A B} (g : A -> list B) (l : list A) :
  (forall a, g a = []) -> flat_map g l = [].
Proof.
  intros Hg. induction l as [|x t IH]; simpl; [reflexivity|].
  rewrite Hg, IH. reflexivity.
Qed.

Ltac nat_bool :=
  repeat match goal with
  | |- context [Nat.eqb ?a ?b] => destruct (Nat.eqb_spec a b)
  | |- context [Nat.leb ?a ?b] => destruct (Nat.leb_spec a b)
  | |- context [Nat.ltb ?a ?b] => destruct (Nat.ltb_spec a b)
  end.

(* a sum over an interval with a single selected index *)
Lemma bsum_seq_pick (f : nat -> S) (k : nat) : forall (n s : nat),
  bsum (seq s n) (fun u => if Nat.eqb u k then f u else 0) =
  if Nat.leb s k && Nat.ltb k (s + n) then f k else 0.
Proof.
  induction n as [|n IH]; intros s.
  - simpl. rewrite bsum_nil. nat_bool; simpl; try reflexivity; lia.
  - cbn [seq]. rewrite bsum_cons, IH.
    nat_bool; subst; cbn [andb]; try ring; lia.
Qed.

(* a sum over a duplicate-free list with a single selected element *)
Lemma bsum_list_pick (V : list nat) (a : nat) (f : nat -> S) :
  NoDup V -> In a V -> bsum V (fun x => if Nat.eqb x a then f x else 0) = f a.
Proof.
  intros Hnd Ha. rewrite (bsum_delta S Nat.eqb Nat.eqb_eq V a f Hnd).
  destruct (existsb (fun x => Nat.eqb x a) V) eqn:E; [reflexivity|].
  exfalso. assert (E' : existsb (fun x => Nat.eqb x a) V = true).
  { apply existsb_exists. exists a. split; [exact Ha|apply Nat.eqb_refl]. }
  congruence.
Qed.

(* ---------- characterisation of the generated machine ---------- *)

Variable V : list nat.
Variable n : nat.
Let M : wfsa S := truncate_machine V n.

Lemma M_init : winit M = [(O, 1)].
Proof.
  unfold M, truncate_machine. cbn [winit].
  rewrite (tm_flat_map_nil (fun t : nat => flat_map (fun x : nat => @nil (nat * S)) V)).
  - reflexivity.
  - intros t. apply tm_flat_map_nil. reflexivity.
Qed.

Lemma M_final_aux : forall (k s : nat),
  flat_map (fun t => flat_map (fun x : nat => @nil (nat * S)) V ++ [((t + 1%nat)%nat, 1)]) (seq s k)
  = map (fun t => (Datatypes.S t, 1)) (seq s k).
Proof.
  intros k s.
  rewrite (tm_flat_map_nil (fun x : nat => @nil (nat * S)) V) by reflexivity.
  cbn [app]. revert s.
  induction k as [|k IH]; intros s; cbn [seq flat_map map]; [reflexivity|].
  cbn [app]. rewrite Nat.add_1_r. f_equal. apply IH.
Qed.

Lemma M_final : wfinal M = (O, 1) :: map (fun t => (Datatypes.S t, 1)) (seq O n).
Proof.
  unfold M, truncate_machine. cbn [wfinal]. cbn [app]. f_equal. apply M_final_aux.
Qed.

Lemma M_arcs : warcs M =
  flat_map (fun t => flat_map (fun x => [(t, Some x, Datatypes.S t, 1)]) V) (seq O n).
Proof.
  unfold M, truncate_machine. cbn [warcs].
  apply flat_map_ext. intros t. apply flat_map_ext. intros x.
  rewrite Nat.add_1_r. reflexivity.
Qed.

Lemma M_wget_final (t : nat) : wget (wfinal M) t = if Nat.leb t n then 1 else 0.
Proof.
  rewrite M_final. unfold wget. rewrite bsum_cons, bsum_map. cbn [fst snd].
  destruct t as [|t'].
  - cbn [Nat.eqb Nat.leb]. rewrite bsum_zero by reflexivity. ring.
  - cbn [Nat.eqb].
    assert (E : bsum (seq O n) (fun a => if Nat.eqb t' a then (1:S) else 0) =
                bsum (seq O n) (fun u => if Nat.eqb u t' then (fun _ : nat => (1:S)) u else 0)).
    { apply bsum_ext. intros u _. rewrite (Nat.eqb_sym t' u). reflexivity. }
    rewrite E, bsum_seq_pick.
    nat_bool; cbn [andb]; try ring; lia.
Qed.

Hypothesis V_nodup : NoDup V.

Lemma M_pw_cons (t a : nat) (xs : list nat) : In a V ->
  pw M t (a :: xs) = if Nat.ltb t n then pw M (Datatypes.S t) xs else 0.
Proof.
  intros Ha. cbn [pw]. rewrite M_arcs, bsum_flat_map.
  transitivity (bsum (seq O n) (fun u => if Nat.eqb u t then (fun u => pw M (Datatypes.S u) xs) u else 0)).
  - apply bsum_ext. intros u _. rewrite bsum_flat_map.
    transitivity (bsum V (fun x => if Nat.eqb x a
                    then (fun _ => if Nat.eqb u t then pw M (Datatypes.S u) xs else 0) x else 0)).
    + apply bsum_ext. intros x _. rewrite bsum_cons, bsum_nil.
      unfold asrc, albl, adst, awt, lbl_eqb. cbn [fst snd].
      rewrite (Nat.eqb_sym a x).
      destruct (Nat.eqb u t); destruct (Nat.eqb x a); cbn [andb]; ring.
    + apply (bsum_list_pick V a _ V_nodup Ha).
  - rewrite bsum_seq_pick. cbn [Nat.leb andb plus]. reflexivity.
Qed.

Lemma M_pw : forall (xs : list nat) (t : nat), (forall a, In a xs -> In a V) ->
  pw M t xs = if Nat.leb (t + length xs) n then 1 else 0.
Proof.
  induction xs as [|a xs IH]; intros t Hin.
  - cbn [pw length]. rewrite Nat.add_0_r. apply M_wget_final.
  - rewrite M_pw_cons by (apply Hin; left; reflexivity).
    rewrite IH by (intros b Hb; apply Hin; right; exact Hb).
    cbn [length]. nat_bool; try reflexivity; lia.
Qed.

Lemma M_weight (xs : list nat) : (forall a, In a xs -> In a V) ->
  weight M xs = if Nat.leb (length xs) n then 1 else 0.
Proof.
  intros Hin. rewrite (forward_pathsum S M xs). unfold pathsum.
  rewrite M_init, bsum_cons, bsum_nil. cbn [fst snd].
  rewrite (M_pw xs O Hin). cbn [plus]. ring.
Qed.

Lemma M_eps_free : forall ar, In ar (warcs M) -> albl ar <> None.
Proof.
  intros ar Har. rewrite M_arcs in Har.
  apply in_flat_map in Har. destruct Har as [t [_ Har]].
  apply in_flat_map in Har. destruct Har as [x [_ Har]].
  destruct Har as [Har|[]]. subst ar. unfold albl. cbn [fst snd]. discriminate.
Qed.

End TruncateMachine.

Section Export.
Variable S : SR.

Theorem truncate_machine_weight : forall (V : list nat) (n : nat) (xs : list nat),
  NoDup V -> (forall a, In a xs -> In a V) ->
  weight (truncate_machine (S:=S) V n) xs = if Nat.leb (length xs) n then 1 else 0.
Proof. intros V n xs Hnd Hin. exact (M_weight S V n Hnd xs Hin). Qed.

Theorem truncate_machine_eps_free : forall V n ar,
  In ar (warcs (truncate_machine (S:=S) V n)) -> albl ar <> None.
Proof. intros V n ar Har. exact (M_eps_free S V n ar Har). Qed.

End Export.

Print Assumptions truncate_machine_weight.
Print Assumptions truncate_machine_eps_free.
