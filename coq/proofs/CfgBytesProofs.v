(* CFG.to_bytes: every rule keeps its weight and head; in the body every terminal a is replaced
   by the sequence of the bytes of its code word enc a (UTF-8), nonterminals stay.
   Theorem cfg_to_bytes_W: the byte-level grammar gives every byte string bs the total weight
   of the symbol strings whose encoding is bs (each decoding counted once; zero when bs is not
   an encoding), at every height bound h and for every nonterminal. *)
From Coq Require Import List Arith Bool Lia NArith.
From GV.lib Require Import Semiring BigSum.
From GV.model Require Import Cfg Bytes.
From GV.proofs Require Import BytesProofs TrimProofs.
Import ListNotations.
Local Open Scope sr_scope.

Section CfgBytes.
Variable S : SR.
Add Ring SRing : (sth S).
Variable enc : nat -> list nat.
Variable V : list nat.

Definition bytes_body (body : list sym) : list sym :=
  flat_map (fun y => match y with T a => map T (enc a) | N X => [N X] end) body.
Definition cfg_to_bytes (G : grammar S) : grammar S :=
  map (fun r => (rw r, rhead r, bytes_body (rbody r))) G.

(* ------------------------------------------------------------------ *)
(* (0) the fuel of decodings is irrelevant once it covers the length    *)

Lemma decodings_nil f : decodings enc V f [] = [[]].
Proof. destruct f; reflexivity. Qed.

Lemma decodings_fuel : forall n bs f1 f2, length bs <= n -> length bs <= f1 -> length bs <= f2 ->
  decodings enc V f1 bs = decodings enc V f2 bs.
Proof.
  induction n as [|n IH]; intros bs f1 f2 Hn H1 H2.
  - destruct bs; [rewrite !decodings_nil; reflexivity|cbn [length] in Hn; lia].
  - destruct bs as [|b bs']; [rewrite !decodings_nil; reflexivity|].
    destruct f1 as [|f1]; [cbn [length] in H1; lia|].
    destruct f2 as [|f2]; [cbn [length] in H2; lia|].
    rewrite !decodings_cons. apply flat_map_ext. intros a.
    destruct (enc a) as [|c0 c] eqn:Ec; [reflexivity|].
    destruct (strip (c0 :: c) (b :: bs')) as [rest|] eqn:Es; [|reflexivity].
    pose proof (strip_length _ _ _ Es) as Hl. cbn [length] in *.
    f_equal. apply IH; lia.
Qed.

(* decodings with the canonical fuel *)
Definition dec (bs : list nat) : list (list nat) := decodings enc V (length bs) bs.

Lemma decodings_dec bs fuel : length bs <= fuel -> decodings enc V fuel bs = dec bs.
Proof. intros H. unfold dec. apply (decodings_fuel (length bs)); lia. Qed.

Lemma dec_nil : dec [] = [[]].
Proof. reflexivity. Qed.

Hypothesis V_nodup : NoDup V.
Hypothesis enc_nonempty : forall a, In a V -> enc a <> [].

(* ------------------------------------------------------------------ *)
(* (1) structure of the decodings of a non-empty byte string             *)

Lemma dec_cons b bs' :
  dec (b :: bs') = flat_map (fun a => match strip (enc a) (b :: bs') with
                                      | Some rest => map (cons a) (dec rest)
                                      | None => []
                                      end) V.
Proof.
  unfold dec at 1. cbn [length]. rewrite decodings_cons.
  clear V_nodup. revert enc_nonempty. generalize V at 1 3 4 as V0.
  intros V0 Hne. induction V0 as [|a V0 IH]; [reflexivity|].
  cbn [flat_map]. rewrite IH by (intros; apply Hne; right; assumption). f_equal.
  rewrite (match_nonnil (enc a) _ _ (Hne a (or_introl eq_refl))).
  destruct (strip (enc a) (b :: bs')) as [rest|] eqn:Es; [|reflexivity].
  pose proof (strip_length _ _ _ Es) as Hl.
  assert (Hc : 1 <= length (enc a)).
  { pose proof (Hne a (or_introl eq_refl)). destruct (enc a); [congruence|cbn [length]; lia]. }
  cbn [length] in Hl. rewrite (decodings_dec rest) by lia. reflexivity.
Qed.

Lemma dec_cons_shape b bs' xs : In xs (dec (b :: bs')) ->
  exists a rest xs', xs = a :: xs' /\ In a V /\ strip (enc a) (b :: bs') = Some rest /\ In xs' (dec rest).
Proof.
  rewrite dec_cons. intros H. apply in_flat_map in H. destruct H as [a [Ha H]].
  destruct (strip (enc a) (b :: bs')) as [rest|] eqn:Es; [|contradiction].
  apply in_map_iff in H. destruct H as [xs' [E H]].
  exists a, rest, xs'. subst xs. repeat split; assumption.
Qed.

Lemma bsum_dec_cons b bs' (F : list nat -> S) :
  bsum (dec (b :: bs')) F
  = bsum V (fun a => match strip (enc a) (b :: bs') with
                     | Some rest => bsum (dec rest) (fun xs => F (a :: xs))
                     | None => 0
                     end).
Proof.
  rewrite dec_cons, bsum_flat_map. apply bsum_ext. intros a _.
  destruct (strip (enc a) (b :: bs')); [apply bsum_map|reflexivity].
Qed.

Lemma strip_nil_nonempty c : c <> [] -> strip c [] = None.
Proof. destruct c; [congruence|reflexivity]. Qed.

(* ------------------------------------------------------------------ *)
(* (2) a body that starts with the terminals of a code word             *)

Lemma Wb_strip (f : nat -> list nat -> S) (c : list nat) (g : list sym) : forall bs,
  Wb f (map T c ++ g) bs = match strip c bs with Some rest => Wb f g rest | None => 0 end.
Proof.
  induction c as [|x c IH]; intros bs; [reflexivity|].
  cbn [map app Wb strip]. destruct bs as [|b t]; [reflexivity|].
  destruct (Nat.eqb x b); [apply IH|reflexivity].
Qed.

(* ------------------------------------------------------------------ *)
(* splits and strip: cutting bs so that the first part starts with c is
   cutting what is left of bs after c                                   *)

Lemma splits_strip (c : list nat) : forall (bs : list nat) (K : list nat -> list nat -> S),
  bsum (splits bs) (fun p => match strip c (fst p) with Some r1 => K r1 (snd p) | None => 0 end)
  = match strip c bs with
    | Some rest => bsum (splits rest) (fun p => K (fst p) (snd p))
    | None => 0
    end.
Proof.
  induction c as [|x c IH]; intros bs K; [reflexivity|].
  destruct bs as [|b t].
  - cbn [splits strip]. rewrite bsum_cons, bsum_nil. cbn [fst strip]. ring.
  - cbn [splits]. rewrite bsum_cons, bsum_map. cbn [fst snd strip].
    destruct (Nat.eqb x b).
    + rewrite IH. ring.
    + rewrite bsum_const_zero. ring.
Qed.

Lemma splits_strip_cons (c : list nat) b bs' (K : list nat -> list nat -> S) : c <> [] ->
  bsum (splits bs') (fun p => match strip c (b :: fst p) with Some r1 => K r1 (snd p) | None => 0 end)
  = match strip c (b :: bs') with
    | Some rest => bsum (splits rest) (fun p => K (fst p) (snd p))
    | None => 0
    end.
Proof.
  intros Hc. rewrite <- splits_strip. cbn [splits]. rewrite bsum_cons, bsum_map.
  cbn [fst snd]. rewrite (strip_nil_nonempty c Hc). ring.
Qed.

(* ------------------------------------------------------------------ *)
(* convolution: decoding then cutting = cutting then decoding both parts *)

Lemma dec_convolution : forall n bs, length bs <= n -> forall (H : list nat -> list nat -> S),
  bsum (dec bs) (fun xs => bsum (splits xs) (fun p => H (fst p) (snd p)))
  = bsum (splits bs) (fun p => bsum (dec (fst p)) (fun u => bsum (dec (snd p)) (fun v => H u v))).
Proof.
  assert (Hbase : forall H : list nat -> list nat -> S,
    bsum (dec []) (fun xs => bsum (splits xs) (fun p => H (fst p) (snd p)))
    = bsum (splits []) (fun p => bsum (dec (fst p)) (fun u => bsum (dec (snd p)) (fun v => H u v)))).
  { intros H. cbn [splits fst snd]. rewrite dec_nil. rewrite !bsum_cons, !bsum_nil.
    cbn [splits fst snd]. rewrite !bsum_cons, !bsum_nil. cbn [fst snd]. rewrite !dec_nil, !bsum_cons, !bsum_nil. ring. }
  induction n as [|n IH]; intros bs Hn H.
  - destruct bs; [apply Hbase|cbn [length] in Hn; lia].
  - destruct bs as [|b bs']; [apply Hbase|].
    (* left-hand side *)
    rewrite bsum_dec_cons.
    transitivity (bsum (dec (b :: bs')) (fun xs => H [] xs)
                  + bsum V (fun a => match strip (enc a) (b :: bs') with
                       | Some rest => bsum (splits rest) (fun p =>
                            bsum (dec (fst p)) (fun u => bsum (dec (snd p)) (fun v => H (a :: u) v)))
                       | None => 0
                       end)).
    + rewrite bsum_dec_cons, <- bsum_add. apply bsum_ext. intros a Ha.
      destruct (strip (enc a) (b :: bs')) as [rest|] eqn:Es; [|ring].
      pose proof (strip_length _ _ _ Es) as Hl.
      assert (Hc : 1 <= length (enc a)).
      { pose proof (enc_nonempty a Ha). destruct (enc a); [congruence|cbn [length]; lia]. }
      cbn [length] in Hl, Hn.
      rewrite <- (IH rest ltac:(lia) (fun u v => H (a :: u) v)).
      rewrite <- bsum_add. apply bsum_ext. intros xs' _.
      cbn [splits]. rewrite bsum_cons, bsum_map. reflexivity.
    + (* right-hand side *)
      cbn [splits]. rewrite bsum_cons, bsum_map. cbn [fst snd].
      rewrite dec_nil, bsum_cons, bsum_nil.
      assert (E : forall x y z : S, y = z -> x + y = x + 0 + z) by (intros; subst; ring).
      apply E. clear E.
      transitivity (bsum (splits bs') (fun p => bsum V (fun a =>
          match strip (enc a) (b :: fst p) with
          | Some r1 => bsum (dec r1) (fun u => bsum (dec (snd p)) (fun v => H (a :: u) v))
          | None => 0
          end))).
      * rewrite bsum_swap. apply bsum_ext. intros a Ha.
        symmetry.
        apply (splits_strip_cons (enc a) b bs'
                 (fun r1 b2 => bsum (dec r1) (fun u => bsum (dec b2) (fun v => H (a :: u) v)))
                 (enc_nonempty a Ha)).
      * apply bsum_ext. intros p _. rewrite bsum_dec_cons. reflexivity.
Qed.

(* ------------------------------------------------------------------ *)
(* (3) bodies                                                            *)

Lemma V_delta a (g : nat -> S) : In a V -> bsum V (fun a' => if Nat.eqb a' a then g a' else 0) = g a.
Proof.
  intros Ha. rewrite (bsum_delta S Nat.eqb Nat.eqb_eq V a g V_nodup).
  assert (Hex : existsb (fun a' => Nat.eqb a' a) V = true).
  { apply existsb_exists. exists a. split; [exact Ha|apply Nat.eqb_refl]. }
  rewrite Hex. reflexivity.
Qed.

Lemma Wb_bytes_body (f : nat -> list nat -> S) : forall body,
  (forall a, In (T a) body -> In a V) ->
  forall bs,
  Wb (fun Y b => bsum (dec b) (fun u => f Y u)) (bytes_body body) bs
  = bsum (dec bs) (fun xs => Wb f body xs).
Proof.
  induction body as [|s body IH]; intros HV bs.
  - cbn [bytes_body flat_map Wb]. destruct bs as [|b bs'].
    + rewrite dec_nil, bsum_cons, bsum_nil. ring.
    + symmetry. apply bsum_zero. intros xs Hxs.
      destruct (dec_cons_shape _ _ _ Hxs) as [a [rest [xs' [E _]]]]. subst xs. reflexivity.
  - assert (HV' : forall a, In (T a) body -> In a V) by (intros; apply HV; right; assumption).
    destruct s as [a|Y].
    + assert (Ha : In a V) by (apply HV; left; reflexivity).
      change (bytes_body (T a :: body)) with (map T (enc a) ++ bytes_body body).
      rewrite Wb_strip.
      destruct bs as [|b bs'].
      * rewrite (strip_nil_nonempty _ (enc_nonempty a Ha)).
        rewrite dec_nil, bsum_cons, bsum_nil. cbn [Wb]. ring.
      * rewrite bsum_dec_cons.
        set (g := fun a' : nat => match strip (enc a') (b :: bs') with
                                  | Some rest => bsum (dec rest) (fun xs => Wb f body xs)
                                  | None => 0
                                  end).
        transitivity (bsum V (fun a' => if Nat.eqb a' a then g a' else 0)).
        { rewrite (V_delta a g Ha). unfold g.
          destruct (strip (enc a) (b :: bs')); [apply IH; exact HV'|reflexivity]. }
        apply bsum_ext. intros a' _. unfold g. cbn [Wb].
        rewrite (Nat.eqb_sym a a').
        destruct (Nat.eqb a' a).
        -- reflexivity.
        -- destruct (strip (enc a') (b :: bs')); [|reflexivity].
           symmetry; apply bsum_const_zero.
    + change (bytes_body (N Y :: body)) with (N Y :: bytes_body body).
      cbn [Wb].
      rewrite (dec_convolution (length bs) bs (le_n _) (fun u v => f Y u * Wb f body v)).
      apply bsum_ext. intros p _. rewrite (IH HV'). apply bsum_bsum_mul.
Qed.

(* ------------------------------------------------------------------ *)
(* (4) the grammar                                                      *)

Lemma cfg_to_bytes_W_dec (G : grammar S) :
  (forall r a, In r G -> In (T a) (rbody r) -> In a V) ->
  forall h X bs, W (cfg_to_bytes G) h X bs = bsum (dec bs) (fun xs => W G h X xs).
Proof.
  intros HG. induction h as [|h IH]; intros X bs.
  - cbn [W]. symmetry. apply bsum_const_zero.
  - cbn [W]. unfold cfg_to_bytes at 1. rewrite bsum_map. rewrite bsum_swap.
    apply bsum_ext. intros r Hr.
    change (rhead (rw r, rhead r, bytes_body (rbody r))) with (rhead r).
    change (rw (rw r, rhead r, bytes_body (rbody r))) with (rw r).
    change (rbody (rw r, rhead r, bytes_body (rbody r))) with (bytes_body (rbody r)).
    destruct (Nat.eqb (rhead r) X); [|symmetry; apply bsum_const_zero].
    rewrite bsum_mul_l. f_equal.
    rewrite (Wb_ext S (W (cfg_to_bytes G) h) (fun Y b => bsum (dec b) (fun u => W G h Y u)) IH).
    apply Wb_bytes_body. intros a Ha. apply (HG r a Hr Ha).
Qed.

Theorem cfg_to_bytes_W : forall (G : grammar S),
  (forall r a, In r G -> In (T a) (rbody r) -> In a V) ->
  forall h X bs fuel, length bs <= fuel ->
  W (cfg_to_bytes G) h X bs = bsum (decodings enc V fuel bs) (fun xs => W G h X xs).
Proof.
  intros G HG h X bs fuel Hf. rewrite (decodings_dec bs fuel Hf). apply cfg_to_bytes_W_dec. exact HG.
Qed.

(* a byte string that is not an encoding has weight zero *)
Corollary cfg_to_bytes_W_undecodable : forall (G : grammar S),
  (forall r a, In r G -> In (T a) (rbody r) -> In a V) ->
  forall h X bs fuel, length bs <= fuel ->
  decodings enc V fuel bs = [] -> W (cfg_to_bytes G) h X bs = 0.
Proof.
  intros G HG h X bs fuel Hf E. rewrite (cfg_to_bytes_W G HG h X bs fuel Hf), E. reflexivity.
Qed.

End CfgBytes.

Print Assumptions decodings_fuel.
Print Assumptions Wb_strip.
Print Assumptions splits_strip.
Print Assumptions dec_convolution.
Print Assumptions Wb_bytes_body.
Print Assumptions cfg_to_bytes_W.
Print Assumptions cfg_to_bytes_W_undecodable.

(* ------------------------------------------------------------------ *)
(* example over N: enc 0 = [10], enc 1 = [11;12]                        *)

Local Close Scope sr_scope.

Definition ex_enc (a : nat) : list nat := match a with O => [10] | _ => [11; 12] end.
Definition ex_G : grammar NSR := [ (2%N, 0, [T 1; N 1]); (3%N, 1, [T 0]); (5%N, 1, []) ].

Example ex_bytes_W : W (cfg_to_bytes NSR ex_enc ex_G) 3 0 [11; 12; 10] = 6%N.
Proof. vm_compute. reflexivity. Qed.
Example ex_sym_W : W ex_G 3 0 [1; 0] = 6%N.
Proof. vm_compute. reflexivity. Qed.
Example ex_decodings : decodings ex_enc [0; 1] 3 [11; 12; 10] = [[1; 0]].
Proof. vm_compute. reflexivity. Qed.
Example ex_truncated : W (cfg_to_bytes NSR ex_enc ex_G) 3 0 [11] = 0%N.
Proof. vm_compute. reflexivity. Qed.
Example ex_truncated_dec : decodings ex_enc [0; 1] 1 [11] = [].
Proof. vm_compute. reflexivity. Qed.
