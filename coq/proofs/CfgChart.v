(* The tabulated (chart) computation of model/Cfg.v agrees with the reference
   semantics W:  the n-th chart iterate holds W G n on every span, cfix returns a
   fixed point of cstep reached by iteration, and hence a value returned by lang
   is the stable value of the derivation sum.  No axioms. *)
From Coq Require Import List Arith Bool Lia.
From GV.lib Require Import Semiring BigSum.
From GV.model Require Import Cfg.
Import ListNotations.
Local Open Scope sr_scope.

(* ---- generic list facts -------------------------------------------------- *)

Lemma cc_flat_map_flat_map {A B C} (f : B -> list C) (g : A -> list B) (l : list A) :
  flat_map f (flat_map g l) = flat_map (fun x => flat_map f (g x)) l.
Proof.
  induction l as [|a t IH]; simpl; [reflexivity|].
  rewrite flat_map_app, IH. reflexivity.
Qed.

Lemma cc_flat_map_map {A B C} (f : B -> list C) (g : A -> B) (l : list A) :
  flat_map f (map g l) = flat_map (fun x => f (g x)) l.
Proof.
  induction l as [|a t IH]; simpl; [reflexivity|].
  rewrite IH. reflexivity.
Qed.

Lemma cc_skipn_nth {A} (l : list A) (i : nat) (b : A) :
  nth_error l i = Some b -> skipn i l = b :: skipn (S i) l.
Proof.
  revert l. induction i as [|i IH]; intros l H; destruct l as [|a t];
    cbn [nth_error] in H; try discriminate.
  - inversion H. reflexivity.
  - change (skipn i t = b :: skipn (S i) t). apply IH. exact H.
Qed.

Lemma cc_nth_error_some {A} (l : list A) (i : nat) :
  (i < length l)%nat -> exists b, nth_error l i = Some b.
Proof.
  intros H. destruct (nth_error l i) as [b|] eqn:E.
  - exists b. reflexivity.
  - apply nth_error_None in E. lia.
Qed.

Lemma sub_nil {A} (l : list A) (i : nat) : sub l i i = [].
Proof. unfold sub. rewrite Nat.sub_diag. reflexivity. Qed.

Lemma sub_cons {A} (l : list A) (i j : nat) (b : A) :
  (i < j)%nat -> nth_error l i = Some b -> sub l i j = b :: sub l (S i) j.
Proof.
  intros Hij Hb. unfold sub. rewrite (cc_skipn_nth l i b Hb).
  replace (j - i)%nat with (S (j - S i)) by lia. reflexivity.
Qed.

Lemma sub_full {A} (l : list A) : sub l O (length l) = l.
Proof. unfold sub. rewrite Nat.sub_0_r. cbn [skipn]. apply firstn_all. Qed.

Lemma splits_sub_aux {A} (l : list A) (d : nat) : forall i j : nat,
  (j - i = d)%nat -> (i <= j)%nat -> (j <= length l)%nat ->
  splits (sub l i j) = map (fun m => (sub l i m, sub l m j)) (seq i (S j - i)).
Proof.
  induction d as [|d IH]; intros i j Hd Hij Hj.
  - assert (E : i = j) by lia. subst j.
    replace (S i - i)%nat with 1%nat by lia.
    cbn [seq map]. rewrite sub_nil. reflexivity.
  - assert (Hlt : (i < j)%nat) by lia.
    destruct (cc_nth_error_some l i) as [b Hb]; [lia|].
    replace (S j - i)%nat with (S (S j - S i)) by lia.
    cbn [seq map].
    rewrite (sub_cons l i j b Hlt Hb), sub_nil.
    cbn [splits]. f_equal.
    rewrite (IH (S i) j) by lia.
    rewrite map_map. apply map_ext_in.
    intros m Hm. apply in_seq in Hm. cbn [fst snd].
    rewrite (sub_cons l i m b) by (lia || exact Hb). reflexivity.
Qed.

Lemma splits_sub {A} (l : list A) (i j : nat) :
  (i <= j)%nat -> (j <= length l)%nat ->
  splits (sub l i j) = map (fun m => (sub l i m, sub l m j)) (seq i (S j - i)).
Proof. intros Hij Hj. apply (splits_sub_aux l (j - i) i j); [reflexivity|exact Hij|exact Hj]. Qed.

Lemma keyeq_eq (a b : key) : keyeq a b = true -> a = b.
Proof.
  destruct a as [[x i] j], b as [[y k] l]. cbn [keyeq]. intros H.
  apply andb_true_iff in H. destruct H as [H H3].
  apply andb_true_iff in H. destruct H as [H1 H2].
  apply Nat.eqb_eq in H1. apply Nat.eqb_eq in H2. apply Nat.eqb_eq in H3.
  subst. reflexivity.
Qed.

Lemma keyeq_refl (a : key) : keyeq a a = true.
Proof. destruct a as [[x i] j]. cbn [keyeq]. rewrite !Nat.eqb_refl. reflexivity. Qed.

Lemma keyeq_neq (a b : key) : a <> b -> keyeq a b = false.
Proof.
  intros H. destruct (keyeq a b) eqn:E; [|reflexivity].
  exfalso. apply H. apply keyeq_eq. exact E.
Qed.

(* ---- the chart ------------------------------------------------------------ *)

Section Chart.
Variable S : SR.
Add Ring SRing : (sth S).

(* no entry of c has key k *)
Definition miss (k : key) (c : chart S) : Prop :=
  forall k' v, In (k', v) c -> keyeq k k' = false.

Lemma cget_miss (c : chart S) (k : key) : miss k c -> cget c k = 0.
Proof.
  induction c as [|[k' v] t IH]; intros H; cbn [cget]; [reflexivity|].
  rewrite (H k' v) by (left; reflexivity).
  apply IH. intros k2 v2 H2. apply (H k2 v2). right. exact H2.
Qed.

Lemma cget_app_miss_l (c1 c2 : chart S) (k : key) :
  miss k c1 -> cget (c1 ++ c2) k = cget c2 k.
Proof.
  induction c1 as [|[k' v] t IH]; intros H; cbn [app cget]; [reflexivity|].
  rewrite (H k' v) by (left; reflexivity).
  apply IH. intros k2 v2 H2. apply (H k2 v2). right. exact H2.
Qed.

Lemma cget_app_miss_r (c1 c2 : chart S) (k : key) :
  miss k c2 -> cget (c1 ++ c2) k = cget c1 k.
Proof.
  intros H. induction c1 as [|[k' v] t IH]; cbn [app cget].
  - apply cget_miss. exact H.
  - rewrite IH. reflexivity.
Qed.

Lemma miss_flat_map {A} (F : A -> chart S) (l : list A) (k : key) :
  (forall b, In b l -> miss k (F b)) -> miss k (flat_map F l).
Proof.
  intros H k' v Hin. apply in_flat_map in Hin.
  destruct Hin as [b [Hb Hin]]. exact (H b Hb k' v Hin).
Qed.

(* a lookup only sees the unique generator that can produce its key *)
Lemma cget_flat_map_unique {A} (F : A -> chart S) (l : list A) (a : A) (k : key) :
  NoDup l -> In a l ->
  (forall b, In b l -> b <> a -> miss k (F b)) ->
  cget (flat_map F l) k = cget (F a) k.
Proof.
  induction 1 as [|b t Hn Hd IH]; intros Hin Hm; [destruct Hin|].
  cbn [flat_map]. destruct Hin as [E|Hin].
  - subst b. apply cget_app_miss_r. apply miss_flat_map.
    intros b Hb. apply Hm; [right; exact Hb|].
    intros E. subst b. contradiction.
  - rewrite cget_app_miss_l.
    + apply IH; [exact Hin|].
      intros b' Hb' Hne. apply Hm; [right; exact Hb'|exact Hne].
    + apply Hm; [left; reflexivity|].
      intros E. subst b. contradiction.
Qed.

Section Fixed.
Variable G : grammar S.
Variable xs : list nat.

(* value of the next iterate at (X,i,j) *)
Definition cval (c : chart S) (X i j : nat) : S :=
  bsum G (fun r => if Nat.eqb (rhead r) X then rw r * body_w S c xs (rbody r) i j else 0).

Definition entry (c : chart S) (X i j : nat) : chart S :=
  if seqb (cval c X i j) 0 then [] else [((X, i, j), cval c X i j)].

Lemma cstep_eq (c : chart S) :
  cstep G xs c =
  flat_map (fun X =>
    flat_map (fun i =>
      flat_map (fun j => entry c X i j) (seq i (Datatypes.S (length xs) - i)))
      (seq O (Datatypes.S (length xs)))) (heads S G).
Proof.
  unfold cstep, spans. apply flat_map_ext. intros X.
  rewrite cc_flat_map_flat_map. apply flat_map_ext. intros i.
  rewrite cc_flat_map_map. reflexivity.
Qed.

Lemma miss_entry (c : chart S) (X i j : nat) (k : key) :
  k <> (X, i, j) -> miss k (entry c X i j).
Proof.
  intros Hne k' v Hin. unfold entry in Hin.
  destruct (seqb (cval c X i j) 0); [destruct Hin|].
  destruct Hin as [E|[]]. inversion E. subst k'.
  apply keyeq_neq. exact Hne.
Qed.

Lemma cget_entry (c : chart S) (X i j : nat) :
  cget (entry c X i j) (X, i, j) = cval c X i j.
Proof.
  unfold entry. destruct (seqb (cval c X i j) 0) eqn:E.
  - cbn [cget]. symmetry. apply seqb_spec. exact E.
  - cbn [cget]. rewrite keyeq_refl. reflexivity.
Qed.

Lemma cget_cstep (c : chart S) (X i j : nat) :
  (i <= j)%nat -> (j <= length xs)%nat ->
  cget (cstep G xs c) (X, i, j) = cval c X i j.
Proof.
  intros Hij Hj. rewrite cstep_eq.
  destruct (in_dec Nat.eq_dec X (heads S G)) as [HX|HX].
  - rewrite (cget_flat_map_unique _ (heads S G) X);
      [|apply NoDup_nodup|exact HX|].
    2:{ intros X' _ Hne. apply miss_flat_map. intros i' _.
        apply miss_flat_map. intros j' _. apply miss_entry.
        intros E. inversion E. apply Hne. symmetry. assumption. }
    cbv beta.
    rewrite (cget_flat_map_unique _ (seq O (Datatypes.S (length xs))) i);
      [|apply seq_NoDup|apply in_seq; lia|].
    2:{ intros i' _ Hne. apply miss_flat_map. intros j' _. apply miss_entry.
        intros E. inversion E. apply Hne. symmetry. assumption. }
    cbv beta.
    rewrite (cget_flat_map_unique _ (seq i (Datatypes.S (length xs) - i)) j);
      [|apply seq_NoDup|apply in_seq; lia|].
    2:{ intros j' _ Hne. apply miss_entry.
        intros E. inversion E. apply Hne. symmetry. assumption. }
    apply cget_entry.
  - rewrite cget_miss.
    2:{ apply miss_flat_map. intros X' HX'.
        apply miss_flat_map. intros i' _.
        apply miss_flat_map. intros j' _. apply miss_entry.
        intros E. inversion E. subst X'. contradiction. }
    symmetry. unfold cval. apply bsum_zero. intros r Hr.
    destruct (Nat.eqb (rhead r) X) eqn:E; [|reflexivity].
    exfalso. apply HX. unfold heads. apply nodup_In.
    apply Nat.eqb_eq in E. subst X. apply in_map. exact Hr.
Qed.

(* the chart c holds the height-n weights on every span *)
Definition chart_ok (c : chart S) (n : nat) : Prop :=
  forall X i j, (i <= j)%nat -> (j <= length xs)%nat ->
    cget c (X, i, j) = W G n X (sub xs i j).

Lemma body_w_ok (c : chart S) (n : nat) : chart_ok c n ->
  forall body i j, (i <= j)%nat -> (j <= length xs)%nat ->
    body_w S c xs body i j = Wb (W G n) body (sub xs i j).
Proof.
  intros Hc body. induction body as [|s rest IH]; intros i j Hij Hj.
  - cbn [body_w Wb]. destruct (Nat.eqb_spec i j) as [E|E].
    + subst j. rewrite sub_nil. reflexivity.
    + destruct (cc_nth_error_some xs i) as [b Hb]; [lia|].
      rewrite (sub_cons xs i j b) by (lia || exact Hb). reflexivity.
  - destruct s as [a|Y].
    + cbn [body_w Wb]. destruct (Nat.ltb_spec i j) as [L|L].
      * destruct (cc_nth_error_some xs i) as [b Hb]; [lia|].
        rewrite Hb. rewrite (sub_cons xs i j b L Hb).
        destruct (Nat.eqb a b); [|reflexivity].
        apply IH; lia.
      * assert (E : i = j) by lia. subst j. rewrite sub_nil. reflexivity.
    + cbn [body_w Wb]. rewrite (splits_sub xs i j Hij Hj).
      rewrite bsum_map. apply bsum_ext. intros m Hm.
      apply in_seq in Hm. cbn [fst snd].
      rewrite (Hc Y i m) by lia. rewrite (IH m j) by lia.
      destruct (seqb (W G n Y (sub xs i m)) 0) eqn:E; [|reflexivity].
      apply seqb_spec in E. rewrite E. ring.
Qed.

Lemma chart_ok_nil : chart_ok [] O.
Proof. intros X i j _ _. reflexivity. Qed.

Lemma chart_ok_step (c : chart S) (n : nat) :
  chart_ok c n -> chart_ok (cstep G xs c) (Datatypes.S n).
Proof.
  intros Hc X i j Hij Hj. rewrite (cget_cstep c X i j Hij Hj).
  unfold cval. cbn [W]. apply bsum_ext. intros r _.
  destruct (Nat.eqb (rhead r) X); [|reflexivity].
  rewrite (body_w_ok c n Hc (rbody r) i j Hij Hj). reflexivity.
Qed.

Lemma chart_ok_citer (n : nat) : forall (c : chart S) (k : nat),
  chart_ok c k -> chart_ok (citer G xs n c) (n + k)%nat.
Proof.
  induction n as [|n IH]; intros c k Hc; cbn [citer].
  - exact Hc.
  - replace (Datatypes.S n + k)%nat with (n + Datatypes.S k)%nat by lia.
    apply IH. apply chart_ok_step. exact Hc.
Qed.

Lemma citer_add (n m : nat) : forall c : chart S,
  citer G xs (n + m)%nat c = citer G xs m (citer G xs n c).
Proof.
  induction n as [|n IH]; intros c; cbn [Nat.add citer]; [reflexivity|].
  apply IH.
Qed.

Lemma citer_fixed (c : chart S) (m : nat) : cstep G xs c = c -> citer G xs m c = c.
Proof.
  intros H. induction m as [|m IH]; cbn [citer]; [reflexivity|].
  rewrite H. exact IH.
Qed.

End Fixed.

Lemma chart_eqb_eq (a : chart S) : forall b, chart_eqb S a b = true -> a = b.
Proof.
  induction a as [|[k v] s IH]; intros b H; destruct b as [|[k' v'] t];
    cbn [chart_eqb] in H; try discriminate; [reflexivity|].
  apply andb_true_iff in H. destruct H as [H H3].
  apply andb_true_iff in H. destruct H as [H1 H2].
  apply keyeq_eq in H1. apply seqb_spec in H2. apply IH in H3.
  subst. reflexivity.
Qed.

Theorem citer_W : forall (G : grammar S) (xs : list nat) (n X i j : nat),
  (i <= j)%nat -> (j <= length xs)%nat ->
  cget (citer G xs n []) (X, i, j) = W G n X (sub xs i j).
Proof.
  intros G xs n X i j Hij Hj.
  pose proof (chart_ok_citer G xs n [] O (chart_ok_nil G xs)) as H.
  rewrite Nat.add_0_r in H. exact (H X i j Hij Hj).
Qed.

Theorem cfix_citer : forall (G : grammar S) xs fuel c c',
  cfix G xs fuel c = Some c' ->
  exists n, citer G xs n c = c' /\ cstep G xs c' = c'.
Proof.
  intros G xs fuel. induction fuel as [|f IH]; intros c c' H; cbn [cfix] in H;
    [discriminate|].
  cbv zeta in H. destruct (chart_eqb S c (cstep G xs c)) eqn:E.
  - inversion H. subst c'. exists O. split; [reflexivity|].
    symmetry. apply chart_eqb_eq. exact E.
  - destruct (IH _ _ H) as [n [Hn Hfix]].
    exists (Datatypes.S n). split; [exact Hn|exact Hfix].
Qed.

Theorem lang_stable : forall (G : grammar S) fuel X xs v,
  lang G fuel X xs = Some v -> stable S G X xs v.
Proof.
  intros G fuel X xs v H. unfold lang in H.
  destruct (cfix G xs fuel []) as [c'|] eqn:E; [|discriminate].
  inversion H as [Hv]. clear H.
  destruct (cfix_citer G xs fuel [] c' E) as [n [Hn Hfix]].
  exists n. intros h Hh.
  pose proof (citer_W G xs h X O (length xs) (Nat.le_0_l _) (le_n _)) as HW.
  rewrite sub_full in HW. rewrite <- HW.
  replace h with (n + (h - n))%nat by lia.
  rewrite citer_add, Hn, (citer_fixed G xs c' (h - n) Hfix). reflexivity.
Qed.

End Chart.

Print Assumptions citer_W.
Print Assumptions cfix_citer.
Print Assumptions lang_stable.
