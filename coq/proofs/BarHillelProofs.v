(* The Bar-Hillel product  CFG @ FST  (model/BarHillel.v) of a grammar G with a
   letter-to-letter transducer M has the relational-composition semantics at the level of
   the solutions of the grammar equations: if f solves G then the valuation
       Fv (nt p X q) ys = sum over xs in V^|ys| of  f X xs * Tw p q xs ys
       Fv (tm p a q) ys = Tw p q [a] ys
       Fv s' ys         = sum over i, k of  wi * wk * Fv (nt i S k) ys
       Fv Z ys          = 0   for every other Z
   solves the product grammar (at EVERY symbol), and
       Fv s' ys = sum over xs in V^|ys| of  f S xs * M(xs, ys).
   Valid for every commutative semiring, cyclic grammars included.  No axioms.

   Hypotheses of the theorem (section Main):
     - the naming nt, tm, s' of the product nonterminals is injective with pairwise
       disjoint images;
     - NoDup states, NoDup V; the source and target of every arc are in states and its
       input symbol is in V; the initial and final states are in states;
     - the terminals of G are in V;
     - f solves G.
   Contents: 1. path splitting (Tw_app);  2. re-indexing of words of a fixed length
   (words_eq_add, words_split);  3b. Tw / Mrel agree with trelf / trel of model/Fst.v
   (trel_lift);  3. the key lemma on threaded bodies (key_lemma), the theorem
   (bar_hillel_solves) and its corollaries;  4. a concrete instance. *)
From Coq Require Import List Arith Bool Lia NArith Cantor.
From GV.lib Require Import Semiring BigSum.
From GV.model Require Import Cfg Fst BarHillel.
From GV.proofs Require Import UnfoldProofs CkyProofs FoldProofs ProductProofs SubstProofs.
Import ListNotations.
Local Open Scope sr_scope.

Local Notation Sn := Datatypes.S.

(* ====================================================================== *)
(* 0. triples and decoding of injective namings                           *)
(* ====================================================================== *)

Definition triples (l1 l2 l3 : list nat) : list (nat * nat * nat) :=
  flat_map (fun p => flat_map (fun X => map (fun q => (p, X, q)) l3) l2) l1.

Lemma in_triples l1 l2 l3 p X q :
  In (p, X, q) (triples l1 l2 l3) <-> In p l1 /\ In X l2 /\ In q l3.
Proof.
  unfold triples. rewrite in_flat_map. split.
  - intros [p' [Hp H]]. apply in_flat_map in H. destruct H as [X' [HX H]].
    apply in_map_iff in H. destruct H as [q' [E Hq]]. injection E as -> -> ->. auto.
  - intros [Hp [HX Hq]]. exists p. split; [exact Hp|]. apply in_flat_map.
    exists X. split; [exact HX|]. apply in_map_iff. exists q. split; [reflexivity|exact Hq].
Qed.

(* the first triple of l named Z by g *)
Definition find3 (g : nat -> nat -> nat -> nat) (l : list (nat * nat * nat)) (Z : nat) :
  option (nat * nat * nat) :=
  find (fun t => Nat.eqb (g (fst (fst t)) (snd (fst t)) (snd t)) Z) l.

Lemma find3_some g l Z t :
  find3 g l Z = Some t -> In t l /\ Z = g (fst (fst t)) (snd (fst t)) (snd t).
Proof.
  intros E. apply find_some in E. destruct E as [Hin E]. apply Nat.eqb_eq in E.
  split; [exact Hin|symmetry; exact E].
Qed.

Lemma find3_none g l Z :
  find3 g l Z = None -> forall p X q, In (p, X, q) l -> Z <> g p X q.
Proof.
  intros E p X q Hin EZ. pose proof (find_none _ _ E (p, X, q) Hin) as H.
  cbn [fst snd] in H. rewrite <- EZ, Nat.eqb_refl in H. discriminate H.
Qed.

Lemma find3_in g l p X q :
  (forall p X q p' X' q', g p X q = g p' X' q' -> p = p' /\ X = X' /\ q = q') ->
  In (p, X, q) l -> find3 g l (g p X q) = Some (p, X, q).
Proof.
  intros Hinj Hin. destruct (find3 g l (g p X q)) as [t|] eqn:E.
  - apply find3_some in E. destruct E as [_ E]. destruct t as [[p' X'] q']. cbn [fst snd] in E.
    apply Hinj in E. destruct E as [-> [-> ->]]. reflexivity.
  - exfalso. exact (find3_none g l _ E p X q Hin eq_refl).
Qed.

Section BarHillelProofs.
Variable S : SR.
Add Ring BHRing : (sth S).

(* ====================================================================== *)
(* 1. path weights: the splitting lemma                                   *)
(* ====================================================================== *)

Section Paths.
Variable arcs : list (larc S).
Variable states : list nat.
Hypothesis Hnd : NoDup states.
Hypothesis Hdst : forall x, In x arcs -> In (adst x) states.

Lemma Tw_nil_nil p q : Tw arcs p q [] [] = if Nat.eqb p q then 1 else 0.
Proof. reflexivity. Qed.

Lemma Tw_cons_cons p q a xs b ys :
  Tw arcs p q (a :: xs) (b :: ys)
  = bsum arcs (fun x => if Nat.eqb (asrc x) p && Nat.eqb (ain x) a && Nat.eqb (aout x) b
                        then awt x * Tw arcs (adst x) q xs ys else 0).
Proof. reflexivity. Qed.

Lemma Tw_nil_cons p q b ys : Tw arcs p q [] (b :: ys) = 0.
Proof. reflexivity. Qed.

Lemma Tw_cons_nil p q a xs : Tw arcs p q (a :: xs) [] = 0.
Proof. reflexivity. Qed.

(* the machine is letter-to-letter *)
Lemma Tw_len q : forall xs ys p, length xs <> length ys -> Tw arcs p q xs ys = 0.
Proof.
  induction xs as [|a xs IH]; intros ys p Hl.
  - destruct ys as [|b ys]; [exfalso; apply Hl; reflexivity|reflexivity].
  - destruct ys as [|b ys]; [reflexivity|].
    rewrite Tw_cons_cons. apply bsum_zero; intros x _.
    destruct (Nat.eqb (asrc x) p && Nat.eqb (ain x) a && Nat.eqb (aout x) b); [|reflexivity].
    rewrite IH; [ring|]. cbn [length] in Hl. lia.
Qed.

Lemma bsum_states_delta p (g : nat -> S) :
  In p states -> bsum states (fun r => (if Nat.eqb p r then 1 else 0) * g r) = g p.
Proof.
  intros Hp. rewrite (bsum_single S states p _ Hnd Hp).
  - rewrite Nat.eqb_refl. ring.
  - intros c Hc. replace (Nat.eqb p c) with false by (symmetry; apply Nat.eqb_neq; congruence). ring.
Qed.

(* a path for (xs1 ++ xs2, ys1 ++ ys2) with |xs1| = |ys1| passes through a middle state *)
Lemma Tw_app q xs2 ys2 : forall xs1 ys1 p,
  In p states -> length xs1 = length ys1 ->
  Tw arcs p q (xs1 ++ xs2) (ys1 ++ ys2)
  = bsum states (fun r => Tw arcs p r xs1 ys1 * Tw arcs r q xs2 ys2).
Proof.
  induction xs1 as [|a xs1 IH]; intros ys1 p Hp Hl.
  - destruct ys1 as [|b ys1]; [|discriminate Hl]. cbn [app].
    rewrite (bsum_ext S states _ (fun r => (if Nat.eqb p r then 1 else 0) * Tw arcs r q xs2 ys2))
      by (intros r _; reflexivity).
    rewrite bsum_states_delta by exact Hp. reflexivity.
  - destruct ys1 as [|b ys1]; [discriminate Hl|]. cbn [app].
    rewrite Tw_cons_cons.
    rewrite (bsum_ext S states _
               (fun r => bsum arcs (fun x =>
                  if Nat.eqb (asrc x) p && Nat.eqb (ain x) a && Nat.eqb (aout x) b
                  then awt x * (Tw arcs (adst x) r xs1 ys1 * Tw arcs r q xs2 ys2) else 0))).
    2:{ intros r _. rewrite Tw_cons_cons, <- bsum_mul_r. apply bsum_ext; intros x _.
        destruct (Nat.eqb (asrc x) p && Nat.eqb (ain x) a && Nat.eqb (aout x) b); ring. }
    rewrite bsum_swap. apply bsum_ext; intros x Hx.
    destruct (Nat.eqb (asrc x) p && Nat.eqb (ain x) a && Nat.eqb (aout x) b).
    + rewrite bsum_mul_l. f_equal. apply IH; [apply Hdst; exact Hx|].
      cbn [length] in Hl. lia.
    + symmetry. apply bsum_const_zero.
Qed.

End Paths.

(* ====================================================================== *)
(* 2. re-indexing words of a fixed length                                 *)
(* ====================================================================== *)

Lemma words_eq_add (V : list nat) : forall n1 n2 (g : list nat -> S),
  bsum (words_eq V (n1 + n2)) g
  = bsum (words_eq V n1) (fun a => bsum (words_eq V n2) (fun b => g (a ++ b))).
Proof.
  induction n1 as [|n1 IH]; intros n2 g.
  - cbn [Nat.add]. change (words_eq V 0) with [@nil nat]. rewrite bsum_cons, bsum_nil.
    cbn [app]. change (fun b => g b) with g. ring.
  - cbn [Nat.add]. rewrite !bsum_words_eq_S. apply bsum_ext; intros c _.
    rewrite (IH n2 (fun w => g (c :: w))). reflexivity.
Qed.

(* pairs of words whose lengths follow a cut of ys  against  cuts of a word of length |ys| *)
Lemma words_split (V : list nat) : forall (ys : list nat) (H : list nat -> list nat -> S),
  bsum (splits ys) (fun s =>
    bsum (words_eq V (length (fst s))) (fun x1 =>
      bsum (words_eq V (length (snd s))) (fun x2 => H x1 x2)))
  = bsum (words_eq V (length ys)) (fun xs => bsum (splits xs) (fun t => H (fst t) (snd t))).
Proof.
  induction ys as [|b ys IH]; intros H.
  - cbn [splits length]. change (words_eq V 0) with [@nil nat].
    rewrite !bsum_cons, !bsum_nil. cbn [fst snd length splits].
    change (words_eq V 0) with [@nil nat].
    rewrite !bsum_cons, !bsum_nil. cbn [fst snd]. ring.
  - cbn [splits]. rewrite bsum_cons, bsum_map. cbn [fst snd length].
    change (words_eq V 0) with [@nil nat]. rewrite bsum_cons, bsum_nil.
    rewrite !bsum_words_eq_S.
    rewrite (bsum_ext S V
               (fun c => bsum (words_eq V (length ys))
                           (fun w => bsum (splits (c :: w)) (fun t => H (fst t) (snd t))))
               (fun c => bsum (words_eq V (length ys)) (fun w => H [] (c :: w))
                         + bsum (words_eq V (length ys))
                             (fun w => bsum (splits w) (fun t => H (c :: fst t) (snd t))))).
    2:{ intros c _. rewrite <- bsum_add. apply bsum_ext; intros w _.
        cbn [splits]. rewrite bsum_cons, bsum_map. cbn [fst snd]. reflexivity. }
    rewrite bsum_add.
    rewrite (bsum_ext S (splits ys)
               (fun a => bsum (words_eq V (Sn (length (fst a))))
                           (fun x1 => bsum (words_eq V (length (snd a))) (fun x2 => H x1 x2)))
               (fun a => bsum V (fun c => bsum (words_eq V (length (fst a)))
                           (fun w => bsum (words_eq V (length (snd a))) (fun x2 => H (c :: w) x2))))).
    2:{ intros a _. rewrite bsum_words_eq_S. reflexivity. }
    rewrite (bsum_swap S (splits ys) V
               (fun a c => bsum (words_eq V (length (fst a)))
                           (fun w => bsum (words_eq V (length (snd a))) (fun x2 => H (c :: w) x2)))).
    rewrite (bsum_ext S V
               (fun c => bsum (splits ys) (fun a => bsum (words_eq V (length (fst a)))
                           (fun w => bsum (words_eq V (length (snd a))) (fun x2 => H (c :: w) x2))))
               (fun c => bsum (words_eq V (length ys))
                           (fun w => bsum (splits w) (fun t => H (c :: fst t) (snd t))))).
    2:{ intros c _. apply (IH (fun x1 x2 => H (c :: x1) x2)). }
    ring.
Qed.

(* ====================================================================== *)
(* 3b. Tw and Mrel are the path sums trelf / trel of model/Fst.v          *)
(* ====================================================================== *)

Section Bridge.
Variables init fin : list (nat * S).
Variable arcs : list (larc S).

(* the letter-to-letter machine as a transducer of model/Fst.v *)
Definition lift_arc (x : larc S) : tarc S := (asrc x, Some (ain x), Some (aout x), adst x, awt x).
Definition lift_fst : fst_t S := mkT init fin (map lift_arc arcs).

Lemma trelf_lift : forall xs fuel p ys,
  length xs <= fuel ->
  trelf lift_fst fuel p xs ys = bsum fin (fun k => snd k * Tw arcs p (fst k) xs ys).
Proof.
  induction xs as [|a xs IH]; intros fuel p ys Hl.
  - assert (Hz : match fuel with
                 | O => 0
                 | Sn f0 => bsum (tarcs lift_fst) (arcterm S lift_fst f0 p [] ys)
                 end = 0).
    { destruct fuel as [|f0]; [reflexivity|]. apply bsum_zero; intros x Hx.
      cbn [lift_fst tarcs] in Hx. apply in_map_iff in Hx. destruct Hx as [x0 [<- _]].
      apply (arcterm_in_nil S lift_fst f0 p (ain x0) ys). reflexivity. }
    transitivity ((match ys with [] => fget (tfinal lift_fst) p | _ :: _ => 0 end) + 0).
    { destruct fuel as [|f0].
      - rewrite trelf_O. reflexivity.
      - rewrite trelf_S. rewrite <- Hz. reflexivity. }
    destruct ys as [|b ys].
    + cbn [lift_fst tfinal]. unfold fget.
      transitivity (bsum fin (fun e => if Nat.eqb p (fst e) then snd e else 0)); [ring|].
      apply bsum_ext; intros k _. rewrite Tw_nil_nil. destruct (Nat.eqb p (fst k)); ring.
    + transitivity (0 : S); [ring|]. symmetry. apply bsum_zero; intros k _.
      rewrite Tw_nil_cons. ring.
  - destruct fuel as [|f0]; [cbn [length] in Hl; lia|].
    rewrite trelf_S_cons_l. cbn [lift_fst tarcs]. rewrite bsum_map.
    destruct ys as [|b ys].
    + transitivity (0 : S).
      * apply bsum_zero; intros x _. unfold lift_arc. rewrite arcterm_mk.
        destruct (Nat.eqb (asrc x) p); [|reflexivity].
        rewrite eat_some_nil. destruct (eat (Some (ain x)) (a :: xs)); reflexivity.
      * symmetry. apply bsum_zero; intros k _. rewrite Tw_cons_nil. ring.
    + transitivity (bsum arcs (fun x => bsum fin (fun k =>
                      snd k * (if Nat.eqb (asrc x) p && Nat.eqb (ain x) a && Nat.eqb (aout x) b
                               then awt x * Tw arcs (adst x) (fst k) xs ys else 0)))).
      * apply bsum_ext; intros x _. unfold lift_arc. rewrite arcterm_mk, !eat_some_cons.
        destruct (Nat.eqb (asrc x) p); destruct (Nat.eqb (ain x) a); destruct (Nat.eqb (aout x) b);
          cbn [andb]; try (symmetry; apply bsum_zero; intros k _; ring).
        fold lift_fst. rewrite (IH f0 (adst x) ys) by (cbn [length] in Hl; lia).
        rewrite <- bsum_mul_l. apply bsum_ext; intros k _. ring.
      * rewrite bsum_swap. apply bsum_ext; intros k _. rewrite Tw_cons_cons, bsum_mul_l. reflexivity.
Qed.

(* the relation of the machine, as soon as the fuel covers the input *)
Theorem trel_lift fuel xs ys :
  length xs <= fuel -> trel lift_fst fuel xs ys = Mrel init fin arcs xs ys.
Proof.
  intros Hl. unfold trel, Mrel. cbn [lift_fst tinit]. apply bsum_ext; intros i _.
  fold lift_fst. rewrite (trelf_lift xs fuel (fst i) ys Hl), <- bsum_mul_l.
  apply bsum_ext; intros k _. ring.
Qed.

End Bridge.

(* ====================================================================== *)
(* 3. the product grammar                                                 *)
(* ====================================================================== *)

Inductive code := CS | CN (p X q : nat) | CT (p a q : nat) | CX.

Section Main.
Variables (nt tm : nat -> nat -> nat -> nat) (s' : nat).
Variable states : list nat.
Variables init fin : list (nat * S).
Variable arcs : list (larc S).
Variable G : grammar S.
Variable start : nat.
Variable V : list nat.
Variable f : nat -> list nat -> S.

(* the naming of the product nonterminals is injective *)
Hypothesis nt_inj : forall p X q p' X' q', nt p X q = nt p' X' q' -> p = p' /\ X = X' /\ q = q'.
Hypothesis tm_inj : forall p a q p' a' q', tm p a q = tm p' a' q' -> p = p' /\ a = a' /\ q = q'.
Hypothesis nt_tm : forall p X q p' a q', nt p X q <> tm p' a q'.
Hypothesis nt_s : forall p X q, nt p X q <> s'.
Hypothesis tm_s : forall p a q, tm p a q <> s'.
(* the states of the machine and the input alphabet *)
Hypothesis Hnd : NoDup states.
Hypothesis HV : NoDup V.
Hypothesis Harcs : forall x, In x arcs -> In (asrc x) states /\ In (adst x) states /\ In (ain x) V.
Hypothesis Hinit : forall i, In i init -> In (fst i) states.
Hypothesis Hfin : forall k, In k fin -> In (fst k) states.
(* the terminals of the grammar are input symbols *)
Hypothesis HGV : forall r a, In r G -> In (T a) (rbody r) -> In a V.
(* f is a solution of the equations of G *)
Hypothesis Hf : solves S G f.

Lemma Hdst : forall x, In x arcs -> In (adst x) states.
Proof. intros x Hx. destruct (Harcs x Hx) as [_ [H _]]. exact H. Qed.

(* ---- the valuation of the product grammar ------------------------------ *)

(* sum over xs of  f X xs * (weight of the paths p -> q for (xs, ys)) *)
Definition FN (p X q : nat) (ys : list nat) : S :=
  bsum (words_eq V (length ys)) (fun xs => f X xs * Tw arcs p q xs ys).

Definition LN : list (nat * nat * nat) := triples states (map rhead G) states.
Definition LT : list (nat * nat * nat) := triples states V states.

Definition decode (Z : nat) : code :=
  if Nat.eqb Z s' then CS else
  match find3 nt LN Z with
  | Some t => CN (fst (fst t)) (snd (fst t)) (snd t)
  | None => match find3 tm LT Z with
            | Some t => CT (fst (fst t)) (snd (fst t)) (snd t)
            | None => CX
            end
  end.

Definition Fv (Z : nat) (ys : list nat) : S :=
  match decode Z with
  | CS => bsum init (fun i => bsum fin (fun k => snd i * snd k * FN (fst i) start (fst k) ys))
  | CN p X q => FN p X q ys
  | CT p a q => Tw arcs p q [a] ys
  | CX => 0
  end.

Lemma eqb_false_of_neq a b : a <> b -> Nat.eqb a b = false.
Proof. intros H. apply Nat.eqb_neq. exact H. Qed.

Lemma decode_s : decode s' = CS.
Proof. unfold decode. rewrite Nat.eqb_refl. reflexivity. Qed.

Lemma decode_nt p X q :
  In p states -> In X (map rhead G) -> In q states -> decode (nt p X q) = CN p X q.
Proof.
  intros Hp HX Hq. unfold decode. rewrite (eqb_false_of_neq _ _ (nt_s p X q)).
  rewrite (find3_in nt LN p X q nt_inj) by (apply in_triples; auto). reflexivity.
Qed.

Lemma decode_nt_nohead p X q : ~ In X (map rhead G) -> decode (nt p X q) = CX.
Proof.
  intros HX. unfold decode. rewrite (eqb_false_of_neq _ _ (nt_s p X q)).
  destruct (find3 nt LN (nt p X q)) as [t|] eqn:E1.
  - exfalso. apply find3_some in E1. destruct t as [[p' X'] q']. cbn [fst snd] in E1.
    destruct E1 as [Hin E]. apply nt_inj in E. destruct E as [-> [-> ->]].
    apply in_triples in Hin. apply HX. tauto.
  - destruct (find3 tm LT (nt p X q)) as [t|] eqn:E2; [|reflexivity].
    exfalso. apply find3_some in E2. destruct E2 as [_ E]. exact (nt_tm _ _ _ _ _ _ E).
Qed.

Lemma decode_tm p a q :
  In p states -> In a V -> In q states -> decode (tm p a q) = CT p a q.
Proof.
  intros Hp Ha Hq. unfold decode. rewrite (eqb_false_of_neq _ _ (tm_s p a q)).
  destruct (find3 nt LN (tm p a q)) as [t|] eqn:E1.
  - exfalso. apply find3_some in E1. destruct E1 as [_ E]. symmetry in E.
    exact (nt_tm _ _ _ _ _ _ E).
  - rewrite (find3_in tm LT p a q tm_inj) by (apply in_triples; auto). reflexivity.
Qed.

Lemma decode_CS Z : decode Z = CS -> Z = s'.
Proof.
  unfold decode. destruct (Nat.eqb_spec Z s') as [E|E]; [intros _; exact E|].
  destruct (find3 nt LN Z); [discriminate|]. destruct (find3 tm LT Z); discriminate.
Qed.

Lemma decode_CN Z p X q :
  decode Z = CN p X q -> Z = nt p X q /\ In p states /\ In X (map rhead G) /\ In q states.
Proof.
  unfold decode. destruct (Nat.eqb_spec Z s') as [E|E]; [discriminate|].
  destruct (find3 nt LN Z) as [t|] eqn:E1.
  - intros H. injection H as <- <- <-. apply find3_some in E1. destruct E1 as [Hin E1].
    split; [exact E1|]. destruct t as [[p' X'] q']. apply in_triples in Hin. exact Hin.
  - destruct (find3 tm LT Z); discriminate.
Qed.

Lemma decode_CT Z p a q :
  decode Z = CT p a q -> Z = tm p a q /\ In p states /\ In a V /\ In q states.
Proof.
  unfold decode. destruct (Nat.eqb_spec Z s') as [E|E]; [discriminate|].
  destruct (find3 nt LN Z) as [t|] eqn:E1; [discriminate|].
  destruct (find3 tm LT Z) as [t|] eqn:E2; [|discriminate].
  intros H. injection H as <- <- <-. apply find3_some in E2. destruct E2 as [Hin E2].
  split; [exact E2|]. destruct t as [[p' a'] q']. apply in_triples in Hin. exact Hin.
Qed.

Lemma decode_CX Z :
  decode Z = CX ->
  Z <> s' /\
  (forall p X q, In p states -> In X (map rhead G) -> In q states -> Z <> nt p X q) /\
  (forall p a q, In p states -> In a V -> In q states -> Z <> tm p a q).
Proof.
  unfold decode. destruct (Nat.eqb_spec Z s') as [E|E]; [discriminate|].
  destruct (find3 nt LN Z) as [t|] eqn:E1; [discriminate|].
  destruct (find3 tm LT Z) as [t|] eqn:E2; [discriminate|]. intros _.
  split; [exact E|split].
  - intros p X q Hp HX Hq. apply (find3_none nt LN Z E1). apply in_triples. auto.
  - intros p a q Hp Ha Hq. apply (find3_none tm LT Z E2). apply in_triples. auto.
Qed.

Lemma Fv_s ys :
  Fv s' ys = bsum init (fun i => bsum fin (fun k => snd i * snd k * FN (fst i) start (fst k) ys)).
Proof. unfold Fv. rewrite decode_s. reflexivity. Qed.

(* the triples (p, X, q): X need not be a head of G (then both sides are zero) *)
Lemma Fv_nt p X q ys : In p states -> In q states -> Fv (nt p X q) ys = FN p X q ys.
Proof.
  intros Hp Hq. unfold Fv. destruct (in_dec Nat.eq_dec X (map rhead G)) as [HX|HX].
  - rewrite (decode_nt p X q Hp HX Hq). reflexivity.
  - rewrite (decode_nt_nohead p X q HX). symmetry. unfold FN. apply bsum_zero; intros xs _.
    rewrite (solves_nohead S G f X xs Hf); [ring|].
    intros r Hr E. apply HX. rewrite <- E. apply in_map. exact Hr.
Qed.

Lemma Fv_tm p a q ys :
  In p states -> In a V -> In q states -> Fv (tm p a q) ys = Tw arcs p q [a] ys.
Proof. intros Hp Ha Hq. unfold Fv. rewrite (decode_tm p a q Hp Ha Hq). reflexivity. Qed.

(* ---- the items of a threaded body --------------------------------------- *)

Definition icode (p : nat) (y : sym) (r : nat) : nat :=
  match y with T a => tm p a r | N X => nt p X r end.

Lemma item_icode p y r : item nt tm p y r = N (icode p y r).
Proof. destruct y; reflexivity. Qed.

(* an input terminal read between p and r *)
Lemma Tw_single p r a ys :
  In a V ->
  bsum (words_eq V (length ys)) (fun xs => Wb f [T a] xs * Tw arcs p r xs ys) = Tw arcs p r [a] ys.
Proof.
  intros Ha. destruct ys as [|b [|b' ys]].
  - cbn [length]. change (words_eq V 0) with [@nil nat]. rewrite bsum_cons, bsum_nil.
    rewrite Wb_T1, Tw_cons_nil. ring.
  - cbn [length]. rewrite bsum_words_eq_S. change (words_eq V 0) with [@nil nat].
    rewrite (bsum_single S V a _ HV Ha).
    + rewrite bsum_cons, bsum_nil, Wb_T1, Nat.eqb_refl. ring.
    + intros c Hc. rewrite bsum_cons, bsum_nil, Wb_T1.
      rewrite (eqb_false_of_neq a c) by congruence. ring.
  - rewrite (Tw_len arcs r [a] (b :: b' :: ys) p) by (cbn [length]; lia).
    apply bsum_zero; intros xs Hxs. apply words_eq_spec in Hxs. destruct Hxs as [Hl _].
    rewrite Wb_T1. destruct xs as [|c [|c' xs]]; try ring. cbn [length] in Hl. lia.
Qed.

(* the value of the item of y between p and r *)
Lemma Fv_item p y r ys :
  In p states -> In r states -> (forall a, y = T a -> In a V) ->
  Fv (icode p y r) ys
  = bsum (words_eq V (length ys)) (fun xs => Wb f [y] xs * Tw arcs p r xs ys).
Proof.
  intros Hp Hr Hy. destruct y as [a|X]; cbn [icode].
  - rewrite (Fv_tm p a r ys Hp (Hy a eq_refl) Hr). symmetry. apply Tw_single. exact (Hy a eq_refl).
  - rewrite (Fv_nt p X r ys Hp Hr). unfold FN. apply bsum_ext; intros xs _.
    rewrite Wb_N1. reflexivity.
Qed.

Lemma expand_nil p : expand nt tm states p [] = [(p, [])].
Proof. reflexivity. Qed.

Lemma expand_cons p y rest :
  expand nt tm states p (y :: rest)
  = flat_map (fun r => map (fun e => (fst e, item nt tm p y r :: snd e))
                           (expand nt tm states r rest)) states.
Proof. reflexivity. Qed.

(* the threadings end in a state *)
Lemma expand_end : forall body p e,
  In p states -> In e (expand nt tm states p body) -> In (fst e) states.
Proof.
  induction body as [|y rest IH]; intros p e Hp He.
  - rewrite expand_nil in He. destruct He as [<-|[]]. exact Hp.
  - rewrite expand_cons in He. apply in_flat_map in He. destruct He as [r [Hr He]].
    apply in_map_iff in He. destruct He as [e' [<- He']]. cbn [fst].
    exact (IH r e' Hr He').
Qed.

(* ---- the key lemma ------------------------------------------------------ *)

(* the threadings of a body from p to q  against  the input words *)
Lemma key_lemma q : forall body p ys,
  In p states -> (forall a, In (T a) body -> In a V) ->
  bsum (expand nt tm states p body) (fun e => if Nat.eqb (fst e) q then Wb Fv (snd e) ys else 0)
  = bsum (words_eq V (length ys)) (fun xs => Wb f body xs * Tw arcs p q xs ys).
Proof.
  induction body as [|y rest IH]; intros p ys Hp Hb.
  - rewrite expand_nil, bsum_cons, bsum_nil. cbn [fst snd].
    destruct ys as [|b ys].
    + cbn [length]. change (words_eq V 0) with [@nil nat]. rewrite bsum_cons, bsum_nil.
      rewrite Tw_nil_nil. cbn [Wb]. destruct (Nat.eqb p q); ring.
    + cbn [length]. rewrite bsum_words_eq_S.
      rewrite (bsum_zero S V).
      * cbn [Wb]. destruct (Nat.eqb p q); ring.
      * intros c _. apply bsum_zero; intros w _. cbn [Wb]. ring.
  - assert (Hrest : forall a, In (T a) rest -> In a V) by (intros a Ha; apply Hb; right; exact Ha).
    assert (Hy : forall a, y = T a -> In a V) by (intros a ->; apply Hb; left; reflexivity).
    rewrite expand_cons, bsum_flat_map.
    (* step 1: use the induction hypothesis and the values of the items *)
    transitivity (bsum states (fun r => bsum (splits ys) (fun s =>
                    bsum (words_eq V (length (fst s))) (fun x1 => Wb f [y] x1 * Tw arcs p r x1 (fst s))
                    * bsum (words_eq V (length (snd s))) (fun x2 => Wb f rest x2 * Tw arcs r q x2 (snd s))))).
    { apply bsum_ext; intros r Hr. rewrite bsum_map. cbn [fst snd].
      transitivity (bsum (expand nt tm states r rest) (fun e => bsum (splits ys) (fun s =>
                      Fv (icode p y r) (fst s) * (if Nat.eqb (fst e) q then Wb Fv (snd e) (snd s) else 0)))).
      { apply bsum_ext; intros e _. rewrite item_icode. destruct (Nat.eqb (fst e) q).
        - reflexivity.
        - symmetry. apply bsum_zero; intros s _. ring. }
      rewrite bsum_swap. apply bsum_ext; intros s _.
      rewrite bsum_mul_l, (IH r (snd s) Hr Hrest), (Fv_item p y r (fst s) Hp Hr Hy). reflexivity. }
    (* step 2: the paths through the middle state *)
    transitivity (bsum (splits ys) (fun s =>
                    bsum (words_eq V (length (fst s))) (fun x1 =>
                      bsum (words_eq V (length (snd s))) (fun x2 =>
                        (fun a b => Wb f [y] a * Wb f rest b * Tw arcs p q (a ++ b) ys) x1 x2)))).
    { rewrite bsum_swap. apply bsum_ext; intros s Hs.
      rewrite (bsum_ext S states _ (fun r =>
                 bsum (words_eq V (length (fst s))) (fun x1 =>
                   bsum (words_eq V (length (snd s))) (fun x2 =>
                     (Wb f [y] x1 * Tw arcs p r x1 (fst s)) * (Wb f rest x2 * Tw arcs r q x2 (snd s))))))
        by (intros r _; apply bsum_bsum_mul).
      rewrite (bsum_swap S states (words_eq V (length (fst s)))).
      apply bsum_ext; intros x1 Hx1.
      rewrite (bsum_swap S states (words_eq V (length (snd s)))).
      apply bsum_ext; intros x2 _. cbv beta.
      apply words_eq_spec in Hx1. destruct Hx1 as [Hl1 _].
      rewrite <- (splits_app ys s Hs) at 1.
      rewrite (Tw_app arcs states Hnd Hdst q x2 (snd s) x1 (fst s) p Hp Hl1).
      rewrite <- bsum_mul_l. apply bsum_ext; intros r _. ring. }
    (* step 3: re-index the pairs of words *)
    rewrite (words_split V ys (fun a b => Wb f [y] a * Wb f rest b * Tw arcs p q (a ++ b) ys)).
    apply bsum_ext; intros xs _.
    change (y :: rest) with ([y] ++ rest). rewrite Wb_app, <- bsum_mul_r.
    apply bsum_ext; intros t Ht. rewrite (splits_app xs t Ht). reflexivity.
Qed.

(* ---- the three groups of rules ------------------------------------------ *)

Lemma eqb_nt p X q p' X' q' :
  Nat.eqb (nt p X q) (nt p' X' q') = Nat.eqb p p' && Nat.eqb X X' && Nat.eqb q q'.
Proof.
  destruct (Nat.eqb_spec (nt p X q) (nt p' X' q')) as [E|E].
  - apply nt_inj in E. destruct E as [-> [-> ->]]. rewrite !Nat.eqb_refl. reflexivity.
  - destruct (Nat.eqb_spec p p') as [E1|E1]; [|reflexivity].
    destruct (Nat.eqb_spec X X') as [E2|E2]; [|reflexivity].
    destruct (Nat.eqb_spec q q') as [E3|E3]; [|reflexivity].
    exfalso. apply E. congruence.
Qed.

Lemma eqb_tm p a q p' a' q' :
  Nat.eqb (tm p a q) (tm p' a' q') = Nat.eqb p p' && Nat.eqb a a' && Nat.eqb q q'.
Proof.
  destruct (Nat.eqb_spec (tm p a q) (tm p' a' q')) as [E|E].
  - apply tm_inj in E. destruct E as [-> [-> ->]]. rewrite !Nat.eqb_refl. reflexivity.
  - destruct (Nat.eqb_spec p p') as [E1|E1]; [|reflexivity].
    destruct (Nat.eqb_spec a a') as [E2|E2]; [|reflexivity].
    destruct (Nat.eqb_spec q q') as [E3|E3]; [|reflexivity].
    exfalso. apply E. congruence.
Qed.

Lemma gstep_start (g : nat -> list nat -> S) Z ys :
  gstep S (bh_start nt s' init fin start) g Z ys
  = if Nat.eqb s' Z
    then bsum init (fun i => bsum fin (fun k => snd i * snd k * g (nt (fst i) start (fst k)) ys))
    else 0.
Proof.
  unfold gstep, bh_start. rewrite bsum_flat_map.
  destruct (Nat.eqb s' Z) eqn:E.
  - apply bsum_ext; intros i _. rewrite bsum_map. apply bsum_ext; intros k _.
    cbn [rhead rw rbody fst snd]. rewrite E, Wb_N1. reflexivity.
  - apply bsum_zero; intros i _. rewrite bsum_map. apply bsum_zero; intros k _.
    cbn [rhead fst snd]. rewrite E. reflexivity.
Qed.

Lemma gstep_rules (g : nat -> list nat -> S) Z ys :
  gstep S (bh_rules nt tm states G) g Z ys
  = bsum G (fun r => bsum states (fun p => bsum (expand nt tm states p (rbody r)) (fun e =>
      if Nat.eqb (nt p (rhead r) (fst e)) Z then rw r * Wb g (snd e) ys else 0))).
Proof.
  unfold gstep, bh_rules. rewrite bsum_flat_map. apply bsum_ext; intros r _.
  rewrite bsum_flat_map. apply bsum_ext; intros p _. rewrite bsum_map. reflexivity.
Qed.

Lemma gstep_arcs (g : nat -> list nat -> S) Z ys :
  gstep S (bh_arcs tm arcs) g Z ys
  = bsum arcs (fun x => if Nat.eqb (tm (asrc x) (ain x) (adst x)) Z
                        then awt x * Wb g [T (aout x)] ys else 0).
Proof. unfold gstep, bh_arcs. rewrite bsum_map. reflexivity. Qed.

(* ---- the theorem --------------------------------------------------------- *)

(* at a triple (p, X, q) *)
Lemma bh_solves_nt p X q ys :
  In p states -> In q states ->
  gstep S (bh_rules nt tm states G) Fv (nt p X q) ys = FN p X q ys.
Proof.
  intros Hp Hq. rewrite gstep_rules. unfold FN.
  transitivity (bsum G (fun r => bsum (words_eq V (length ys)) (fun xs =>
                  (if Nat.eqb (rhead r) X then rw r * Wb f (rbody r) xs else 0) * Tw arcs p q xs ys))).
  2:{ rewrite bsum_swap. apply bsum_ext; intros xs _. rewrite (Hf X xs). unfold gstep.
      rewrite bsum_mul_r. reflexivity. }
  apply bsum_ext; intros r Hr.
  rewrite (bsum_single S states p _ Hnd Hp).
  - destruct (Nat.eqb (rhead r) X) eqn:EX.
    + transitivity (rw r * bsum (expand nt tm states p (rbody r))
                                (fun e => if Nat.eqb (fst e) q then Wb Fv (snd e) ys else 0)).
      * rewrite <- bsum_mul_l. apply bsum_ext; intros e _.
        rewrite eqb_nt, Nat.eqb_refl, EX. cbn [andb]. destruct (Nat.eqb (fst e) q); ring.
      * rewrite (key_lemma q (rbody r) p ys Hp (fun a Ha => HGV r a Hr Ha)).
        rewrite <- bsum_mul_l. apply bsum_ext; intros xs _. ring.
    + transitivity (0 : S).
      * apply bsum_zero; intros e _. rewrite eqb_nt, EX, andb_false_r. reflexivity.
      * symmetry. apply bsum_zero; intros xs _. ring.
  - intros c Hc. apply bsum_zero; intros e _.
    rewrite eqb_nt, (eqb_false_of_neq c p Hc). reflexivity.
Qed.

(* at a terminal item (p, a, q) *)
Lemma bh_solves_tm p a q ys :
  gstep S (bh_arcs tm arcs) Fv (tm p a q) ys = Tw arcs p q [a] ys.
Proof.
  rewrite gstep_arcs. destruct ys as [|b [|b' ys]].
  - rewrite Tw_cons_nil. apply bsum_zero; intros x _. rewrite Wb_T1.
    destruct (Nat.eqb (tm (asrc x) (ain x) (adst x)) (tm p a q)); ring.
  - rewrite Tw_cons_cons. apply bsum_ext; intros x _.
    rewrite eqb_tm, Wb_T1, Tw_nil_nil.
    destruct (Nat.eqb (asrc x) p); destruct (Nat.eqb (ain x) a); destruct (Nat.eqb (adst x) q);
      destruct (Nat.eqb (aout x) b); cbn [andb]; ring.
  - rewrite (Tw_len arcs q [a] (b :: b' :: ys) p) by (cbn [length]; lia).
    apply bsum_zero; intros x _. rewrite Wb_T1.
    destruct (Nat.eqb (tm (asrc x) (ain x) (adst x)) (tm p a q)); ring.
Qed.

Theorem bar_hillel_solves :
  solves S (bar_hillel nt tm s' states init fin arcs G start) Fv.
Proof.
  intros Z ys. unfold bar_hillel. rewrite !gstep_app, gstep_start.
  destruct (decode Z) as [|p X q|p a q|] eqn:E.
  - (* the start symbol *)
    apply decode_CS in E. subst Z. rewrite Nat.eqb_refl, Fv_s.
    rewrite (gstep_nohead S (bh_rules nt tm states G)).
    2:{ intros r Hr. unfold bh_rules in Hr. apply in_flat_map in Hr. destruct Hr as [r0 [_ Hr]].
        apply in_flat_map in Hr. destruct Hr as [p [_ Hr]]. apply in_map_iff in Hr.
        destruct Hr as [e [<- _]]. cbn [rhead fst snd]. apply nt_s. }
    rewrite (gstep_nohead S (bh_arcs tm arcs)).
    2:{ intros r Hr. unfold bh_arcs in Hr. apply in_map_iff in Hr. destruct Hr as [x [<- _]].
        cbn [rhead fst snd]. apply tm_s. }
    transitivity (bsum init (fun i => bsum fin (fun k =>
                    snd i * snd k * Fv (nt (fst i) start (fst k)) ys))); [|ring].
    apply bsum_ext; intros i Hi. apply bsum_ext; intros k Hk.
    rewrite (Fv_nt (fst i) start (fst k) ys (Hinit i Hi) (Hfin k Hk)). reflexivity.
  - (* a triple *)
    apply decode_CN in E. destruct E as [-> [Hp [_ Hq]]].
    rewrite (Fv_nt p X q ys Hp Hq).
    rewrite (eqb_false_of_neq s' (nt p X q)) by (intros E; exact (nt_s p X q (eq_sym E))).
    rewrite (bh_solves_nt p X q ys Hp Hq).
    rewrite (gstep_nohead S (bh_arcs tm arcs)); [ring|].
    intros r Hr. unfold bh_arcs in Hr. apply in_map_iff in Hr. destruct Hr as [x [<- _]].
    cbn [rhead fst snd]. intros E. exact (nt_tm _ _ _ _ _ _ (eq_sym E)).
  - (* a terminal item *)
    apply decode_CT in E. destruct E as [-> [Hp [Ha Hq]]].
    rewrite (Fv_tm p a q ys Hp Ha Hq).
    rewrite (eqb_false_of_neq s' (tm p a q)) by (intros E; exact (tm_s p a q (eq_sym E))).
    rewrite (bh_solves_tm p a q ys).
    rewrite (gstep_nohead S (bh_rules nt tm states G)); [ring|].
    intros r Hr. unfold bh_rules in Hr. apply in_flat_map in Hr. destruct Hr as [r0 [_ Hr]].
    apply in_flat_map in Hr. destruct Hr as [p0 [_ Hr]]. apply in_map_iff in Hr.
    destruct Hr as [e [<- _]]. cbn [rhead fst snd]. apply nt_tm.
  - (* not a name of the product grammar: no rule *)
    assert (EF : Fv Z ys = 0) by (unfold Fv; rewrite E; reflexivity).
    apply decode_CX in E. destruct E as [Hs [Hn Ht]].
    rewrite EF, (eqb_false_of_neq s' Z) by (intros E; exact (Hs (eq_sym E))).
    rewrite (gstep_nohead S (bh_rules nt tm states G)).
    2:{ intros r Hr. unfold bh_rules in Hr. apply in_flat_map in Hr. destruct Hr as [r0 [Hr0 Hr]].
        apply in_flat_map in Hr. destruct Hr as [p0 [Hp0 Hr]]. apply in_map_iff in Hr.
        destruct Hr as [e [<- He]]. cbn [rhead fst snd]. intros EZ.
        apply (Hn p0 (rhead r0) (fst e) Hp0 (in_map rhead G r0 Hr0) (expand_end _ p0 e Hp0 He)).
        symmetry. exact EZ. }
    rewrite (gstep_nohead S (bh_arcs tm arcs)); [ring|].
    intros r Hr. unfold bh_arcs in Hr. apply in_map_iff in Hr. destruct Hr as [x [<- Hx]].
    cbn [rhead fst snd]. intros EZ. destruct (Harcs x Hx) as [H1 [H2 H3]].
    exact (Ht (asrc x) (ain x) (adst x) H1 H3 H2 (eq_sym EZ)).
Qed.

(* the start symbol of the product gives ys the weight
   sum over xs of  G(xs) * M(xs, ys) *)
Corollary bar_hillel_start_value ys :
  Fv s' ys = bsum (words_eq V (length ys)) (fun xs => f start xs * Mrel init fin arcs xs ys).
Proof.
  rewrite Fv_s. unfold FN, Mrel.
  transitivity (bsum init (fun i => bsum fin (fun k => bsum (words_eq V (length ys)) (fun xs =>
                  f start xs * (snd i * snd k * Tw arcs (fst i) (fst k) xs ys))))).
  { apply bsum_ext; intros i _. apply bsum_ext; intros k _. rewrite <- bsum_mul_l.
    apply bsum_ext; intros xs _. ring. }
  rewrite (bsum_swap3 S init fin (words_eq V (length ys))
             (fun i k xs => f start xs * (snd i * snd k * Tw arcs (fst i) (fst k) xs ys))).
  apply bsum_ext; intros xs _.
  rewrite <- bsum_mul_l. apply bsum_ext; intros i _. rewrite <- bsum_mul_l. reflexivity.
Qed.

(* the equation of the start symbol, read with the corollary *)
Corollary bar_hillel_start_equation ys :
  gstep S (bar_hillel nt tm s' states init fin arcs G start) Fv s' ys
  = bsum (words_eq V (length ys)) (fun xs => f start xs * Mrel init fin arcs xs ys).
Proof. rewrite <- (bar_hillel_solves s' ys). apply bar_hillel_start_value. Qed.

(* the same with the path-sum semantics trel of model/Fst.v *)
Corollary bar_hillel_start_trel ys fuel :
  length ys <= fuel ->
  Fv s' ys = bsum (words_eq V (length ys))
                  (fun xs => f start xs * trel (lift_fst init fin arcs) fuel xs ys).
Proof.
  intros Hl. rewrite bar_hillel_start_value. apply bsum_ext; intros xs Hxs.
  apply words_eq_spec in Hxs. destruct Hxs as [Hlx _].
  rewrite (trel_lift init fin arcs fuel xs ys) by lia. reflexivity.
Qed.

End Main.

(* instance: a height at which the derivation sums of G are stationary *)
Corollary bar_hillel_W_stationary :
  forall (nt tm : nat -> nat -> nat -> nat) (s' : nat) (states : list nat)
         (init fin : list (nat * S)) (arcs : list (larc S)) (G : grammar S) (start : nat)
         (V : list nat) (h : nat),
    (forall p X q p' X' q', nt p X q = nt p' X' q' -> p = p' /\ X = X' /\ q = q') ->
    (forall p a q p' a' q', tm p a q = tm p' a' q' -> p = p' /\ a = a' /\ q = q') ->
    (forall p X q p' a q', nt p X q <> tm p' a q') ->
    (forall p X q, nt p X q <> s') ->
    (forall p a q, tm p a q <> s') ->
    NoDup states -> NoDup V ->
    (forall x, In x arcs -> In (asrc x) states /\ In (adst x) states /\ In (ain x) V) ->
    (forall i, In i init -> In (fst i) states) ->
    (forall k, In k fin -> In (fst k) states) ->
    (forall r a, In r G -> In (T a) (rbody r) -> In a V) ->
    (forall X xs, W G (Sn h) X xs = W G h X xs) ->
    solves S (bar_hillel nt tm s' states init fin arcs G start)
             (Fv nt tm s' states init fin arcs G start V (W G h)).
Proof.
  intros nt tm s' states init fin arcs G start V h H1 H2 H3 H4 H5 H6 H7 H8 H9 H10 H11 Hst.
  apply bar_hillel_solves; try assumption.
  intros X xs. rewrite <- W_succ_gstep. symmetry. apply Hst.
Qed.

End BarHillelProofs.

(* ====================================================================== *)
(* 4. the hypotheses are satisfiable: a concrete instance                 *)
(* ====================================================================== *)

(* a naming of the triples by numbers: Cantor pairing, residues modulo 3 *)
Definition ex_nt (p X q : nat) : nat := 3 * Cantor.to_nat (p, Cantor.to_nat (X, q)).
Definition ex_tm (p a q : nat) : nat := 3 * Cantor.to_nat (p, Cantor.to_nat (a, q)) + 1.
Definition ex_s : nat := 2.

Lemma ex_nt_inj p X q p' X' q' : ex_nt p X q = ex_nt p' X' q' -> p = p' /\ X = X' /\ q = q'.
Proof.
  unfold ex_nt. intros E.
  assert (E1 : Cantor.to_nat (p, Cantor.to_nat (X, q)) = Cantor.to_nat (p', Cantor.to_nat (X', q'))) by lia.
  apply Cantor.to_nat_inj in E1. injection E1 as -> E2.
  apply (Cantor.to_nat_inj (X, q) (X', q')) in E2. injection E2 as -> ->. auto.
Qed.

Lemma ex_tm_inj p a q p' a' q' : ex_tm p a q = ex_tm p' a' q' -> p = p' /\ a = a' /\ q = q'.
Proof.
  unfold ex_tm. intros E.
  assert (E1 : Cantor.to_nat (p, Cantor.to_nat (a, q)) = Cantor.to_nat (p', Cantor.to_nat (a', q'))) by lia.
  apply Cantor.to_nat_inj in E1. injection E1 as -> E2.
  apply (Cantor.to_nat_inj (a, q) (a', q')) in E2. injection E2 as -> ->. auto.
Qed.

Section Instance.
Variable S : SR.
Add Ring BHInstRing : (sth S).

(* the grammar  S -> a S | b   (S = 0, a = 0, b = 1), all weights one *)
Definition mk_rule (w : S) (h : nat) (b : list sym) : rule S := (w, h, b).
Definition ex_G : grammar S := [mk_rule 1 0 [T 0; N 0]; mk_rule 1 0 [T 1]].

(* xs = a^n b *)
Fixpoint anb (xs : list nat) : bool :=
  match xs with
  | [] => false
  | c :: t => match t with [] => Nat.eqb c 1 | _ :: _ => Nat.eqb c 0 && anb t end
  end.

Lemma anb_cons2 c d u : anb (c :: d :: u) = Nat.eqb c 0 && anb (d :: u).
Proof. reflexivity. Qed.

Definition ex_f (X : nat) (xs : list nat) : S :=
  if Nat.eqb X 0 then (if anb xs then 1 else 0) else 0.

Lemma ex_f_solves : solves S ex_G ex_f.
Proof.
  intros X xs. unfold gstep, ex_G. rewrite !bsum_cons, bsum_nil.
  unfold mk_rule. cbn [rhead rw rbody fst snd]. unfold ex_f at 1.
  destruct X as [|X]; cbn [Nat.eqb]; [|ring].
  destruct xs as [|c t].
  - cbn [anb Wb]. ring.
  - change (Wb ex_f [T 0; N 0] (c :: t)) with (if Nat.eqb 0 c then Wb ex_f [N 0] t else 0).
    rewrite Wb_N1, Wb_T1. unfold ex_f. cbn [Nat.eqb].
    destruct t as [|d u].
    + destruct c as [|[|c]]; cbn [anb Nat.eqb]; ring.
    + rewrite anb_cons2. destruct c as [|[|c]]; cbn [Nat.eqb andb]; destruct (anb (d :: u)); ring.
Qed.

(* a two-state machine: 0 -a:5/2-> 0, 0 -b:6/3-> 1, 0 -a:5/1-> 1, 1 -b:6/1-> 1, 1 -a:5/1-> 1 *)
Definition mk_arc (p a b q : nat) (w : S) : larc S := (p, a, b, q, w).
Definition mk_st (p : nat) (w : S) : nat * S := (p, w).
Definition ex_init : list (nat * S) := [mk_st 0 1].
Definition ex_fin : list (nat * S) := [mk_st 1 1].
Definition ex_arcs : list (larc S) :=
  [mk_arc 0 0 5 0 (1 + 1); mk_arc 0 1 6 1 (1 + 1 + 1); mk_arc 0 0 5 1 1; mk_arc 1 1 6 1 1;
   mk_arc 1 0 5 1 1].

Definition l01 : list nat := [0; 1]%nat.
Definition ex_bh : grammar S := bar_hillel ex_nt ex_tm ex_s l01 ex_init ex_fin ex_arcs ex_G 0.
Definition ex_Fv : nat -> list nat -> S :=
  Fv S ex_nt ex_tm ex_s l01 ex_init ex_fin ex_arcs ex_G 0 l01 ex_f.

Lemma NoDup_01 : NoDup l01.
Proof.
  constructor; [intros [E|[]]; discriminate E|]. constructor; [intros []|constructor].
Qed.

Example bar_hillel_instance : solves S ex_bh ex_Fv.
Proof.
  apply bar_hillel_solves.
  - exact ex_nt_inj.
  - exact ex_tm_inj.
  - intros p X q p' a q'. unfold ex_nt, ex_tm. lia.
  - intros p X q. unfold ex_nt, ex_s. lia.
  - intros p a q. unfold ex_tm, ex_s. lia.
  - exact NoDup_01.
  - exact NoDup_01.
  - intros x Hx. unfold ex_arcs in Hx.
    destruct Hx as [<-|[<-|[<-|[<-|[<-|[]]]]]]; cbn; tauto.
  - intros i [<-|[]]. cbn. tauto.
  - intros k [<-|[]]. cbn. tauto.
  - intros r a Hr Ha. unfold ex_G in Hr. destruct Hr as [<-|[<-|[]]]; unfold mk_rule in Ha; cbn [rbody snd] in Ha.
    + destruct Ha as [E|[E|[]]]; [injection E as <-; cbn; tauto|discriminate E].
    + destruct Ha as [E|[]]. injection E as <-. cbn; tauto.
  - exact ex_f_solves.
Qed.

End Instance.

(* one value computed on both sides over the naturals: the string 5 6 has the two input
   strings a b (paths 0-0-1 of weight 2*3 and 0-1-1 of weight 1*1); the third component is the
   derivation sum of the product grammar itself at height 5 *)
Example bar_hillel_instance_value :
  ex_Fv NSR ex_s [5; 6] = 7%N /\
  bsum (words_eq l01 2) (fun xs => ex_f NSR 0 xs * Mrel (ex_init NSR) (ex_fin NSR) (ex_arcs NSR) xs [5; 6])%sr
  = 7%N /\
  W (ex_bh NSR) 5 ex_s [5; 6] = 7%N.
Proof. vm_compute. repeat split; reflexivity. Qed.

Print Assumptions Tw_app.
Print Assumptions words_eq_add.
Print Assumptions words_split.
Print Assumptions key_lemma.
Print Assumptions bar_hillel_solves.
Print Assumptions bar_hillel_start_value.
Print Assumptions bar_hillel_start_equation.
Print Assumptions trel_lift.
Print Assumptions bar_hillel_start_trel.
Print Assumptions bar_hillel_W_stationary.
Print Assumptions bar_hillel_instance.
Print Assumptions bar_hillel_instance_value.
