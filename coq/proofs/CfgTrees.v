(* The height-bounded derivation sum W of model/Cfg.v is the sum of the weights of
   the enumerated derivation trees, and the enumeration [trees] is sound, complete
   and duplicate-free with respect to the well-formedness predicate [twf]. *)
From Coq Require Import List Arith Bool Lia Permutation.
From GV.lib Require Import Semiring BigSum.
From GV.model Require Import Cfg.
Import ListNotations.
Local Open Scope sr_scope.

Scheme tree_ind2 := Induction for tree Sort Prop with forest_ind2 := Induction for forest Sort Prop.
Combined Scheme tree_forest_ind from tree_ind2, forest_ind2.
Scheme twf_ind2 := Minimality for twf Sort Prop with fwf_ind2 := Minimality for fwf Sort Prop.
Combined Scheme twf_fwf_ind from twf_ind2, fwf_ind2.

(* ---------- generic list lemmas ---------- *)

Lemma list_eqb_nat_spec : forall a b : list nat, list_eqb Nat.eqb a b = true <-> a = b.
Proof.
  induction a as [|x a IH]; intros [|y b]; simpl; split; intros H;
    try reflexivity; try discriminate.
  - apply andb_true_iff in H. destruct H as [H1 H2].
    apply Nat.eqb_eq in H1. apply IH in H2. subst; reflexivity.
  - injection H as Hx Ha. subst y b. rewrite Nat.eqb_refl. simpl. apply IH. reflexivity.
Qed.

Lemma map_snd_combine_seq {A} (l : list A) s : map snd (combine (seq s (length l)) l) = l.
Proof.
  revert s; induction l as [|x l IH]; intros s; simpl; [reflexivity|].
  rewrite IH; reflexivity.
Qed.

Lemma in_combine_seq_nth {A} (l : list A) s i x :
  In (i, x) (combine (seq s (length l)) l) ->
  exists k, i = (s + k)%nat /\ nth_error l k = Some x.
Proof.
  revert s; induction l as [|y l IH]; intros s H; simpl in H; [contradiction|].
  destruct H as [H|H].
  - injection H as Hi Hx. subst i x. exists O. split; [lia|reflexivity].
  - apply IH in H. destruct H as [k [Hi Hk]]. subst i.
    exists (Datatypes.S k). split; [lia|exact Hk].
Qed.

Lemma nth_in_combine_seq {A} (l : list A) s k x :
  nth_error l k = Some x -> In ((s + k)%nat, x) (combine (seq s (length l)) l).
Proof.
  revert s k; induction l as [|y l IH]; intros s k H; destruct k as [|k];
    simpl in H; try discriminate.
  - injection H as Hx. subst y. simpl. left. f_equal. lia.
  - simpl. right.
    replace (s + Datatypes.S k)%nat with (Datatypes.S s + k)%nat by lia.
    apply IH; exact H.
Qed.

Lemma NoDup_map_inj {A B} (f : A -> B) l :
  (forall a b, f a = f b -> a = b) -> NoDup l -> NoDup (map f l).
Proof.
  intros Hinj H; induction H as [|a l Hn Hd IH]; simpl; constructor; [|exact IH].
  intros Hin. apply in_map_iff in Hin. destruct Hin as [b [Hb Hin]].
  apply Hinj in Hb. subst b. exact (Hn Hin).
Qed.

Lemma NoDup_app_intro {A} (l1 l2 : list A) :
  NoDup l1 -> NoDup l2 -> (forall x, In x l1 -> In x l2 -> False) -> NoDup (l1 ++ l2).
Proof.
  intros H1 H2; induction H1 as [|a l Hn Hd IH]; intros Hdis; simpl; [exact H2|].
  constructor.
  - intros Hin. apply in_app_or in Hin. destruct Hin as [Hin|Hin]; [exact (Hn Hin)|].
    apply (Hdis a); [left; reflexivity|exact Hin].
  - apply IH. intros x Hx1 Hx2. apply (Hdis x); [right; exact Hx1|exact Hx2].
Qed.

Lemma NoDup_flat_map_disj {A B} (g : A -> list B) l :
  NoDup l -> (forall a, In a l -> NoDup (g a)) ->
  (forall a b x, In a l -> In b l -> In x (g a) -> In x (g b) -> a = b) ->
  NoDup (flat_map g l).
Proof.
  intros H; induction H as [|a l Hn Hd IH]; intros Hg Hdis; simpl; [constructor|].
  apply NoDup_app_intro.
  - apply Hg; left; reflexivity.
  - apply IH.
    + intros b Hb. apply Hg; right; exact Hb.
    + intros b c x Hb Hc. apply Hdis; right; assumption.
  - intros x Hx1 Hx2. apply in_flat_map in Hx2. destruct Hx2 as [b [Hb Hx2]].
    assert (E : a = b).
    { apply (Hdis a b x); [left; reflexivity|right; exact Hb|exact Hx1|exact Hx2]. }
    subst b. exact (Hn Hb).
Qed.

Lemma NoDup_combine_l {A B} (l1 : list A) (l2 : list B) : NoDup l1 -> NoDup (combine l1 l2).
Proof.
  intros H; revert l2; induction H as [|a l Hn Hd IH]; intros l2.
  - simpl. constructor.
  - destruct l2 as [|b l2]; simpl; constructor.
    + intros Hin. apply in_combine_l in Hin. exact (Hn Hin).
    + apply IH.
Qed.

Section Trees.
Variable S : SR.
Add Ring SRing : (sth S).

(* ---------- 1. W is the sum of the tree weights ---------- *)

Lemma unique_split (u v xs : list nat) (c : S) :
  bsum (splits xs)
       (fun p => if list_eqb Nat.eqb u (fst p)
                 then (if list_eqb Nat.eqb v (snd p) then c else 0) else 0)
  = if list_eqb Nat.eqb (u ++ v) xs then c else 0.
Proof.
  revert u; induction xs as [|x t IH]; intros u.
  - simpl splits. rewrite bsum_cons, bsum_nil. simpl fst; simpl snd.
    destruct u as [|a u']; simpl; [destruct v; simpl; ring|ring].
  - simpl splits. rewrite bsum_cons, bsum_map. simpl fst; simpl snd.
    destruct u as [|a u'].
    + simpl. rewrite bsum_zero by (intros; reflexivity). ring.
    + simpl. destruct (Nat.eqb a x); simpl.
      * rewrite IH. ring.
      * rewrite bsum_zero by (intros; reflexivity). ring.
Qed.

Lemma split_conv {A B} (la : list A) (lb : list B) (ya : A -> list nat) (yb : B -> list nat)
      (wa : A -> S) (wb : B -> S) (xs : list nat) :
  bsum (splits xs)
       (fun p => bsum la (fun a => if list_eqb Nat.eqb (ya a) (fst p) then wa a else 0)
                 * bsum lb (fun b => if list_eqb Nat.eqb (yb b) (snd p) then wb b else 0))
  = bsum la (fun a => bsum lb (fun b =>
       if list_eqb Nat.eqb (ya a ++ yb b) xs then wa a * wb b else 0)).
Proof.
  transitivity (bsum (splits xs) (fun p => bsum la (fun a => bsum lb (fun b =>
     (if list_eqb Nat.eqb (ya a) (fst p) then wa a else 0)
     * (if list_eqb Nat.eqb (yb b) (snd p) then wb b else 0))))).
  { apply bsum_ext; intros p _. apply bsum_bsum_mul. }
  rewrite bsum_swap. apply bsum_ext; intros a _.
  rewrite bsum_swap. apply bsum_ext; intros b _.
  rewrite <- unique_split. apply bsum_ext; intros p _.
  destruct (list_eqb Nat.eqb (ya a) (fst p)); destruct (list_eqb Nat.eqb (yb b) (snd p)); ring.
Qed.

Lemma Wb_forests (tr : nat -> list (tree S)) (f : nat -> list nat -> S) :
  (forall Y ys, f Y ys = bsum (filter (yields ys) (tr Y)) tweight) ->
  forall body xs,
    Wb f body xs
    = bsum (filter (fun fo => list_eqb Nat.eqb (fyield fo) xs) (forests_of tr body)) fweight.
Proof.
  intros Hf. induction body as [|s rest IH]; intros xs.
  - simpl. destruct xs; simpl; rewrite ?bsum_cons, ?bsum_nil; cbn; ring.
  - destruct s as [a|Y].
    + cbn [forests_of]. rewrite bsum_filter, bsum_map. destruct xs as [|b xs']; cbn.
      * symmetry; apply bsum_zero; intros; reflexivity.
      * destruct (Nat.eqb a b); cbn.
        -- rewrite IH, bsum_filter. apply bsum_ext; intros fo _.
           destruct (list_eqb Nat.eqb (fyield fo) xs'); ring.
        -- symmetry; apply bsum_zero; intros; reflexivity.
    + simpl Wb. simpl forests_of. rewrite bsum_filter, bsum_flat_map.
      transitivity (bsum (tr Y) (fun t => bsum (forests_of tr rest) (fun fo =>
         if list_eqb Nat.eqb (tyield t ++ fyield fo) xs then tweight t * fweight fo else 0))).
      * rewrite <- split_conv. apply bsum_ext; intros p _.
        rewrite Hf, IH, !bsum_filter. reflexivity.
      * apply bsum_ext; intros t _. rewrite bsum_map. reflexivity.
Qed.

Lemma bsum_indexed (G : grammar S) (F : rule S -> S) :
  bsum (indexed S G) (fun ir => F (snd ir)) = bsum G F.
Proof.
  rewrite <- (bsum_map S (indexed S G) snd F). unfold indexed.
  rewrite map_snd_combine_seq. reflexivity.
Qed.

Theorem W_trees : forall (G : grammar S) (h X : nat) (xs : list nat),
  W G h X xs = bsum (filter (yields xs) (trees G h X)) tweight.
Proof.
  intros G h; induction h as [|h IH]; intros X xs; [reflexivity|].
  cbn [W trees]. rewrite bsum_filter, bsum_flat_map.
  rewrite <- bsum_indexed. apply bsum_ext; intros [i r] _. simpl fst; simpl snd.
  destruct (Nat.eqb (rhead r) X); [|reflexivity].
  rewrite bsum_map. rewrite (Wb_forests (trees G h) (W G h) IH).
  rewrite bsum_filter, <- bsum_mul_l.
  apply bsum_ext; intros fo _. unfold yields.
  change (tyield (Node i r fo)) with (fyield fo).
  change (tweight (Node i r fo)) with (rw r * fweight fo).
  destruct (list_eqb Nat.eqb (fyield fo) xs); ring.
Qed.

(* ---------- 2. soundness of the enumeration ---------- *)

Lemma fheight_nil : fheight (@Fnil S) = O. Proof. reflexivity. Qed.
Lemma fheight_cons (t : tree S) f : fheight (Fcons t f) = Nat.max (theight t) (fheight f).
Proof. reflexivity. Qed.
Lemma theight_leaf a : theight (@Leaf S a) = O. Proof. reflexivity. Qed.
Lemma theight_node i (r : rule S) k : theight (Node i r k) = Datatypes.S (fheight k).
Proof. reflexivity. Qed.

Lemma forests_sound (G : grammar S) (tr : nat -> list (tree S)) (h : nat) :
  (forall Y t, In t (tr Y) -> twf S G (N Y) t /\ theight t <= h) ->
  forall body fo, In fo (forests_of tr body) -> fwf S G body fo /\ fheight fo <= h.
Proof.
  intros Htr. induction body as [|s rest IHb]; intros fo Hin.
  - simpl in Hin. destruct Hin as [Hin|[]]. subst fo. split; [constructor|rewrite ?fheight_nil, ?fheight_cons, ?theight_leaf, ?theight_node; lia].
  - destruct s as [a|Y]; simpl in Hin.
    + apply in_map_iff in Hin. destruct Hin as [fo' [Hfo Hin]]. subst fo.
      apply IHb in Hin. destruct Hin as [Hw Hh].
      split; [constructor; [constructor|exact Hw]|rewrite ?fheight_nil, ?fheight_cons, ?theight_leaf, ?theight_node; lia].
    + apply in_flat_map in Hin. destruct Hin as [t [Ht Hin]].
      apply in_map_iff in Hin. destruct Hin as [fo' [Hfo Hin]]. subst fo.
      apply Htr in Ht. apply IHb in Hin. destruct Ht as [Htw Hth]. destruct Hin as [Hw Hh].
      split; [constructor; assumption|rewrite ?fheight_nil, ?fheight_cons, ?theight_leaf, ?theight_node; lia].
Qed.

Theorem trees_sound : forall (G : grammar S) h X t,
  In t (trees G h X) -> twf S G (N X) t /\ theight t <= h.
Proof.
  intros G h; induction h as [|h IH]; intros X t Hin; [contradiction|].
  cbn [trees] in Hin. apply in_flat_map in Hin. destruct Hin as [[i r] [Hir Hin]].
  simpl fst in Hin; simpl snd in Hin.
  destruct (Nat.eqb (rhead r) X) eqn:E; [|contradiction].
  apply Nat.eqb_eq in E. subst X.
  apply in_map_iff in Hin. destruct Hin as [k [Hk Hin]]. subst t.
  apply (forests_sound G (trees G h) h IH) in Hin. destruct Hin as [Hw Hh].
  apply in_combine_seq_nth in Hir. destruct Hir as [j [Hi Hn]]. simpl in Hi. subst j.
  split; [constructor; assumption|rewrite ?fheight_nil, ?fheight_cons, ?theight_leaf, ?theight_node; lia].
Qed.

(* ---------- 3. completeness of the enumeration ---------- *)

Lemma complete_mut (G : grammar S) :
  (forall s t, twf S G s t -> forall h, theight t <= h ->
     match s with N X => In t (trees G h X) | T a => t = Leaf a end) /\
  (forall body fo, fwf S G body fo -> forall h, fheight fo <= h ->
     In fo (forests_of (trees G h) body)).
Proof.
  apply twf_fwf_ind.
  - intros a h _. reflexivity.
  - intros i r kids Hn _ IHk h Hh. rewrite ?fheight_nil, ?fheight_cons, ?theight_leaf, ?theight_node in Hh. destruct h as [|h]; [lia|].
    cbn [trees]. apply in_flat_map. exists (i, r). split.
    + apply (nth_in_combine_seq G O i r Hn).
    + simpl fst; simpl snd. rewrite Nat.eqb_refl. apply in_map. apply IHk. lia.
  - intros h _. left; reflexivity.
  - intros s body t f _ IHt _ IHf h Hh. rewrite ?fheight_nil, ?fheight_cons, ?theight_leaf, ?theight_node in Hh.
    specialize (IHt h). specialize (IHf h). destruct s as [a|X]; simpl.
    + rewrite IHt by lia. apply in_map. apply IHf; lia.
    + apply in_flat_map. exists t. split; [apply IHt; lia|apply in_map; apply IHf; lia].
Qed.

Theorem trees_complete : forall (G : grammar S) h X t,
  twf S G (N X) t -> theight t <= h -> In t (trees G h X).
Proof.
  intros G h X t Hw Hh. exact (proj1 (complete_mut G) (N X) t Hw h Hh).
Qed.

(* ---------- 4. the enumeration has no duplicates ---------- *)

Lemma forests_NoDup (tr : nat -> list (tree S)) :
  (forall Y, NoDup (tr Y)) -> forall body, NoDup (forests_of tr body).
Proof.
  intros Htr; induction body as [|s rest IH]; simpl.
  - constructor; [intros []|constructor].
  - destruct s as [a|Y].
    + apply NoDup_map_inj; [|exact IH]. intros x y H; congruence.
    + apply NoDup_flat_map_disj.
      * apply Htr.
      * intros t _. apply NoDup_map_inj; [|exact IH]. intros x y H; congruence.
      * intros t1 t2 x _ _ H1 H2. apply in_map_iff in H1. apply in_map_iff in H2.
        destruct H1 as [f1 [H1 _]]. destruct H2 as [f2 [H2 _]]. congruence.
Qed.

Theorem trees_NoDup : forall (G : grammar S) h X, NoDup (trees G h X).
Proof.
  intros G h; induction h as [|h IH]; intros X; [constructor|].
  cbn [trees]. apply NoDup_flat_map_disj.
  - unfold indexed. apply NoDup_combine_l. apply seq_NoDup.
  - intros [i r] _. simpl fst; simpl snd. destruct (Nat.eqb (rhead r) X); [|constructor].
    apply NoDup_map_inj; [|apply forests_NoDup; exact IH]. intros x y H; congruence.
  - intros [i r] [i' r'] x _ _ H1 H2. simpl fst in H1, H2; simpl snd in H1, H2.
    destruct (Nat.eqb (rhead r) X); [|contradiction].
    destruct (Nat.eqb (rhead r') X); [|contradiction].
    apply in_map_iff in H1. apply in_map_iff in H2.
    destruct H1 as [k [H1 _]]. destruct H2 as [k' [H2 _]]. congruence.
Qed.

End Trees.

Print Assumptions W_trees.
Print Assumptions trees_sound.
Print Assumptions trees_complete.
Print Assumptions trees_NoDup.
